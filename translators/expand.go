package main

// Expansion sites (C16): every place of Config.expandEnvVars that writes an expanded value back, as
// (path of yaml keys, kind). go/ast only; the yaml keys come from the struct tags in nfpm.go.

import (
	"fmt"
	"go/ast"
	"go/token"
	"path/filepath"
	"reflect"
	"strings"
)

// yamlKeys: Go field name -> yaml key, over every struct type of the file ("" when two structs disagree)
func yamlKeys(f *ast.File) map[string]string {
	out := map[string]string{}
	ast.Inspect(f, func(n ast.Node) bool {
		st, ok := n.(*ast.StructType)
		if !ok {
			return true
		}
		for _, fl := range st.Fields.List {
			if fl.Tag == nil {
				continue
			}
			tag := reflect.StructTag(strings.Trim(fl.Tag.Value, "`")).Get("yaml")
			key := strings.Split(tag, ",")[0]
			for _, n := range fl.Names {
				k := key
				if k == "-" {
					k = "-" + n.Name
				}
				if k == "" {
					continue
				}
				if old, seen := out[n.Name]; seen && old != k {
					out[n.Name] = ""
				} else {
					out[n.Name] = k
				}
			}
		}
		return true
	})
	return out
}

type expSite struct {
	path []string
	kind string
}

func genExpandSites(repo, out string) {
	f := parseFile(filepath.Join(repo, "nfpm.go"))
	keys := yamlKeys(f)
	var sites []expSite
	problem := ""
	fail := func(format string, a ...any) {
		if problem == "" {
			problem = fmt.Sprintf(format, a...)
		}
	}
	// place: a selector chain rooted at c, with c.Overrides[x] as "overrides","*" and m[k] as "*"
	var place func(e ast.Expr) ([]string, bool)
	place = func(e ast.Expr) ([]string, bool) {
		switch x := e.(type) {
		case *ast.Ident:
			return nil, x.Name == "c"
		case *ast.SelectorExpr:
			p, ok := place(x.X)
			if !ok {
				return nil, false
			}
			k, known := keys[x.Sel.Name]
			if !known || k == "" {
				return nil, false
			}
			return append(p, k), true
		case *ast.IndexExpr:
			p, ok := place(x.X)
			return append(p, "*"), ok
		}
		return nil, false
	}
	same := func(a, b ast.Expr) bool {
		pa, ok1 := place(a)
		pb, ok2 := place(b)
		return ok1 && ok2 && strings.Join(pa, "/") == strings.Join(pb, "/")
	}
	call := func(e ast.Expr) (recv, name string, args []ast.Expr) {
		ce, ok := e.(*ast.CallExpr)
		if !ok {
			return
		}
		if se, ok := ce.Fun.(*ast.SelectorExpr); ok {
			if id, ok := se.X.(*ast.Ident); ok {
				return id.Name, se.Sel.Name, ce.Args
			}
		}
		return
	}
	vars := map[string]string{} // local -> name of the variable it expands ("$NAME")
	var doAssign func(as *ast.AssignStmt, rangeVal string, conditional bool)
	doAssign = func(as *ast.AssignStmt, rangeVal string, conditional bool) {
		if len(as.Lhs) != 1 || len(as.Rhs) != 1 {
			fail("assignment of several values")
			return
		}
		if id, ok := as.Lhs[0].(*ast.Ident); ok && as.Tok == token.DEFINE {
			if r, n, args := call(as.Rhs[0]); r == "os" && n == "Expand" && len(args) == 2 {
				if s, ok := strLit(args[0]); ok && strings.HasPrefix(s, "$") {
					vars[id.Name] = s[1:]
					return
				}
			}
			fail("local %s defined by something else than os.Expand of a literal", id.Name)
			return
		}
		p, ok := place(as.Lhs[0])
		if !ok {
			fail("assignment to a place that is not a configuration field")
			return
		}
		kind := "other"
		r, n, args := call(as.Rhs[0])
		switch {
		case r == "os" && n == "Expand" && len(args) == 2:
			if id, ok := args[0].(*ast.Ident); ok && rangeVal != "" && id.Name == rangeVal {
				kind = "scalar"
			} else if same(args[0], as.Lhs[0]) {
				kind = "scalar"
			}
		case r == "pointer" && n == "ToString" && len(args) == 1:
			if r2, n2, a2 := call(args[0]); r2 == "os" && n2 == "Expand" && len(a2) == 2 {
				if r3, n3, a3 := call(a2[0]); r3 == "pointer" && n3 == "GetString" && len(a3) == 1 && same(a3[0], as.Lhs[0]) {
					kind = "keyid"
				}
			}
		case r == "c" && n == "expandEnvVarsStringSlice" && len(args) == 1 && same(args[0], as.Lhs[0]):
			kind = "list"
		case r == "c" && n == "expandEnvVarsContents" && len(args) == 1 && same(args[0], as.Lhs[0]):
			kind = "contents"
		default:
			if id, ok := as.Rhs[0].(*ast.Ident); ok {
				if v, ok := vars[id.Name]; ok {
					kind = "pass:" + v
					if conditional {
						kind = "passif:" + v
					}
				}
			}
		}
		sites = append(sites, expSite{p, kind})
	}
	found := false
	for _, d := range f.Decls {
		fd, ok := d.(*ast.FuncDecl)
		if !ok || fd.Name.Name != "expandEnvVars" || fd.Body == nil {
			continue
		}
		found = true
		for _, st := range fd.Body.List {
			switch x := st.(type) {
			case *ast.AssignStmt:
				doAssign(x, "", false)
			case *ast.RangeStmt:
				val := ""
				if id, ok := x.Value.(*ast.Ident); ok {
					val = id.Name
				}
				for _, b := range x.Body.List {
					if as, ok := b.(*ast.AssignStmt); ok {
						doAssign(as, val, false)
					} else {
						fail("a loop body that does something else than assign")
					}
				}
			case *ast.IfStmt:
				// if v != "" { c.X = v }
				be, ok := x.Cond.(*ast.BinaryExpr)
				okc := ok && be.Op == token.NEQ && x.Init == nil && x.Else == nil
				if okc {
					s, isLit := strLit(be.Y)
					okc = isLit && s == ""
				}
				if !okc {
					fail("an if of another shape than: if v != \"\" { ... }")
					continue
				}
				for _, b := range x.Body.List {
					if as, ok := b.(*ast.AssignStmt); ok {
						doAssign(as, "", true)
					} else {
						fail("an if body that does something else than assign")
					}
				}
			default:
				fail("statement outside the subset")
			}
		}
	}
	if !found {
		fail("no method expandEnvVars in nfpm.go")
	}
	var b strings.Builder
	b.WriteString("(* GENERATED from /repo (nfpm.go: Config.expandEnvVars, yaml keys from the struct tags) on every run by translators/expand.go - do not edit *)\n")
	b.WriteString("From Coq Require Import List String.\nFrom Coq Require Import Strings.Byte.\nFrom NfpmV Require Import Lib.Bytes Model.Content.\nImport ListNotations.\n\n")
	if problem != "" {
		fmt.Fprintf(&b, "(* UNTRANSLATABLE - %s *)\nDefinition expand_sites_translated : bool := false.\n", problem)
	} else {
		b.WriteString("Definition expand_sites_translated : bool := true.\n")
	}
	b.WriteString("(* every place expandEnvVars writes to: (path of yaml keys, what is written there) *)\nDefinition expand_sites : list (list str * str) := [")
	for i, s := range sites {
		if i > 0 {
			b.WriteString(";")
		}
		var ps []string
		for _, k := range s.path {
			ps = append(ps, coqStr(k))
		}
		fmt.Fprintf(&b, "\n  ([%s], %s)", strings.Join(ps, "; "), coqStr(s.kind))
	}
	b.WriteString("].\n")
	writeIfChanged(filepath.Join(out, "ExpandSites.v"), b.String())
}
