module verif/translators

go 1.23.0
