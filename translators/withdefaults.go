package main

// nfpm.WithDefaults and Info.parseSemver (C14, C02, C16) as a state transformer over the string fields
// Version, Prerelease, VersionMetadata, Platform, Description (VersionSchema is read only). Statements that
// write only to other fields (Arch, Umask, MTime) are left out: they cannot change the tracked ones.
// semver.NewVersion is the model's [semver_parse] (the third-party parser stays hand-modelled).

import (
	"fmt"
	"go/ast"
	"go/token"
	"path/filepath"
	"strings"
)

var trackedFields = []string{"Version", "Prerelease", "VersionMetadata", "Platform", "Description"}

type stTr struct {
	c    *trCtx
	recv string
	sv   string // the local holding the parsed semver, "" outside such a block
}

func isTracked(n string) bool {
	for _, t := range trackedFields {
		if t == n {
			return true
		}
	}
	return false
}

func stateTuple() string {
	var vs []string
	for _, t := range trackedFields {
		vs = append(vs, "f_"+t)
	}
	return "(" + strings.Join(vs, ", ") + ")"
}

// recvField: e is <recv>.<Field>
func (t *stTr) recvField(e ast.Expr) (string, bool) {
	if se, ok := e.(*ast.SelectorExpr); ok {
		if id, ok := se.X.(*ast.Ident); ok && id.Name == t.recv {
			return se.Sel.Name, true
		}
	}
	return "", false
}

// writes: the receiver fields a statement list assigns to; other: it does something else that could matter
func (t *stTr) writes(ss []ast.Stmt) (fields []string, other bool) {
	for _, s := range ss {
		ast.Inspect(s, func(n ast.Node) bool {
			switch x := n.(type) {
			case *ast.AssignStmt:
				for _, l := range x.Lhs {
					if f, ok := t.recvField(l); ok {
						fields = append(fields, f)
					}
				}
			case *ast.CallExpr:
				if se, ok := x.Fun.(*ast.SelectorExpr); ok {
					if id, ok := se.X.(*ast.Ident); ok && id.Name == t.recv {
						other = true // a method of the receiver
					}
				}
				for _, a := range x.Args {
					if id, ok := a.(*ast.Ident); ok && id.Name == t.recv {
						other = true // the receiver handed to a function
					}
				}
			}
			return true
		})
	}
	return
}

func (t *stTr) touchesTracked(ss []ast.Stmt) bool {
	fs, other := t.writes(ss)
	if other {
		return true
	}
	for _, f := range fs {
		if isTracked(f) {
			return true
		}
	}
	return false
}

func (t *stTr) stmts(ss []ast.Stmt, ind string) string {
	c := t.c
	if len(ss) == 0 {
		return stateTuple()
	}
	rest := ss[1:]
	bind := func(v string) string { return "let '" + stateTuple() + " := " + v + " in\n" + ind + t.stmts(rest, ind) }
	switch x := ss[0].(type) {
	case *ast.ReturnStmt:
		return stateTuple()
	case *ast.BranchStmt:
		if x.Tok == token.BREAK {
			return t.stmts(rest, ind)
		}
	case *ast.AssignStmt:
		if len(x.Lhs) == 1 && len(x.Rhs) == 1 && x.Tok == token.ASSIGN {
			if f, ok := t.recvField(x.Lhs[0]); ok {
				if !isTracked(f) {
					return t.stmts(rest, ind)
				}
				return "let f_" + f + " := " + c.expr(x.Rhs[0]) + " in\n" + ind + t.stmts(rest, ind)
			}
		}
		return c.fail("assignment outside the subset")
	case *ast.ExprStmt:
		if ce, ok := x.X.(*ast.CallExpr); ok {
			if se, ok := ce.Fun.(*ast.SelectorExpr); ok {
				if id, ok := se.X.(*ast.Ident); ok && id.Name == t.recv && len(ce.Args) == 0 {
					if cn, ok := c.known[se.Sel.Name]; ok {
						return bind("(" + cn + " schema " + strings.Join(strings.Split(strings.Trim(stateTuple(), "()"), ", "), " ") + ")")
					}
				}
			}
		}
		return c.fail("call statement outside the subset")
	case *ast.IfStmt:
		if x.Else != nil {
			return c.fail("if with else")
		}
		if x.Init != nil {
			// v, err := semver.NewVersion(<recv>.Version); err == nil
			as, ok := x.Init.(*ast.AssignStmt)
			if ok && as.Tok == token.DEFINE && len(as.Lhs) == 2 && len(as.Rhs) == 1 {
				ce, isCall := as.Rhs[0].(*ast.CallExpr)
				be, isBin := x.Cond.(*ast.BinaryExpr)
				if isCall && isBin && be.Op == token.EQL && len(ce.Args) == 1 {
					se, _ := ce.Fun.(*ast.SelectorExpr)
					l, _ := be.X.(*ast.Ident)
					r, _ := be.Y.(*ast.Ident)
					ev, _ := as.Lhs[1].(*ast.Ident)
					vv, _ := as.Lhs[0].(*ast.Ident)
					if se != nil && se.Sel.Name == "NewVersion" && l != nil && r != nil && ev != nil && vv != nil && l.Name == ev.Name && r.Name == "nil" {
						arg := c.expr(ce.Args[0])
						old := t.sv
						t.sv = vv.Name
						body := t.stmts(x.Body.List, ind+"    ")
						t.sv = old
						return bind("match semver_parse " + arg + " with\n" + ind + "  | Some sv_" + vv.Name + " =>\n" + ind + "    " + body + "\n" + ind + "  | None => " + stateTuple() + "\n" + ind + "  end")
					}
				}
			}
			return c.fail("if with an init statement outside the subset")
		}
		if !t.touchesTracked(x.Body.List) {
			return t.stmts(rest, ind) // writes only to fields that are not tracked
		}
		return bind("if " + c.cond(x.Cond) + " then " + t.stmts(x.Body.List, ind+"  ") + " else " + stateTuple())
	case *ast.SwitchStmt:
		if x.Init != nil {
			return c.fail("switch with init")
		}
		tag := c.expr(x.Tag)
		// cases in order; fallthrough runs the next body
		type cas struct {
			labels []string
			body   []ast.Stmt
			isDef  bool
		}
		var cs []cas
		clauses := x.Body.List
		for k := range clauses {
			cc := clauses[k].(*ast.CaseClause)
			body := cc.Body
			for j := k; len(body) > 0; {
				last, ok := body[len(body)-1].(*ast.BranchStmt)
				if !ok || last.Tok != token.FALLTHROUGH || j+1 >= len(clauses) {
					break
				}
				j++
				body = append(append([]ast.Stmt{}, body[:len(body)-1]...), clauses[j].(*ast.CaseClause).Body...)
			}
			var labels []string
			for _, e := range cc.List {
				s, ok := strLit(e)
				if !ok {
					return c.fail("case label that is not a string literal")
				}
				labels = append(labels, s)
			}
			cs = append(cs, cas{labels, body, cc.List == nil})
		}
		def := stateTuple()
		for _, k := range cs {
			if k.isDef {
				def = t.stmts(k.body, ind+"  ")
			}
		}
		out := def
		for k := len(cs) - 1; k >= 0; k-- {
			if cs[k].isDef {
				continue
			}
			var conds []string
			for _, l := range cs[k].labels {
				conds = append(conds, "seqb "+tag+" "+coqStr(l))
			}
			out = "if " + strings.Join(conds, " || ") + " then " + t.stmts(cs[k].body, ind+"  ") + "\n" + ind + "else " + out
		}
		return bind("(" + out + ")")
	}
	return c.fail("statement outside the subset")
}

func genWithDefaults(repo, out string) {
	f := parseFile(filepath.Join(repo, "nfpm.go"))
	var b strings.Builder
	b.WriteString("(* GENERATED from /repo (nfpm.go) on every run by translators/withdefaults.go - do not edit.\n   State: (Version, Prerelease, VersionMetadata, Platform, Description); [schema] is VersionSchema; semver.NewVersion is [semver_parse]. *)\n")
	b.WriteString("From Coq Require Import List String Bool ZArith.\nFrom Coq Require Import Strings.Byte.\nFrom NfpmV Require Import Lib.Bytes Model.Content Model.Meta Model.Version.\nImport ListNotations.\nOpen Scope list_scope.\nOpen Scope bool_scope.\n\n")
	known := map[string]string{}
	params := "(schema f_Version f_Prerelease f_VersionMetadata f_Platform f_Description : str)"
	for _, tg := range [][2]string{{"parseSemver", "src_parseSemver"}, {"WithDefaults", "src_WithDefaults"}} {
		var fd *ast.FuncDecl
		for _, d := range f.Decls {
			if x, ok := d.(*ast.FuncDecl); ok && x.Name.Name == tg[0] && x.Body != nil {
				fd = x
			}
		}
		c := &trCtx{known: known, eqSeqb: true}
		body := stateTuple()
		if fd == nil {
			c.fail("no function %s in nfpm.go", tg[0])
		} else {
			recv := ""
			if fd.Recv != nil && len(fd.Recv.List) == 1 && len(fd.Recv.List[0].Names) == 1 {
				recv = fd.Recv.List[0].Names[0].Name
			} else if len(fd.Type.Params.List) == 1 && len(fd.Type.Params.List[0].Names) == 1 {
				recv = fd.Type.Params.List[0].Names[0].Name
			}
			t := &stTr{c: c, recv: recv}
			c.sel = func(se *ast.SelectorExpr) string {
				if id, ok := se.X.(*ast.Ident); ok && id.Name == recv {
					if isTracked(se.Sel.Name) {
						return "f_" + se.Sel.Name
					}
					if se.Sel.Name == "VersionSchema" {
						return "schema"
					}
					return c.fail("read of %s.%s, which is not tracked", recv, se.Sel.Name)
				}
				return ""
			}
			semverCall := func(e ast.Expr) (string, bool) {
				ce, ok := e.(*ast.CallExpr)
				if !ok || len(ce.Args) != 0 {
					return "", false
				}
				se, ok := ce.Fun.(*ast.SelectorExpr)
				if !ok {
					return "", false
				}
				id, ok := se.X.(*ast.Ident)
				if !ok || t.sv == "" || id.Name != t.sv {
					return "", false
				}
				return se.Sel.Name, true
			}
			c.callHook = func(ce *ast.CallExpr) string {
				if m, ok := semverCall(ce); ok {
					switch m {
					case "Prerelease":
						return "(sv_pre sv_" + t.sv + ")"
					case "Metadata":
						return "(sv_meta sv_" + t.sv + ")"
					}
				}
				return ""
			}
			c.intHook = func(e ast.Expr) string {
				if m, ok := semverCall(e); ok {
					switch m {
					case "Major":
						return "(sv_major sv_" + t.sv + ")"
					case "Minor":
						return "(sv_minor sv_" + t.sv + ")"
					case "Patch":
						return "(sv_patch sv_" + t.sv + ")"
					}
				}
				return ""
			}
			if recv == "" {
				c.fail("no receiver or single parameter")
			} else {
				body = t.stmts(fd.Body.List, "  ")
			}
		}
		if c.err != "" {
			fmt.Fprintf(&b, "(* %s: UNTRANSLATABLE - %s *)\nDefinition %s %s : str * str * str * str * str := %s.\nDefinition %s_translated : bool := false.\n\n", tg[0], c.err, tg[1], params, stateTuple(), tg[1])
		} else {
			fmt.Fprintf(&b, "(* func %s *)\nDefinition %s %s : str * str * str * str * str :=\n  %s.\nDefinition %s_translated : bool := true.\n\n", tg[0], tg[1], params, body, tg[1])
		}
		known[tg[0]] = tg[1]
	}
	writeIfChanged(filepath.Join(out, "WithDefaults.v"), b.String())
}
