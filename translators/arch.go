package main

import (
	"bufio"
	"os"
	"path/filepath"
	"strings"
)

// genArchTables: the five GOARCH tables in the packagers and the documented tables
func genArchTables(repo, out string) {
	var b strings.Builder
	b.WriteString(header)
	tables := []struct{ coq, file, v string }{
		{"arch_deb", "deb/deb.go", "archToDebian"},
		{"arch_rpm", "rpm/rpm.go", "archToRPM"},
		{"arch_apk", "apk/apk.go", "archToAlpine"},
		{"arch_archlinux", "arch/arch.go", "archToArchLinux"},
		{"arch_ipk", "ipk/ipk.go", "archToIPK"},
	}
	for _, t := range tables {
		m := stringMap(parseFile(filepath.Join(repo, t.file)), t.v)
		b.WriteString("Definition " + t.coq + " : list (str * str) := " + coqPairList(m) + ".\n\n")
	}
	// documented tables: www/docs/goarch-to-pkg.md, sections "### <format>" with | GOARCH | Value | rows
	doc := map[string][][2]string{}
	fh, err := os.Open(filepath.Join(repo, "www/docs/goarch-to-pkg.md"))
	must(err)
	defer fh.Close()
	sc := bufio.NewScanner(fh)
	section := ""
	for sc.Scan() {
		line := strings.TrimSpace(sc.Text())
		if strings.HasPrefix(line, "#") {
			section = strings.Trim(strings.ToLower(strings.TrimSpace(strings.TrimLeft(line, "#"))), "`")
			continue
		}
		if !strings.HasPrefix(line, "|") {
			continue
		}
		cells := strings.Split(strings.Trim(line, "|"), "|")
		if len(cells) != 2 {
			continue
		}
		k := strings.Trim(strings.TrimSpace(cells[0]), "`")
		v := strings.Trim(strings.TrimSpace(cells[1]), "`")
		if k == "" || strings.HasPrefix(k, "-") || strings.HasPrefix(k, ":") || strings.EqualFold(k, "GOARCH") {
			continue
		}
		doc[section] = append(doc[section], [2]string{k, v})
	}
	var names []string
	for s := range doc {
		names = append(names, s)
	}
	sortStrings(names)
	b.WriteString("Definition arch_doc : list (str * list (str * str)) := [\n")
	for i, s := range names {
		sep := ";"
		if i == len(names)-1 {
			sep = ""
		}
		b.WriteString("  (" + coqStr(s) + ", " + coqPairList(doc[s]) + ")" + sep + "\n")
	}
	b.WriteString("].\n")
	writeIfChanged(filepath.Join(out, "ArchTables.v"), b.String())
}

func sortStrings(s []string) {
	for i := 1; i < len(s); i++ {
		for j := i; j > 0 && s[j] < s[j-1]; j-- {
			s[j], s[j-1] = s[j-1], s[j]
		}
	}
}
