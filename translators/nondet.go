package main

// Sites in the non-test sources of the packaging code whose value can differ between two runs on the same
// configuration and sources: clock, host, process, environment, CPU count, randomness, and iteration over maps
// (directly or through the standard library's unsorted maps.Keys/Values/All). Syntactic, standard library only:
// map-typed expressions are recognised through struct fields, parameters and local definitions declared as maps.

import (
	"fmt"
	"go/ast"
	"go/parser"
	"go/printer"
	"go/token"
	"os"
	"path/filepath"
	"sort"
	"strings"
)

var nondetCalls = map[string][]string{
	"time":      {"Now", "Since", "Until"},
	"os":        {"Hostname", "Getpid", "Getppid", "Getenv", "LookupEnv", "Environ", "Getwd", "TempDir", "UserHomeDir", "Getuid", "Getgid"},
	"runtime":   {"NumCPU", "GOMAXPROCS", "NumGoroutine"},
	"maps":      {"Keys", "Values", "All"},
	"os/user":   {"Current"},
	"math/rand": {"*"},
	"math/rand/v2": {"*"},
	"crypto/rand": {"*"},
}

func exprString(fset *token.FileSet, e ast.Expr) string {
	var b strings.Builder
	printer.Fprint(&b, fset, e)
	return b.String()
}

func isMapType(e ast.Expr) bool {
	switch t := e.(type) {
	case *ast.MapType:
		return true
	case *ast.ParenExpr:
		return isMapType(t.X)
	}
	return false
}

func genNondetSites(repo, out string) {
	dirs := []string{".", "deb", "rpm", "apk", "arch", "ipk", "files", "internal/modtime", "internal/maps", "internal/glob", "internal/sign", "internal/cmd", "deprecation"}
	fset := token.NewFileSet()
	var parsed []*ast.File
	var names []string
	for _, d := range dirs {
		ents, err := os.ReadDir(filepath.Join(repo, d))
		if err != nil {
			continue
		}
		for _, e := range ents {
			n := e.Name()
			if e.IsDir() || !strings.HasSuffix(n, ".go") || strings.HasSuffix(n, "_test.go") {
				continue
			}
			f, err := parser.ParseFile(fset, filepath.Join(repo, d, n), nil, 0)
			must(err)
			parsed = append(parsed, f)
			names = append(names, filepath.ToSlash(filepath.Join(d, n)))
		}
	}
	// struct fields and named types declared as maps, anywhere
	mapFields := map[string]bool{}
	mapTypes := map[string]bool{}
	for _, f := range parsed {
		ast.Inspect(f, func(n ast.Node) bool {
			switch t := n.(type) {
			case *ast.TypeSpec:
				if isMapType(t.Type) {
					mapTypes[t.Name.Name] = true
				}
			case *ast.ValueSpec:
				for k, nm := range t.Names {
					if t.Type != nil && isMapType(t.Type) {
						mapFields[nm.Name] = true
					} else if k < len(t.Values) {
						if cl, ok := t.Values[k].(*ast.CompositeLit); ok && cl.Type != nil && isMapType(cl.Type) {
							mapFields[nm.Name] = true
						}
					}
				}
			case *ast.StructType:
				for _, fl := range t.Fields.List {
					if isMapType(fl.Type) {
						for _, nm := range fl.Names {
							mapFields[nm.Name] = true
						}
					}
				}
			}
			return true
		})
	}
	isMapTyped := func(e ast.Expr) bool {
		if isMapType(e) {
			return true
		}
		if id, ok := e.(*ast.Ident); ok {
			return mapTypes[id.Name]
		}
		return false
	}
	type site struct{ file, fn, what string }
	var sites []site
	for i, f := range parsed {
		imports := map[string]string{} // local name -> path
		for _, im := range f.Imports {
			p := strings.Trim(im.Path.Value, `"`)
			local := p[strings.LastIndex(p, "/")+1:]
			if local == "v2" {
				local = "rand"
			}
			if im.Name != nil {
				local = im.Name.Name
			}
			imports[local] = p
		}
		for _, decl := range f.Decls {
			fd, ok := decl.(*ast.FuncDecl)
			if !ok || fd.Body == nil {
				continue
			}
			fn := fd.Name.Name
			if fd.Recv != nil && len(fd.Recv.List) > 0 {
				fn = exprString(fset, fd.Recv.List[0].Type) + "." + fn
			}
			localMaps := map[string]bool{}
			if fd.Type.Params != nil {
				for _, p := range fd.Type.Params.List {
					if isMapTyped(p.Type) {
						for _, nm := range p.Names {
							localMaps[nm.Name] = true
						}
					}
				}
			}
			ast.Inspect(fd.Body, func(n ast.Node) bool {
				switch t := n.(type) {
				case *ast.AssignStmt:
					for k, rhs := range t.Rhs {
						if k >= len(t.Lhs) {
							break
						}
						id, ok := t.Lhs[k].(*ast.Ident)
						if !ok {
							continue
						}
						switch r := rhs.(type) {
						case *ast.CompositeLit:
							if r.Type != nil && isMapTyped(r.Type) {
								localMaps[id.Name] = true
							}
						case *ast.CallExpr:
							if fid, ok := r.Fun.(*ast.Ident); ok && fid.Name == "make" && len(r.Args) > 0 && isMapTyped(r.Args[0]) {
								localMaps[id.Name] = true
							}
						}
					}
				case *ast.ValueSpec:
					if t.Type != nil && isMapTyped(t.Type) {
						for _, nm := range t.Names {
							localMaps[nm.Name] = true
						}
					}
				}
				return true
			})
			ast.Inspect(fd.Body, func(n ast.Node) bool {
				switch t := n.(type) {
				case *ast.SelectorExpr:
					// calls and uses as values alike (os.Getenv passed as a function, crypto/rand.Reader)
					if id, ok := t.X.(*ast.Ident); ok {
						if path, ok := imports[id.Name]; ok {
							for _, fnn := range nondetCalls[path] {
								if fnn == "*" || fnn == t.Sel.Name {
									sites = append(sites, site{names[i], fn, path + "." + t.Sel.Name})
								}
							}
						}
					}
				case *ast.RangeStmt:
					over := false
					switch x := t.X.(type) {
					case *ast.Ident:
						over = localMaps[x.Name] || mapFields[x.Name]
					case *ast.SelectorExpr:
						over = mapFields[x.Sel.Name]
					case *ast.IndexExpr:
						// m[k] where m maps to maps: rare; ignored
					}
					if over {
						sites = append(sites, site{names[i], fn, "range " + exprString(fset, t.X)})
					}
				}
				return true
			})
		}
	}
	// de-duplicate (a call inside a selector is seen twice)
	seen := map[site]bool{}
	var uniq []site
	for _, s := range sites {
		if !seen[s] {
			seen[s] = true
			uniq = append(uniq, s)
		}
	}
	sort.Slice(uniq, func(i, j int) bool {
		a, b := uniq[i], uniq[j]
		if a.file != b.file {
			return a.file < b.file
		}
		if a.fn != b.fn {
			return a.fn < b.fn
		}
		return a.what < b.what
	})
	var b strings.Builder
	b.WriteString("(* GENERATED from the repository's working tree on every run by translators/nondet.go - do not edit *)\nFrom Coq Require Import List String.\nFrom Coq Require Import Strings.Byte.\nFrom NfpmV Require Import Lib.Bytes Model.Content.\nImport ListNotations.\n\n")
	b.WriteString("(* (file, function, what): every place in the non-test packaging sources that reads the clock, the host, the\n   process, the environment, the CPU count or a random source, or iterates over a map *)\n")
	b.WriteString("Definition nondet_sites : list (str * str * str) := [\n")
	for i, s := range uniq {
		sep := ";"
		if i == len(uniq)-1 {
			sep = ""
		}
		b.WriteString(fmt.Sprintf("  (%s, %s, %s)%s\n", coqStr(s.file), coqStr(s.fn), coqStr(s.what), sep))
	}
	b.WriteString("].\n")
	writeIfChanged(filepath.Join(out, "NondetSites.v"), b.String())
}
