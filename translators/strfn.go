package main

// Shallow translation of the packagers' small string-composing functions (version strings, conventional file
// names) from Go to Gallina: coq/Gen/StrFns.v is the code as it is now, the theorems of Properties/C15_inst.v
// and C14_inst.v state that it equals the hand-written model the other theorems are about.
//
// The subset: a function over (info *nfpm.Info) and string parameters whose body is a sequence of
//   x := e | x = e | x += e | if [x := e;] cond { ... } | return e
// with e a string literal, a parameter or local, info.Field, e + e, strings.ReplaceAll(e, "c", "d") on single
// bytes, fmt.Sprintf with %s verbs only, or a call of another translated function; cond built from
// e != "", e == "", strings.HasPrefix(e, "lit"), !, && and ||. "info = f(info)" (defaults, architecture
// translation) is skipped: info.Arch is a parameter of the translation. Anything else makes the
// function "untranslatable", which is emitted as such and breaks the theorem that mentions it.

import (
	"fmt"
	"go/ast"
	"go/token"
	"path/filepath"
	"sort"
	"strconv"
	"strings"
)

var infoFields = map[string]string{"Name": "name", "Version": "version", "Prerelease": "prerelease", "VersionMetadata": "version_metadata",
	"Release": "release", "Epoch": "epoch", "Homepage": "homepage", "License": "license", "Description": "description",
	"Maintainer": "maintainer", "Vendor": "vendor"}

type strFn struct {
	pkg, name, coqName string
	fd                 *ast.FuncDecl
}

type trCtx struct {
	known  map[string]string // Go function name -> Coq name, same package
	err    string
	sel    func(*ast.SelectorExpr) string // other receivers than info (content.Type ...), "" when unknown
	consts map[string]string              // package-level string constants, by name
	eqSeqb bool                           // comparisons as seqb a b (also against ""), not as nonempty
	ints   map[string]bool                // integer locals (from the Atoi-with-default pattern)
	preds  map[string]string              // keep-or-drop rune functions usable in strings.Map, Go name -> Coq name
	callHook func(*ast.CallExpr) string   // string-valued calls the context knows (v.Prerelease() ...), "" otherwise
	intHook  func(ast.Expr) string        // integer-valued expressions usable under %d, "" otherwise
	identHook func(string) string         // locals defined elsewhere in the function (program slices), "" otherwise
	blockKeys map[string]string           // yaml keys by Go field name, for info.<Block>.<Field>
}

func (c *trCtx) fail(format string, a ...any) string {
	if c.err == "" {
		c.err = fmt.Sprintf(format, a...)
	}
	return "[]"
}

func (c *trCtx) expr(e ast.Expr) string {
	switch x := e.(type) {
	case *ast.BasicLit:
		if s, ok := strLit(x); ok {
			if s == "" {
				return "(@nil byte)"
			}
			return coqStr(s)
		}
	case *ast.Ident:
		if v, ok := c.consts[x.Name]; ok {
			return coqStr(v)
		}
		if c.identHook != nil {
			if v := c.identHook(x.Name); v != "" {
				return v
			}
		}
		return "v_" + x.Name
	case *ast.ParenExpr:
		return c.expr(x.X)
	case *ast.SelectorExpr:
		if c.sel != nil {
			if v := c.sel(x); v != "" {
				return v
			}
		}
		if inner, ok := x.X.(*ast.SelectorExpr); ok && c.blockKeys != nil {
			if id, ok := inner.X.(*ast.Ident); ok && id.Name == "info" {
				if blk, ok := fmtBlocks[inner.Sel.Name]; ok {
					if k, ok := c.blockKeys[x.Sel.Name]; ok && k != "" {
						return `(gs i "` + blk + "." + k + `"%string)`
					}
				}
			}
		}
		if id, ok := x.X.(*ast.Ident); ok && id.Name == "info" {
			if x.Sel.Name == "Arch" {
				return "arch"
			}
			if k, ok := infoFields[x.Sel.Name]; ok {
				return `(gs i "` + k + `"%string)`
			}
			return c.fail("info.%s is not a field this translation knows", x.Sel.Name)
		}
	case *ast.BinaryExpr:
		if x.Op == token.ADD {
			return "(" + c.expr(x.X) + " ++ " + c.expr(x.Y) + ")"
		}
	case *ast.CallExpr:
		if c.callHook != nil {
			if v := c.callHook(x); v != "" {
				return v
			}
		}
		if se, ok := x.Fun.(*ast.SelectorExpr); ok {
			if id, ok := se.X.(*ast.Ident); ok {
				switch id.Name + "." + se.Sel.Name {
				case "strings.ReplaceAll":
					a, ok1 := strLit(x.Args[1])
					b, ok2 := strLit(x.Args[2])
					if ok1 && ok2 && len(a) == 1 && len(b) == 1 {
						return fmt.Sprintf("(replace_byte x%02x x%02x %s)", a[0], b[0], c.expr(x.Args[0]))
					}
				case "filepath.ToSlash":
					return c.expr(x.Args[0]) // the identity where the separator is "/" (the only platform modelled)
				case "filepath.Clean":
					return "(clean " + c.expr(x.Args[0]) + ")"
				case "filepath.Join":
					// Join("/", e) = Clean("/" + "/" + e): the first non-empty element is "/", the elements are joined with "/"
					if first, ok := strLit(x.Args[0]); ok && first == "/" && len(x.Args) == 2 {
						return "(clean (x2f :: x2f :: " + c.expr(x.Args[1]) + "))"
					}
					return c.fail("filepath.Join of other than (\"/\", e)")
				case "strings.TrimRight":
					if cut, ok := strLit(x.Args[1]); ok && len(cut) == 1 && cut[0] < 128 {
						return fmt.Sprintf("(trim_right (fun b => beq b x%02x) %s)", cut[0], c.expr(x.Args[0]))
					}
				case "strings.Map":
					if id, ok := x.Args[0].(*ast.Ident); ok {
						if pn, ok := c.preds[id.Name]; ok {
							return "(filter " + pn + " " + c.expr(x.Args[1]) + ")"
						}
					}
					return c.fail("strings.Map with a mapping that is not a translated keep-or-drop function")
				case "strings.TrimLeft":
					if cut, ok := strLit(x.Args[1]); ok && cut != "" {
						var alts []string
						for k := 0; k < len(cut); k++ {
							if cut[k] >= 128 {
								return c.fail("TrimLeft cutset outside ASCII")
							}
							alts = append(alts, fmt.Sprintf("beq b x%02x", cut[k]))
						}
						return "(drop_while (fun b => " + strings.Join(alts, " || ") + ") " + c.expr(x.Args[0]) + ")"
					}
				case "fmt.Sprintf":
					f, ok := strLit(x.Args[0])
					if !ok {
						return c.fail("Sprintf with a format that is not a literal")
					}
					var out []string
					lit, arg := "", 1
					for k := 0; k < len(f); k++ {
						if f[k] != '%' {
							lit += string(f[k])
							continue
						}
						if k+1 >= len(f) || (f[k+1] != 's' && f[k+1] != 'd') || arg >= len(x.Args) {
							return c.fail("Sprintf format %q has verbs other than %%s and %%d", f)
						}
						if lit != "" {
							out = append(out, coqStr(lit))
							lit = ""
						}
						if f[k+1] == 's' {
							out = append(out, c.expr(x.Args[arg]))
						} else if id, ok := x.Args[arg].(*ast.Ident); ok && c.ints[id.Name] {
							out = append(out, "(dec n_"+id.Name+")")
						} else if c.intHook != nil && c.intHook(x.Args[arg]) != "" {
							out = append(out, "(dec "+c.intHook(x.Args[arg])+")")
						} else {
							return c.fail("%%d of something that is not a translated integer variable")
						}
						arg++
						k++
					}
					if lit != "" {
						out = append(out, coqStr(lit))
					}
					if arg != len(x.Args) {
						return c.fail("Sprintf with more arguments than verbs")
					}
					return "(" + strings.Join(out, " ++ ") + ")"
				}
			}
		}
		if id, ok := x.Fun.(*ast.Ident); ok {
			if cn, ok := c.known[id.Name]; ok {
				var args []string
				for _, a := range x.Args {
					if ai, ok := a.(*ast.Ident); ok && ai.Name == "info" {
						args = append(args, "i", "arch")
						continue
					}
					args = append(args, c.expr(a))
				}
				return "(" + cn + " " + strings.Join(args, " ") + ")"
			}
			return c.fail("call of %s, which is not translated", id.Name)
		}
	}
	return c.fail("expression outside the subset")
}

func (c *trCtx) cond(e ast.Expr) string {
	switch x := e.(type) {
	case *ast.ParenExpr:
		return c.cond(x.X)
	case *ast.UnaryExpr:
		if x.Op == token.NOT {
			return "(negb " + c.cond(x.X) + ")"
		}
	case *ast.BinaryExpr:
		switch x.Op {
		case token.LAND:
			return "(" + c.cond(x.X) + " && " + c.cond(x.Y) + ")"
		case token.LOR:
			return "(" + c.cond(x.X) + " || " + c.cond(x.Y) + ")"
		case token.NEQ, token.EQL:
			if c.eqSeqb {
				r := "(seqb " + c.expr(x.X) + " " + c.expr(x.Y) + ")"
				if x.Op == token.NEQ {
					r = "(negb " + r + ")"
				}
				return r
			}
			if s, ok := strLit(x.Y); ok && s == "" {
				if x.Op == token.NEQ {
					return "(nonempty " + c.expr(x.X) + ")"
				}
				return "(negb (nonempty " + c.expr(x.X) + "))"
			}
		}
	case *ast.CallExpr:
		if se, ok := x.Fun.(*ast.SelectorExpr); ok && se.Sel.Name == "HasPrefix" && len(x.Args) == 2 {
			if p, ok := strLit(x.Args[1]); ok {
				return "(has_prefix " + coqStr(p) + " " + c.expr(x.Args[0]) + ")"
			}
		}
		if se, ok := x.Fun.(*ast.SelectorExpr); ok && se.Sel.Name == "HasSuffix" && len(x.Args) == 2 {
			if p, ok := strLit(x.Args[1]); ok {
				return "(has_suffix " + coqStr(p) + " " + c.expr(x.Args[0]) + ")"
			}
		}
	}
	return "(" + c.fail("condition outside the subset") + " : bool)"
}

// assigned: the variables a block assigns to (not the ones it declares itself)
func assigned(stmts []ast.Stmt) []string {
	set := map[string]bool{}
	decl := map[string]bool{}
	var walk func([]ast.Stmt)
	walk = func(ss []ast.Stmt) {
		for _, s := range ss {
			switch x := s.(type) {
			case *ast.AssignStmt:
				if id, ok := x.Lhs[0].(*ast.Ident); ok {
					if x.Tok == token.DEFINE {
						decl[id.Name] = true
					} else if !decl[id.Name] {
						set[id.Name] = true
					}
				}
			case *ast.IfStmt:
				if x.Init != nil {
					walk([]ast.Stmt{x.Init})
				}
				walk(x.Body.List)
			}
		}
	}
	walk(stmts)
	var out []string
	for v := range set {
		out = append(out, v)
	}
	sort.Strings(out)
	return out
}

func endsInReturn(stmts []ast.Stmt) bool {
	if len(stmts) == 0 {
		return false
	}
	_, ok := stmts[len(stmts)-1].(*ast.ReturnStmt)
	return ok
}

// stmts: the translation of a statement list; terminal is what the list evaluates to when it runs off its end
func (c *trCtx) stmts(ss []ast.Stmt, terminal string, ind string) string {
	if len(ss) == 0 {
		if terminal == "" {
			return c.fail("a path that does not return")
		}
		return terminal
	}
	rest := ss[1:]
	switch x := ss[0].(type) {
	case *ast.ReturnStmt:
		if len(x.Results) != 1 {
			return c.fail("return of other than one value")
		}
		return c.expr(x.Results[0])
	case *ast.AssignStmt:
		// n, err := strconv.Atoi(e); if err != nil { n = K }
		if len(x.Lhs) == 2 && len(x.Rhs) == 1 && x.Tok == token.DEFINE && len(rest) > 0 {
			if ce, ok := x.Rhs[0].(*ast.CallExpr); ok {
				if se, ok := ce.Fun.(*ast.SelectorExpr); ok && se.Sel.Name == "Atoi" && len(ce.Args) == 1 {
					nv, _ := x.Lhs[0].(*ast.Ident)
					ev, _ := x.Lhs[1].(*ast.Ident)
					if is, ok := rest[0].(*ast.IfStmt); ok && nv != nil && ev != nil && is.Init == nil && is.Else == nil && len(is.Body.List) == 1 {
						be, ok1 := is.Cond.(*ast.BinaryExpr)
						as, ok2 := is.Body.List[0].(*ast.AssignStmt)
						if ok1 && ok2 && be.Op == token.NEQ && len(as.Lhs) == 1 && as.Tok == token.ASSIGN {
							l, _ := be.X.(*ast.Ident)
							r, _ := be.Y.(*ast.Ident)
							tv, _ := as.Lhs[0].(*ast.Ident)
							k, _ := as.Rhs[0].(*ast.BasicLit)
							if l != nil && r != nil && tv != nil && k != nil && l.Name == ev.Name && r.Name == "nil" && tv.Name == nv.Name && k.Kind == token.INT {
								if c.ints == nil {
									c.ints = map[string]bool{}
								}
								c.ints[nv.Name] = true
								return "let n_" + nv.Name + " := match atoi " + c.expr(ce.Args[0]) + " with Some z => z | None => " + k.Value + "%Z end in\n" + ind + c.stmts(rest[1:], terminal, ind)
							}
						}
					}
				}
			}
			// n, err := strconv.ParseUint(e, 10, 64); if err == nil { ... }
			if ce, ok := x.Rhs[0].(*ast.CallExpr); ok {
				if se, ok := ce.Fun.(*ast.SelectorExpr); ok && se.Sel.Name == "ParseUint" && len(ce.Args) == 3 {
					nv, _ := x.Lhs[0].(*ast.Ident)
					ev, _ := x.Lhs[1].(*ast.Ident)
					base, _ := ce.Args[1].(*ast.BasicLit)
					bits, _ := ce.Args[2].(*ast.BasicLit)
					if is, ok := rest[0].(*ast.IfStmt); ok && nv != nil && ev != nil && base != nil && bits != nil && base.Value == "10" && bits.Value == "64" && is.Init == nil && is.Else == nil {
						if be, ok := is.Cond.(*ast.BinaryExpr); ok && be.Op == token.EQL {
							l, _ := be.X.(*ast.Ident)
							r, _ := be.Y.(*ast.Ident)
							if l != nil && r != nil && l.Name == ev.Name && r.Name == "nil" {
								vars := assigned(is.Body.List)
								if len(vars) == 0 {
									return c.fail("a ParseUint block that assigns nothing")
								}
								var vs []string
								for _, v := range vars {
									vs = append(vs, "v_"+v)
								}
								tuple, pat := strings.Join(vs, ", "), vs[0]
								if len(vs) > 1 {
									tuple = "(" + tuple + ")"
									pat = "'" + tuple
								}
								if c.ints == nil {
									c.ints = map[string]bool{}
								}
								c.ints[nv.Name] = true
								return "let " + pat + " := match parse_uint 18446744073709551616 " + c.expr(ce.Args[0]) + " with Some n_" + nv.Name + " => " +
									c.stmts(is.Body.List, tuple, ind+"  ") + " | None => " + tuple + " end in\n" + ind + c.stmts(rest[1:], terminal, ind)
							}
						}
					}
				}
			}
			return c.fail("two-valued assignment outside the Atoi-with-default and ParseUint-then-use patterns")
		}
		if len(x.Lhs) != 1 || len(x.Rhs) != 1 {
			return c.fail("assignment of several values")
		}
		id, ok := x.Lhs[0].(*ast.Ident)
		if !ok {
			return c.fail("assignment to something that is not a variable")
		}
		if id.Name == "info" {
			return c.stmts(rest, terminal, ind) // info = ensureValidArch(info) / setDefaults(info): see the header
		}
		rhs := c.expr(x.Rhs[0])
		if x.Tok == token.ADD_ASSIGN {
			rhs = "(v_" + id.Name + " ++ " + rhs + ")"
		} else if x.Tok != token.DEFINE && x.Tok != token.ASSIGN {
			return c.fail("assignment operator outside the subset")
		}
		return "let v_" + id.Name + " := " + rhs + " in\n" + ind + c.stmts(rest, terminal, ind)
	case *ast.IfStmt:
		if x.Else != nil {
			return c.fail("if with else")
		}
		pre := ""
		if x.Init != nil {
			as, ok := x.Init.(*ast.AssignStmt)
			if !ok || as.Tok != token.DEFINE || len(as.Lhs) != 1 {
				return c.fail("if with an init statement outside the subset")
			}
			pre = "let v_" + as.Lhs[0].(*ast.Ident).Name + " := " + c.expr(as.Rhs[0]) + " in\n" + ind
		}
		if endsInReturn(x.Body.List) {
			return pre + "if " + c.cond(x.Cond) + " then " + c.stmts(x.Body.List, "", ind+"  ") + "\n" + ind + "else " + c.stmts(rest, terminal, ind)
		}
		vars := assigned(x.Body.List)
		if len(vars) == 0 {
			return c.fail("an if whose body assigns nothing")
		}
		var vs []string
		for _, v := range vars {
			vs = append(vs, "v_"+v)
		}
		tuple := strings.Join(vs, ", ")
		pat := vs[0]
		if len(vs) > 1 {
			tuple = "(" + tuple + ")"
			pat = "'" + tuple
		}
		return pre + "let " + pat + " := if " + c.cond(x.Cond) + " then " + c.stmts(x.Body.List, tuple, ind+"  ") + " else " + tuple + " in\n" + ind + c.stmts(rest, terminal, ind)
	}
	return c.fail("statement outside the subset")
}

// runePred: "if COND { return r }; return -1" over a rune r, COND from r >= 'c', r <= 'c', isOneOf(r, 'c'...), && and ||,
// as a predicate on bytes (every literal is ASCII, so a byte >= 0x80 - part of a longer or an invalid sequence - is dropped,
// as strings.Map drops the rune it belongs to)
func runePred(fd *ast.FuncDecl, c *trCtx) string {
	if len(fd.Body.List) != 2 {
		return c.fail("rune function outside the subset")
	}
	is, ok1 := fd.Body.List[0].(*ast.IfStmt)
	last, ok2 := fd.Body.List[1].(*ast.ReturnStmt)
	if !ok1 || !ok2 || is.Init != nil || is.Else != nil || len(is.Body.List) != 1 || len(last.Results) != 1 {
		return c.fail("rune function outside the subset")
	}
	if ue, ok := last.Results[0].(*ast.UnaryExpr); !ok || ue.Op != token.SUB {
		return c.fail("rune function whose last statement is not return -1")
	}
	if r, ok := is.Body.List[0].(*ast.ReturnStmt); !ok || len(r.Results) != 1 {
		return c.fail("rune function outside the subset")
	} else if id, ok := r.Results[0].(*ast.Ident); !ok || id.Name != fd.Type.Params.List[0].Names[0].Name {
		return c.fail("rune function that maps to another rune")
	}
	ch := func(e ast.Expr) (int, bool) {
		bl, ok := e.(*ast.BasicLit)
		if !ok || bl.Kind != token.CHAR {
			return 0, false
		}
		v, _, _, err := strconv.UnquoteChar(bl.Value[1:len(bl.Value)-1], '\'')
		return int(v), err == nil && v < 128
	}
	var cond func(e ast.Expr) string
	cond = func(e ast.Expr) string {
		switch x := e.(type) {
		case *ast.ParenExpr:
			return cond(x.X)
		case *ast.BinaryExpr:
			switch x.Op {
			case token.LOR:
				return "(" + cond(x.X) + " || " + cond(x.Y) + ")"
			case token.LAND:
				return "(" + cond(x.X) + " && " + cond(x.Y) + ")"
			case token.GEQ, token.LEQ:
				if v, ok := ch(x.Y); ok {
					if x.Op == token.GEQ {
						return fmt.Sprintf("(%d <=? n)%%N", v)
					}
					return fmt.Sprintf("(n <=? %d)%%N", v)
				}
			}
		case *ast.CallExpr:
			if id, ok := x.Fun.(*ast.Ident); ok && id.Name == "isOneOf" && len(x.Args) >= 2 {
				var alts []string
				for _, a := range x.Args[1:] {
					v, ok := ch(a)
					if !ok {
						return "(" + c.fail("isOneOf with a rune outside ASCII") + " : bool)"
					}
					alts = append(alts, fmt.Sprintf("beq b x%02x", v))
				}
				return "(" + strings.Join(alts, " || ") + ")"
			}
		}
		return "(" + c.fail("rune condition outside the subset") + " : bool)"
	}
	return "let n := Byte.to_N b in " + cond(is.Cond)
}

func genStrFns(repo, out string) {
	targets := []struct{ file, fn, coq string }{
		{"arch/arch.go", "mapValidChar", "src_arch_mapValidChar"}, {"arch/arch.go", "validPkgName", "src_arch_validPkgName"},
		{"arch/arch.go", "ConventionalFileName", "src_arch_filename"},
		{"rpm/rpm.go", "defaultTo", "src_rpm_defaultTo"}, {"rpm/rpm.go", "formatVersion", "src_rpm_formatVersion"},
		{"rpm/rpm.go", "ConventionalFileName", "src_rpm_filename"},
		{"deb/deb.go", "ConventionalFileName", "src_deb_filename"}, {"ipk/ipk.go", "ConventionalFileName", "src_ipk_filename"},
		{"apk/apk.go", "pkgver", "src_apk_pkgver"}, {"apk/apk.go", "ConventionalFileName", "src_apk_filename"},
	}
	var b strings.Builder
	b.WriteString("(* GENERATED from /repo on every run by translators/strfn.go - do not edit.\n   The packagers' string-composing functions, statement by statement; [arch] stands for info.Arch after the\n   packager's own architecture translation. *)\n")
	b.WriteString("From Coq Require Import List String Bool NArith ZArith.\nFrom Coq Require Import Strings.Byte.\nFrom NfpmV Require Import Lib.Bytes Model.Content Model.Meta.\nImport ListNotations.\nOpen Scope list_scope.\nOpen Scope bool_scope.\n\n")
	known := map[string]map[string]string{}
	preds := map[string]map[string]string{}
	for _, t := range targets {
		f := parseFile(filepath.Join(repo, t.file))
		var fd *ast.FuncDecl
		for _, d := range f.Decls {
			if x, ok := d.(*ast.FuncDecl); ok && x.Name.Name == t.fn && x.Body != nil {
				fd = x
			}
		}
		if known[t.file] == nil {
			known[t.file] = map[string]string{}
		}
		var params []string
		takesInfo := false
		if preds[t.file] == nil {
			preds[t.file] = map[string]string{}
		}
		c := &trCtx{known: known[t.file], preds: preds[t.file]}
		if fd != nil && len(fd.Type.Params.List) == 1 {
			if id, ok := fd.Type.Params.List[0].Type.(*ast.Ident); ok && id.Name == "rune" {
				body := runePred(fd, c)
				if c.err != "" {
					fmt.Fprintf(&b, "(* %s %s: UNTRANSLATABLE - %s *)\nDefinition %s (b : byte) : bool := false.\nDefinition %s_translated : bool := false.\n\n", t.file, t.fn, c.err, t.coq, t.coq)
				} else {
					fmt.Fprintf(&b, "(* %s: func %s, as a predicate on bytes *)\nDefinition %s (b : byte) : bool :=\n  %s.\nDefinition %s_translated : bool := true.\n\n", t.file, t.fn, t.coq, body, t.coq)
				}
				preds[t.file][t.fn] = t.coq
				continue
			}
		}
		if fd == nil {
			c.fail("no function %s in %s", t.fn, t.file)
		} else {
			for _, fl := range fd.Type.Params.List {
				for _, n := range fl.Names {
					if n.Name == "info" {
						takesInfo = true
					} else if id, ok := fl.Type.(*ast.Ident); ok && id.Name == "string" {
						params = append(params, "(v_"+n.Name+" : str)")
					} else {
						c.fail("parameter %s of a type outside the subset", n.Name)
					}
				}
			}
		}
		sig := ""
		if takesInfo || fd == nil {
			sig = "(i : minfo) (arch : str) "
		}
		sig += strings.Join(params, " ")
		body := "[]"
		if fd != nil && c.err == "" {
			body = c.stmts(fd.Body.List, "", "  ")
		}
		if c.err != "" {
			fmt.Fprintf(&b, "(* %s %s: UNTRANSLATABLE - %s *)\nDefinition %s %s : str := [].\nDefinition %s_translated : bool := false.\n\n", t.file, t.fn, c.err, t.coq, sig, t.coq)
		} else {
			fmt.Fprintf(&b, "(* %s: func %s *)\nDefinition %s %s : str :=\n  %s.\nDefinition %s_translated : bool := true.\n\n", t.file, t.fn, t.coq, sig, body, t.coq)
		}
		known[t.file][t.fn] = t.coq
	}
	writeIfChanged(filepath.Join(out, "StrFns.v"), b.String())
}

// ---- the architecture step of each packager (ensureValidArch / rpm.setDefaults) ----
// if info.<Fmt>.Arch != "" { info.Arch = info.<Fmt>.Arch } else if a, ok := <table>[info.Arch]; ok { info.Arch = a }
// is translated branch by branch into the expression for the new value of info.Arch; every other shape is untranslatable.

var fmtBlocks = map[string]string{"Deb": "deb", "RPM": "rpm", "APK": "apk", "IPK": "ipk", "ArchLinux": "archlinux"}

func (c *trCtx) archValue(e ast.Expr) string {
	if se, ok := e.(*ast.SelectorExpr); ok {
		if inner, ok := se.X.(*ast.SelectorExpr); ok && se.Sel.Name == "Arch" {
			if id, ok := inner.X.(*ast.Ident); ok && id.Name == "info" {
				if blk, ok := fmtBlocks[inner.Sel.Name]; ok {
					return `(gs i "` + blk + `.arch"%string)`
				}
			}
		}
		if id, ok := se.X.(*ast.Ident); ok && id.Name == "info" && se.Sel.Name == "Arch" {
			return "arch"
		}
	}
	if id, ok := e.(*ast.Ident); ok {
		return "v_" + id.Name
	}
	return c.fail("architecture expression outside the subset")
}

// assignsArch: the block is exactly "info.Arch = e"
func (c *trCtx) assignsArch(b *ast.BlockStmt) string {
	if len(b.List) == 1 {
		if as, ok := b.List[0].(*ast.AssignStmt); ok && as.Tok == token.ASSIGN && len(as.Lhs) == 1 && len(as.Rhs) == 1 {
			if se, ok := as.Lhs[0].(*ast.SelectorExpr); ok && se.Sel.Name == "Arch" {
				if id, ok := se.X.(*ast.Ident); ok && id.Name == "info" {
					return c.archValue(as.Rhs[0])
				}
			}
		}
	}
	return c.fail("a branch that does something else than assign info.Arch")
}

func (c *trCtx) archIf(x *ast.IfStmt, table *string) string {
	var thenV, condV string
	if x.Init != nil {
		// a, ok := table[info.Arch]; ok
		as, ok := x.Init.(*ast.AssignStmt)
		if !ok || as.Tok != token.DEFINE || len(as.Lhs) != 2 || len(as.Rhs) != 1 {
			return c.fail("init statement outside the subset")
		}
		ix, ok := as.Rhs[0].(*ast.IndexExpr)
		okName, _ := as.Lhs[1].(*ast.Ident)
		cond, _ := x.Cond.(*ast.Ident)
		tab, _ := ix.X.(*ast.Ident)
		if !ok || okName == nil || cond == nil || cond.Name != okName.Name || tab == nil {
			return c.fail("map lookup outside the subset")
		}
		*table = tab.Name
		v := as.Lhs[0].(*ast.Ident).Name
		thenV = c.assignsArch(x.Body)
		els := "arch"
		if x.Else != nil {
			return c.fail("else after the table lookup")
		}
		return "match lookup " + c.archValue(ix.Index) + " tab with Some v_" + v + " => " + thenV + " | None => " + els + " end"
	}
	condV = c.cond2(x.Cond)
	thenV = c.assignsArch(x.Body)
	els := "arch"
	switch e := x.Else.(type) {
	case nil:
	case *ast.IfStmt:
		els = c.archIf(e, table)
	default:
		return c.fail("else block outside the subset")
	}
	return "if " + condV + " then " + thenV + " else " + els
}

// cond2: e != "" over architecture expressions
func (c *trCtx) cond2(e ast.Expr) string {
	if be, ok := e.(*ast.BinaryExpr); ok && be.Op == token.NEQ {
		if s, ok := strLit(be.Y); ok && s == "" {
			return "nonempty " + c.archValue(be.X)
		}
	}
	return c.fail("condition outside the subset")
}

func genArchFns(repo, out string) {
	var b strings.Builder
	b.WriteString("(* GENERATED from /repo on every run by translators/strfn.go (genArchFns) - do not edit.\n   The architecture step of every packager: the new value of info.Arch, given the packager's table. *)\n")
	b.WriteString("From Coq Require Import List String Bool.\nFrom Coq Require Import Strings.Byte.\nFrom NfpmV Require Import Lib.Bytes Model.Content Model.Meta.\nImport ListNotations.\n\n")
	for _, t := range []struct{ file, fn, name string }{{"deb/deb.go", "ensureValidArch", "deb"}, {"rpm/rpm.go", "setDefaults", "rpm"}, {"apk/apk.go", "ensureValidArch", "apk"},
		{"ipk/ipk.go", "ensureValidArch", "ipk"}, {"arch/arch.go", "ensureValidArch", "arch"}} {
		f := parseFile(filepath.Join(repo, t.file))
		c := &trCtx{}
		body, table := "arch", ""
		found := false
		for _, d := range f.Decls {
			if fd, ok := d.(*ast.FuncDecl); ok && fd.Name.Name == t.fn && fd.Body != nil {
				found = true
				// the statements that touch info.Arch: exactly one, the first
				n := 0
				for k, st := range fd.Body.List {
					touches := false
					ast.Inspect(st, func(m ast.Node) bool {
						if as, ok := m.(*ast.AssignStmt); ok {
							for _, l := range as.Lhs {
								if se, ok := l.(*ast.SelectorExpr); ok && se.Sel.Name == "Arch" {
									if id, ok := se.X.(*ast.Ident); ok && id.Name == "info" {
										touches = true
									}
								}
							}
						}
						return true
					})
					if touches {
						n++
						if is, ok := st.(*ast.IfStmt); ok && k == 0 {
							body = c.archIf(is, &table)
						} else {
							c.fail("info.Arch assigned outside a leading if")
						}
					}
				}
				if n != 1 {
					c.fail("%d statements assign info.Arch", n)
				}
			}
		}
		if !found {
			c.fail("no function %s", t.fn)
		}
		if c.err != "" {
			fmt.Fprintf(&b, "(* %s %s: UNTRANSLATABLE - %s *)\nDefinition src_%s_arch (tab : list (str * str)) (i : minfo) (arch : str) : str := [].\nDefinition src_%s_arch_table : str := [].\nDefinition src_%s_arch_translated : bool := false.\n\n", t.file, t.fn, c.err, t.name, t.name, t.name)
			continue
		}
		fmt.Fprintf(&b, "(* %s: func %s *)\nDefinition src_%s_arch (tab : list (str * str)) (i : minfo) (arch : str) : str :=\n  %s.\nDefinition src_%s_arch_table : str := %s.\nDefinition src_%s_arch_translated : bool := true.\n\n", t.file, t.fn, t.name, body, t.name, coqStr(table), t.name)
	}
	writeIfChanged(filepath.Join(out, "ArchFns.v"), b.String())
}


// ---- boolean decision functions: if cond { return true|false } ... return true|false ----
func (c *trCtx) boolStmts(ss []ast.Stmt, ind string) string {
	if len(ss) == 0 {
		return "(" + c.fail("a path that does not return") + " : bool)"
	}
	lit := func(e ast.Expr) string {
		if id, ok := e.(*ast.Ident); ok && (id.Name == "true" || id.Name == "false") {
			return id.Name
		}
		// a < b on strings: byte-wise lexicographic order
		if be, ok := e.(*ast.BinaryExpr); ok && be.Op == token.LSS {
			return "(lex_ltb " + c.expr(be.X) + " " + c.expr(be.Y) + ")"
		}
		return "(" + c.fail("return of something else than true or false") + " : bool)"
	}
	switch x := ss[0].(type) {
	case *ast.ReturnStmt:
		if len(x.Results) == 1 {
			return lit(x.Results[0])
		}
	case *ast.IfStmt:
		if x.Init == nil && x.Else == nil && len(x.Body.List) == 1 {
			if r, ok := x.Body.List[0].(*ast.ReturnStmt); ok && len(r.Results) == 1 {
				return "if " + c.cond(x.Cond) + " then " + lit(r.Results[0]) + "\n" + ind + "else " + c.boolStmts(ss[1:], ind)
			}
		}
	}
	return "(" + c.fail("statement outside the subset") + " : bool)"
}

func genBoolFns(repo, out string) {
	f := parseFile(filepath.Join(repo, "files/files.go"))
	c := &trCtx{consts: stringConsts(f), eqSeqb: true}
	c.sel = func(se *ast.SelectorExpr) string {
		if id, ok := se.X.(*ast.Ident); ok && id.Name == "content" {
			switch se.Sel.Name {
			case "Packager":
				return "(c_pkgr c)"
			case "Type":
				return "(c_typ c)"
			case "Source":
				return "(c_src c)"
			case "Destination":
				return "(c_dst c)"
			}
		}
		return ""
	}
	body := "false"
	found := false
	for _, d := range f.Decls {
		if fd, ok := d.(*ast.FuncDecl); ok && fd.Name.Name == "isRelevantForPackager" && fd.Body != nil {
			found = true
			if len(fd.Type.Params.List) != 2 || fd.Type.Params.List[0].Names[0].Name != "packager" || fd.Type.Params.List[1].Names[0].Name != "content" {
				c.fail("parameters are not (packager, content)")
			}
			body = c.boolStmts(fd.Body.List, "  ")
		}
	}
	if !found {
		c.fail("no function isRelevantForPackager in files/files.go")
	}
	// Contents.Less: a, b := c[i], c[j]; if a.X != b.X { return a.X < b.X } ...; return a.Z < b.Z
	lc := &trCtx{consts: map[string]string{}, eqSeqb: true}
	lessBody := "false"
	lessFound := false
	for _, d := range f.Decls {
		fd, ok := d.(*ast.FuncDecl)
		if !ok || fd.Name.Name != "Less" || fd.Recv == nil || fd.Body == nil || len(fd.Body.List) < 2 {
			continue
		}
		lessFound = true
		first, ok := fd.Body.List[0].(*ast.AssignStmt)
		if !ok || first.Tok != token.DEFINE || len(first.Lhs) != 2 || len(first.Rhs) != 2 {
			lc.fail("Less does not start with a, b := c[i], c[j]")
			break
		}
		na, nb := first.Lhs[0].(*ast.Ident).Name, first.Lhs[1].(*ast.Ident).Name
		for k, want := range []string{"i", "j"} {
			ix, ok := first.Rhs[k].(*ast.IndexExpr)
			if !ok {
				lc.fail("Less does not start with a, b := c[i], c[j]")
				break
			}
			if id, ok := ix.Index.(*ast.Ident); !ok || id.Name != fd.Type.Params.List[0].Names[k].Name || want == "" {
				lc.fail("Less compares other elements than the two it is asked about")
			}
		}
		lc.sel = func(se *ast.SelectorExpr) string {
			id, ok := se.X.(*ast.Ident)
			if !ok || (id.Name != na && id.Name != nb) {
				return ""
			}
			v := "a"
			if id.Name == nb {
				v = "b"
			}
			switch se.Sel.Name {
			case "Destination":
				return "(c_dst " + v + ")"
			case "Type":
				return "(c_typ " + v + ")"
			case "Packager":
				return "(c_pkgr " + v + ")"
			case "Source":
				return "(c_src " + v + ")"
			}
			return ""
		}
		lessBody = lc.boolStmts(fd.Body.List[1:], "  ")
	}
	if !lessFound {
		lc.fail("no method Less in files/files.go")
	}
	var b strings.Builder
	b.WriteString("(* GENERATED from /repo (files/files.go) on every run by translators/strfn.go (genBoolFns) - do not edit *)\n")
	b.WriteString("From Coq Require Import List String Bool.\nFrom Coq Require Import Strings.Byte.\nFrom NfpmV Require Import Lib.Bytes Model.Content.\nImport ListNotations.\nOpen Scope bool_scope.\n\n")
	if c.err != "" {
		fmt.Fprintf(&b, "(* isRelevantForPackager: UNTRANSLATABLE - %s *)\nDefinition src_is_relevant (v_packager : str) (c : content) : bool := false.\nDefinition src_is_relevant_translated : bool := false.\n", c.err)
	} else {
		fmt.Fprintf(&b, "(* func isRelevantForPackager(packager string, content *Content) bool *)\nDefinition src_is_relevant (v_packager : str) (c : content) : bool :=\n  %s.\nDefinition src_is_relevant_translated : bool := true.\n", body)
	}
	if lc.err != "" {
		fmt.Fprintf(&b, "\n(* Contents.Less: UNTRANSLATABLE - %s *)\nDefinition src_content_less (a b : content) : bool := false.\nDefinition src_content_less_translated : bool := false.\n", lc.err)
	} else {
		fmt.Fprintf(&b, "\n(* func (c Contents) Less(i, j int) bool, on the two entries a = c[i], b = c[j] *)\nDefinition src_content_less (a b : content) : bool :=\n  %s.\nDefinition src_content_less_translated : bool := true.\n", lessBody)
	}
	writeIfChanged(filepath.Join(out, "BoolFns.v"), b.String())
}


// ---- the path helpers of files/files.go, over the model's filepath.Clean ----
func genPathFns(repo, out string) {
	f := parseFile(filepath.Join(repo, "files/files.go"))
	var b strings.Builder
	b.WriteString("(* GENERATED from /repo (files/files.go) on every run by translators/strfn.go (genPathFns) - do not edit.\n   filepath.Clean is the model's [clean]; filepath.ToSlash is the identity; filepath.Join(\"/\", e) is Clean(\"//\" ++ e). *)\n")
	b.WriteString("From Coq Require Import List String Bool.\nFrom Coq Require Import Strings.Byte.\nFrom NfpmV Require Import Lib.Bytes Model.Path Model.Content.\nImport ListNotations.\nOpen Scope list_scope.\nOpen Scope bool_scope.\n\n")
	known := map[string]string{}
	for _, t := range [][2]string{{"ToNixPath", "src_ToNixPath"}, {"AsRelativePath", "src_AsRelativePath"}, {"AsExplicitRelativePath", "src_AsExplicitRelativePath"},
		{"NormalizeAbsoluteFilePath", "src_NormalizeAbsoluteFilePath"}, {"NormalizeAbsoluteDirPath", "src_NormalizeAbsoluteDirPath"}} {
		c := &trCtx{known: known, eqSeqb: true}
		var fd *ast.FuncDecl
		for _, d := range f.Decls {
			if x, ok := d.(*ast.FuncDecl); ok && x.Name.Name == t[0] && x.Recv == nil && x.Body != nil {
				fd = x
			}
		}
		var params []string
		body := "[]"
		if fd == nil {
			c.fail("no function %s in files/files.go", t[0])
		} else {
			for _, fl := range fd.Type.Params.List {
				id, ok := fl.Type.(*ast.Ident)
				for _, n := range fl.Names {
					if ok && id.Name == "string" {
						params = append(params, "(v_"+n.Name+" : str)")
					} else {
						c.fail("parameter %s of a type outside the subset", n.Name)
					}
				}
			}
			if c.err == "" {
				body = c.stmts(fd.Body.List, "", "  ")
			}
		}
		if len(params) == 0 {
			params = []string{"(v_path : str)"}
		}
		if c.err != "" {
			fmt.Fprintf(&b, "(* %s: UNTRANSLATABLE - %s *)\nDefinition %s %s : str := [].\nDefinition %s_translated : bool := false.\n\n", t[0], c.err, t[1], strings.Join(params, " "), t[1])
		} else {
			fmt.Fprintf(&b, "(* func %s *)\nDefinition %s %s : str :=\n  %s.\nDefinition %s_translated : bool := true.\n\n", t[0], t[1], strings.Join(params, " "), body, t[1])
		}
		known[t[0]] = t[1]
	}
	writeIfChanged(filepath.Join(out, "PathFns.v"), b.String())
}

// ---- conffiles of deb and ipk: a loop that collects one string per selected entry, joined into a text ----
// var acc []string
// for _, v := range info.Contents { switch v.Type { case T1, T2...: acc = append(acc, E(v)) } }
// return []byte(strings.Join(acc, SEP) + END)
func genListFns(repo, out string) {
	ff := parseFile(filepath.Join(repo, "files/files.go"))
	consts := stringConsts(ff)
	var b strings.Builder
	b.WriteString("(* GENERATED from /repo (deb/deb.go, ipk/ipk.go: conffiles) on every run by translators/strfn.go (genListFns) - do not edit *)\n")
	b.WriteString("From Coq Require Import List String Bool.\nFrom Coq Require Import Strings.Byte.\nFrom NfpmV Require Import Lib.Bytes Model.Path Model.Content.\nFrom NfpmV Require Import Gen.PathFns.\nImport ListNotations.\nOpen Scope list_scope.\nOpen Scope bool_scope.\n\n")
	for _, t := range [][2]string{{"deb/deb.go", "src_deb_conffiles"}, {"ipk/ipk.go", "src_ipk_conffiles"}} {
		f := parseFile(filepath.Join(repo, t[0]))
		c := &trCtx{consts: map[string]string{}}
		body := "[]"
		var fd *ast.FuncDecl
		for _, d := range f.Decls {
			if x, ok := d.(*ast.FuncDecl); ok && x.Name.Name == "conffiles" && x.Body != nil {
				fd = x
			}
		}
		func() {
			if fd == nil {
				c.fail("no function conffiles in %s", t[0])
				return
			}
			var loop *ast.RangeStmt
			var ret *ast.ReturnStmt
			for _, st := range fd.Body.List {
				switch x := st.(type) {
				case *ast.DeclStmt: // var acc []string
				case *ast.RangeStmt:
					if loop != nil {
						c.fail("two loops")
					}
					loop = x
				case *ast.ReturnStmt:
					ret = x
				default:
					c.fail("statement outside the subset")
				}
			}
			if loop == nil || ret == nil || len(ret.Results) != 1 {
				c.fail("no loop or no return")
				return
			}
			// range info.Contents
			if se, ok := loop.X.(*ast.SelectorExpr); !ok || se.Sel.Name != "Contents" {
				c.fail("loop over something else than info.Contents")
				return
			}
			v, _ := loop.Value.(*ast.Ident)
			if v == nil || len(loop.Body.List) != 1 {
				c.fail("loop body outside the subset")
				return
			}
			sw, ok := loop.Body.List[0].(*ast.SwitchStmt)
			if !ok || sw.Init != nil || len(sw.Body.List) != 1 {
				c.fail("loop body is not a switch with one case")
				return
			}
			if se, ok := sw.Tag.(*ast.SelectorExpr); !ok || se.Sel.Name != "Type" {
				c.fail("switch over something else than the entry's type")
				return
			}
			cc := sw.Body.List[0].(*ast.CaseClause)
			var labels []string
			for _, e := range cc.List {
				name := ""
				if se, ok := e.(*ast.SelectorExpr); ok {
					name = se.Sel.Name
				}
				val, ok := consts[name]
				if !ok {
					c.fail("case label that is not a type constant of files")
					return
				}
				labels = append(labels, coqStr(val))
			}
			if len(cc.Body) != 1 {
				c.fail("case body outside the subset")
				return
			}
			as, ok := cc.Body[0].(*ast.AssignStmt)
			if !ok || len(as.Rhs) != 1 {
				c.fail("case body is not an append")
				return
			}
			ap, ok := as.Rhs[0].(*ast.CallExpr)
			if !ok || len(ap.Args) != 2 {
				c.fail("case body is not an append of one value")
				return
			}
			if id, ok := ap.Fun.(*ast.Ident); !ok || id.Name != "append" {
				c.fail("case body is not an append")
				return
			}
			// the appended value: files.<PathFn>(v.Destination)
			item := ""
			if ce, ok := ap.Args[1].(*ast.CallExpr); ok && len(ce.Args) == 1 {
				if se, ok := ce.Fun.(*ast.SelectorExpr); ok {
					if arg, ok := ce.Args[0].(*ast.SelectorExpr); ok && arg.Sel.Name == "Destination" {
						if id, ok := arg.X.(*ast.Ident); ok && id.Name == v.Name {
							item = "(src_" + se.Sel.Name + " (c_dst c))"
						}
					}
				}
			}
			if item == "" {
				c.fail("appended value outside the subset")
				return
			}
			// return []byte(strings.Join(acc, SEP) + END)
			conv, ok := ret.Results[0].(*ast.CallExpr)
			if !ok || len(conv.Args) != 1 {
				c.fail("return outside the subset")
				return
			}
			sum, ok := conv.Args[0].(*ast.BinaryExpr)
			if !ok || sum.Op != token.ADD {
				c.fail("return outside the subset")
				return
			}
			join, ok := sum.X.(*ast.CallExpr)
			end, okEnd := strLit(sum.Y)
			if !ok || !okEnd || len(join.Args) != 2 {
				c.fail("return outside the subset")
				return
			}
			sep, okSep := strLit(join.Args[1])
			if se, ok := join.Fun.(*ast.SelectorExpr); !ok || se.Sel.Name != "Join" || !okSep {
				c.fail("return outside the subset")
				return
			}
			body = "(concat_sep " + coqStr(sep) + " (flat_map (fun c => if typ_in (c_typ c) [" + strings.Join(labels, "; ") + "] then [" + item + "] else []) cs)) ++ " + coqStr(end)
		}()
		if c.err != "" {
			fmt.Fprintf(&b, "(* %s conffiles: UNTRANSLATABLE - %s *)\nDefinition %s (cs : list content) : str := [].\nDefinition %s_translated : bool := false.\n\n", t[0], c.err, t[1], t[1])
		} else {
			fmt.Fprintf(&b, "(* %s: func conffiles, over the prepared contents *)\nDefinition %s (cs : list content) : str :=\n  %s.\nDefinition %s_translated : bool := true.\n\n", t[0], t[1], body, t[1])
		}
	}
	writeIfChanged(filepath.Join(out, "ListFns.v"), b.String())
}

// ---- archlinux: the backup lines of .PKGINFO ----
// for _, v := range info.Contents { if v.Type == T1 || v.Type == T2 ... { path := files.F(v.Destination); writeKVPair(buf, "backup", path) } }
func genBackupFn(repo, out string) {
	consts := stringConsts(parseFile(filepath.Join(repo, "files/files.go")))
	f := parseFile(filepath.Join(repo, "arch/arch.go"))
	c := &trCtx{}
	body, key := "[]", ""
	n := 0
	ast.Inspect(f, func(nd ast.Node) bool {
		loop, ok := nd.(*ast.RangeStmt)
		if !ok {
			return true
		}
		// a loop that calls writeKVPair(_, "backup", _)
		writes := false
		ast.Inspect(loop, func(m ast.Node) bool {
			if ce, ok := m.(*ast.CallExpr); ok {
				if id, ok := ce.Fun.(*ast.Ident); ok && id.Name == "writeKVPair" && len(ce.Args) == 3 {
					if k, ok := strLit(ce.Args[1]); ok && k == "backup" {
						writes = true
					}
				}
			}
			return true
		})
		if !writes {
			return true
		}
		n++
		v, _ := loop.Value.(*ast.Ident)
		if se, ok := loop.X.(*ast.SelectorExpr); !ok || se.Sel.Name != "Contents" || v == nil || len(loop.Body.List) != 1 {
			c.fail("the backup loop is not a loop over info.Contents with one statement")
			return false
		}
		is, ok := loop.Body.List[0].(*ast.IfStmt)
		if !ok || is.Init != nil || is.Else != nil || len(is.Body.List) != 2 {
			c.fail("the backup loop's body is not: if cond { path := ...; write }")
			return false
		}
		var cond func(e ast.Expr) string
		cond = func(e ast.Expr) string {
			switch x := e.(type) {
			case *ast.ParenExpr:
				return cond(x.X)
			case *ast.BinaryExpr:
				if x.Op == token.LOR {
					return "(" + cond(x.X) + " || " + cond(x.Y) + ")"
				}
				if x.Op == token.EQL {
					l, ok1 := x.X.(*ast.SelectorExpr)
					r, ok2 := x.Y.(*ast.SelectorExpr)
					if ok1 && ok2 && l.Sel.Name == "Type" {
						if id, ok := l.X.(*ast.Ident); ok && id.Name == v.Name {
							if val, ok := consts[r.Sel.Name]; ok {
								return "(seqb (c_typ c) " + coqStr(val) + ")"
							}
						}
					}
				}
			}
			return "(" + c.fail("condition of the backup loop outside the subset") + " : bool)"
		}
		cd := cond(is.Cond)
		as, ok := is.Body.List[0].(*ast.AssignStmt)
		item := ""
		if ok && len(as.Rhs) == 1 {
			if ce, ok := as.Rhs[0].(*ast.CallExpr); ok && len(ce.Args) == 1 {
				if se, ok := ce.Fun.(*ast.SelectorExpr); ok {
					if arg, ok := ce.Args[0].(*ast.SelectorExpr); ok && arg.Sel.Name == "Destination" {
						if id, ok := arg.X.(*ast.Ident); ok && id.Name == v.Name {
							item = "(src_" + se.Sel.Name + " (c_dst c))"
						}
					}
				}
			}
		}
		// the second statement writes exactly that variable under the key
		wrote := false
		ast.Inspect(is.Body.List[1], func(m ast.Node) bool {
			if ce, ok := m.(*ast.CallExpr); ok {
				if id, ok := ce.Fun.(*ast.Ident); ok && id.Name == "writeKVPair" && len(ce.Args) == 3 {
					k, _ := strLit(ce.Args[1])
					if a, ok := ce.Args[2].(*ast.Ident); ok && ok && len(as.Lhs) == 1 {
						if l, ok := as.Lhs[0].(*ast.Ident); ok && l.Name == a.Name {
							wrote = true
							key = k
						}
					}
				}
			}
			return true
		})
		if item == "" || !wrote {
			c.fail("the value written as backup is not files.F(entry.Destination)")
			return false
		}
		body = "flat_map (fun c => if " + cd + " then [" + item + "] else []) cs"
		return false
	})
	if n != 1 {
		c.fail("%d loops write backup lines", n)
	}
	var b strings.Builder
	b.WriteString("(* GENERATED from /repo (arch/arch.go: the backup lines of createPkginfo) on every run by translators/strfn.go (genBackupFn) - do not edit *)\n")
	b.WriteString("From Coq Require Import List String Bool.\nFrom Coq Require Import Strings.Byte.\nFrom NfpmV Require Import Lib.Bytes Model.Path Model.Content.\nFrom NfpmV Require Import Gen.PathFns.\nImport ListNotations.\nOpen Scope list_scope.\nOpen Scope bool_scope.\n\n")
	if c.err != "" {
		fmt.Fprintf(&b, "(* UNTRANSLATABLE - %s *)\nDefinition src_arch_backups (cs : list content) : list str := [].\nDefinition src_arch_backup_key : str := [].\nDefinition src_arch_backups_translated : bool := false.\n", c.err)
	} else {
		fmt.Fprintf(&b, "(* the values written under the key, in order *)\nDefinition src_arch_backups (cs : list content) : list str :=\n  %s.\nDefinition src_arch_backup_key : str := %s.\nDefinition src_arch_backups_translated : bool := true.\n", body, coqStr(key))
	}
	writeIfChanged(filepath.Join(out, "BackupFn.v"), b.String())
}

// ---- arch.mtreeQuote: a loop over the bytes of a string that writes each byte or its \ooo escape ----
// var b strings.Builder
// for i := 0; i < len(s); i++ { if c := s[i]; COND { fmt.Fprintf(&b, "\\%03o", c) } else { b.WriteByte(c) } }
// return b.String()
func genQuoteFn(repo, out string) {
	f := parseFile(filepath.Join(repo, "arch/arch.go"))
	c := &trCtx{}
	body := "[]"
	var fd *ast.FuncDecl
	for _, d := range f.Decls {
		if x, ok := d.(*ast.FuncDecl); ok && x.Name.Name == "mtreeQuote" && x.Body != nil {
			fd = x
		}
	}
	func() {
		if fd == nil {
			c.fail("no function mtreeQuote in arch/arch.go")
			return
		}
		if len(fd.Body.List) != 3 {
			c.fail("body is not: builder, loop, return")
			return
		}
		loop, ok := fd.Body.List[1].(*ast.ForStmt)
		if !ok || len(loop.Body.List) != 1 {
			c.fail("no byte loop")
			return
		}
		// for i := 0; i < len(s); i++
		init, ok1 := loop.Init.(*ast.AssignStmt)
		cnd, ok2 := loop.Cond.(*ast.BinaryExpr)
		post, ok3 := loop.Post.(*ast.IncDecStmt)
		if !ok1 || !ok2 || !ok3 || cnd.Op != token.LSS || post.Tok != token.INC {
			c.fail("the loop is not: for i := 0; i < len(s); i++")
			return
		}
		if z, ok := init.Rhs[0].(*ast.BasicLit); !ok || z.Value != "0" {
			c.fail("the loop does not start at 0")
			return
		}
		if ce, ok := cnd.Y.(*ast.CallExpr); !ok || len(ce.Args) != 1 {
			c.fail("the loop does not run to len(s)")
			return
		} else if id, ok := ce.Fun.(*ast.Ident); !ok || id.Name != "len" {
			c.fail("the loop does not run to len(s)")
			return
		}
		is, ok := loop.Body.List[0].(*ast.IfStmt)
		if !ok || is.Init == nil || is.Else == nil {
			c.fail("the loop body is not: if c := s[i]; cond { escape } else { byte }")
			return
		}
		bv := is.Init.(*ast.AssignStmt).Lhs[0].(*ast.Ident).Name
		var cond func(e ast.Expr) string
		num := func(e ast.Expr) (int, bool) {
			bl, ok := e.(*ast.BasicLit)
			if !ok {
				return 0, false
			}
			switch bl.Kind {
			case token.CHAR:
				v, _, _, err := strconv.UnquoteChar(bl.Value[1:len(bl.Value)-1], '\'')
				return int(v), err == nil && v < 256
			case token.INT:
				v, err := strconv.ParseInt(bl.Value, 0, 32)
				return int(v), err == nil && v >= 0 && v < 256
			}
			return 0, false
		}
		cond = func(e ast.Expr) string {
			switch x := e.(type) {
			case *ast.ParenExpr:
				return cond(x.X)
			case *ast.BinaryExpr:
				if x.Op == token.LOR {
					return "(" + cond(x.X) + " || " + cond(x.Y) + ")"
				}
				if x.Op == token.LAND {
					return "(" + cond(x.X) + " && " + cond(x.Y) + ")"
				}
				if id, ok := x.X.(*ast.Ident); ok && id.Name == bv {
					if v, ok := num(x.Y); ok {
						switch x.Op {
						case token.LEQ:
							return fmt.Sprintf("(n <=? %d)%%N", v)
						case token.GEQ:
							return fmt.Sprintf("(%d <=? n)%%N", v)
						case token.LSS:
							return fmt.Sprintf("(n <? %d)%%N", v)
						case token.GTR:
							return fmt.Sprintf("(%d <? n)%%N", v)
						case token.EQL:
							return fmt.Sprintf("(n =? %d)%%N", v)
						}
					}
				}
			}
			return "(" + c.fail("byte condition outside the subset") + " : bool)"
		}
		cd := cond(is.Cond)
		// then: fmt.Fprintf(&b, "\\%03o", c); else: b.WriteByte(c)
		okThen, okElse := false, false
		if len(is.Body.List) == 1 {
			if es, ok := is.Body.List[0].(*ast.ExprStmt); ok {
				if ce, ok := es.X.(*ast.CallExpr); ok && len(ce.Args) == 3 {
					if ft, ok := strLit(ce.Args[1]); ok && ft == "\\%03o" {
						if id, ok := ce.Args[2].(*ast.Ident); ok && id.Name == bv {
							okThen = true
						}
					}
				}
			}
		}
		if eb, ok := is.Else.(*ast.BlockStmt); ok && len(eb.List) == 1 {
			if es, ok := eb.List[0].(*ast.ExprStmt); ok {
				if ce, ok := es.X.(*ast.CallExpr); ok && len(ce.Args) == 1 {
					if se, ok := ce.Fun.(*ast.SelectorExpr); ok && se.Sel.Name == "WriteByte" {
						if id, ok := ce.Args[0].(*ast.Ident); ok && id.Name == bv {
							okElse = true
						}
					}
				}
			}
		}
		if !okThen || !okElse {
			c.fail("the branches are not: a backslash and three octal digits of the byte / the byte itself")
			return
		}
		body = "flat_map (fun b => let n := Byte.to_N b in if " + cd + " then x5c :: oct_fixed 3 n else [b]) v_s"
	}()
	var b strings.Builder
	b.WriteString("(* GENERATED from /repo (arch/arch.go: mtreeQuote) on every run by translators/strfn.go (genQuoteFn) - do not edit *)\n")
	b.WriteString("From Coq Require Import List String Bool NArith.\nFrom Coq Require Import Strings.Byte.\nFrom NfpmV Require Import Lib.Bytes Model.Tar Model.Mtree.\nImport ListNotations.\nOpen Scope list_scope.\nOpen Scope bool_scope.\n\n")
	if c.err != "" {
		fmt.Fprintf(&b, "(* UNTRANSLATABLE - %s *)\nDefinition src_mtreeQuote (v_s : str) : str := [].\nDefinition src_mtreeQuote_translated : bool := false.\n", c.err)
	} else {
		fmt.Fprintf(&b, "Definition src_mtreeQuote (v_s : str) : str :=\n  %s.\nDefinition src_mtreeQuote_translated : bool := true.\n", body)
	}
	writeIfChanged(filepath.Join(out, "QuoteFn.v"), b.String())
}

// ---- arch.MtreeEntry.WriteTo: one format string per kind of entry ----
func genMtreeLine(repo, out string) {
	consts := stringConsts(parseFile(filepath.Join(repo, "files/files.go")))
	f := parseFile(filepath.Join(repo, "arch/arch.go"))
	c := &trCtx{}
	lines := map[string]string{}
	labelsOf := map[string][]string{}
	var fd *ast.FuncDecl
	for _, d := range f.Decls {
		if x, ok := d.(*ast.FuncDecl); ok && x.Name.Name == "WriteTo" && x.Recv != nil && x.Body != nil {
			fd = x
		}
	}
	fieldOfEntry := map[string]string{"Time": "me_time", "Mode": "me_mode", "Size": "me_size", "MD5": "me_md5", "SHA256": "me_sha256"}
	func() {
		if fd == nil || len(fd.Body.List) != 1 {
			c.fail("no method WriteTo whose body is one switch")
			return
		}
		recv := fd.Recv.List[0].Names[0].Name
		sw, ok := fd.Body.List[0].(*ast.SwitchStmt)
		if !ok {
			c.fail("no method WriteTo whose body is one switch")
			return
		}
		if se, ok := sw.Tag.(*ast.SelectorExpr); !ok || se.Sel.Name != "Type" {
			c.fail("the switch is not over the entry's type")
			return
		}
		for _, st := range sw.Body.List {
			cc := st.(*ast.CaseClause)
			var labels []string
			for _, e := range cc.List {
				if se, ok := e.(*ast.SelectorExpr); ok {
					if v, ok := consts[se.Sel.Name]; ok {
						labels = append(labels, v)
						continue
					}
				}
				c.fail("case label that is not a type constant of files")
				return
			}
			kind := "MFile"
			switch strings.Join(labels, ",") {
			case "dir,implicit dir", "implicit dir,dir":
				kind = "MDir"
			case "symlink":
				kind = "MLink"
			case "":
				kind = "MFile"
			default:
				c.fail("cases are not {dir, implicit dir}, {symlink}, default")
				return
			}
			labelsOf[kind] = labels
			// the first statement: n, err := fmt.Fprintf(w, FORMAT, args...)
			var call *ast.CallExpr
			if len(cc.Body) > 0 {
				if as, ok := cc.Body[0].(*ast.AssignStmt); ok && len(as.Rhs) == 1 {
					call, _ = as.Rhs[0].(*ast.CallExpr)
				}
			}
			if call == nil || len(call.Args) < 2 {
				c.fail("a case that does not start with fmt.Fprintf")
				return
			}
			format, ok := strLit(call.Args[1])
			if !ok {
				c.fail("format that is not a literal")
				return
			}
			args := call.Args[2:]
			var parts []string
			lit, ai := "", 0
			for k := 0; k < len(format); k++ {
				if format[k] != '%' {
					lit += string(format[k])
					continue
				}
				if k+1 >= len(format) || ai >= len(args) {
					c.fail("format with a dangling verb")
					return
				}
				verb := format[k+1]
				k++
				if lit != "" {
					parts = append(parts, coqStr(lit))
					lit = ""
				}
				a := args[ai]
				ai++
				val := ""
				if ce, ok := a.(*ast.CallExpr); ok && len(ce.Args) == 1 && verb == 's' {
					// mtreeQuote(me.Destination | me.LinkSource)
					if id, ok := ce.Fun.(*ast.Ident); ok && id.Name == "mtreeQuote" {
						if se, ok := ce.Args[0].(*ast.SelectorExpr); ok {
							if x, ok := se.X.(*ast.Ident); ok && x.Name == recv {
								switch se.Sel.Name {
								case "Destination":
									val = "src_mtreeQuote (me_path e)"
								case "LinkSource":
									val = "src_mtreeQuote (me_link e)"
								}
							}
						}
					}
				} else if se, ok := a.(*ast.SelectorExpr); ok {
					if x, ok := se.X.(*ast.Ident); ok && x.Name == recv {
						if fn, ok := fieldOfEntry[se.Sel.Name]; ok {
							switch {
							case verb == 'd' && (fn == "me_time" || fn == "me_size"):
								val = "decN (" + fn + " e)"
							case verb == 'o' && fn == "me_mode":
								val = "octN (" + fn + " e)"
							case verb == 'x' && (fn == "me_md5" || fn == "me_sha256"):
								val = fn + " e" // the model's field is the lower-case hex text of the digest
							}
						}
					}
				}
				if val == "" {
					c.fail("an argument or verb outside the subset in %q", format)
					return
				}
				parts = append(parts, val)
			}
			if lit != "" {
				parts = append(parts, coqStr(lit))
			}
			if ai != len(args) {
				c.fail("more arguments than verbs")
				return
			}
			// right-nested
			expr := parts[len(parts)-1]
			for k := len(parts) - 2; k >= 0; k-- {
				expr = parts[k] + " ++ (" + expr + ")"
			}
			lines[kind] = expr
		}
		for _, k := range []string{"MDir", "MLink", "MFile"} {
			if lines[k] == "" {
				c.fail("no case for %s", k)
			}
		}
	}()
	var b strings.Builder
	b.WriteString("(* GENERATED from /repo (arch/arch.go: MtreeEntry.WriteTo) on every run by translators/strfn.go (genMtreeLine) - do not edit *)\n")
	b.WriteString("From Coq Require Import List String Bool NArith.\nFrom Coq Require Import Strings.Byte.\nFrom NfpmV Require Import Lib.Bytes Model.Content Model.Tar Model.Mtree.\nFrom NfpmV Require Import Gen.QuoteFn.\nImport ListNotations.\nOpen Scope list_scope.\n\n")
	if c.err != "" {
		fmt.Fprintf(&b, "(* UNTRANSLATABLE - %s *)\nDefinition src_mtree_line (e : mentry) : str := [].\nDefinition src_mtree_line_translated : bool := false.\n", c.err)
	} else {
		fmt.Fprintf(&b, "(* cases: %v -> MDir, %v -> MLink, default -> MFile *)\nDefinition src_mtree_line (e : mentry) : str :=\n  match me_kind e with\n  | MDir => %s\n  | MLink => %s\n  | MFile => %s\n  end.\nDefinition src_mtree_line_translated : bool := true.\n", labelsOf["MDir"], labelsOf["MLink"], lines["MDir"], lines["MLink"], lines["MFile"])
	}
	writeIfChanged(filepath.Join(out, "MtreeLine.v"), b.String())
}


// ---- archlinux: the pkgver of .PKGINFO, the slice of createPkginfo that computes it ----
func genArchPkgver(repo, out string) {
	f := parseFile(filepath.Join(repo, "arch/arch.go"))
	c := &trCtx{}
	body := "[]"
	var fd *ast.FuncDecl
	for _, d := range f.Decls {
		if x, ok := d.(*ast.FuncDecl); ok && x.Name.Name == "createPkginfo" && x.Body != nil {
			fd = x
		}
	}
	if fd == nil {
		c.fail("no function createPkginfo in arch/arch.go")
	} else {
		// the statements that define or assign pkgrel or pkgver, in order (an if counts when its body assigns one of them,
		// and the error check that follows a two-valued definition goes with it)
		want := map[string]bool{"pkgrel": true, "pkgver": true}
		var slice []ast.Stmt
		takeNext := false
		for _, st := range fd.Body.List {
			take := takeNext
			takeNext = false
			switch x := st.(type) {
			case *ast.AssignStmt:
				for _, l := range x.Lhs {
					if id, ok := l.(*ast.Ident); ok && want[id.Name] {
						take = true
						if len(x.Lhs) == 2 {
							takeNext = true
						}
					}
				}
			case *ast.IfStmt:
				for _, v := range assigned(x.Body.List) {
					if want[v] {
						take = true
					}
				}
			}
			if take {
				slice = append(slice, st)
			}
		}
		if len(slice) == 0 {
			c.fail("createPkginfo defines no pkgver")
		} else {
			slice = append(slice, &ast.ReturnStmt{Results: []ast.Expr{ast.NewIdent("pkgver")}})
			body = c.stmts(slice, "", "  ")
		}
	}
	var b strings.Builder
	b.WriteString("(* GENERATED from /repo (arch/arch.go: the statements of createPkginfo that compute pkgver) on every run by translators/strfn.go (genArchPkgver) - do not edit *)\n")
	b.WriteString("From Coq Require Import List String Bool NArith ZArith.\nFrom Coq Require Import Strings.Byte.\nFrom NfpmV Require Import Lib.Bytes Model.Content Model.Meta.\nImport ListNotations.\nOpen Scope list_scope.\nOpen Scope bool_scope.\n\n")
	if c.err != "" {
		fmt.Fprintf(&b, "(* UNTRANSLATABLE - %s *)\nDefinition src_arch_pkgver (i : minfo) (arch : str) : str := [].\nDefinition src_arch_pkgver_translated : bool := false.\n", c.err)
	} else {
		fmt.Fprintf(&b, "Definition src_arch_pkgver (i : minfo) (arch : str) : str :=\n  %s.\nDefinition src_arch_pkgver_translated : bool := true.\n", body)
	}
	writeIfChanged(filepath.Join(out, "ArchPkgver.v"), b.String())
}

// ---- deb.createTriggers: a table of (directive, list of names) and a nested loop printing "directive name\n" ----
func genTriggersFn(repo, out string) {
	keys := yamlKeys(parseFile(filepath.Join(repo, "nfpm.go")))
	f := parseFile(filepath.Join(repo, "deb/deb.go"))
	c := &trCtx{}
	var rows []string
	lineFmt := ""
	var fd *ast.FuncDecl
	for _, d := range f.Decls {
		if x, ok := d.(*ast.FuncDecl); ok && x.Name.Name == "createTriggers" && x.Body != nil {
			fd = x
		}
	}
	func() {
		if fd == nil {
			c.fail("no function createTriggers in deb/deb.go")
			return
		}
		var table *ast.CompositeLit
		var outer *ast.RangeStmt
		for _, st := range fd.Body.List {
			switch x := st.(type) {
			case *ast.AssignStmt:
				if cl, ok := x.Rhs[0].(*ast.CompositeLit); ok {
					table = cl
				}
			case *ast.RangeStmt:
				outer = x
			}
		}
		if table == nil || outer == nil {
			c.fail("no table literal or no loop over it")
			return
		}
		for _, el := range table.Elts {
			row, ok := el.(*ast.CompositeLit)
			if !ok || len(row.Elts) != 2 {
				c.fail("table row that is not {directive, &names}")
				return
			}
			dir, ok := strLit(row.Elts[0])
			ue, ok2 := row.Elts[1].(*ast.UnaryExpr)
			if !ok || !ok2 || ue.Op != token.AND {
				c.fail("table row that is not {directive, &names}")
				return
			}
			// &info.Deb.Triggers.<Field>
			var chain []string
			e := ue.X
			for {
				se, ok := e.(*ast.SelectorExpr)
				if !ok {
					break
				}
				chain = append([]string{se.Sel.Name}, chain...)
				e = se.X
			}
			if id, ok := e.(*ast.Ident); !ok || id.Name != "info" || len(chain) != 3 || chain[0] != "Deb" || chain[1] != "Triggers" {
				c.fail("names that are not a field of info.Deb.Triggers")
				return
			}
			k, ok := keys[chain[2]]
			if !ok || k == "" {
				c.fail("no yaml key for %s", chain[2])
				return
			}
			rows = append(rows, "("+coqStr(dir)+", \"deb.triggers."+k+"\"%string)")
		}
		// for _, e := range table { for _, n := range *e.Names { fmt.Fprintf(&buffer, FORMAT, e.Directive, n) } }
		if len(outer.Body.List) != 1 {
			c.fail("outer loop body outside the subset")
			return
		}
		inner, ok := outer.Body.List[0].(*ast.RangeStmt)
		if !ok || len(inner.Body.List) != 1 {
			c.fail("no inner loop over the names")
			return
		}
		es, ok := inner.Body.List[0].(*ast.ExprStmt)
		if !ok {
			c.fail("inner loop body is not a Fprintf")
			return
		}
		ce, ok := es.X.(*ast.CallExpr)
		if !ok || len(ce.Args) != 4 {
			c.fail("inner loop body is not a Fprintf of two values")
			return
		}
		ft, ok := strLit(ce.Args[1])
		a1, ok1 := ce.Args[2].(*ast.SelectorExpr)
		a2, ok2 := ce.Args[3].(*ast.Ident)
		nv, _ := inner.Value.(*ast.Ident)
		if !ok || !ok1 || !ok2 || nv == nil || a1.Sel.Name != "Directive" || a2.Name != nv.Name {
			c.fail("Fprintf arguments are not (directive, name)")
			return
		}
		parts := strings.Split(ft, "%s")
		if len(parts) != 3 || strings.Contains(parts[0]+parts[1]+parts[2], "%") {
			c.fail("format %q is not two %%s", ft)
			return
		}
		var ps []string
		add := func(lit string) {
			if lit != "" {
				ps = append(ps, coqStr(lit))
			}
		}
		add(parts[0])
		ps = append(ps, "d")
		add(parts[1])
		ps = append(ps, "n")
		add(parts[2])
		expr := ps[len(ps)-1]
		for k := len(ps) - 2; k >= 0; k-- {
			expr = ps[k] + " ++ " + expr
		}
		lineFmt = expr
	}()
	var b strings.Builder
	b.WriteString("(* GENERATED from /repo (deb/deb.go: createTriggers; yaml keys from nfpm.go) on every run by translators/strfn.go (genTriggersFn) - do not edit *)\n")
	b.WriteString("From Coq Require Import List String Bool.\nFrom Coq Require Import Strings.Byte.\nFrom NfpmV Require Import Lib.Bytes Model.Content Model.Meta.\nImport ListNotations.\nOpen Scope list_scope.\n\n")
	if c.err != "" {
		fmt.Fprintf(&b, "(* UNTRANSLATABLE - %s *)\nDefinition src_deb_triggers (i : minfo) : str := [].\nDefinition src_deb_triggers_translated : bool := false.\n", c.err)
	} else {
		fmt.Fprintf(&b, "Definition src_deb_triggers (i : minfo) : str :=\n  flat_map (fun '(d, k) => flat_map (fun n => %s) (gl i k))\n    [%s].\nDefinition src_deb_triggers_translated : bool := true.\n", lineFmt, strings.Join(rows, ";\n     "))
	}
	writeIfChanged(filepath.Join(out, "TriggersFn.v"), b.String())
}


// ---- archlinux: the fields of .PKGINFO - the map handed to writeKVPairs (written in key order) and the loops after it ----
func genPkginfoFields(repo, out string) {
	keys := yamlKeys(parseFile(filepath.Join(repo, "nfpm.go")))
	f := parseFile(filepath.Join(repo, "arch/arch.go"))
	c := &trCtx{known: map[string]string{}, blockKeys: keys}
	var fd, ds, kv, kvs *ast.FuncDecl
	for _, d := range f.Decls {
		if x, ok := d.(*ast.FuncDecl); ok && x.Body != nil {
			switch x.Name.Name {
			case "createPkginfo":
				fd = x
			case "defaultStr":
				ds = x
			case "writeKVPair":
				kv = x
			case "writeKVPairs":
				kvs = x
			}
		}
	}
	var b strings.Builder
	b.WriteString("(* GENERATED from /repo (arch/arch.go: createPkginfo, defaultStr, writeKVPair(s); internal/maps) on every run by translators/strfn.go (genPkginfoFields) - do not edit *)\n")
	b.WriteString("From Coq Require Import List String Bool NArith ZArith.\nFrom Coq Require Import Strings.Byte.\nFrom NfpmV Require Import Lib.Bytes Model.Content Model.Meta Proofs.PkginfoProofs.\nFrom NfpmV Require Import Gen.ArchPkgver.\nImport ListNotations.\nOpen Scope list_scope.\nOpen Scope bool_scope.\n\n")
	body := "[]"
	func() {
		if fd == nil || ds == nil || kv == nil || kvs == nil {
			c.fail("createPkginfo, defaultStr, writeKVPair or writeKVPairs is missing")
			return
		}
		// writeKVPair skips empty values: if value == "" { return nil }
		okSkip := false
		if is, ok := kv.Body.List[0].(*ast.IfStmt); ok {
			if be, ok := is.Cond.(*ast.BinaryExpr); ok && be.Op == token.EQL {
				if id, ok := be.X.(*ast.Ident); ok && id.Name == kv.Type.Params.List[1].Names[len(kv.Type.Params.List[1].Names)-1].Name {
					if s, ok := strLit(be.Y); ok && s == "" && len(is.Body.List) == 1 {
						_, okSkip = is.Body.List[0].(*ast.ReturnStmt)
					}
				}
			}
		}
		if !okSkip {
			c.fail("writeKVPair does not start by skipping an empty value")
			return
		}
		// writeKVPairs ranges over maps.Keys(pairs), and internal/maps.Keys sorts
		sorted := false
		if rs, ok := kvs.Body.List[0].(*ast.RangeStmt); ok {
			if ce, ok := rs.X.(*ast.CallExpr); ok {
				if se, ok := ce.Fun.(*ast.SelectorExpr); ok && se.Sel.Name == "Keys" {
					mf := parseFile(filepath.Join(repo, "internal/maps/maps.go"))
					ast.Inspect(mf, func(n ast.Node) bool {
						if ce, ok := n.(*ast.CallExpr); ok {
							if se, ok := ce.Fun.(*ast.SelectorExpr); ok && se.Sel.Name == "Strings" {
								if id, ok := se.X.(*ast.Ident); ok && id.Name == "sort" {
									sorted = true
								}
							}
						}
						return true
					})
				}
			}
		}
		if !sorted {
			c.fail("writeKVPairs does not write in the order of sorted keys")
			return
		}
		// defaultStr
		var dparams []string
		for _, fl := range ds.Type.Params.List {
			for _, n := range fl.Names {
				dparams = append(dparams, "(v_"+n.Name+" : str)")
			}
		}
		dc := &trCtx{}
		dbody := dc.stmts(ds.Body.List, "", "  ")
		if dc.err != "" {
			c.fail("defaultStr: %s", dc.err)
			return
		}
		fmt.Fprintf(&b, "Definition src_arch_defaultStr %s : str :=\n  %s.\n\n", strings.Join(dparams, " "), dbody)
		c.known["defaultStr"] = "src_arch_defaultStr"
		// locals of createPkginfo
		defs := map[string]ast.Expr{}
		for _, st := range fd.Body.List {
			if as, ok := st.(*ast.AssignStmt); ok && as.Tok == token.DEFINE && len(as.Lhs) == 1 && len(as.Rhs) == 1 {
				if id, ok := as.Lhs[0].(*ast.Ident); ok {
					defs[id.Name] = as.Rhs[0]
				}
			}
		}
		sizeParam := fd.Type.Params.List[len(fd.Type.Params.List)-1].Names[0].Name
		c.callHook = func(ce *ast.CallExpr) string {
			if se, ok := ce.Fun.(*ast.SelectorExpr); ok && se.Sel.Name == "FormatInt" && len(ce.Args) == 2 {
				if base, ok := ce.Args[1].(*ast.BasicLit); ok && base.Value == "10" {
					if id, ok := ce.Args[0].(*ast.Ident); ok && id.Name == sizeParam {
						return "(dec size)"
					}
					if in, ok := ce.Args[0].(*ast.CallExpr); ok && len(in.Args) == 0 {
						if s2, ok := in.Fun.(*ast.SelectorExpr); ok && s2.Sel.Name == "Unix" {
							if id, ok := s2.X.(*ast.Ident); ok && id.Name == "mtime" {
								return "(dec builddate)"
							}
						}
					}
				}
			}
			return ""
		}
		seen := map[string]bool{}
		c.identHook = func(name string) string {
			if name == "pkgver" {
				return "(src_arch_pkgver i arch)"
			}
			if e, ok := defs[name]; ok && !seen[name] {
				seen[name] = true
				v := c.expr(e)
				seen[name] = false
				return v
			}
			return ""
		}
		// the map literal
		var lit *ast.CompositeLit
		var loops []string
		for _, st := range fd.Body.List {
			ast.Inspect(st, func(n ast.Node) bool {
				if ce, ok := n.(*ast.CallExpr); ok {
					if id, ok := ce.Fun.(*ast.Ident); ok && id.Name == "writeKVPairs" && len(ce.Args) == 2 {
						lit, _ = ce.Args[1].(*ast.CompositeLit)
					}
				}
				return true
			})
			if rs, ok := st.(*ast.RangeStmt); ok && lit != nil {
				// for _, v := range info.X { err = writeKVPair(buf, "key", v) ... }
				se, ok := rs.X.(*ast.SelectorExpr)
				v, _ := rs.Value.(*ast.Ident)
				if !ok || v == nil {
					c.fail("a loop after the map that is not over a field of info")
					return
				}
				key, direct := "", false
				ast.Inspect(rs.Body, func(n ast.Node) bool {
					if ce, ok := n.(*ast.CallExpr); ok {
						if id, ok := ce.Fun.(*ast.Ident); ok && id.Name == "writeKVPair" && len(ce.Args) == 3 {
							key, _ = strLit(ce.Args[1])
							if a, ok := ce.Args[2].(*ast.Ident); ok && a.Name == v.Name {
								direct = true
							}
						}
					}
					return true
				})
				if se.Sel.Name == "Contents" {
					loops = append(loops, "flat_map (okf \""+key+"\") backups") // the values are Gen/BackupFn.v's
					continue
				}
				yk, ok := keys[se.Sel.Name]
				if key == "" || !direct || !ok || yk == "" {
					c.fail("a loop after the map outside the subset")
					return
				}
				loops = append(loops, "flat_map (okf \""+key+"\") (gl i \""+yk+"\"%string)")
			}
		}
		if lit == nil {
			c.fail("no writeKVPairs(buf, map literal)")
			return
		}
		type row struct{ k, v string }
		var rows []row
		for _, el := range lit.Elts {
			kvx, ok := el.(*ast.KeyValueExpr)
			if !ok {
				c.fail("map literal outside the subset")
				return
			}
			k, ok := strLit(kvx.Key)
			if !ok {
				c.fail("map key that is not a literal")
				return
			}
			rows = append(rows, row{k, c.expr(kvx.Value)})
		}
		sort.Slice(rows, func(a, b int) bool { return rows[a].k < rows[b].k })
		var parts []string
		for _, r := range rows {
			parts = append(parts, "okf \""+r.k+"\" "+r.v)
		}
		parts = append(parts, loops...)
		body = strings.Join(parts, "\n  ++ ")
	}()
	if c.err != "" {
		fmt.Fprintf(&b, "(* UNTRANSLATABLE - %s *)\nDefinition src_arch_info_fields (i : minfo) (arch : str) (size builddate : Z) (backups : list str) : list (str * str) := [].\nDefinition src_arch_info_fields_translated : bool := false.\n", c.err)
	} else {
		fmt.Fprintf(&b, "(* the (key, value) pairs written after the comment line, in order; empty values are skipped (okf) *)\nDefinition src_arch_info_fields (i : minfo) (arch : str) (size builddate : Z) (backups : list str) : list (str * str) :=\n  %s.\nDefinition src_arch_info_fields_translated : bool := true.\n", body)
	}
	writeIfChanged(filepath.Join(out, "PkginfoFields.v"), b.String())
}

// ---- deb: the effective signature type (member _gpg<type>): doSign's switch over the method, and the slices of
// debSign / dpkgSign that compute sigType and refuse it ----
func genSigType(repo, out string) {
	f := parseFile(filepath.Join(repo, "deb/deb.go"))
	fns := map[string]*ast.FuncDecl{}
	for _, d := range f.Decls {
		if x, ok := d.(*ast.FuncDecl); ok && x.Body != nil {
			fns[x.Name.Name] = x
		}
	}
	c := &trCtx{eqSeqb: true}
	c.sel = func(se *ast.SelectorExpr) string {
		// info.Deb.Signature.Type / .Method
		if in, ok := se.X.(*ast.SelectorExpr); ok && in.Sel.Name == "Signature" {
			switch se.Sel.Name {
			case "Type":
				return "typ"
			case "Method":
				return "method"
			}
		}
		return ""
	}
	slice := func(name string) string {
		fd := fns[name]
		if fd == nil {
			return c.fail("no function %s in deb/deb.go", name)
		}
		// statements that define or assign sigType, and ifs over sigType that return (a refusal)
		var out []string
		closeN := 0
		for _, st := range fd.Body.List {
			switch x := st.(type) {
			case *ast.AssignStmt:
				if len(x.Lhs) == 1 && len(x.Rhs) == 1 {
					if id, ok := x.Lhs[0].(*ast.Ident); ok && id.Name == "sigType" {
						out = append(out, "let v_sigType := "+c.expr(x.Rhs[0])+" in")
					}
				}
			case *ast.IfStmt:
				mentions, returns := false, false
				ast.Inspect(x.Cond, func(n ast.Node) bool {
					if id, ok := n.(*ast.Ident); ok && id.Name == "sigType" {
						mentions = true
					}
					return true
				})
				if len(x.Body.List) > 0 {
					_, returns = x.Body.List[len(x.Body.List)-1].(*ast.ReturnStmt)
				}
				assigns := false
				for _, v := range assigned(x.Body.List) {
					if v == "sigType" {
						assigns = true
					}
				}
				switch {
				case assigns && x.Init == nil && x.Else == nil && len(x.Body.List) == 1:
					as := x.Body.List[0].(*ast.AssignStmt)
					out = append(out, "let v_sigType := if "+c.cond(x.Cond)+" then "+c.expr(as.Rhs[0])+" else v_sigType in")
				case mentions && returns && x.Init == nil && x.Else == nil:
					out = append(out, "if "+c.cond(x.Cond)+" then None else (")
					closeN++
				case mentions || assigns:
					return c.fail("%s: a statement about sigType outside the subset", name)
				}
			}
		}
		if len(out) == 0 {
			return c.fail("%s computes no sigType", name)
		}
		return strings.Join(out, "\n  ") + "\n  Some v_sigType" + strings.Repeat(")", closeN)
	}
	deb, dpkg := slice("debSign"), slice("dpkgSign")
	// doSign: switch info.Deb.Signature.Method { case "dpkg-sig": return dpkgSign(...) default: return debSign(...) }
	dispatch := ""
	if fd := fns["doSign"]; fd != nil && len(fd.Body.List) == 1 {
		if sw, ok := fd.Body.List[0].(*ast.SwitchStmt); ok {
			tag := c.expr(sw.Tag)
			def, arms := "", ""
			for _, st := range sw.Body.List {
				cc := st.(*ast.CaseClause)
				callee := ""
				if len(cc.Body) == 1 {
					if r, ok := cc.Body[0].(*ast.ReturnStmt); ok && len(r.Results) == 1 {
						if ce, ok := r.Results[0].(*ast.CallExpr); ok {
							if id, ok := ce.Fun.(*ast.Ident); ok {
								callee = map[string]string{"debSign": "src_debsign_type typ", "dpkgSign": "src_dpkgsig_type typ"}[id.Name]
							}
						}
					}
				}
				if callee == "" {
					c.fail("doSign: a case that does not return debSign(...) or dpkgSign(...)")
					break
				}
				if cc.List == nil {
					def = callee
					continue
				}
				var conds []string
				for _, e := range cc.List {
					s, ok := strLit(e)
					if !ok {
						c.fail("doSign: case label that is not a literal")
					}
					conds = append(conds, "seqb "+tag+" "+coqStr(s))
				}
				arms += "if " + strings.Join(conds, " || ") + " then " + callee + " else "
			}
			if def == "" {
				c.fail("doSign: no default case")
			}
			dispatch = arms + def
		}
	}
	if dispatch == "" {
		c.fail("doSign is not one switch over the method")
	}
	var b strings.Builder
	b.WriteString("(* GENERATED from /repo (deb/deb.go: doSign, debSign, dpkgSign) on every run by translators/strfn.go (genSigType) - do not edit *)\n")
	b.WriteString("From Coq Require Import List String Bool.\nFrom Coq Require Import Strings.Byte.\nFrom NfpmV Require Import Lib.Bytes Model.Content Model.Meta.\nImport ListNotations.\nOpen Scope list_scope.\nOpen Scope bool_scope.\n\n")
	if c.err != "" {
		fmt.Fprintf(&b, "(* UNTRANSLATABLE - %s *)\nDefinition src_deb_effective_type (method typ : str) : option str := None.\nDefinition src_deb_effective_type_translated : bool := false.\n", c.err)
	} else {
		fmt.Fprintf(&b, "(* debSign: the statements about sigType; None is the refusal (ErrInvalidSignatureType) *)\nDefinition src_debsign_type (typ : str) : option str :=\n  %s.\n\n(* dpkgSign likewise *)\nDefinition src_dpkgsig_type (typ : str) : option str :=\n  %s.\n\n(* doSign *)\nDefinition src_deb_effective_type (method typ : str) : option str :=\n  %s.\nDefinition src_deb_effective_type_translated : bool := true.\n", deb, dpkg, dispatch)
	}
	writeIfChanged(filepath.Join(out, "SigType.v"), b.String())
}
