// Translators from /repo's sources to Coq tables (coq/Gen/*.v). Standard library only.
package main

import (
	"fmt"
	"go/ast"
	"go/parser"
	"go/token"
	"os"
	"path/filepath"
	"sort"
	"strconv"
	"strings"
)

func must(err error) {
	if err != nil {
		fmt.Fprintln(os.Stderr, "translator:", err)
		os.Exit(1)
	}
}

// coqStr renders a Go string as a Coq term of type [list byte] via [B "..."]; bytes outside
// printable ASCII (and the double quote) are emitted through explicit byte lists.
func coqStr(s string) string {
	plain := true
	for i := 0; i < len(s); i++ {
		if s[i] < 32 || s[i] > 126 || s[i] == '"' {
			plain = false
		}
	}
	if plain {
		return `(B "` + s + `")`
	}
	var parts []string
	for i := 0; i < len(s); i++ {
		parts = append(parts, fmt.Sprintf("x%02x", s[i]))
	}
	return "[" + strings.Join(parts, "; ") + "]%byte"
}

func writeIfChanged(path, content string) {
	old, err := os.ReadFile(path)
	if err == nil && string(old) == content {
		return
	}
	must(os.MkdirAll(filepath.Dir(path), 0o755))
	must(os.WriteFile(path, []byte(content), 0o644))
}

func parseFile(path string) *ast.File {
	f, err := parser.ParseFile(token.NewFileSet(), path, nil, parser.ParseComments)
	must(err)
	return f
}

// topLevelVar returns the value expression of a package-level var
func topLevelVar(f *ast.File, name string) ast.Expr {
	for _, d := range f.Decls {
		gd, ok := d.(*ast.GenDecl)
		if !ok || gd.Tok != token.VAR {
			continue
		}
		for _, sp := range gd.Specs {
			vs := sp.(*ast.ValueSpec)
			for i, n := range vs.Names {
				if n.Name == name && i < len(vs.Values) {
					return vs.Values[i]
				}
			}
		}
	}
	return nil
}

func strLit(e ast.Expr) (string, bool) {
	bl, ok := e.(*ast.BasicLit)
	if !ok || bl.Kind != token.STRING {
		return "", false
	}
	s, err := strconv.Unquote(bl.Value)
	if err != nil {
		return "", false
	}
	return s, true
}

func stringSlice(f *ast.File, name string) []string {
	return stringSliceExpr(f, name, topLevelVar(f, name), 0)
}

// a slice of string literals, or append(x, y...) / append(x, "lit", ...) / slices.Concat(x, y) of such slices
// named at package level (the tables are sometimes assembled from parts)
func stringSliceExpr(f *ast.File, name string, e ast.Expr, depth int) []string {
	if depth > 8 {
		must(fmt.Errorf("%s: definition too deep", name))
	}
	switch x := e.(type) {
	case *ast.CompositeLit:
		var out []string
		for _, el := range x.Elts {
			s, ok := strLit(el)
			if !ok {
				must(fmt.Errorf("%s: non-literal element", name))
			}
			out = append(out, s)
		}
		return out
	case *ast.Ident:
		return stringSliceExpr(f, x.Name, topLevelVar(f, x.Name), depth+1)
	case *ast.ParenExpr:
		return stringSliceExpr(f, name, x.X, depth+1)
	case *ast.CallExpr:
		fn := ""
		switch c := x.Fun.(type) {
		case *ast.Ident:
			fn = c.Name
		case *ast.SelectorExpr:
			if id, ok := c.X.(*ast.Ident); ok {
				fn = id.Name + "." + c.Sel.Name
			}
		}
		if (fn == "append" || fn == "slices.Concat") && len(x.Args) >= 1 {
			var out []string
			for i, a := range x.Args {
				if s, ok := strLit(a); ok && fn == "append" && i > 0 {
					out = append(out, s)
					continue
				}
				out = append(out, stringSliceExpr(f, name, a, depth+1)...)
			}
			return out
		}
	}
	must(fmt.Errorf("%s: not a composite literal (nor an append / slices.Concat of such)", name))
	return nil
}

func stringMap(f *ast.File, name string) [][2]string {
	e := topLevelVar(f, name)
	cl, ok := e.(*ast.CompositeLit)
	if !ok {
		must(fmt.Errorf("%s: not a composite literal", name))
	}
	var out [][2]string
	for _, el := range cl.Elts {
		kv, ok := el.(*ast.KeyValueExpr)
		if !ok {
			must(fmt.Errorf("%s: element is not key: value", name))
		}
		k, ok1 := strLit(kv.Key)
		v, ok2 := strLit(kv.Value)
		if !ok1 || !ok2 {
			must(fmt.Errorf("%s: non-literal key or value", name))
		}
		out = append(out, [2]string{k, v})
	}
	sort.Slice(out, func(i, j int) bool { return out[i][0] < out[j][0] })
	return out
}

const header = "(* GENERATED from /repo on every run by translators/ - do not edit *)\nFrom Coq Require Import List String.\nFrom Coq Require Import Strings.Byte.\nFrom NfpmV Require Import Lib.Bytes Model.Content.\nImport ListNotations.\n\n"

func coqStrList(l []string) string {
	var parts []string
	for _, s := range l {
		parts = append(parts, "  "+coqStr(s))
	}
	return "[\n" + strings.Join(parts, ";\n") + "\n]"
}

func coqPairList(l [][2]string) string {
	var parts []string
	for _, kv := range l {
		parts = append(parts, "  ("+coqStr(kv[0])+", "+coqStr(kv[1])+")")
	}
	if len(parts) == 0 {
		return "[]"
	}
	return "[\n" + strings.Join(parts, ";\n") + "\n]"
}

func genFsPaths(repo, out string) {
	f := parseFile(filepath.Join(repo, "files/fs.go"))
	fsPaths := stringSlice(f, "fsPaths")
	logrotate := stringSlice(f, "logrotatePaths")
	var b strings.Builder
	b.WriteString(header)
	b.WriteString("Definition fs_paths : list str := " + coqStrList(fsPaths) + ".\n\n")
	b.WriteString("Definition logrotate_paths : list str := " + coqStrList(logrotate) + ".\n\n")
	b.WriteString("Definition owned_paths : list str := fs_paths ++ logrotate_paths.\n")
	writeIfChanged(filepath.Join(out, "FsPaths.v"), b.String())
}

func main() {
	if len(os.Args) < 3 {
		fmt.Fprintln(os.Stderr, "usage: gen <repo> <outdir>")
		os.Exit(2)
	}
	repo, out := os.Args[1], os.Args[2]
	genFsPaths(repo, out)
	genNondetSites(repo, out)
	genArchTables(repo, out)
	genScriptSlots(repo, out)
	genRpmFlags(repo, out)
	genStrFns(repo, out)
	genArchFns(repo, out)
	genBoolFns(repo, out)
	genPathFns(repo, out)
	genExpandSites(repo, out)
	genWithDefaults(repo, out)
	genListFns(repo, out)
	genBackupFn(repo, out)
	genQuoteFn(repo, out)
	genMtreeLine(repo, out)
	genArchPkgver(repo, out)
	genTriggersFn(repo, out)
	genPkginfoFields(repo, out)
	genSigType(repo, out)
}
