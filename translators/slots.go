package main

// Script wiring (C09): which configured script each packager puts into which slot of its package, read off
// the packagers' sources. Syntactic (go/ast only): five code shapes are recognised, one per packager; a wiring
// written in another shape yields a table that no longer equals the model's, which is a broken obligation.

import (
	"fmt"
	"go/ast"
	"path/filepath"
	"strings"
)

// scriptEvent: info.Scripts.PreInstall -> "preinstall", info.Deb.Scripts.Rules -> "deb.rules",
// info.APK.Scripts.PreUpgrade -> "apk.preupgrade"; "" when the expression is not such a selector.
func scriptEvent(e ast.Expr) string {
	var chain []string
	for {
		se, ok := e.(*ast.SelectorExpr)
		if !ok {
			break
		}
		chain = append([]string{se.Sel.Name}, chain...)
		e = se.X
	}
	id, ok := e.(*ast.Ident)
	if !ok || id.Name != "info" {
		return ""
	}
	switch {
	case len(chain) == 2 && chain[0] == "Scripts":
		return strings.ToLower(chain[1])
	case len(chain) == 3 && chain[1] == "Scripts":
		return strings.ToLower(chain[0]) + "." + strings.ToLower(chain[2])
	}
	return ""
}

func fieldOf(cl *ast.CompositeLit, name string) ast.Expr {
	for _, el := range cl.Elts {
		if kv, ok := el.(*ast.KeyValueExpr); ok {
			if id, ok := kv.Key.(*ast.Ident); ok && id.Name == name {
				return kv.Value
			}
		}
	}
	return nil
}

func scriptSlots(path string) [][2]string {
	f := parseFile(path)
	var out [][2]string
	add := func(ev, slot string) {
		if ev != "" {
			out = append(out, [2]string{ev, slot})
		}
	}
	ast.Inspect(f, func(n ast.Node) bool {
		switch x := n.(type) {
		case *ast.KeyValueExpr:
			if k, ok := strLit(x.Key); ok {
				// "<slot>": info.Scripts.X   (apk)
				add(scriptEvent(x.Value), k)
				// "<slot>": {fileName: info.Scripts.X, ...}   (deb)
				if cl, ok := x.Value.(*ast.CompositeLit); ok {
					if fn := fieldOf(cl, "fileName"); fn != nil {
						add(scriptEvent(fn), k)
					}
				}
			}
		case *ast.CompositeLit:
			// {Destination: "<slot>", Source: info.Scripts.X, ...}   (ipk)
			if d := fieldOf(x, "Destination"); d != nil {
				if slot, ok := strLit(d); ok {
					if s := fieldOf(x, "Source"); s != nil {
						add(scriptEvent(s), slot)
					}
				}
			}
		case *ast.AssignStmt:
			// scripts["<slot>"] = info.Scripts.X   (archlinux)
			if len(x.Lhs) == 1 && len(x.Rhs) == 1 {
				if ix, ok := x.Lhs[0].(*ast.IndexExpr); ok {
					if slot, ok := strLit(ix.Index); ok {
						add(scriptEvent(x.Rhs[0]), slot)
					}
				}
			}
		case *ast.IfStmt:
			// if info.Scripts.X != "" { data := os.ReadFile(info.Scripts.X) ... rpm.Add<Slot>(...) }   (rpm)
			var read, slot string
			for _, st := range x.Body.List {
				ast.Inspect(st, func(m ast.Node) bool {
					if _, nested := m.(*ast.IfStmt); nested {
						return false // the error check inside; a nested wiring is reported by its own IfStmt
					}
					ce, ok := m.(*ast.CallExpr)
					if !ok {
						return true
					}
					if se, ok := ce.Fun.(*ast.SelectorExpr); ok {
						if se.Sel.Name == "ReadFile" && len(ce.Args) == 1 {
							read = scriptEvent(ce.Args[0])
						}
						if strings.HasPrefix(se.Sel.Name, "Add") && len(se.Sel.Name) > 3 {
							if id, ok := se.X.(*ast.Ident); ok && id.Name == "rpm" {
								slot = strings.TrimSuffix(strings.ToLower(strings.TrimPrefix(se.Sel.Name, "Add")), "script")
							}
						}
					}
					return true
				})
			}
			if read != "" && slot != "" {
				add(read, slot)
			}
		}
		return true
	})
	return out
}

func genScriptSlots(repo, out string) {
	var b strings.Builder
	b.WriteString("(* GENERATED from /repo on every run by translators/slots.go - do not edit *)\n")
	b.WriteString("From Coq Require Import List String.\nFrom Coq Require Import Strings.Byte.\nFrom NfpmV Require Import Lib.Bytes Model.Content.\nImport ListNotations.\n\n")
	for _, p := range []struct{ name, file string }{{"deb", "deb/deb.go"}, {"ipk", "ipk/ipk.go"}, {"rpm", "rpm/rpm.go"}, {"apk", "apk/apk.go"}, {"arch", "arch/arch.go"}} {
		pairs := scriptSlots(filepath.Join(repo, p.file))
		fmt.Fprintf(&b, "(* %s: %d wirings found *)\nDefinition wired_%s : list (str * str) := [", p.file, len(pairs), p.name)
		for i, pr := range pairs {
			if i > 0 {
				b.WriteString(";")
			}
			fmt.Fprintf(&b, "\n  (%s, %s)", coqStr(pr[0]), coqStr(pr[1]))
		}
		b.WriteString("].\n\n")
	}
	writeIfChanged(filepath.Join(out, "ScriptSlots.v"), b.String())
}
