package main

// rpm file flags (C08): the switch in rpm/rpm.go that gives every content type its RPMFILE flags, with the
// flag values taken from the rpmpack module the repository builds against (its const block, 1<<iota>>1).

import (
	"fmt"
	"go/ast"
	"go/token"
	"os/exec"
	"path/filepath"
	"strings"
)

// stringConsts: the package-level string constants of a file (TypeConfig = "config" ...)
func stringConsts(f *ast.File) map[string]string {
	out := map[string]string{}
	for _, d := range f.Decls {
		gd, ok := d.(*ast.GenDecl)
		if !ok || gd.Tok != token.CONST {
			continue
		}
		for _, sp := range gd.Specs {
			vs := sp.(*ast.ValueSpec)
			for i, n := range vs.Names {
				if i < len(vs.Values) {
					if s, ok := strLit(vs.Values[i]); ok {
						out[n.Name] = s
					}
				}
			}
		}
	}
	return out
}

// iotaFlags: the names of the const block that starts with "<Name> FileType = 1 << iota >> 1", valued 0, 1, 2, 4 ...
func iotaFlags(f *ast.File) map[string]uint64 {
	out := map[string]uint64{}
	for _, d := range f.Decls {
		gd, ok := d.(*ast.GenDecl)
		if !ok || gd.Tok != token.CONST || len(gd.Specs) == 0 {
			continue
		}
		first := gd.Specs[0].(*ast.ValueSpec)
		if len(first.Values) != 1 {
			continue
		}
		// (1 << iota) >> 1
		outer, ok := first.Values[0].(*ast.BinaryExpr)
		if !ok || outer.Op != token.SHR {
			continue
		}
		inner, ok := outer.X.(*ast.BinaryExpr)
		if !ok || inner.Op != token.SHL {
			continue
		}
		if id, ok := inner.Y.(*ast.Ident); !ok || id.Name != "iota" {
			continue
		}
		for i, sp := range gd.Specs {
			vs := sp.(*ast.ValueSpec)
			if i > 0 && len(vs.Values) != 0 {
				return out // an explicit value later in the block: not the shape this reads
			}
			for _, n := range vs.Names {
				out[n.Name] = (uint64(1) << uint(i)) >> 1
			}
		}
	}
	return out
}

func flagValue(e ast.Expr, flags map[string]uint64) (uint64, bool) {
	switch x := e.(type) {
	case *ast.SelectorExpr:
		v, ok := flags[x.Sel.Name]
		return v, ok
	case *ast.BinaryExpr:
		if x.Op == token.OR {
			a, ok1 := flagValue(x.X, flags)
			b, ok2 := flagValue(x.Y, flags)
			return a | b, ok1 && ok2
		}
	case *ast.ParenExpr:
		return flagValue(x.X, flags)
	}
	return 0, false
}

func genRpmFlags(repo, out string) {
	cmd := exec.Command("go", "list", "-m", "-f", "{{.Dir}}", "github.com/google/rpmpack")
	cmd.Dir = repo
	dirB, err := cmd.Output()
	must(err)
	flags := iotaFlags(parseFile(filepath.Join(strings.TrimSpace(string(dirB)), "file_types.go")))
	types := stringConsts(parseFile(filepath.Join(repo, "files/files.go")))
	f := parseFile(filepath.Join(repo, "rpm/rpm.go"))
	var rows [][2]string
	def := "None"
	ast.Inspect(f, func(n ast.Node) bool {
		sw, ok := n.(*ast.SwitchStmt)
		if !ok {
			return true
		}
		// switch content.Type { ... }
		if se, ok := sw.Tag.(*ast.SelectorExpr); !ok || se.Sel.Name != "Type" {
			return true
		}
		for _, st := range sw.Body.List {
			cc := st.(*ast.CaseClause)
			val := ""
			ast.Inspect(cc, func(m ast.Node) bool {
				ce, ok := m.(*ast.CallExpr)
				if !ok {
					return true
				}
				if id, ok := ce.Fun.(*ast.Ident); ok && id.Name == "asRPMFile" && len(ce.Args) == 2 {
					if v, ok := flagValue(ce.Args[1], flags); ok {
						val = fmt.Sprint(v)
					} else {
						val = "unreadable"
					}
				}
				return true
			})
			if val == "" {
				continue // links, directories, implied directories: no file flags
			}
			if cc.List == nil {
				def = "(Some " + val + "%N)"
				continue
			}
			for _, e := range cc.List {
				name := ""
				if se, ok := e.(*ast.SelectorExpr); ok {
					name = types[se.Sel.Name]
				} else if s, ok := strLit(e); ok {
					name = s
				}
				rows = append(rows, [2]string{name, val})
			}
		}
		return true
	})
	var b strings.Builder
	b.WriteString("(* GENERATED from /repo (rpm/rpm.go, files/files.go) and the rpmpack module it builds against, on every run, by translators/rpmflags.go - do not edit *)\n")
	b.WriteString("From Coq Require Import List String NArith.\nFrom Coq Require Import Strings.Byte.\nFrom NfpmV Require Import Lib.Bytes Model.Content.\nImport ListNotations.\n\n")
	b.WriteString("(* content type -> RPMFILE flags handed to asRPMFile, one row per case of the switch *)\nDefinition rpm_type_flags : list (str * N) := [")
	for i, r := range rows {
		if i > 0 {
			b.WriteString(";")
		}
		fmt.Fprintf(&b, "\n  (%s, %s%%N)", coqStr(r[0]), r[1])
	}
	b.WriteString("].\n\n(* the default branch *)\nDefinition rpm_default_flags : option N := " + def + ".\n")
	writeIfChanged(filepath.Join(out, "RpmFlags.v"), b.String())
}
