(* Correspondence driver: reads the case file written by the Go harness (inputs, oracle answers,
   the implementation's projected observation), runs the extracted Coq model and the extracted
   boolean property checkers, prints one verdict line per case. *)
open Model

let explode (s : string) : char list = List.init (String.length s) (String.get s)
let implode (l : char list) : string = String.of_seq (List.to_seq l)

let unhex (tok : string) : char list =
  (* tok = "x" ^ hex *)
  let n = (String.length tok - 1) / 2 in
  List.init n (fun i -> Char.chr (int_of_string ("0x" ^ String.sub tok (1 + 2 * i) 2)))

let hex (l : char list) : string =
  "x" ^ String.concat "" (List.map (fun c -> Printf.sprintf "%02x" (Char.code c)) l)

let rec pos_of_int (i : int) : positive =
  if i = 1 then XH else if i land 1 = 0 then XO (pos_of_int (i lsr 1)) else XI (pos_of_int (i lsr 1))
let n_of_int (i : int) : n = if i = 0 then N0 else Npos (pos_of_int i)
let z_of_int (i : int) : z = if i = 0 then Z0 else if i > 0 then Zpos (pos_of_int i) else Zneg (pos_of_int (-i))
let rec int_of_pos = function XH -> 1 | XO p -> 2 * int_of_pos p | XI p -> 2 * int_of_pos p + 1
let int_of_n = function N0 -> 0 | Npos p -> int_of_pos p
let int_of_z = function Z0 -> 0 | Zpos p -> int_of_pos p | Zneg p -> - (int_of_pos p)

let nt s = n_of_int (int_of_string s)
let zt s = z_of_int (int_of_string s)

let err_of_string = function
  | "collision" -> ECollision | "notexist" -> ENotExist | "globnomatch" -> EGlobNoMatch
  | "globother" -> EGlobOther | "invalidtype" -> EInvalidType | "walk" -> EWalk
  | "rel" -> ERel | _ -> EGlobOther
let string_of_err = function
  | ECollision -> "collision" | ENotExist -> "notexist" | EGlobNoMatch -> "globnomatch"
  | EGlobOther -> "globother" | EInvalidType -> "invalidtype" | EWalk -> "walk"
  | ERel -> "rel" | EFuel -> "fuel"

let clause_name = function
  | CUnique -> "unique" | CSorted -> "sorted" | CShape -> "shape" | CDoubleRoot -> "double-root"
  | CParents -> "parents" | CLocationUnique -> "location-unique" | CBeneathNonDir -> "beneath-nondir"
  | CRelevant -> "relevant" | CPlaced -> "placed" | CCollisionSound -> "collision-sound"
  | CErrorSound -> "error-sound" | CUnstable -> "unstable"

let content_of_toks (t : string array) (o : int) : content =
  (* src dst typ pkgr hasfi owner group mode mtime size *)
  let fi =
    if t.(o + 4) = "1" then
      Some { fi_owner = unhex t.(o + 5); fi_group = unhex t.(o + 6); fi_mode = nt t.(o + 7);
             fi_mtime = zt t.(o + 8); fi_size = zt t.(o + 9) }
    else None in
  { c_src = unhex t.(o); c_dst = unhex t.(o + 1); c_typ = unhex t.(o + 2); c_pkgr = unhex t.(o + 3); c_fi = fi }

let show_content (c : content) : string =
  let f = match c.c_fi with Some f -> f | None -> fi_empty in
  Printf.sprintf "%s %s %s %s %s %s %d %d %d" (hex c.c_src) (hex c.c_dst) (hex c.c_typ) (hex c.c_pkgr)
    (hex f.fi_owner) (hex f.fi_group) (int_of_n f.fi_mode) (int_of_z f.fi_mtime) (int_of_z f.fi_size)

let show_result = function
  | Err e -> "err " ^ string_of_err e
  | Ok cs -> "ok " ^ String.concat " | " (List.map show_content cs)

(* ---------- C05 ---------- *)
type c05_entry = { mutable e_c : content; mutable e_glob : gans; mutable e_matches : gmatch list;
                   mutable e_walk : wans; mutable e_items : witem list;
                   mutable e_gok : (char list * bool) option; mutable e_wok : bool }

let run_c05 (ic : in_channel) =
  let id = ref "" and umask = ref N0 and packager = ref [] and mtime = ref Z0 in
  let entries : c05_entry list ref = ref [] in
  let stats_tbl = ref [] in
  let impl : content list result option ref = ref None in
  let impl_out = ref [] in
  let unstable = ref false in
  let n_cases = ref 0 and n_dis = ref 0 and n_fail = ref 0 and n_env = ref 0 in
  let finish_entry e =
    (match e.e_gok with
     | Some (pat, lcp) -> e.e_glob <- GOk (pat, List.rev e.e_matches, lcp)
     | None -> ());
    if e.e_wok then e.e_walk <- WOk (List.rev e.e_items) in
  let path_fail = ref 0 and path_n = ref 0 in
  (try
     while true do
       let line = input_line ic in
       let t = Array.of_list (String.split_on_char ' ' line) in
       match t.(0) with
       | "path" ->
         incr path_n;
         let s = unhex t.(1) in
         let ok = norm_file s = unhex t.(2) && norm_dir s = unhex t.(3) && as_rel s = unhex t.(4)
                  && as_explicit_rel s = unhex t.(5) && to_nix s = unhex t.(6) in
         if not ok then begin
           incr path_fail;
           Printf.printf "PATH %s DISAGREE model=%s,%s,%s,%s,%s impl=%s,%s,%s,%s,%s\n" t.(1)
             (hex (norm_file s)) (hex (norm_dir s)) (hex (as_rel s)) (hex (as_explicit_rel s)) (hex (to_nix s))
             t.(2) t.(3) t.(4) t.(5) t.(6)
         end
       | "case" ->
         id := t.(1); entries := []; stats_tbl := []; impl := None; impl_out := []; unstable := false
       | "umask" -> umask := nt t.(1)
       | "packager" -> packager := unhex t.(1)
       | "mtime" -> mtime := zt t.(1)
       | "noglob" -> ()
       | "entry" ->
         entries := { e_c = content_of_toks t 1; e_glob = GErr EGlobOther; e_matches = []; e_walk = WErr EWalk;
                      e_items = []; e_gok = None; e_wok = false } :: !entries
       | "glob" ->
         let e = List.hd !entries in
         if t.(1) = "err" then e.e_glob <- GErr (err_of_string t.(2))
         else e.e_gok <- Some (unhex t.(2), t.(3) = "1")
       | "match" ->
         let e = List.hd !entries in
         e.e_matches <- { gm_src = unhex t.(1); gm_isdir = (t.(2) = "1");
                          gm_readlink = (if t.(3) = "1" then Some (unhex t.(4)) else None) } :: e.e_matches
       | "walk" ->
         let e = List.hd !entries in
         if t.(1) = "err" then e.e_walk <- WErr (err_of_string t.(2)) else e.e_wok <- true
       | "wdir" -> let e = List.hd !entries in e.e_items <- WDir (unhex t.(1), nt t.(2), zt t.(3)) :: e.e_items
       | "wlink" -> let e = List.hd !entries in e.e_items <- WLink (unhex t.(1), unhex t.(2)) :: e.e_items
       | "wfile" -> let e = List.hd !entries in e.e_items <- WFile (unhex t.(1), nt t.(2)) :: e.e_items
       | "stat" ->
         stats_tbl := (unhex t.(1), { st_mode = nt t.(2); st_mtime = zt t.(3); st_size = zt t.(4) }) :: !stats_tbl
       | "unstable" -> unstable := true
       | "impl" -> if t.(1) = "err" then impl := Some (Err (err_of_string t.(2))) else impl := Some (Ok [])
       | "out" -> impl_out := content_of_toks t 1 :: !impl_out
       | "end" ->
         incr n_cases;
         List.iter finish_entry !entries;
         let ces = List.rev_map (fun e -> (e.e_c, { eo_glob = e.e_glob; eo_walk = e.e_walk })) !entries in
         let impl_r = match !impl with
           | Some (Ok _) -> Ok (List.rev !impl_out)
           | Some (Err e) -> Err e
           | None -> Err EGlobOther in
         let in_env = oracle_okb owned_paths !stats_tbl !umask !mtime ces in
         if not in_env then incr n_env;
         let model_r = prep owned_paths !stats_tbl ces !umask !packager !mtime in
         let agree = (model_r = impl_r) in
         let clauses = check_C05 owned_paths !packager ces impl_r in
         let clauses = if !unstable then CUnstable :: clauses else clauses in
         let mclauses = check_C05 owned_paths !packager ces model_r in
         if not agree then incr n_dis;
         if clauses <> [] then incr n_fail;
         if (not agree) || clauses <> [] || mclauses <> [] then begin
           Printf.printf "CASE %s %s impl_fails=[%s] model_fails=[%s]\n" !id
             (if agree then "agree" else "DISAGREE")
             (String.concat "," (List.map clause_name clauses))
             (String.concat "," (List.map clause_name mclauses));
           if not agree then
             Printf.printf "  model: %s\n  impl:  %s\n" (show_result model_r) (show_result impl_r)
         end
       | "" -> ()
       | other -> failwith ("unknown line: " ^ other)
     done
   with End_of_file -> ());
  Printf.printf "SUMMARY cases=%d disagreements=%d impl_failures=%d path_cases=%d path_disagreements=%d outside_envelope=%d\n"
    !n_cases !n_dis !n_fail !path_n !path_fail !n_env

let () =
  match Sys.argv with
  | [| _; "C05"; file |] -> let ic = open_in file in run_c05 ic; close_in ic
  | _ -> prerr_endline "usage: driver <property> <casefile>"; exit 2
