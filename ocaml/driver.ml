(* Correspondence driver: reads the case file written by the Go harness (inputs, oracle answers,
   the implementation's projected observation), runs the extracted Coq model and the extracted
   boolean property checkers, prints one verdict line per problematic case and a SUMMARY line. *)
open Model

let explode (s : string) : char list = List.init (String.length s) (String.get s)
let implode (l : char list) : string = String.of_seq (List.to_seq l)

let unhex (tok : string) : char list =
  let n = (String.length tok - 1) / 2 in
  List.init n (fun i -> Char.chr (int_of_string ("0x" ^ String.sub tok (1 + 2 * i) 2)))
let unhexs (tok : string) : string = implode (unhex tok)

let hex (l : char list) : string =
  "x" ^ String.concat "" (List.map (fun c -> Printf.sprintf "%02x" (Char.code c)) l)

let rec pos_of_int (i : int) : positive =
  if i = 1 then XH else if i land 1 = 0 then XO (pos_of_int (i lsr 1)) else XI (pos_of_int (i lsr 1))
let n_of_int (i : int) : n = if i <= 0 then N0 else Npos (pos_of_int i)
let z_of_int (i : int) : z = if i = 0 then Z0 else if i > 0 then Zpos (pos_of_int i) else Zneg (pos_of_int (-i))
let rec int_of_pos = function XH -> 1 | XO p -> 2 * int_of_pos p | XI p -> 2 * int_of_pos p + 1
let int_of_n = function N0 -> 0 | Npos p -> int_of_pos p
let int_of_z = function Z0 -> 0 | Zpos p -> int_of_pos p | Zneg p -> - (int_of_pos p)

let nt s = n_of_int (int_of_string s)
let zt s = z_of_int (int_of_string s)

let err_of_string = function
  | "collision" -> ECollision | "notexist" -> ENotExist | "globnomatch" -> EGlobNoMatch
  | "globother" -> EGlobOther | "invalidtype" -> EInvalidType | "walk" -> EWalk
  | "rel" -> ERel | _ -> EGlobOther
let string_of_err = function
  | ECollision -> "collision" | ENotExist -> "notexist" | EGlobNoMatch -> "globnomatch"
  | EGlobOther -> "globother" | EInvalidType -> "invalidtype" | EWalk -> "walk"
  | ERel -> "rel" | EFuel -> "fuel"

let clause_name = function
  | CUnique -> "unique" | CSorted -> "sorted" | CShape -> "shape" | CDoubleRoot -> "double-root"
  | CParents -> "parents" | CLocationUnique -> "location-unique" | CBeneathNonDir -> "beneath-nondir"
  | CRelevant -> "relevant" | CPlaced -> "placed" | CCollisionSound -> "collision-sound"
  | CErrorSound -> "error-sound" | CUnstable -> "unstable"

let content_of_toks (t : string array) (o : int) : content =
  let fi =
    if t.(o + 4) = "1" then
      Some { fi_owner = unhex t.(o + 5); fi_group = unhex t.(o + 6); fi_mode = nt t.(o + 7);
             fi_mtime = zt t.(o + 8); fi_size = zt t.(o + 9) }
    else None in
  { c_src = unhex t.(o); c_dst = unhex t.(o + 1); c_typ = unhex t.(o + 2); c_pkgr = unhex t.(o + 3); c_fi = fi }

let show_content (c : content) : string =
  let f = match c.c_fi with Some f -> f | None -> fi_empty in
  Printf.sprintf "%s %s %s %s %s %s %d %d %d" (hex c.c_src) (hex c.c_dst) (hex c.c_typ) (hex c.c_pkgr)
    (hex f.fi_owner) (hex f.fi_group) (int_of_n f.fi_mode) (int_of_z f.fi_mtime) (int_of_z f.fi_size)

let show_result = function
  | Err e -> "err " ^ string_of_err e
  | Ok cs -> "ok " ^ String.concat " | " (List.map show_content cs)

(* ---------- a parsed case ---------- *)
type entry = { e_c : content; mutable e_glob : gans; mutable e_matches : gmatch list;
               mutable e_walk : wans; mutable e_items : witem list;
               mutable e_gok : (char list * bool) option; mutable e_wok : bool }

type oent = { o_path : string; o_kind : string; o_mode : int; o_uname : string; o_gname : string; o_mtime : int;
              o_size : int; o_sha256 : string; o_link : string; o_pax : string; o_flags : int; o_inpayload : bool; o_format : string; o_md5 : string }

type case = {
  mutable id : string; mutable format : string;
  mutable umask : n; mutable packager : char list; mutable mtime : z;
  mutable entries : entry list;           (* reversed while reading *)
  mutable stats_tbl : (char list * stat) list;
  mutable hashes : (char list * char list) list;  (* path -> sha256 hex *)
  mutable fsizes : (string * int) list;
  mutable impl_err : string option;       (* Some class *)
  mutable impl_ok : bool;
  mutable impl_out : content list;        (* reversed *)
  mutable unstable : bool;
  mutable info : (string * string) list;  (* reversed *)
  mutable nums : (string * int) list;
  mutable lists : (string * string) list; (* reversed: key, item *)
  mutable fields : (string * string * string) list;
  mutable scripts : (string * string * bool * string) list; (* slot, path, readable, bytes *)
  mutable members : (string * int * int) list;
  mutable pents : oent list; mutable cents : oent list;
  mutable meta : (string * string) list;
  mutable hasconffiles : bool; mutable conffiles : string list;
  mutable oscripts : (string * string * int) list;
  mutable digests : (string * string * string) list;
  mutable sizes : (string * int * int) list;
  mutable stamps : (string * int) list;
  mutable structs : (string * bool) list;
  mutable md5sums : (string * string) list;
  mutable mtree : (string * string * string * string * string) list;
  mutable triggers : string; mutable install : string option; mutable rawmeta : string option;
  mutable filename : string; mutable decode_err : string option; mutable notes : string list;
  mutable extra : (string * string array) list;  (* property-specific lines, reversed *)
}

let new_case () = {
  id = ""; format = ""; umask = N0; packager = []; mtime = Z0; entries = []; stats_tbl = []; hashes = []; fsizes = [];
  impl_err = None; impl_ok = false; impl_out = []; unstable = false; info = []; nums = []; lists = []; fields = [];
  scripts = []; members = []; pents = []; cents = []; meta = []; hasconffiles = false; conffiles = []; oscripts = [];
  digests = []; sizes = []; stamps = []; structs = []; md5sums = []; mtree = []; triggers = ""; install = None; rawmeta = None;
  filename = ""; decode_err = None; notes = []; extra = [] }

let finish_entry e =
  (match e.e_gok with
   | Some (pat, lcp) -> e.e_glob <- GOk (pat, List.rev e.e_matches, lcp)
   | None -> ());
  if e.e_wok then e.e_walk <- WOk (List.rev e.e_items)

let oent_of t = { o_path = unhexs t.(1); o_kind = unhexs t.(2); o_mode = int_of_string t.(3); o_uname = unhexs t.(4);
                  o_gname = unhexs t.(5); o_mtime = int_of_string t.(6); o_size = int_of_string t.(7); o_sha256 = unhexs t.(8);
                  o_link = unhexs t.(9); o_pax = unhexs t.(10); o_flags = int_of_string t.(11); o_inpayload = (t.(12) = "1");
                  o_format = unhexs t.(13); o_md5 = (if Array.length t > 14 then unhexs t.(14) else "") }

(* iterate over the cases of a file; [on_path] handles the C05 path lines *)
let iter_cases (ic : in_channel) (on_path : string array -> unit) (f : case -> unit) =
  let c = ref (new_case ()) in
  (try
     while true do
       let line = input_line ic in
       let t = Array.of_list (String.split_on_char ' ' line) in
       let cur = !c in
       let last_entry () = List.hd cur.entries in
       match t.(0) with
       | "path" -> on_path t
       | "case" -> c := new_case (); !c.id <- t.(1)
       | "pcase" -> c := new_case (); !c.id <- t.(1); !c.format <- unhexs t.(2); !c.packager <- unhex t.(2)
       | "umask" -> cur.umask <- nt t.(1)
       | "packager" -> cur.packager <- unhex t.(1)
       | "mtime" -> cur.mtime <- zt t.(1)
       | "noglob" -> ()
       | "entry" ->
         cur.entries <- { e_c = content_of_toks t 1; e_glob = GErr EGlobOther; e_matches = []; e_walk = WErr EWalk;
                          e_items = []; e_gok = None; e_wok = false } :: cur.entries
       | "glob" ->
         let e = last_entry () in
         if t.(1) = "err" then e.e_glob <- GErr (err_of_string t.(2)) else e.e_gok <- Some (unhex t.(2), t.(3) = "1")
       | "match" ->
         let e = last_entry () in
         e.e_matches <- { gm_src = unhex t.(1); gm_isdir = (t.(2) = "1");
                          gm_readlink = (if t.(3) = "1" then Some (unhex t.(4)) else None) } :: e.e_matches
       | "walk" ->
         let e = last_entry () in
         if t.(1) = "err" then e.e_walk <- WErr (err_of_string t.(2)) else e.e_wok <- true
       | "wdir" -> let e = last_entry () in e.e_items <- WDir (unhex t.(1), nt t.(2), zt t.(3)) :: e.e_items
       | "wlink" -> let e = last_entry () in e.e_items <- WLink (unhex t.(1), unhex t.(2)) :: e.e_items
       | "wfile" -> let e = last_entry () in e.e_items <- WFile (unhex t.(1), nt t.(2)) :: e.e_items
       | "stat" ->
         cur.stats_tbl <- (unhex t.(1), { st_mode = nt t.(2); st_mtime = zt t.(3); st_size = zt t.(4) }) :: cur.stats_tbl
       | "fhash" -> cur.hashes <- (unhex t.(1), unhex t.(2)) :: cur.hashes;
         cur.fsizes <- (unhexs t.(1), int_of_string t.(3)) :: cur.fsizes
       | "unstable" -> cur.unstable <- true
       | "impl" -> if t.(1) = "err" then cur.impl_err <- Some t.(2) else cur.impl_ok <- true
       | "out" -> cur.impl_out <- content_of_toks t 1 :: cur.impl_out
       | "info" -> cur.info <- (unhexs t.(1), unhexs t.(2)) :: cur.info
       | "num" -> cur.nums <- (unhexs t.(1), int_of_string t.(2)) :: cur.nums;
         if unhexs t.(1) = "mtime" then cur.mtime <- zt t.(2);
         if unhexs t.(1) = "umask" then cur.umask <- nt t.(2)
       | "list" -> cur.lists <- (unhexs t.(1), unhexs t.(2)) :: cur.lists
       | "field" -> cur.fields <- (unhexs t.(1), unhexs t.(2), unhexs t.(3)) :: cur.fields
       | "script" -> cur.scripts <- (unhexs t.(1), unhexs t.(2), t.(3) = "1", unhexs t.(4)) :: cur.scripts
       | "member" -> cur.members <- (unhexs t.(1), int_of_string t.(2), int_of_string t.(3)) :: cur.members
       | "pent" -> cur.pents <- oent_of t :: cur.pents
       | "cent" -> cur.cents <- oent_of t :: cur.cents
       | "meta" -> cur.meta <- (unhexs t.(1), unhexs t.(2)) :: cur.meta
       | "hasconffiles" -> cur.hasconffiles <- (t.(1) = "1")
       | "conffile" -> cur.conffiles <- unhexs t.(1) :: cur.conffiles
       | "oscript" -> cur.oscripts <- (unhexs t.(1), unhexs t.(2), int_of_string t.(3)) :: cur.oscripts
       | "digest" -> cur.digests <- (unhexs t.(1), unhexs t.(2), unhexs t.(3)) :: cur.digests
       | "size" -> cur.sizes <- (unhexs t.(1), int_of_string t.(2), int_of_string t.(3)) :: cur.sizes
       | "stamp" -> cur.stamps <- (unhexs t.(1), int_of_string t.(2)) :: cur.stamps
       | "struct" -> cur.structs <- (unhexs t.(1), t.(2) = "1") :: cur.structs
       | "md5sum" -> cur.md5sums <- (unhexs t.(1), unhexs t.(2)) :: cur.md5sums
       | "mtree" -> cur.mtree <- (unhexs t.(1), unhexs t.(2), unhexs t.(3), unhexs t.(4), unhexs t.(5)) :: cur.mtree
       | "triggers" -> cur.triggers <- unhexs t.(1)
       | "install" -> cur.install <- Some (unhexs t.(1))
       | "rawmeta" -> cur.rawmeta <- Some (unhexs t.(1))
       | "filename" -> cur.filename <- unhexs t.(1)
       | "decode" -> cur.decode_err <- Some (unhexs t.(2))
       | "note" -> cur.notes <- unhexs t.(1) :: cur.notes
       | "rawlen" -> ()
       | "end" ->
         List.iter finish_entry cur.entries;
         cur.entries <- List.rev cur.entries; cur.impl_out <- List.rev cur.impl_out;
         cur.info <- List.rev cur.info; cur.lists <- List.rev cur.lists; cur.fields <- List.rev cur.fields;
         cur.scripts <- List.rev cur.scripts; cur.members <- List.rev cur.members; cur.pents <- List.rev cur.pents;
         cur.cents <- List.rev cur.cents; cur.meta <- List.rev cur.meta; cur.conffiles <- List.rev cur.conffiles;
         cur.oscripts <- List.rev cur.oscripts; cur.digests <- List.rev cur.digests; cur.sizes <- List.rev cur.sizes;
         cur.stamps <- List.rev cur.stamps; cur.md5sums <- List.rev cur.md5sums; cur.mtree <- List.rev cur.mtree;
         cur.extra <- List.rev cur.extra;
         f cur
       | "" -> ()
       | other -> cur.extra <- (other, t) :: cur.extra
     done
   with End_of_file -> ())

let ces_of (c : case) = List.map (fun e -> (e.e_c, { eo_glob = e.e_glob; eo_walk = e.e_walk })) c.entries

let report ?(kf = []) id agree impl_fails model_fails detail =
  Printf.printf "CASE %s %s impl_fails=[%s] model_fails=[%s] kf=[%s]\n" id (if agree then "agree" else "DISAGREE")
    (String.concat "," impl_fails) (String.concat "," model_fails) (String.concat "," kf);
  List.iter (fun l -> Printf.printf "  %s\n" l) detail

(* ---------- C05 ---------- *)
let run_c05 ic =
  let n_cases = ref 0 and n_dis = ref 0 and n_fail = ref 0 and n_env = ref 0 in
  let path_fail = ref 0 and path_n = ref 0 in
  let on_path t =
    incr path_n;
    let s = unhex t.(1) in
    let ok = norm_file s = unhex t.(2) && norm_dir s = unhex t.(3) && as_rel s = unhex t.(4)
             && as_explicit_rel s = unhex t.(5) && to_nix s = unhex t.(6) in
    if not ok then begin
      incr path_fail;
      Printf.printf "PATH %s DISAGREE model=%s,%s,%s,%s,%s impl=%s,%s,%s,%s,%s\n" t.(1)
        (hex (norm_file s)) (hex (norm_dir s)) (hex (as_rel s)) (hex (as_explicit_rel s)) (hex (to_nix s))
        t.(2) t.(3) t.(4) t.(5) t.(6)
    end in
  iter_cases ic on_path (fun c ->
      incr n_cases;
      let ces = ces_of c in
      let impl_r = match c.impl_err with
        | Some e -> Err (err_of_string e)
        | None -> if c.impl_ok then Ok c.impl_out else Err EGlobOther in
      let in_env = oracle_okb owned_paths c.stats_tbl c.umask c.mtime ces in
      if not in_env then incr n_env;
      let model_r = prep owned_paths c.stats_tbl ces c.umask c.packager c.mtime in
      let agree = (model_r = impl_r) in
      let clauses = check_C05 owned_paths c.packager ces impl_r in
      let clauses = if c.unstable then CUnstable :: clauses else clauses in
      let mclauses = check_C05 owned_paths c.packager ces model_r in
      if not agree then incr n_dis;
      if clauses <> [] then incr n_fail;
      if (not agree) || clauses <> [] || mclauses <> [] then
        report c.id agree (List.map clause_name clauses) (List.map clause_name mclauses)
          (if agree then [] else ["model: " ^ show_result model_r; "impl:  " ^ show_result impl_r]));
  Printf.printf "SUMMARY cases=%d disagreements=%d impl_failures=%d path_cases=%d path_disagreements=%d outside_envelope=%d\n"
    !n_cases !n_dis !n_fail !path_n !path_fail !n_env

(* ---------- package-level helpers ---------- *)
let fmt_of_string = function
  | "deb" -> FDeb | "rpm" -> FRpm | "apk" -> FApk | "ipk" -> FIpk | _ -> FArch

let kind_of_string = function "dir" -> Some KDir | "symlink" -> Some KSymlink | "file" -> Some KFile | _ -> None

let pentry_of_oent (o : oent) : pentry option =
  match kind_of_string o.o_kind with
  | None -> None
  | Some k ->
    Some { pe_path = explode o.o_path; pe_kind = k; pe_mode = n_of_int o.o_mode; pe_uname = explode o.o_uname;
           pe_gname = explode o.o_gname; pe_mtime = z_of_int o.o_mtime;
           pe_data = (if k = KFile then DHash (explode o.o_sha256) else DNone);
           pe_link = explode o.o_link; pe_flags = n_of_int o.o_flags; pe_inpayload = o.o_inpayload }

let kind_name = function KFile -> "file" | KDir -> "dir" | KSymlink -> "symlink"
let show_pentry (e : pentry) =
  Printf.sprintf "%s %s %o %s:%s mt=%d %s link=%s flags=%d inpayload=%b" (implode e.pe_path) (kind_name e.pe_kind)
    (int_of_n e.pe_mode) (implode e.pe_uname) (implode e.pe_gname) (int_of_z e.pe_mtime)
    (match e.pe_data with DNone -> "-" | DSrc p -> "src:" ^ implode p | DChangelog -> "changelog" | DHash h -> "sha256:" ^ String.sub (implode h) 0 (min 12 (List.length h)))
    (implode e.pe_link) (int_of_n e.pe_flags) e.pe_inpayload

let c01_clause_name = function
  | PPathsExact -> "paths-exact" | PPathsUnique -> "paths-unique" | PKind -> "kind" | PMode -> "mode" | POwner -> "owner"
  | PGroup -> "group" | PMtime -> "mtime" | PData -> "data" | PLink -> "link" | PGhostPayload -> "ghost-payload"

(* does the model's payload entry agree with the decoded one (data via the hash table; clock mtimes are free) *)
let pentry_agrees (c : case) (m : pentry) (o : pentry) : bool =
  m.pe_path = o.pe_path && m.pe_kind = o.pe_kind
  && (m.pe_kind = KSymlink && c.format <> "deb" && c.format <> "rpm" || m.pe_mode = o.pe_mode)
  && m.pe_uname = o.pe_uname && m.pe_gname = o.pe_gname
  && (m.pe_mtime = tzero || m.pe_mtime = o.pe_mtime)
  && m.pe_link = o.pe_link && m.pe_flags = o.pe_flags && m.pe_inpayload = o.pe_inpayload
  && (match m.pe_data, o.pe_data with
      | DSrc p, DHash h -> (not m.pe_inpayload) || (match lookup_hash c.hashes p with Some h' -> h = h' | None -> false)
      | _, _ -> true)

let model_prepared (c : case) =
  prep owned_paths c.stats_tbl (ces_of c) c.umask c.packager c.mtime

let run_c01 ic =
  let n = ref 0 and n_dis = ref 0 and n_fail = ref 0 and n_skip = ref 0 and n_err = ref 0 in
  iter_cases ic (fun _ -> ()) (fun c ->
      incr n;
      let f = fmt_of_string c.format in
      match c.impl_err, c.decode_err with
      | Some cls, _ ->
        incr n_err;
        (* the implementation failed: the model must fail the same way for planning errors *)
        (match model_prepared c with
         | Ok _ when List.mem cls ["collision"; "notexist"; "globnomatch"; "invalidtype"] ->
           incr n_dis; report c.id false [] [] ["impl failed with " ^ cls ^ " but the planning model succeeds"]
         | _ -> ())
      | None, Some d -> incr n_fail; report c.id true ["undecodable"] [] [d]
      | None, None ->
        match model_prepared c with
        | Err e -> incr n_dis; report c.id false [] [] ["planning model fails with " ^ string_of_err e ^ " but the package was built"]
        | Ok cs ->
          if not (envelope_C01 cs) then incr n_skip;
          let obs = List.filter_map pentry_of_oent c.pents in
          let odd = List.length obs <> List.length c.pents in
          let model = payload_of f c.mtime cs in
          let agree = (not odd) && List.length model = List.length obs && List.for_all2 (pentry_agrees c) model obs in
          let clauses = check_C01 f c.hashes cs obs in
          let mclauses = check_C01 f c.hashes cs model in
          (* owners are what the configuration says (by name) or root: a numeric id other than 0 can only have come from
             whoever owns the sources on the build host *)
          let ids_leak = List.mem ("numeric_owner_ids_zero", false) c.structs in
          if not agree then incr n_dis;
          if clauses <> [] || odd || ids_leak then incr n_fail;
          if (not agree) || clauses <> [] || mclauses <> [] || odd || ids_leak then
            report c.id agree ((if odd then ["unknown-kind"] else []) @ (if ids_leak then ["numeric-owner-from-the-build-host"] else [])
                               @ List.sort_uniq compare (List.map c01_clause_name clauses))
              (List.sort_uniq compare (List.map c01_clause_name mclauses))
              (List.filter (fun nt -> String.length nt > 7 && String.sub nt 0 7 = "member ") c.notes @
               if agree then [] else
                 ("model payload:" :: List.map (fun e -> "  " ^ show_pentry e) model)
                 @ ("decoded payload:" :: List.map (fun e -> "  " ^ show_pentry e) obs)));
  Printf.printf "SUMMARY cases=%d disagreements=%d impl_failures=%d impl_errors=%d outside_envelope=%d\n" !n !n_dis !n_fail !n_err !n_skip


(* ---------- C08 ---------- *)
let c08_clause_name = function
  | QConffiles -> "conffiles" | QBackups -> "backups" | QRpmFlags -> "rpm-flags" | QGhostPayload -> "ghost-payload"
  | QGhostMode -> "ghost-mode" | QSpecialElsewhere -> "special-elsewhere" | QNoConffilesMember -> "no-conffiles-member"

let run_c08 ic =
  let n = ref 0 and n_dis = ref 0 and n_fail = ref 0 and n_err = ref 0 and n_conf = ref 0 in
  iter_cases ic (fun _ -> ()) (fun c ->
      incr n;
      let f = fmt_of_string c.format in
      match c.impl_err, c.decode_err with
      | Some _, _ -> incr n_err
      | None, Some d -> incr n_fail; report c.id true ["undecodable"] [] [d]
      | None, None ->
        match model_prepared c with
        | Err e -> incr n_dis; report c.id false [] [] ["planning model fails with " ^ string_of_err e]
        | Ok cs ->
          let obs = List.filter_map pentry_of_oent c.pents in
          let conf_obs, has = match c.format with
            | "deb" | "ipk" -> List.map explode c.conffiles, c.hasconffiles
            | "archlinux" -> List.filter_map (fun (k, v) -> if k = "backup" then Some (explode v) else None) c.meta, true
            | _ -> [], true in
          let conf_model = match f with
            | FDeb | FIpk -> conffiles_model cs | FArch -> backups_model cs | _ -> [] in
          let flags_model = List.map (fun (e : pentry) -> (e.pe_path, e.pe_flags, e.pe_inpayload)) (payload_of f c.mtime cs) in
          let flags_obs = List.map (fun (e : pentry) -> (e.pe_path, e.pe_flags, e.pe_inpayload)) obs in
          let rawconf = List.fold_left (fun acc (tag, t) -> if tag = "rawlist" && t.(1) = "conffiles" then Some (unhex t.(2)) else acc) None c.extra in
          let text_ok = (match f, rawconf with
              | (FDeb | FIpk), Some raw -> incr n_conf; conffiles_text conf_model = raw && conffiles_read raw = Some conf_model
              | _ -> true) in
          let agree = conf_obs = conf_model && flags_model = flags_obs && text_ok in
          let clauses = check_C08 f cs has conf_obs obs in
          let mclauses = check_C08 f cs true conf_model (payload_of f c.mtime cs) in
          if not agree then incr n_dis;
          if clauses <> [] then incr n_fail;
          if (not agree) || clauses <> [] || mclauses <> [] then
            report c.id agree (List.sort_uniq compare (List.map c08_clause_name clauses))
              (List.sort_uniq compare (List.map c08_clause_name mclauses))
              (if agree then [] else
                 [(if text_ok then "conffiles text as the model writes it" else "the conffiles member is not the text the model writes (one path per line, newline-terminated)");
                  "model conf: " ^ String.concat "," (List.map implode conf_model);
                  "impl conf:  " ^ String.concat "," (List.map implode conf_obs);
                  "model flags: " ^ String.concat "," (List.map (fun (p, fl, ip) -> Printf.sprintf "%s=%d/%b" (implode p) (int_of_n fl) ip) flags_model);
                  "impl flags:  " ^ String.concat "," (List.map (fun (p, fl, ip) -> Printf.sprintf "%s=%d/%b" (implode p) (int_of_n fl) ip) flags_obs)]));
  Printf.printf "SUMMARY cases=%d disagreements=%d impl_failures=%d impl_errors=%d conffiles_texts_rewritten_by_the_model=%d\n" !n !n_dis !n_fail !n_err !n_conf

(* ---------- C09 ---------- *)
let c09_clause_name = function SExact -> "slots-exact" | SInstall -> "install-member" | SMode -> "script-mode"

let run_c09 ic =
  let n = ref 0 and n_dis = ref 0 and n_fail = ref 0 and n_err = ref 0 in
  iter_cases ic (fun _ -> ()) (fun c ->
      incr n;
      let f = fmt_of_string c.format in
      match c.impl_err, c.decode_err with
      | Some _, _ -> incr n_err
      | None, Some d -> incr n_fail; report c.id true ["undecodable"] [] [d]
      | None, None ->
        let configured = List.filter_map (fun (slot, _, readable, bytes) -> if readable then Some (explode slot, explode bytes) else None) c.scripts in
        let obs = List.map (fun (s, b, _) -> (explode s, explode b)) c.oscripts in
        let modes = List.map (fun (s, _, m) -> (explode s, n_of_int m)) c.oscripts in
        let install = match c.install with Some i -> Some (explode i) | None -> None in
        let model = model_scripts f configured in
        let model_install = match f, expected_scripts f configured with
          | FArch, (_ :: _ as w) -> Some (render_install w) | _ -> None in
        let agree = (match f with
            | FArch -> install = model_install
            | _ -> sort_slots obs = sort_slots model) in
        let clauses = check_C09 f configured obs modes install in
        let mclauses = check_C09 f configured model [] model_install in
        if not agree then incr n_dis;
        if clauses <> [] then incr n_fail;
        (* known findings: the observation is exactly what rpm's string-valued scriptlet tags give *)
        let kf =
          if clauses <> [] && f = FRpm && sort_slots obs = sort_slots (model_scripts FRpm configured) then
            let rpm_cfg = expected_scripts FRpm configured in
            (if List.exists (fun (_, b) -> b = []) rpm_cfg then ["rpm-empty-script"] else [])
            @ (if List.exists (fun (_, b) -> List.mem '\000' b) rpm_cfg then ["rpm-nul-truncation"] else [])
          else [] in
        if (not agree) || clauses <> [] then
          report ~kf c.id agree (List.map c09_clause_name clauses) (List.map c09_clause_name mclauses)
            (["configured: " ^ String.concat "," (List.map (fun (s, b) -> implode s ^ "(" ^ string_of_int (List.length b) ^ "B)") configured);
              "observed:   " ^ String.concat "," (List.map (fun (s, b) -> implode s ^ "(" ^ string_of_int (List.length b) ^ "B)") obs)]));
  Printf.printf "SUMMARY cases=%d disagreements=%d impl_failures=%d impl_errors=%d\n" !n !n_dis !n_fail !n_err

(* ---------- C03 ---------- *)
let c03_clause_name = function
  | DDigest -> "digest" | DSize -> "size" | DMd5sums -> "md5sums" | DInstalledSize -> "installed-size" | DMtree -> "mtree"

let starts_with p s = String.length s >= String.length p && String.sub s 0 (String.length p) = p

let run_c03 ic =
  let n = ref 0 and n_dis = ref 0 and n_fail = ref 0 and n_err = ref 0 and n_dig = ref 0 and n_mtree = ref 0 and n_md5 = ref 0 in
  iter_cases ic (fun _ -> ()) (fun c ->
      incr n;
      let f = fmt_of_string c.format in
      match c.impl_err, c.decode_err with
      | Some _, _ -> incr n_err
      | None, Some d -> incr n_fail; report c.id true ["undecodable"] [] [d]
      | None, None ->
        let payload = List.map (fun o -> { fo_name = explode o.o_path; fo_isfile = (o.o_kind = "file" && o.o_inpayload);
                                           fo_size = z_of_int o.o_size; fo_md5 = explode o.o_md5 }) c.pents in
        let md5 = List.map (fun (d, nm) -> (explode d, explode nm)) c.md5sums in
        let has_md5 = List.mem ("has_md5sums", true) c.structs in
        let installed = match List.assoc_opt "Installed-Size" c.meta with
          | Some v -> (try Some (z_of_int (int_of_string v)) with _ -> Some (z_of_int (-1))) | None -> None in
        let digests = List.map (fun (_, s, r) -> (explode s, explode r)) c.digests in
        let sizes = List.map (fun (_, s, r) -> (z_of_int s, z_of_int r)) c.sizes in
        n_dig := !n_dig + List.length digests + List.length sizes;
        (* archlinux: the .MTREE as stored against the mtree model - its reader accepts the bytes, its writer gives them
           back, and the text the model writes for the members the archive ships (.PKGINFO first) is that very text *)
        let mtree_notes = (match f, List.assoc_opt "mtreeraw" c.extra with
            | FArch, Some t ->
              let raw = unhex t.(1) in
              let sh (o : oent) = { sh_path = explode o.o_path; sh_kind = (match o.o_kind with "dir" -> SDir | "symlink" -> SLink | _ -> SFile);
                                    sh_mode = n_of_int o.o_mode; sh_time = n_of_int o.o_mtime; sh_size = n_of_int o.o_size;
                                    sh_md5 = explode o.o_md5; sh_sha256 = explode o.o_sha256; sh_link = explode o.o_link } in
              (match List.filter (fun (o : oent) -> o.o_path = ".PKGINFO") c.cents with
               | [pi] ->
                 incr n_mtree;
                 let model = arch_mtree (sh pi) (List.map sh c.pents) in
                 (if mtree_reencodes raw then [] else ["the .MTREE member is not a text the mtree model's reader and writer agree on"])
                 @ (if model = raw then [] else begin
                     let ml = String.split_on_char '\n' (implode model) and rl = String.split_on_char '\n' (implode raw) in
                     let rec first i a b = match a, b with
                       | x :: a', y :: b' -> if x = y then first (i + 1) a' b' else Printf.sprintf "line %d: the members shipped dictate %S, .MTREE says %S" i x y
                       | x :: _, [] -> Printf.sprintf "line %d: the members shipped dictate %S, .MTREE ends" i x
                       | [], y :: _ -> Printf.sprintf "line %d: .MTREE has a further line %S" i y
                       | [], [] -> "texts differ" in
                     [first 1 ml rl] end)
               | _ -> ["no single .PKGINFO member beside the .MTREE"])
            | _ -> []) in
        let mtree_ok = List.for_all (fun (k, v) -> (not (starts_with "mtree_" k)) || v) c.structs && mtree_notes = [] in
        (* deb: the md5sums member as text - the model's text for the payload is the stored member, and its reader gets the pairs back *)
        let rawlist k = List.fold_left (fun acc (tag, t) -> if tag = "rawlist" && t.(1) = k then Some (unhex t.(2)) else acc) None c.extra in
        let md5_notes = (match f, rawlist "md5sums" with
            | FDeb, Some raw ->
              incr n_md5;
              let want = md5sums_model payload in
              (if md5sums_text want = raw then [] else ["the md5sums member is not the text the model writes for the payload shipped"])
              @ (if md5sums_read raw = Some want then [] else ["the md5sums reader of the model does not recover one (digest, name) pair per regular payload file"])
            | _ -> []) in
        let clauses = check_C03 f payload md5 (has_md5 && md5_notes = []) installed digests sizes mtree_ok in
        (* the model's prediction of the size estimate from the plan: sum of planned sizes *)
        let agree = (match model_prepared c, f with
            | Ok cs, (FDeb | FIpk) ->
              let planned = List.fold_left (fun acc (e : pentry) ->
                  match e.pe_kind, e.pe_data with
                  | KFile, DSrc p -> acc + (try List.assoc (implode p) c.fsizes with Not_found -> 0)
                  | _ -> acc) 0 (payload_of f c.mtime cs) in
              let changelog = List.fold_left (fun acc o -> if o.o_kind = "file" && List.length (String.split_on_char '/' o.o_path) > 0
                                                             && starts_with "./usr/share/doc/" o.o_path
                                                             && Filename.basename o.o_path = "changelog.Debian.gz"
                                                             && f = FDeb && List.assoc_opt "changelog" c.info <> Some "" then acc + o.o_size else acc) 0 c.pents in
              let want = (planned + changelog) / 1024 in
              (match installed with Some v -> int_of_z v = want | None -> want = 0)
            | _ -> true) in
        if not agree then incr n_dis;
        if clauses <> [] then incr n_fail;
        if clauses <> [] || not agree then
          report c.id agree (List.sort_uniq compare (List.map c03_clause_name clauses)) []
            (mtree_notes @ md5_notes @ List.filter_map (fun (nm, s, r) -> if s <> r || s = "" then Some (Printf.sprintf "digest %s stored=%s recomputed=%s" nm s r) else None) c.digests
             @ List.filter_map (fun (nm, s, r) -> if s <> r then Some (Printf.sprintf "size %s stored=%d recomputed=%d" nm s r) else None) c.sizes));
  Printf.printf "SUMMARY cases=%d disagreements=%d impl_failures=%d impl_errors=%d digests_and_sizes_recomputed=%d mtree_texts_rewritten_by_the_model=%d md5sums_texts_rewritten_by_the_model=%d\n" !n !n_dis !n_fail !n_err !n_dig !n_mtree !n_md5

(* ---------- C04 ---------- *)
let c04_clause_name = function
  | WUnique -> "names-unique" | WRelative -> "names-relative" | WDotPrefix -> "dot-prefix" | WNoDotDot -> "no-dotdot"
  | WDirSlash -> "dir-slash" | WParents -> "parents-precede" | WStruct -> "structure" | WOrder -> "member-order"
  | WEmptyName -> "member-without-a-name"

let run_c04 ic =
  let n = ref 0 and n_dis = ref 0 and n_fail = ref 0 and n_err = ref 0 and n_cpio = ref 0 and n_tar = ref 0 and n_outer = ref 0 and n_tarfields = ref 0 in
  iter_cases ic (fun _ -> ()) (fun c ->
      incr n;
      let f = fmt_of_string c.format in
      match c.impl_err, c.decode_err with
      | Some _, _ -> incr n_err
      | None, Some d -> incr n_fail; report c.id true ["undecodable"] [] [d]
      | None, None ->
        let informational = ["signed"; "has_install"; "has_md5sums"] in
        let bad = List.filter (fun (k, v) -> (not v) && not (List.mem k informational)) c.structs in
        let scripts_for_arch = List.exists (fun (slot, _, _, _) ->
            List.mem slot ["preinstall"; "postinstall"; "preremove"; "postremove"; "archlinux.preupgrade"; "archlinux.postupgrade"]) c.scripts in
        let install_ok = f <> FArch || (List.mem ("has_install", true) c.structs = scripts_for_arch) in
        let members = List.map (fun o -> (explode o.o_path, o.o_kind = "dir")) c.pents in
        let ctl = match f with
          | FDeb | FIpk -> check_names f (List.map (fun o -> (explode o.o_path, o.o_kind = "dir")) c.cents)
          | _ -> [] in
        let clauses = check_C04 f members (bad = [] && install_ok) true @ ctl in
        (* correspondence: the member names are the ones the payload model writes *)
        let agree = (match model_prepared c with
            | Ok cs -> List.map (fun (e : pentry) -> e.pe_path) (List.filter (fun (e : pentry) -> e.pe_inpayload) (payload_of f c.mtime cs))
                       = List.map (fun o -> explode o.o_path) (List.filter (fun o -> o.o_inpayload) c.pents)
            | Err _ -> false) in
        (* the rpm payload container: the model's cpio reader finds the entries the harness's reader finds, and the
           model's cpio writer reproduces the archive byte for byte from them (Properties/C04: C04_cpio_check_sound) *)
        let cpio_notes = match List.assoc_opt "cpio" c.extra with
          | None -> []
          | Some t ->
            incr n_cpio;
            let s = explode (unhexs t.(1)) in
            let rec int_of_nat = function O -> 0 | S n -> 1 + int_of_nat n in
            let theirs = List.filter_map (fun (k, t) -> if k = "cpioent" then Some (unhexs t.(1), int_of_string t.(2), int_of_string t.(3), t.(4)) else None) c.extra in
            let ours = match cpio_read s with
              | None -> None
              | Some l -> Some (List.map (fun ((nm, md), d) -> (implode nm, int_of_nat md, List.length d, Digest.to_hex (Digest.string (implode d)))) l) in
            (if ours = Some theirs then [] else ["cpio: the container model's reader and the harness's reader find different entries"])
            @ (if cpio_reencodes s then [] else ["cpio: the container model's writer does not reproduce the payload archive from its entries"]) in
        (* every tar stream: the model's block-level reader finds the members a raw scan finds, and the model's writer
           reproduces the stream byte for byte - complete archives with the end marker, apk's cut segments without *)
        let tar_notes =
          List.concat (List.filter_map (fun (k, t) ->
              if k <> "tar" then None else begin
                incr n_tar;
                let nm = unhexs t.(1) and full = t.(2) = "1" and s = explode (unhexs t.(3)) in
                let rec int_of_nat = function O -> 0 | S n -> 1 + int_of_nat n in
                let theirs = List.filter_map (fun (k2, t2) ->
                    if k2 = "tarent" && unhexs t2.(1) = nm then Some (Char.chr (int_of_string t2.(2)), int_of_string t2.(3)) else None) c.extra in
                let ours = match tar_raw_list s with None -> None | Some l -> Some (List.map (fun (f, n) -> (f, int_of_nat n)) l) in
                (* field level: every header block is the model writer's block for the fields the model reader finds in it;
                   the logical members (names through PAX records, GNU long names and the prefix field) are the ones
                   archive/tar's reader hands out *)
                let int_of_nat_tr n = let rec go acc = function O -> acc | S n -> go (acc + 1) n in go 0 n in
                let go_view = List.filter_map (fun (k2, t2) ->
                    if k2 = "tarlog" && unhexs t2.(1) = nm then
                      Some (unhexs t2.(2), int_of_string t2.(3), int_of_string t2.(4), int_of_string t2.(5), int_of_string t2.(6), int_of_string t2.(7),
                            unhexs t2.(8), unhexs t2.(9), unhexs t2.(10), int_of_string t2.(11), t2.(12))
                    else None) c.extra in
                let go_err = List.exists (fun (k2, t2) -> k2 = "tarlogerr" && unhexs t2.(1) = nm) c.extra in
                let model_view = match tar_logical s with
                  | None -> None
                  | Some l -> Some (List.map (fun (m : lmember) ->
                      (implode m.lm_name, Char.code m.lm_type, int_of_n m.lm_mode, int_of_n m.lm_uid, int_of_n m.lm_gid, int_of_n m.lm_mtime,
                       implode m.lm_link, implode m.lm_uname, implode m.lm_gname, int_of_nat_tr m.lm_size,
                       Digest.to_hex (Digest.string (implode m.lm_data)))) l) in
                incr n_tarfields;
                let field_notes =
                  (if tar_fields_reencode s then [] else [Printf.sprintf "tar %s: a header block is not the field-level writer's block for the fields read from it" nm])
                  @ (if go_err then [] else match model_view with
                      | None -> [Printf.sprintf "tar %s: the model's reader of header fields and extension members cannot read the stream" nm]
                      | Some mv when mv = go_view -> []
                      | Some mv ->
                        let show (a, ty, mo, u, g, mt, l, un, gn, sz, d) = Printf.sprintf "%S type=%c mode=%o uid=%d gid=%d mtime=%d link=%S uname=%S gname=%S size=%d md5=%s" a (Char.chr ty) mo u g mt l un gn sz d in
                        let rec first a b = match a, b with
                          | x :: a', y :: b' -> if x = y then first a' b' else Printf.sprintf "model reads %s; archive/tar reads %s" (show x) (show y)
                          | x :: _, [] -> "model reads a further member " ^ show x
                          | [], y :: _ -> "archive/tar reads a further member " ^ show y
                          | [], [] -> "?" in
                        [Printf.sprintf "tar %s: the model's reader and archive/tar's reader disagree: %s" nm (first mv go_view)]) in
                Some (field_notes @ (if ours = Some theirs then [] else [Printf.sprintf "tar %s: the container model's reader and the raw block scan find different members" nm])
                      @ (if (if full then tar_reencodes_full s else tar_reencodes_cut s) then []
                         else [Printf.sprintf "tar %s: the container model's writer does not reproduce the %s from its members" nm
                                 (if full then "complete archive (header checksums, size fields, padding, two zero blocks)" else "cut segment (no end-of-archive marker)")]))
              end) c.extra) in
        (* the outer containers: a .deb IS the ar encoding of its members, an .rpm IS lead + signature section + padding to 8
           + header section + payload (Properties/C04: C04_ar_check_sound, C04_rpm_check_sound) *)
        let outer_notes = match List.assoc_opt "pkgbytes" c.extra with
          | None -> []
          | Some t ->
            incr n_outer;
            let s = explode (unhexs t.(1)) in
            (match f with
             | FDeb -> if ar_reencodes s then [] else ["ar: the container model's writer does not reproduce the .deb from its members (names, sizes, padding)"]
             | FRpm -> if rpm_reencodes s then [] else ["rpm: the file-layout model does not reproduce the .rpm (lead, signature section, padding to 8, header section, payload)"]
             | _ -> []) in
        let cpio_notes = cpio_notes @ tar_notes @ outer_notes in
        let agree = agree && cpio_notes = [] in
        if not agree then incr n_dis;
        if clauses <> [] then incr n_fail;
        (* known finding: apk / archlinux write the root directory under the empty name - and nothing else is wrong *)
        let kf = if agree && clauses = [WEmptyName] && (f = FApk || f = FArch)
                    && List.length (List.filter (fun o -> o.o_path = "") c.pents) = 1
                    && List.exists (fun o -> o.o_path = "" && o.o_kind = "dir") c.pents
          then ["root-directory-member-without-name"] else [] in
        if clauses <> [] || not agree then
          report ~kf c.id agree (List.sort_uniq compare (List.map c04_clause_name clauses)) []
            (cpio_notes @ List.map (fun (k, _) -> "structure fact false: " ^ k) bad @ (if install_ok then [] else [".INSTALL presence does not match configured scripts"])));
  Printf.printf "SUMMARY cases=%d disagreements=%d impl_failures=%d impl_errors=%d cpio_archives_reencoded=%d tar_streams_reencoded=%d outer_containers_reencoded=%d tar_streams_read_at_field_level=%d\n" !n !n_dis !n_fail !n_err !n_cpio !n_tar !n_outer !n_tarfields

(* ---------- C02 ---------- *)
let group_lists (l : (string * string) list) : (char list * char list list) list =
  List.fold_left (fun acc (k, v) ->
      let k' = explode k in
      if List.mem_assoc k' acc then List.map (fun (k2, vs) -> if k2 = k' then (k2, vs @ [explode v]) else (k2, vs)) acc
      else acc @ [(k', [explode v])]) [] l

let group_fields (l : (string * string * string) list) : (char list * (char list * char list) list) list =
  List.fold_left (fun acc (m, k, v) ->
      let m' = explode m in
      if List.mem_assoc m' acc then List.map (fun (m2, kvs) -> if m2 = m' then (m2, kvs @ [(explode k, explode v)]) else (m2, kvs)) acc
      else acc @ [(m', [(explode k, explode v)])]) [] l

(* the version components are recomputed by the model of WithDefaults from the values written in the document *)
let raw_of (c : case) (k : string) : char list =
  let l = List.filter_map (fun (tag, t) -> if tag = "raw" && unhexs t.(1) = k then Some (unhex t.(2)) else None) c.extra in
  match l with v :: _ -> v | [] -> []

let minfo_of (c : case) : minfo =
  let has_raw = List.exists (fun (tag, _) -> tag = "raw") c.extra in
  let info =
    if has_raw then begin
      let ((v, p), m) = split_version (raw_of c "version_schema") (raw_of c "version") (raw_of c "prerelease") (raw_of c "version_metadata") in
      List.map (fun (k, x) -> match k with
          | "version" -> (k, implode v) | "prerelease" -> (k, implode p) | "version_metadata" -> (k, implode m) | _ -> (k, x)) c.info
    end else c.info in
  { mi_s = List.map (fun (k, v) -> (explode k, explode v)) info;
    mi_l = group_lists c.lists; mi_f = group_fields c.fields;
    mi_n = List.map (fun (k, v) -> (explode k, z_of_int v)) c.nums }

let archtab_of = function
  | FDeb -> arch_deb | FRpm -> arch_rpm | FApk -> arch_apk | FIpk -> arch_ipk | FArch -> arch_archlinux

let c02_clause_name (cl : c02_clause) = implode (c02_clause_text cl)

let run_c02 ic =
  let n = ref 0 and n_dis = ref 0 and n_fail = ref 0 and n_err = ref 0 and n_read = ref 0 and n_premise = ref 0 in
  iter_cases ic (fun _ -> ()) (fun c ->
      incr n;
      let f = fmt_of_string c.format in
      match c.impl_err, c.decode_err with
      | Some cls, _ ->
        incr n_err;
        (* rpm: an unknown relation operator or a bad epoch must fail; nothing else may *)
        let mi = minfo_of c in
        if cls = "other" && f = FRpm && rpm_meta (archtab_of f) mi <> None
           && not (List.exists (fun nt -> starts_with "unknown compression" nt || starts_with "glob failed" nt) c.notes) then begin
          incr n_dis; report c.id false [] [] ("impl failed but the rpm metadata model succeeds" :: c.notes) end
      | None, Some d -> incr n_fail; report c.id true ["undecodable"] [] [d]
      | None, None ->
        let mi = minfo_of c in
        let file_sum = List.fold_left (fun acc o -> if o.o_kind = "file" && o.o_inpayload then acc + o.o_size else acc) 0 c.pents in
        let obs_meta = List.map (fun (k, v) -> (explode k, explode v)) c.meta in
        (* deb: the triggers control member, when the package has one, under a pseudo key no control field can have *)
        let obs_meta = if f = FDeb && c.triggers <> "" then obs_meta @ [(explode "#triggers", explode c.triggers)] else obs_meta in
        let model_text, agree = (match f with
            | FDeb ->
              let t = deb_control arch_deb mi (z_of_int (file_sum / 1024)) in
              Some t, (c.rawmeta = Some (implode t))
            | FIpk ->
              let t = ipk_control arch_ipk mi (z_of_int (file_sum / 1024)) in
              Some t, (c.rawmeta = Some (implode t))
            | FApk ->
              let dh = (try List.assoc "datahash" c.meta with Not_found -> "") in
              let t = apk_pkginfo arch_apk mi (z_of_int file_sum) (explode dh) in
              Some t, (c.rawmeta = Some (implode t))
            | FArch ->
              let backups = (match model_prepared c with Ok cs -> backups_model cs | Err _ -> []) in
              let bd = (try List.assoc "builddate" c.meta with Not_found -> "0") in
              let mt = int_of_z c.mtime in
              let builddate = if mt = int_of_z tzero then int_of_string bd else mt in
              let t = arch_pkginfo arch_archlinux mi (z_of_int file_sum) (z_of_int builddate) backups in
              Some t, (c.rawmeta = Some (implode t))
            | FRpm ->
              (match rpm_meta arch_rpm mi with
               | None -> None, false
               | Some m ->
                 let keys = List.sort_uniq compare (List.map fst m) in
                 let proj l = List.filter (fun (k, _) -> List.mem k keys || List.mem (implode k) ["Epoch"; "Vendor"; "Packager"; "Group"; "URL"; "Prefixes";
                                                                                                "Provides"; "Requires"; "Conflicts"; "Obsoletes"; "Recommends"; "Suggests"]) l in
                 let canon l = List.sort compare (proj l) in
                 (* rpmpack adds nothing to the relation lists; order within a tag is preserved by sort stability on equal keys only, so compare per tag *)
                 let per_tag l = List.map (fun k -> (k, List.filter_map (fun (k2, v) -> if k2 = k then Some v else None) l)) (List.sort_uniq compare (List.map fst (proj l))) in
                 ignore canon;
                 Some (List.concat_map (fun (k, v) -> k @ explode ": " @ v @ ['\n']) m), (per_tag m = per_tag obs_meta))) in
        let clauses = check_C02 f (archtab_of f) arch_doc mi obs_meta in
        (* deb / ipk: the control text through the deb822 model's reader - it must find the fields the harness's own
           reader finds; for a deb whose single-line values hold no newline (the premise of C02_deb_control_reads_back)
           it must find exactly the field list of the metadata model *)
        let reader_notes = (match f, c.rawmeta with
            | (FDeb | FIpk), Some raw ->
              incr n_read;
              (match d_read (explode raw) with
               | None -> ["the deb822 model's reader cannot read the control member"]
               | Some fs ->
                 let got = List.map (fun (k, v) -> (implode k, implode v)) fs in
                 (if got = c.meta then [] else ["the deb822 model's reader and the harness's reader find different fields in the control member"])
                 @ (if f = FDeb && control_single_lines arch_deb mi (z_of_int (file_sum / 1024)) then begin
                     incr n_premise;
                     if agree && fs <> List.map kv_of (deb_fields arch_deb mi (z_of_int (file_sum / 1024)))
                     then ["the fields read back are not the metadata model's field list although the premise of C02_deb_control_reads_back holds"] else [] end
                   else []))
            | FArch, Some raw ->
              incr n_read;
              (match p_read (explode raw) with
               | None -> ["the PKGINFO model's reader cannot read the .PKGINFO member"]
               | Some fs ->
                 let got = List.map (fun (k, v) -> (implode k, implode v)) fs in
                 (if got = c.meta then [] else ["the PKGINFO model's reader and the harness's reader find different lines in .PKGINFO"]))
            | _ -> []) in
        let agree = agree && reader_notes = [] in
        if not agree then incr n_dis;
        if clauses <> [] then incr n_fail;
        let kf = List.sort_uniq compare (List.filter_map (fun cl -> let nm = c02_clause_name cl in
                                                             if nm = "version" && f = FArch && arch_prerelease_dropped mi then Some "archlinux-pkgver-drops-prerelease" else None) clauses) in
        let kf = if List.length kf > 0 && List.for_all (fun cl -> c02_clause_name cl = "version") clauses then kf else [] in
        (* deb/ipk description: a line that is exactly "." reads back as a blank line; a line of 64 KiB or more ends the description *)
        let kf =
          if kf = [] && (f = FDeb || f = FIpk) && agree && clauses <> [] && List.for_all (fun cl -> c02_clause_name cl = "description") clauses then begin
            let ls = String.split_on_char '\n' (String.trim (implode (gs mi "description"))) in
            let dot = List.exists (fun l -> String.trim l = ".") ls and long = List.exists (fun l -> String.length l >= 65536) ls in
            (if dot then ["deb-description-dot-line"] else []) @ (if long then ["deb-description-64k-line"] else [])
          end else kf in
        if (not agree) || clauses <> [] then
          report ~kf c.id agree (List.sort_uniq compare (List.map c02_clause_name clauses)) []
            (reader_notes @ if agree then [] else
               ["model: " ^ (match model_text with Some t -> String.escaped (implode t) | None -> "(error)");
                "impl:  " ^ (match c.rawmeta with Some t -> String.escaped t | None ->
                    String.escaped (String.concat "" (List.map (fun (k, v) -> k ^ ": " ^ v ^ "\n") c.meta)))]));
  Printf.printf "SUMMARY cases=%d disagreements=%d impl_failures=%d impl_errors=%d control_texts_read_by_the_model=%d of_which_within_the_read_back_premise=%d\n" !n !n_dis !n_fail !n_err !n_read !n_premise

(* ---------- C14 ---------- *)
let c14_clause_name = function
  | VSplit -> "split" | VVerbatim -> "verbatim" | VExplicitWins -> "explicit-wins" | VNumbers -> "numbers"
  | VPreBeforeRelease -> "prerelease-before-release" | VEpochDominates -> "epoch-dominates" | VNumericOrder -> "numeric-order" | VOracle -> "dpkg-oracle"

let run_c14 ic =
  let n = ref 0 and n_dis = ref 0 and n_fail = ref 0 and n_oracle = ref 0 and n_err = ref 0 in
  let rpm_triple (s : string) =
    match String.split_on_char '|' s with
    | [e; v; r] -> (((if e = "" then z_of_int 0 else z_of_int (int_of_string e)), explode v), explode r)
    | _ -> ((z_of_int 0, explode s), []) in
  (try
     while true do
       let line = input_line ic in
       let t = Array.of_list (String.split_on_char ' ' line) in
       match t.(0) with
       | "vsplit" ->
         incr n;
         let schema, v, pre, meta = unhex t.(2), unhex t.(3), unhex t.(4), unhex t.(5) in
         let ov, opre, ometa = unhex t.(6), unhex t.(7), unhex t.(8) in
         let ((mv, mp), mm) = split_version schema v pre meta in
         let agree = (mv = ov && mp = opre && mm = ometa) in
         let clauses = check_split schema v pre meta ov opre ometa in
         if not agree then incr n_dis;
         if clauses <> [] then incr n_fail;
         if (not agree) || clauses <> [] then
           report t.(1) agree (List.map c14_clause_name clauses) []
             [Printf.sprintf "input schema=%S version=%S prerelease=%S metadata=%S" (implode schema) (implode v) (implode pre) (implode meta);
              Printf.sprintf "impl  -> %S %S %S" (implode ov) (implode opre) (implode ometa);
              Printf.sprintf "model -> %S %S %S" (implode mv) (implode mp) (implode mm)]
       | "vpkg" ->
         if t.(3) = "err" then incr n_err else begin
           incr n;
           let fmt = unhexs t.(2) in
           let schema, v, pre, meta, obs = unhex t.(4), unhex t.(5), unhex t.(6), unhex t.(7), unhexs t.(8) in
           let ((mv, mp), mm) = split_version schema v pre meta in
           let mi = { mi_s = [(explode "version", mv); (explode "prerelease", mp); (explode "version_metadata", mm)]; mi_l = []; mi_f = []; mi_n = [] } in
           let want = implode (if fmt = "rpm" then rpm_version mi else deb_version mi) in
           if want <> obs then begin
             incr n_dis; incr n_fail;
             report (t.(1) ^ "/" ^ fmt) false [if mv = v && mp = pre && mm = meta then "verbatim" else "split"] []
               [Printf.sprintf "input schema=%S version=%S prerelease=%S metadata=%S" (implode schema) (implode v) (implode pre) (implode meta);
                Printf.sprintf "the %s package states version %S; the components compose to %S" fmt obs want]
           end
         end
       | "vorder" ->
         if t.(3) = "err" then incr n_err else begin
           incr n;
           let fmt = unhexs t.(2) in
           let a, b, c, d = unhexs t.(4), unhexs t.(5), unhexs t.(6), unhexs t.(7) in
           let clauses = if fmt = "rpm" then check_order_rpm (rpm_triple a) (rpm_triple b) (rpm_triple c) (rpm_triple d)
             else check_order_dpkg (explode a) (explode b) (explode c) (explode d) in
           if clauses <> [] then begin
             incr n_fail;
             (* known finding: epoch 4294967295 is rpmpack's "no epoch" value - the package is written without an epoch *)
             let kf = if fmt = "rpm" && t.(1) = "o-big-epoch-4294967295" && List.map c14_clause_name clauses = ["epoch-dominates"]
                         && String.length c > 0 && c.[0] = '|' then ["rpm-epoch-4294967295-is-no-epoch"] else [] in
             report ~kf (t.(1) ^ "/" ^ fmt) true (List.map c14_clause_name clauses) []
               [Printf.sprintf "prerelease build %S, release %S, higher epoch %S, higher patch %S" a b c d]
           end
         end
       | "vdpkg" ->
         incr n_oracle;
         let a, b = unhex t.(1), unhex t.(2) in
         let m = match dpkg_cmp a b with Some Lt -> "lt" | Some Eq -> "eq" | Some Gt -> "gt" | None -> "fuel" in
         if m <> t.(3) then begin
           incr n_dis;
           Printf.printf "DISAGREE dpkg-port %S vs %S: dpkg says %s, model says %s\n" (implode a) (implode b) t.(3) m
         end
       | _ -> ()
     done
   with End_of_file -> ());
  Printf.printf "SUMMARY cases=%d disagreements=%d impl_failures=%d impl_errors=%d dpkg_oracle_pairs=%d\n" !n !n_dis !n_fail !n_err !n_oracle

(* ---------- C15 ---------- *)
let c15_clause_name = function
  | NName -> "name-states-metadata" | NExt -> "extension" | NEffect -> "asking-changes-package"
  | NCliExit -> "cli-exit-status" | NCliFiles -> "cli-files" | NCliFormat -> "cli-format"

let run_c15 file =
  let n = ref 0 and n_dis = ref 0 and n_fail = ref 0 and n_err = ref 0 and n_cli = ref 0 in
  (* the package cases *)
  let ic = open_in file in
  iter_cases ic (fun _ -> ()) (fun c ->
      if c.format = "" then () else begin
        incr n;
        let f = fmt_of_string c.format in
        match c.impl_err, c.decode_err with
        | Some _, _ -> incr n_err
        | None, Some d -> incr n_fail; report c.id true ["undecodable"] [] [d]
        | None, None ->
          let mi = minfo_of c in
          let obs_meta = List.map (fun (k, v) -> (explode k, explode v)) c.meta in
          let unchanged, stable = (match List.filter_map (fun (tag, t) -> if tag = "nameeffect" then Some (t.(1) = "1", t.(2) = "1") else None) c.extra with
              | x :: _ -> x | [] -> (true, true)) in
          let clauses = check_filename f obs_meta (explode c.filename) unchanged stable in
          (* correspondence: the file name the model composes from the settings *)
          let model_name = model_filename f (archtab_of f) mi in
          let agree = (implode model_name = c.filename) in
          if not agree then incr n_dis;
          if clauses <> [] then incr n_fail;
          let only_name = List.for_all (fun cl -> cl = NName) clauses && clauses <> [] in
          let kf =
            (if only_name && f = FArch && arch_prerelease_dropped mi then ["archlinux-pkgver-drops-prerelease"] else [])
            @ (if only_name && f = FDeb && implode (gs mi "platform") <> "linux" then ["deb-filename-omits-platform"] else []) in
          if (not agree) || clauses <> [] then
            report ~kf c.id agree (List.map c15_clause_name clauses) []
              [Printf.sprintf "file name %S; the metadata dictates %S; the model composes %S" c.filename (implode (expected_filename f obs_meta)) (implode model_name)]
      end);
  close_in ic;
  (* the command-line cases *)
  let ic = open_in file in
  let cur = ref None and files = ref [] in
  (try
     while true do
       let line = input_line ic in
       let t = Array.of_list (String.split_on_char ' ' line) in
       match t.(0) with
       | "cli" -> cur := Some t; files := []
       | "clifile" -> files := (unhex t.(1), unhex t.(2)) :: !files
       | "clibuild" -> incr n_dis; Printf.printf "DISAGREE cli: the nfpm binary could not be built: %s\n" (unhexs t.(2))
       | "cliend" ->
         (match !cur with
          | None -> ()
          | Some t ->
            incr n; incr n_cli;
            let flag, target, conv = unhex t.(3), unhex t.(4), unhex t.(5) in
            let is_dir = t.(6) = "1" and code = int_of_string t.(7) in
            let registered = List.map explode ["deb"; "rpm"; "apk"; "ipk"; "archlinux"] in
            let plan = cli_plan registered target is_dir flag conv in
            let clauses = check_cli plan (z_of_int code) (List.rev !files) in
            if clauses <> [] then begin
              incr n_fail; incr n_dis;
              report ("cli-" ^ t.(1)) false (List.map c15_clause_name clauses) []
                [Printf.sprintf "format %s, -p %S, -t %S: exit %d, files [%s]; the model plans %s" (unhexs t.(2)) (implode flag) (implode target) code
                   (String.concat "; " (List.map (fun (p, m) -> implode p ^ " (" ^ implode m ^ ")") (List.rev !files)))
                   (match plan with CliErr -> "an error and no file" | CliOk (pk, path) -> implode pk ^ " at " ^ implode path)]
            end);
         cur := None
       | _ -> ()
     done
   with End_of_file -> ());
  close_in ic;
  Printf.printf "SUMMARY cases=%d disagreements=%d impl_failures=%d impl_errors=%d cli_cases=%d\n" !n !n_dis !n_fail !n_err !n_cli

(* ---------- C16 / C17 ---------- *)
let rec parse_doc (t : string array) (i : int ref) : doc =
  let tok = t.(!i) in
  incr i;
  match tok with
  | "M" ->
    let n = int_of_string t.(!i) in
    incr i;
    let kvs = List.init n (fun _ -> ()) |> List.map (fun () -> let k = unhex t.(!i) in incr i; let v = parse_doc t i in (k, v)) in
    DMap kvs
  | "S" ->
    let n = int_of_string t.(!i) in
    incr i;
    DSeq (List.init n (fun _ -> ()) |> List.map (fun () -> parse_doc t i))
  | _ -> let v = unhex t.(!i) in incr i; DScalar v

let sviol_name = function
  | SUnknownKey k -> "unknown-key:" ^ implode k | SRequired k -> "required:" ^ implode k | SEnum v -> "enum:" ^ implode v | SShape -> "shape" | SNot -> "not" | SConst v -> "const:" ^ implode v

let split_path (p : string) : string list = List.filter (fun x -> x <> "") (String.split_on_char '/' p)

(* "/contents/[2]/src" -> ["contents"; "[]"; "src"], map keys below fields and overrides -> "*" *)
let pattern_of (segs : string list) : char list list =
  let rec go prev = function
    | [] -> []
    | x :: r ->
      let y = if String.length x > 0 && x.[0] = '[' then "[]"
        else if prev = "fields" || prev = "overrides" then "*" else x in
      explode y :: go x r in
  go "" segs

let run_cfg which file =
  let n = ref 0 and n_dis = ref 0 and n_fail = ref 0 and n_strict = ref 0 and n_exp = ref 0 in
  let ic = open_in file in
  let cur_id = ref "" and cur_cls = ref "" and env = ref [] and raws = ref [] and leaves = ref [] in
  let finish_expand () =
    incr n; incr n_exp;
    let envl = List.rev !env in
    let raws_l = List.rev !raws and leaves_l = List.rev !leaves in
    if !cur_cls <> "ok" then begin incr n_fail; report !cur_id true ["expansion-document-rejected"] [] [] end else begin
      let problems = ref [] in
      (* scalars *)
      let expand_flag (segs : string list) =
        (* the expand flag of the content entry a src/dst belongs to: entries with expand true have been generated with "expand: true" *)
        let prefix = String.concat "/" (List.filteri (fun i _ -> i < List.length segs - 1) segs) in
        (* the harness does not print booleans; infer from the raw document: opted-in entries are listed below *)
        prefix in
      ignore expand_flag;
      let is_list_item (p : string) = let segs = split_path p in List.length segs > 0 && (let l = List.nth segs (List.length segs - 1) in String.length l > 0 && l.[0] = '[') in
      let list_base (p : string) = let segs = split_path p in String.concat "/" (List.filteri (fun i _ -> i < List.length segs - 1) segs) in
      (* group list items *)
      let lists = Hashtbl.create 16 in
      List.iter (fun (p, v) -> if is_list_item p then begin
                    let b = list_base p in
                    Hashtbl.replace lists b ((try Hashtbl.find lists b with Not_found -> []) @ [v]) end) raws_l;
      let parsed_lists = Hashtbl.create 16 in
      List.iter (fun (p, v) -> if is_list_item p then begin
                    let b = list_base p in
                    Hashtbl.replace parsed_lists b ((try Hashtbl.find parsed_lists b with Not_found -> []) @ [v]) end) leaves_l;
      Hashtbl.iter (fun b items ->
          let pat = pattern_of (split_path b) in
          let want = (match expand_kind pat with
              | EList -> List.map implode (expand_list envl (List.map explode items))
              | _ -> items) in
          let got = (try Hashtbl.find parsed_lists b with Not_found -> []) in
          if want <> got then problems := Printf.sprintf "list %s: model [%s] impl [%s]" b (String.concat "|" want) (String.concat "|" got) :: !problems) lists;
      (* opted-in content entries: those whose raw dst/src differ... the flag is not a string leaf; read it from the parsed leaves: the harness prints it as a leaf with path .../expand? no: decide by generator convention *)
      List.iter (fun (p, raw) ->
          if not (is_list_item p) && not (String.length p > 2 && String.sub p (String.length p - 2) 2 = "/#") then begin
            let segs = split_path p in
            let pat = pattern_of segs in
            let opted = List.mem (p ^ "!expand") (List.map fst raws_l) in
            let want = default_scalar pat (expand_scalar envl pat opted (explode raw)) in
            let got = (try Some (List.assoc p leaves_l) with Not_found -> None) in
            (* Parse goes on to split the version (WithDefaults), so these leaves are compared by C14 - unless the document's
               schema is "none", under which version and prerelease stay as expanded *)
            let schema_none = (try List.assoc "/version_schema" raws_l = "none" with Not_found -> false) in
            let skip = List.mem (implode (List.nth pat (List.length pat - 1)))
                (if schema_none && List.length segs = 1 then ["version_metadata"; "arch"] else ["version"; "prerelease"; "version_metadata"; "arch"]) in
            match got with
            | Some g -> if (not skip) && implode want <> g then problems := Printf.sprintf "%s: raw %S model %S impl %S" p raw (implode want) g :: !problems
            | None -> problems := Printf.sprintf "%s: missing after parsing" p :: !problems
          end) raws_l;
      (* passphrases and key ids exist only after parsing *)
      List.iter (fun (p, g) ->
          if not (List.mem_assoc p raws_l) && not (is_list_item p) && not (String.length p > 2 && String.sub p (String.length p - 2) 2 = "/#") then begin
            let pat = pattern_of (split_path p) in
            match expand_kind pat with
            | EPass f -> let want = implode (passphrase envl f) in
              if want <> g then problems := Printf.sprintf "%s: model %S impl %S" p want g :: !problems
            | EKeyID -> if g <> "" then problems := Printf.sprintf "%s: appeared as %S" p g :: !problems
            | _ -> ()
          end) leaves_l;
      if !problems <> [] then begin incr n_dis; incr n_fail; report !cur_id false ["expansion"] [] (List.rev !problems) end
    end in
  (try
     while true do
       let line = input_line ic in
       let t = Array.of_list (String.split_on_char ' ' line) in
       match t.(0) with
       | "strict" ->
         incr n; incr n_strict;
         let id = t.(1) and cls = t.(2) in
         let i = ref 3 in
         let d = parse_doc t i in
         let model_ok = strict_accepts config_ty d in
         let impl_ok = (cls = "ok") in
         let viol = schema_validates schema_emitted d in
         let schema_keys_ok = not (List.exists is_unknown_key viol) in
         if which = "C16" then begin
           (* "other" errors are type errors of the injected value (an integer where a block is expected), not key errors *)
           let agree = (model_ok = impl_ok) || cls = "other" in
           let clauses = (if cls = "panic" then ["parser-panicked"] else [])
                         @ (if (not model_ok) && impl_ok then ["unknown-key-accepted"] else [])
                         @ (if model_ok && cls = "unknownkey" then ["known-key-rejected"] else []) in
           if not agree then incr n_dis;
           if clauses <> [] then incr n_fail;
           if (not agree) || clauses <> [] then report id agree clauses [] [Printf.sprintf "parser: %s; model accepts: %b" cls model_ok]
         end else begin
           (* C17: accepted documents validate; key structure of schema and parser agree *)
           let others = List.filter (fun v -> not (is_unknown_key v)) viol in
           let clauses = (if impl_ok && not schema_keys_ok then ["schema-rejects-accepted-key"] else [])
                         @ (if cls = "unknownkey" && schema_keys_ok && doc_keys_unique (S (S (S (S (S (S (S (S (S (S (S (S O)))))))))))) d then ["schema-allows-rejected-key"] else [])
                         @ (if impl_ok && others <> [] then ["schema-rejects-accepted-document"] else [])
                         (* constructed documents whose values are of the right types: what the schema admits, the parser reads *)
                         @ (if String.length id > 17 && String.sub id 0 17 = "foreign-override-" && (not impl_ok) && model_ok && viol = []
                            then ["parser-rejects-schema-valid-document"] else []) in
           let kf =
             if clauses = ["schema-rejects-accepted-document"] then begin
               let req_only = List.for_all (fun v -> match v with
                   | SRequired k -> List.mem (implode k) ["arch"; "version"; "dst"; "name"] | _ -> false) others in
               let lvl_only = List.for_all (fun v -> match v with
                   | SEnum v -> String.contains (implode v) ':' | SRequired k -> List.mem (implode k) ["arch"; "version"; "dst"; "name"] | _ -> false) others in
               (* the recorded exception is rpm's level suffix; the same for another format is a different violation *)
               let is_probe_of_other_format = String.length id > 6 && String.sub id 0 6 = "value-" && not (String.length id > 10 && String.sub id 0 10 = "value-rpm.") in
               if req_only then ["schema-requires-defaulted-fields"] else if lvl_only && not is_probe_of_other_format then ["schema-compression-level-suffix"] else []
             end else [] in
           if clauses <> [] then begin
             incr n_fail;
             report ~kf id true clauses [] [Printf.sprintf "parser: %s; schema: [%s]" cls (String.concat ", " (List.map sviol_name viol))]
           end
         end
       | "expand" ->
         cur_id := t.(1); cur_cls := t.(2); env := []; raws := []; leaves := []
       | "env" -> env := (unhex t.(1), unhex t.(2)) :: !env
       | "rawleaf" -> raws := (unhexs t.(1), unhexs t.(2)) :: !raws
       | "leaf" -> leaves := (unhexs t.(1), unhexs t.(2)) :: !leaves
       | "expandend" -> if which = "C16" then finish_expand ()
       | _ -> ()
     done
   with End_of_file -> ());
  close_in ic;
  Printf.printf "SUMMARY cases=%d disagreements=%d impl_failures=%d impl_errors=0 strict_cases=%d expansion_cases=%d\n" !n !n_dis !n_fail !n_strict !n_exp

(* ---------- C13 ---------- *)
let rec parse_value (t : string array) (i : int ref) : value =
  let tok = t.(!i) in
  incr i;
  let count () = let n = int_of_string t.(!i) in incr i; List.init n (fun _ -> ()) in
  match tok with
  | "s" -> let v = unhex t.(!i) in incr i; VStr v
  | "o" -> let v = unhex t.(!i) in incr i; VOpaque v
  | "n" -> let v = zt t.(!i) in incr i; VNum v
  | "b" -> let v = t.(!i) = "1" in incr i; VBool v
  | "P" -> let some = t.(!i) = "1" in incr i; if some then VPtr (Some (parse_value t i)) else VPtr None
  | "L" -> VSlice (List.map (fun () -> parse_value t i) (count ()))
  | "D" -> VMap (List.map (fun () -> let k = unhex t.(!i) in incr i; let v = parse_value t i in (k, v)) (count ()))
  | "T" -> VStruct (List.map (fun () -> let k = unhex t.(!i) in incr i; let v = parse_value t i in (k, v)) (count ()))
  | other -> failwith ("value token " ^ other)

let rec show_value (v : value) : string =
  match v with
  | VStr s -> Printf.sprintf "%S" (implode s)
  | VOpaque s -> "<" ^ implode s ^ ">"
  | VNum z -> string_of_int (int_of_z z)
  | VBool b -> string_of_bool b
  | VPtr None -> "nil"
  | VPtr (Some x) -> "&" ^ show_value x
  | VSlice l -> "[" ^ String.concat ", " (List.map show_value l) ^ "]"
  | VMap m -> "map{" ^ String.concat ", " (List.map (fun (k, x) -> implode k ^ ": " ^ show_value x) m) ^ "}"
  | VStruct m -> "{" ^ String.concat ", " (List.filter_map (fun (k, x) -> if is_empty_value x then None else Some (implode k ^ ": " ^ show_value x)) m) ^ "}"

(* the first place where two value trees differ *)
let rec first_diff (path : string) (a : value) (b : value) : string option =
  match a, b with
  | VStruct l, VStruct m when List.map fst l = List.map fst m ->
    List.fold_left2 (fun acc (k, x) (_, y) -> match acc with Some _ -> acc | None -> first_diff (path ^ "." ^ implode k) x y) None l m
  | VPtr (Some x), VPtr (Some y) -> first_diff path x y
  | _ -> if a = b then None else Some (Printf.sprintf "%s: implementation %s, expected %s" path (show_value a) (show_value b))

let run_c13 file =
  let n = ref 0 and n_dis = ref 0 and n_fail = ref 0 and n_get = ref 0 and n_seq = ref 0 and n_foreign = ref 0 in
  let ic = open_in file in
  let id = ref "" and base = ref None and blocks = ref [] and gets = ref [] and vok = ref false and reg = ref []
  and seq_bad = ref [] and base_changed = ref false and foreign_bad = ref [] and equiv_bad = ref [] and parse_err = ref false in
  (try
     while true do
       let line = input_line ic in
       let t = Array.of_list (String.split_on_char ' ' line) in
       match t.(0) with
       | "ocase" -> id := t.(1); base := None; blocks := []; gets := []; vok := false; reg := []; seq_bad := [];
         base_changed := false; foreign_bad := []; equiv_bad := []; parse_err := false
       | "oparse" -> parse_err := true
       | "oregistered" -> reg := List.map unhex (List.tl (Array.to_list t))
       | "obase" -> base := Some (parse_value t (ref 1))
       | "oblock" -> blocks := (unhex t.(1), parse_value t (ref 2)) :: !blocks
       | "ovalidate" -> vok := t.(1) = "1"
       | "oget" -> if t.(2) = "ok" then begin incr n_get; gets := (unhex t.(1), parse_value t (ref 3)) :: !gets end
       | "oseq" -> incr n_seq; if t.(2) <> "1" then seq_bad := unhexs t.(1) :: !seq_bad
       | "obaseafter" -> if t.(1) <> "1" then base_changed := true
       | "oforeign" -> if int_of_string t.(2) > 0 then incr n_foreign; if t.(4) <> "1" then foreign_bad := unhexs t.(1) :: !foreign_bad
       | "oequiv" -> if t.(2) <> "1" then equiv_bad := (unhexs t.(1) ^ " (" ^ (if Array.length t > 3 then unhexs t.(3) else "") ^ ")") :: !equiv_bad
       | "oend" ->
         incr n;
         (match !base with
          | None -> if not !parse_err then begin incr n_dis; report !id false ["no-observation"] [] [] end
          | Some b ->
            let c = { k_base = b; k_blocks = List.rev !blocks; k_gets = List.rev !gets; k_validate_ok = !vok; k_registered = !reg } in
            let clauses = check_C13 c in
            (* correspondence: the model of the code (mergo) against the code *)
            let model_diff = List.filter_map (fun (f, got) ->
                let m = config_get b c.k_blocks f in
                if value_eqb got m then None else Some (f, first_diff (implode f) got m)) c.k_gets in
            let names = List.map (function OEffective f -> "effective-settings:" ^ implode f | OUnknownAccepted f -> "unknown-format-accepted:" ^ implode f) clauses in
            let names = names
                        @ List.map (fun f -> "get-depends-on-history:" ^ f) (List.sort_uniq compare !seq_bad)
                        @ (if !base_changed then ["get-changed-the-configuration"] else [])
                        @ List.map (fun f -> "foreign-entry-in-package:" ^ f) !foreign_bad
                        @ List.map (fun f -> "override-block-differs-from-the-same-settings-at-the-top:" ^ f) !equiv_bad in
            let mnames = List.map (fun (f, _) -> "model-of-merge:" ^ implode f) model_diff in
            (* known finding: every property-level difference is one the model of the code reproduces, i.e. the
               empty-map-value rule (the only place where model and property reading differ) *)
            let only_effective = List.for_all (function OEffective _ -> true | _ -> false) clauses
                                 && !seq_bad = [] && not !base_changed && !foreign_bad = [] && !equiv_bad = [] in
            let kf = if clauses <> [] && only_effective && model_diff = [] then ["override-empty-map-value"] else [] in
            if names <> [] || mnames <> [] then begin
              incr n_fail; if kf = [] then incr n_dis;
              let detail = List.filter_map (function
                  | OEffective f ->
                    let got = List.assoc f c.k_gets in
                    (match first_diff (implode f) got (spec_get b c.k_blocks f) with Some d -> Some d | None -> Some (implode f ^ ": shapes differ"))
                  | OUnknownAccepted f -> Some ("Validate accepted an override block for " ^ implode f)) clauses
                           @ List.filter_map (fun (_, d) -> match d with Some x -> Some ("model of the code: " ^ x) | None -> None) model_diff in
              report ~kf !id (kf <> [] || (names = [] && mnames = [])) names mnames detail
            end)
       | _ -> ()
     done
   with End_of_file -> ());
  close_in ic;
  Printf.printf "SUMMARY cases=%d disagreements=%d impl_failures=%d impl_errors=0 get_results=%d sequence_gets=%d packages_with_foreign_entries=%d\n" !n !n_dis !n_fail !n_get !n_seq !n_foreign

(* ---------- C11 ---------- *)
let rec nat_of_int (i : int) : nat = if i <= 0 then O else S (nat_of_int (i - 1))
let rec int_of_nat = function O -> 0 | S n -> 1 + int_of_nat n

(* the parsed configuration as a heap: one cell per non-nil pointer, non-empty slice and non-empty map *)
let heapify (v : value) : cell list * hval =
  let cells = ref [] and next = ref 0 in
  let alloc c = cells := c :: !cells; let l = !next in incr next; l in
  let rec go v =
    match v with
    | VStr s | VOpaque s -> HS s
    | VNum z -> HS (if int_of_z z = 0 then [] else explode (string_of_int (int_of_z z)))
    | VBool b -> HS (if b then ['1'] else [])
    | VStruct fs -> HT (List.map (fun (k, x) -> (k, go x)) fs)
    | VPtr None -> HS []
    | VPtr (Some x) -> let x' = go x in HR (KPtr, nat_of_int (alloc [([], x')]))
    | VSlice [] -> HS []
    | VSlice l -> let es = List.mapi (fun i x -> (explode (string_of_int i), go x)) l in HR (KSlice, nat_of_int (alloc es))
    | VMap [] -> HS []
    | VMap m -> let es = List.map (fun (k, x) -> (k, go x)) m in HR (KMap, nat_of_int (alloc es)) in
  let root = go v in
  (List.rev !cells, root)

let hop_of_string (s : string) : hop =
  match String.split_on_char ':' s with
  | ["validate"] -> OpValidate
  | ["name"; f] -> OpName (explode f)
  | ["pkg"; f] -> OpPackage (explode f)
  | _ -> failwith ("operation " ^ s)

let run_c11 file =
  let n = ref 0 and n_dis = ref 0 and n_fail = ref 0 and n_ops = ref 0 and n_alias = ref 0 and n_cells = ref 0 in
  let ic = open_in file in
  let id = ref "" and cfg = ref None and fails = ref [] and mfails = ref [] and detail = ref [] and parse_err = ref false in
  let priv_cache = Hashtbl.create 16 in
  (try
     while true do
       let line = input_line ic in
       let t = Array.of_list (String.split_on_char ' ' line) in
       match t.(0) with
       | "hcase" -> id := t.(1); cfg := None; fails := []; mfails := []; detail := []; parse_err := false; Hashtbl.reset priv_cache
       | "hparse" -> parse_err := true
       | "hconfig" -> let (h, root) = heapify (parse_value t (ref 1)) in n_cells := !n_cells + List.length h; cfg := Some (h, root)
       | "halias" ->
         (match !cfg with
          | None -> ()
          | Some (h, root) ->
            let f = unhexs t.(1) in
            let impl = ref [] in
            let i = ref 2 in
            while !i + 1 < Array.length t do
              if t.(!i) <> "" then impl := (unhexs t.(!i), t.(!i + 1) = "1") :: !impl;
              i := !i + 2
            done;
            let model = List.map (fun (p, a) -> (String.concat "/" (List.map implode p), a)) (get_aliases true (explode f) root h) in
            let impl_s = List.sort compare !impl and model_s = List.sort compare model in
            n_alias := !n_alias + List.length impl_s;
            if impl_s <> model_s then begin
              (* a cell the model says is the operation's own but the code shares with the configuration is where a
                 leak can happen; the other direction is only a model imprecision, reported as such *)
              let extra_shared = List.filter (fun (p, a) -> a && not (List.mem (p, true) model_s)) impl_s in
              let other = List.filter (fun x -> not (List.mem x model_s)) impl_s @ List.filter (fun x -> not (List.mem x impl_s)) model_s in
              if extra_shared <> [] then fails := ("get-shares-a-cell:" ^ f) :: !fails else mfails := ("alias-model:" ^ f) :: !mfails;
              detail := Printf.sprintf "Get(%s): references differing between code and model (path, shared with the configuration): %s" f
                  (String.concat "; " (List.map (fun (p, a) -> Printf.sprintf "%s=%b" p a) other) ^ " | code: " ^ String.concat "; " (List.map (fun (p, a) -> Printf.sprintf "%s=%b" p a) impl_s) ^ " | model: " ^ String.concat "; " (List.map (fun (p, a) -> Printf.sprintf "%s=%b" p a) model_s)) :: !detail
            end)
       | "hop" ->
         incr n_ops;
         (match !cfg with
          | None -> ()
          | Some (h, root) ->
            let op = unhexs t.(2) in
            let out_same = t.(3) = "1" and cfg_same = t.(4) = "1" in
            let predicted =
              match Hashtbl.find_opt priv_cache op with
              | Some b -> b
              | None -> let b = model_private true root h (hop_of_string op) in Hashtbl.add priv_cache op b; b in
            if not out_same then begin
              fails := Printf.sprintf "output-differs-from-fresh:%s@%s" op t.(1) :: !fails;
              detail := Printf.sprintf "operation %s (%s): produced %s, a fresh configuration produces %s" t.(1) op (unhexs t.(5)) (unhexs t.(6)) :: !detail
            end;
            if not cfg_same then fails := Printf.sprintf "configuration-changed:%s@%s" op t.(1) :: !fails;
            if not predicted then mfails := ("model-says-not-private:" ^ op) :: !mfails)
       | "hchanged" -> detail := Printf.sprintf "after operation %s the parsed configuration differs %s" t.(1) (unhexs t.(2)) :: !detail
       | "hget" -> if t.(2) <> "1" then fails := ("effective-settings-changed:" ^ unhexs t.(1)) :: !fails
       | "hend" ->
         incr n;
         if !cfg = None && not !parse_err then begin incr n_dis; report !id false ["no-observation"] [] [] end
         else if !fails <> [] || !mfails <> [] then begin
           incr n_dis; if !fails <> [] then incr n_fail;
           report !id false (List.rev !fails) (List.sort_uniq compare !mfails) (List.rev !detail)
         end
       | _ -> ()
     done
   with End_of_file -> ());
  close_in ic;
  Printf.printf "SUMMARY cases=%d disagreements=%d impl_failures=%d impl_errors=0 operations=%d alias_facts=%d heap_cells=%d\n" !n !n_dis !n_fail !n_ops !n_alias !n_cells

(* ---------- C12 ---------- *)
let run_c12 file =
  let n = ref 0 and n_dis = ref 0 and n_fail = ref 0 and n_res = ref 0 and n_races = ref 0 and n_threads = ref 0 in
  let ic = open_in file in
  let id = ref "" and cfg = ref None and refs = ref [] and fails = ref [] and mfails = ref [] and detail = ref [] and mode = ref "" in
  (try
     while true do
       let line = input_line ic in
       let t = Array.of_list (String.split_on_char ' ' line) in
       match t.(0) with
       | "ccase" -> id := t.(1); cfg := None; refs := []; fails := []; mfails := []; detail := []; mode := ""
       | "hconfig" -> cfg := Some (heapify (parse_value t (ref 1)))
       | "cmode" -> mode := unhexs t.(1)
       | "cref" ->
         refs := (unhexs t.(1), unhexs t.(2)) :: !refs;
         (* the model's side: the packaging thread of this format, run alone to completion on the configuration's heap,
            only ever writes cells of its own - the premise of the interleaving theorem *)
         (match !cfg with
          | Some (h, root) when !mode = "shared" || !mode = "gated-shared" ->
            incr n_threads;
            let th = t_init root (script_of true (OpPackage (unhex t.(1)))) in
            if not (solo_private (nat_of_int (List.length h)) h th (nat_of_int 4000)) then
              mfails := ("model-thread-not-private:" ^ unhexs t.(1)) :: !mfails
          | _ -> ())
       | "cres" ->
         incr n_res;
         let f = unhexs t.(3) and got = unhexs t.(4) in
         let want = try List.assoc f !refs with Not_found -> "?" in
         if got <> want then begin
           fails := ("concurrent-differs-from-sequential:" ^ f) :: !fails;
           detail := Printf.sprintf "round %s goroutine %s (%s): %s, sequentially %s" t.(1) t.(2) f got want :: !detail
         end
       | "cchild" -> fails := "child-process-failed" :: !fails; detail := unhexs t.(1) :: !detail
       | "crace" ->
         let k = int_of_string t.(1) in
         n_races := !n_races + k;
         if k > 0 then begin fails := "data-race" :: !fails; detail := (string_of_int k ^ " race report(s): " ^ unhexs t.(2)) :: !detail end
       | "cend" ->
         incr n;
         if !fails <> [] || !mfails <> [] then begin
           incr n_dis; if !fails <> [] then incr n_fail;
           report !id false (List.sort_uniq compare !fails) (List.sort_uniq compare !mfails) (List.rev !detail)
         end
       | _ -> ()
     done
   with End_of_file -> ());
  close_in ic;
  Printf.printf "SUMMARY cases=%d disagreements=%d impl_failures=%d impl_errors=0 concurrent_results=%d race_reports=%d model_threads=%d\n" !n !n_dis !n_fail !n_res !n_races !n_threads

(* ---------- C06 ---------- *)
let refkind_of_string (s : string) : refkind =
  match String.split_on_char ':' s with
  | "content" :: pk :: rest -> RContent (explode pk, explode (String.concat ":" rest))
  | ["script"; "top"] -> RScriptTop
  | ["script"; f] -> RScriptOf (explode f)
  | ["changelog"] -> RChangelog
  | ["key"; f] -> RKeyOf (explode f)
  | _ -> failwith ("reference kind " ^ s)

let c06_clause_name = function
  | WSilent (k, mode) -> Printf.sprintf "success-although-write-%d-failed(%s)" (int_of_nat k) (implode mode)
  | WCount -> "destination-write-count"
  | RSilent f -> "success-although-file-unreadable:" ^ implode f
  | ISilent (c, f) -> Printf.sprintf "invalid-setting-accepted:%s:%s" (implode c) (implode f)
  | CExit n -> "cli-exit-status:" ^ implode n
  | CTargetLeft n -> "cli-target-left-behind:" ^ implode n
  | CCauseMissing n -> "cli-cause-not-printed:" ^ implode n
  | CNoPackage n -> "cli-no-package-written:" ^ implode n

let run_c06 file =
  let n = ref 0 and n_dis = ref 0 and n_fail = ref 0 and n_w = ref 0 and n_r = ref 0 and n_i = ref 0 and n_c = ref 0 in
  let ic = open_in file in
  let id = ref "" and fmt = ref "" and base_w = ref 0 and odd = ref [] and faults = ref [] and clauses = ref [] and detail = ref [] and mclauses = ref [] in
  let finish () =
    incr n;
    if !clauses <> [] || !mclauses <> [] then begin
      incr n_dis; if !clauses <> [] then incr n_fail;
      report !id false (List.rev !clauses) (List.rev !mclauses) (List.rev !detail)
    end in
  let add cls d = List.iter (fun c -> match c with
      | WCount -> mclauses := c06_clause_name c :: !mclauses
      | _ -> clauses := c06_clause_name c :: !clauses) cls;
    if cls <> [] then detail := d :: !detail in
  (try
     while true do
       let line = input_line ic in
       let t = Array.of_list (String.split_on_char ' ' line) in
       match t.(0) with
       | "wcase" | "rcase" | "icase" | "ccase" ->
         id := t.(1); clauses := []; mclauses := []; detail := []; faults := []; odd := []; base_w := 0;
         if t.(0) = "wcase" then fmt := unhexs t.(2)
       | "wbase" ->
         if t.(1) = "ok" then begin
           base_w := int_of_string t.(2);
           odd := List.map (fun s -> int_of_string s mod 2 = 1) (List.filter (fun s -> s <> "") (Array.to_list (Array.sub t 4 (Array.length t - 4))))
         end
       | "wf" ->
         incr n_w;
         faults := ((nat_of_int (int_of_string t.(1)), explode t.(2)), t.(3) = "1", t.(4) = "1", (if Array.length t > 6 then unhexs t.(6) else "")) :: !faults
       | "wend" ->
         let fs = List.rev_map (fun ((k, m), hit, nil, _) -> (((k, m), hit), nil)) !faults in
         let o = { w_format = explode !fmt; w_writes = nat_of_int !base_w; w_odd = !odd; w_faults = fs } in
         add (check_write o)
           (Printf.sprintf "%s: %d destination writes without faults (model for deb: %d); faults that went unreported: %s" !fmt !base_w
              (int_of_nat (deb_dest_writes !odd))
              (String.concat ", " (List.filter_map (fun ((k, m), hit, nil, _) -> if hit && nil then Some (Printf.sprintf "write %d (%s)" (int_of_nat k) (implode m)) else None) (List.rev !faults))));
         finish ()
       | "rref" ->
         incr n_r;
         let kind = unhexs t.(1) and f = unhexs t.(3) in
         add (check_ref (refkind_of_string kind) (explode f) (t.(4) = "1"))
           (Printf.sprintf "%s %s made unreadable: %s packaging returned nil" kind (unhexs t.(2)) f)
       | "rend" | "iend" | "cend" -> finish ()
       | "iset" ->
         incr n_i;
         let cl = unhexs t.(1) and f = unhexs t.(2) in
         add (check_invalid (explode cl) (explode f) (t.(3) = "1")) (Printf.sprintf "%s: %s packaging returned nil" cl f)
       | "cli" ->
         incr n_c;
         let name = unhexs t.(1) and f = unhexs t.(2) in
         add (check_cli_run (explode name) (t.(3) = "0") (t.(4) = "1") (t.(5) = "1"))
           (Printf.sprintf "nfpm package -p %s (%s): exit %s, target %s, last output line: %s" f name t.(3)
              (if t.(4) = "1" then "exists" else "absent") (if Array.length t > 6 then unhexs t.(6) else ""))
       | _ -> ()
     done
   with End_of_file -> ());
  close_in ic;
  Printf.printf "SUMMARY cases=%d disagreements=%d impl_failures=%d impl_errors=0 write_faults=%d reference_faults=%d invalid_settings=%d cli_runs=%d\n" !n !n_dis !n_fail !n_w !n_r !n_i !n_c

(* ---------- C07 ---------- *)
let c07_clause_name = function
  | NotReproducible (f, w) -> Printf.sprintf "rebuild-differs:%s:%s" (implode f) (implode w)
  | BuildFailed f -> "build-failed:" ^ implode f
  | ForeignStamp (f, w, v) -> Printf.sprintf "timestamp-from-nowhere:%s:%s=%d" (implode f) (implode w) (int_of_z v)

let run_c07 file =
  let n = ref 0 and n_dis = ref 0 and n_fail = ref 0 and n_b = ref 0 and n_s = ref 0 in
  let ic = open_in file in
  let id = ref "" and allowed = ref [] and clauses = ref [] and detail = ref [] in
  (try
     while true do
       let line = input_line ic in
       let t = Array.of_list (String.split_on_char ' ' line) in
       match t.(0) with
       | "rcase" -> id := t.(1); allowed := []; clauses := []; detail := []
       | "rmtime" -> allowed := zt t.(1) :: !allowed
       | "rallow" -> allowed := zt t.(2) :: !allowed
       | "rbuild" ->
         incr n_b;
         let b = { b_format = unhex t.(1); b_first = unhex t.(2); b_again = unhex t.(3); b_child = unhex t.(4); b_abs = unhex t.(5); b_late = unhex t.(6) } in
         let cl = check_build b in
         if cl <> [] then begin
           clauses := List.map c07_clause_name cl @ !clauses;
           detail := Printf.sprintf "%s: first %s, again %s, other process (%s) %s, absolute sources %s, first pass %s" (unhexs t.(1)) (unhexs t.(2)) (unhexs t.(3)) (unhexs t.(7)) (unhexs t.(4)) (unhexs t.(5)) (unhexs t.(6)) :: !detail
         end
       | "rhost" ->
         if t.(1) <> t.(2) then begin
           clauses := "rpm-build-host-is-not-the-one-the-document-fixes" :: !clauses;
           detail := Printf.sprintf "rpm: BUILDHOST %s, the document says %s" (unhexs t.(2)) (unhexs t.(1)) :: !detail
         end
       | "rstamp" ->
         incr n_s;
         let cl = check_stamp !allowed (unhex t.(1)) (unhex t.(2)) (zt t.(3)) in
         if cl <> [] then clauses := List.map c07_clause_name cl @ !clauses
       | "rend" ->
         incr n;
         if !clauses <> [] then begin
           incr n_dis; incr n_fail;
           report !id false (List.sort_uniq compare !clauses) [] (List.rev !detail)
         end
       | _ -> ()
     done
   with End_of_file -> ());
  close_in ic;
  Printf.printf "SUMMARY cases=%d disagreements=%d impl_failures=%d impl_errors=0 builds=%d timestamps=%d\n" !n !n_dis !n_fail !n_b !n_s

(* ---------- C10 ---------- *)
let c10_clause_name = function
  | SUnexpectedError -> "signing-configured-but-packaging-failed"
  | SSilentSuccess -> "package-reported-although-signing-must-fail"
  | SErrorNotASigningFailure -> "error-is-not-a-signing-failure"
  | SErrorHidesCause -> "error-does-not-wrap-the-signers-error"
  | SMemberName g -> "signature-member-misplaced:" ^ implode g
  | SMissing w -> "signature-missing:" ^ implode w
  | SVerify (w, who) -> Printf.sprintf "signature-does-not-verify:%s(%s)" (implode w) (implode who)
  | SManifest m -> "dpkg-sig-manifest-does-not-match:" ^ implode m
  | SRole r -> "dpkg-sig-role:" ^ implode r
  | SCallbackBytes -> "callback-got-other-bytes"

let run_c10 file =
  let n = ref 0 and n_dis = ref 0 and n_fail = ref 0 and n_v = ref 0 and n_gpg = ref 0 and n_cb = ref 0 and n_err = ref 0 in
  let ic = open_in file in
  let id = ref "" and fmt = ref "" and expect = ref "" and cbf = ref false and okr = ref false and asg = ref false and wraps = ref false
  and meth = ref "" and typ = ref "" and last = ref "" and nm = ref 0 and kn = ref "" and mt = ref "" and first = ref ""
  and verify = ref [] and manifest = ref [] and role = ref None and cb = ref None and errmsg = ref "" and seen = ref false and rearmored = ref [] in
  (try
     while true do
       let line = input_line ic in
       let t = Array.of_list (String.split_on_char ' ' line) in
       match t.(0) with
       | "scase" -> id := t.(1); fmt := unhexs t.(2); rearmored := []; expect := ""; cbf := false; okr := false; asg := false; wraps := false;
         meth := ""; typ := ""; last := ""; nm := 0; kn := ""; mt := ""; first := ""; verify := []; manifest := []; role := None; cb := None; errmsg := ""; seen := false
       | "sexpect" -> expect := unhexs t.(1); cbf := t.(2) = "1"
       | "sres" -> seen := true; okr := t.(1) = "ok"; asg := t.(2) = "1"; wraps := t.(3) = "1"; errmsg := unhexs t.(4); if not !okr then incr n_err
       | "sdebtype" -> typ := unhexs t.(1); meth := unhexs t.(2)
       | "slast" -> last := unhexs t.(1); nm := int_of_string t.(2)
       | "sapkname" -> kn := unhexs t.(1); mt := unhexs t.(2); first := unhexs t.(3)
       | "sverify" ->
         incr n_v; if t.(3) <> "-" then incr n_gpg;
         if t.(3) = "A" then rearmored := unhexs t.(1) :: !rearmored;
         verify := ((unhex t.(1), t.(2) = "1"), (match t.(3) with "1" -> Some true | "0" | "A" -> Some false | _ -> None)) :: !verify
       | "smanifest" -> manifest := (unhex t.(1), t.(2) = "1") :: !manifest
       | "srole" -> role := Some (unhex t.(1))
       | "scallback" -> incr n_cb; cb := Some (t.(2) = "1")
       | "send" ->
         if !seen then begin
           incr n;
           let o = { o_format = explode !fmt; o_expect = explode !expect; o_cb_fails = !cbf; o_ok = !okr; o_as_signing = !asg; o_wraps = !wraps;
                     o_method = explode !meth; o_type = explode !typ; o_last = explode !last; o_nmembers = nat_of_int !nm;
                     o_keyname = explode !kn; o_maintainer = explode !mt; o_first = explode !first; o_sigs = [];
                     o_verify = List.rev !verify; o_manifest = List.rev !manifest; o_role = !role; o_callback = !cb } in
           let cl = check_C10 o in
           (* known finding: gpg rejects the cleartext signature as armored but accepts the same packets with a CRC line *)
           let kf = if cl <> [] && List.for_all (function SVerify (w, who) -> implode who = "gpg" && List.mem (implode w) !rearmored | _ -> false) cl
             then ["clearsign-armor-without-crc"] else [] in
           if cl <> [] then begin
             if kf = [] then incr n_dis; incr n_fail;
             report ~kf !id (kf <> []) (List.map c10_clause_name cl) []
               [Printf.sprintf "%s, expected %s: %s%s" !fmt !expect (if !okr then "package built" else "error: " ^ !errmsg)
                  (if !okr && !fmt = "deb" then Printf.sprintf "; last member %s of %d, method %S type %S" !last !nm !meth !typ
                   else if !okr && !fmt = "apk" then Printf.sprintf "; first member %s, key name %S, maintainer %S" !first !kn !mt else "")]
           end
         end
       | _ -> ()
     done
   with End_of_file -> ());
  close_in ic;
  Printf.printf "SUMMARY cases=%d disagreements=%d impl_failures=%d impl_errors=0 signatures_verified=%d of_which_also_by_gpg=%d callbacks=%d failing_signers=%d\n" !n !n_dis !n_fail !n_v !n_gpg !n_cb !n_err

let () =
  match Sys.argv with
  | [| _; "C10"; file |] -> run_c10 file
  | [| _; "C07"; file |] -> run_c07 file
  | [| _; "C06"; file |] -> run_c06 file
  | [| _; "C12"; file |] -> run_c12 file
  | [| _; "C11"; file |] -> run_c11 file
  | [| _; "C13"; file |] -> run_c13 file
  | [| _; "C05"; file |] -> let ic = open_in file in run_c05 ic; close_in ic
  | [| _; "C01"; file |] -> let ic = open_in file in run_c01 ic; close_in ic
  | [| _; "C02"; file |] -> let ic = open_in file in run_c02 ic; close_in ic
  | [| _; "C03"; file |] -> let ic = open_in file in run_c03 ic; close_in ic
  | [| _; "C04"; file |] -> let ic = open_in file in run_c04 ic; close_in ic
  | [| _; "C15"; file |] -> run_c15 file
  | [| _; "C16"; file |] -> run_cfg "C16" file
  | [| _; "C17"; file |] -> run_cfg "C17" file
  | [| _; "C14"; file |] -> let ic = open_in file in run_c14 ic; close_in ic
  | [| _; "C08"; file |] -> let ic = open_in file in run_c08 ic; close_in ic
  | [| _; "C09"; file |] -> let ic = open_in file in run_c09 ic; close_in ic
  | _ -> prerr_endline "usage: driver <property> <casefile>"; exit 2
