(* C04 - well-formed archives. Statements only. *)
From Coq Require Import List NArith ZArith Bool String.
From Coq Require Import Strings.Byte.
From NfpmV Require Import Lib.Bytes Model.Path Model.Content Model.Prepare Model.Payload Spec.C05 Spec.C01 Spec.C04.
From NfpmV Require Import Proofs.KeyFacts Proofs.PlanFacts Proofs.C05Proofs Proofs.C01Proofs Proofs.C04Proofs Proofs.C04Plan Proofs.C04Parents.
Import ListNotations.
Open Scope list_scope.

(* For deb, ipk, apk and archlinux and every plan of prepared entries with distinct locations, the member
   names of the payload tar written by the packager model are unique, relative, "./"-prefixed (deb, ipk),
   free of ".." components, and directory members end in "/" (the root excepted).
   (Kept from the first version: everything but "parents precede children"; the full statement is below.) *)
Theorem C04_tar_names_wellformed_partial :
  forall f mt cs, f <> FRpm -> all_prepared f cs -> NoDup (map location cs) -> named_root_ok f cs ->
  forall cl, In cl (check_names f (members_of (payload_of f mt cs))) -> cl = WParents.
Proof. exact names_wellformed. Qed.
Print Assumptions C04_tar_names_wellformed_partial.

(* the same for the plans the planning model produces *)
Theorem C04_plan_names_wellformed_partial :
  forall f fs st ces umask mt cs, f <> FRpm ->
  oracle_okb fs st umask mt ces = true -> prep fs st ces umask (fmt_name f) mt = Ok cs -> envelope_C01 cs = true ->
  named_root_ok f cs ->
  forall cl, In cl (check_names f (members_of (payload_of f mt cs))) -> cl = WParents.
Proof. exact plan_names_wellformed. Qed.
Print Assumptions C04_plan_names_wellformed_partial.

(* THE FULL STATEMENT. With the plan's parents first (which C05 proves of every plan the planning model produces),
   no clause of the name checker fails - "parents precede children" included: every member's directory is "", "./"
   or a directory member written earlier. *)
Theorem C04_tar_names_wellformed :
  forall f mt cs, f <> FRpm -> all_prepared f cs -> NoDup (map location cs) -> named_root_ok f cs ->
  parents_beforeb [] cs = true ->
  check_names f (members_of (payload_of f mt cs)) = [].
Proof. exact names_wellformed_all. Qed.
Print Assumptions C04_tar_names_wellformed.

Theorem C04_plan_names_wellformed :
  forall f fs st ces umask mt cs, f <> FRpm ->
  oracle_okb fs st umask mt ces = true -> prep fs st ces umask (fmt_name f) mt = Ok cs -> envelope_C01 cs = true ->
  named_root_ok f cs ->
  check_names f (members_of (payload_of f mt cs)) = [].
Proof. exact plan_names_wellformed_all. Qed.
Print Assumptions C04_plan_names_wellformed.

(* REFUTED without that hypothesis: apk and archlinux write the root directory - a tree or dir entry whose
   destination is "/" - as a member with an EMPTY name (known finding C04-K1) *)
Theorem C04_root_directory_member_refuted :
  In WEmptyName (check_names FArch [([], true); (B "sub/", true)]) /\
  as_rel (B "/") = [].
Proof. split; [|reflexivity]. assert (H : existsb (fun c => match c with WEmptyName => true | _ => false end) (check_names FArch [([], true); (B "sub/", true)]) = true) by (vm_compute; reflexivity).
  apply existsb_exists in H. destruct H as (c & Hin & Hc). destruct c; try discriminate Hc. exact Hin. Qed.
Print Assumptions C04_root_directory_member_refuted.
