(* C04 - well-formed archives. Statements only. *)
From Coq Require Import List NArith ZArith Bool String.
From Coq Require Import Strings.Byte.
From NfpmV Require Import Lib.Bytes Model.Path Model.Content Model.Prepare Model.Payload Spec.C05 Spec.C01 Spec.C04.
From NfpmV Require Import Proofs.KeyFacts Proofs.PlanFacts Proofs.C05Proofs Proofs.C01Proofs Proofs.C04Proofs Proofs.C04Plan Proofs.C04Parents.
From NfpmV Require Import Model.Cpio Proofs.CpioProofs.
Import ListNotations.
Open Scope list_scope.

(* For deb, ipk, apk and archlinux and every plan of prepared entries with distinct locations, the member
   names of the payload tar written by the packager model are unique, relative, "./"-prefixed (deb, ipk),
   free of ".." components, and directory members end in "/" (the root excepted).
   (Kept from the first version: everything but "parents precede children"; the full statement is below.) *)
Theorem C04_tar_names_wellformed_partial :
  forall f mt cs, f <> FRpm -> all_prepared f cs -> NoDup (map location cs) -> named_root_ok f cs ->
  forall cl, In cl (check_names f (members_of (payload_of f mt cs))) -> cl = WParents.
Proof. exact names_wellformed. Qed.
Print Assumptions C04_tar_names_wellformed_partial.

(* the same for the plans the planning model produces *)
Theorem C04_plan_names_wellformed_partial :
  forall f fs st ces umask mt cs, f <> FRpm ->
  oracle_okb fs st umask mt ces = true -> prep fs st ces umask (fmt_name f) mt = Ok cs -> envelope_C01 cs = true ->
  named_root_ok f cs ->
  forall cl, In cl (check_names f (members_of (payload_of f mt cs))) -> cl = WParents.
Proof. exact plan_names_wellformed. Qed.
Print Assumptions C04_plan_names_wellformed_partial.

(* THE FULL STATEMENT. With the plan's parents first (which C05 proves of every plan the planning model produces),
   no clause of the name checker fails - "parents precede children" included: every member's directory is "", "./"
   or a directory member written earlier. *)
Theorem C04_tar_names_wellformed :
  forall f mt cs, f <> FRpm -> all_prepared f cs -> NoDup (map location cs) -> named_root_ok f cs ->
  parents_beforeb [] cs = true ->
  check_names f (members_of (payload_of f mt cs)) = [].
Proof. exact names_wellformed_all. Qed.
Print Assumptions C04_tar_names_wellformed.

Theorem C04_plan_names_wellformed :
  forall f fs st ces umask mt cs, f <> FRpm ->
  oracle_okb fs st umask mt ces = true -> prep fs st ces umask (fmt_name f) mt = Ok cs -> envelope_C01 cs = true ->
  named_root_ok f cs ->
  check_names f (members_of (payload_of f mt cs)) = [].
Proof. exact plan_names_wellformed_all. Qed.
Print Assumptions C04_plan_names_wellformed.

(* REFUTED without that hypothesis: apk and archlinux write the root directory - a tree or dir entry whose
   destination is "/" - as a member with an EMPTY name (known finding C04-K1) *)
Theorem C04_root_directory_member_refuted :
  In WEmptyName (check_names FArch [([], true); (B "sub/", true)]) /\
  as_rel (B "/") = [].
Proof. split; [|reflexivity]. assert (H : existsb (fun c => match c with WEmptyName => true | _ => false end) (check_names FArch [([], true); (B "sub/", true)]) = true) by (vm_compute; reflexivity).
  apply existsb_exists in H. destruct H as (c & Hin & Hc). destruct c; try discriminate Hc. exact Hin. Qed.
Print Assumptions C04_root_directory_member_refuted.

(* THE RPM PAYLOAD CONTAINER. The cpio "newc" archive, as rpmpack's writer lays it out (110-byte header of
   8-digit upper-case hexadecimal fields, NUL-terminated name, padding to 4 bytes after name and after data, a
   TRAILER!!! entry with link count 1), read back by the reader yields exactly the entries written - every
   field, any number of entries, any names, modes, sizes and bodies that fit the 8-digit fields - and nothing
   is left after the trailer. *)
Theorem C04_cpio_roundtrip :
  forall es, Forall wf_centry es -> cpio_centries (S (List.length es)) (cpio_encode es) = Some (es, []).
Proof. exact cpio_roundtrip_full. Qed.
Print Assumptions C04_cpio_roundtrip.

(* what the per-run check [cpio_reencodes] on the payload of a real rpm means: the real bytes ARE the model
   writer's output for the entries the model reader finds in them *)
Theorem C04_cpio_check_sound :
  forall s, cpio_reencodes s = true ->
  exists es, cpio_centries (S (List.length s)) s = Some (es, []) /\ cpio_encode es = s.
Proof. exact reencodes_sound. Qed.
Print Assumptions C04_cpio_check_sound.

(* non-vacuity: a two-entry archive with a 5-byte body meets the hypothesis and round-trips *)
Example C04_cpio_example :
  let e1 := {| ce_name := B "./usr"; ce_mode := N.to_nat 16877; ce_data := []; ce_pre := B "00000001";
               ce_mid := B "00000000000000000000000200000000"; ce_dev := B "00000000000000000000000000000000"; ce_chk := B "00000000" |} in
  let e2 := {| ce_name := B "./usr/a"; ce_mode := N.to_nat 33188; ce_data := B "hello"; ce_pre := B "00000002";
               ce_mid := B "0000000000000000000000015F5E1000"; ce_dev := B "00000000000000000000000000000000"; ce_chk := B "00000000" |} in
  cpio_reencodes (cpio_encode [e1; e2]) = true /\ List.length (cpio_encode [e1; e2]) = 368.
Proof. vm_compute. split; reflexivity. Qed.
