(* C04 - well-formed archives. Statements only. *)
From Coq Require Import List NArith ZArith Bool String.
From Coq Require Import Strings.Byte.
From NfpmV Require Import Lib.Bytes Model.Path Model.Content Model.Prepare Model.Payload Spec.C05 Spec.C01 Spec.C04.
From NfpmV Require Import Proofs.KeyFacts Proofs.PlanFacts Proofs.C05Proofs Proofs.C01Proofs Proofs.C04Proofs Proofs.C04Plan Proofs.C04Parents.
From NfpmV Require Import Model.Cpio Proofs.CpioProofs Model.Tar Proofs.TarProofs Model.RpmFile Proofs.RpmFileProofs Model.Container Proofs.C10Proofs.
From NfpmV Require Import Model.TarFields Proofs.TarFieldsProofs.
Import ListNotations.
Open Scope list_scope.

(* For deb, ipk, apk and archlinux and every plan of prepared entries with distinct locations, the member
   names of the payload tar written by the packager model are unique, relative, "./"-prefixed (deb, ipk),
   free of ".." components, and directory members end in "/" (the root excepted).
   (Kept from the first version: everything but "parents precede children"; the full statement is below.) *)
Theorem C04_tar_names_wellformed_partial :
  forall f mt cs, f <> FRpm -> all_prepared f cs -> NoDup (map location cs) -> named_root_ok f cs ->
  forall cl, In cl (check_names f (members_of (payload_of f mt cs))) -> cl = WParents.
Proof. exact names_wellformed. Qed.
Print Assumptions C04_tar_names_wellformed_partial.

(* the same for the plans the planning model produces *)
Theorem C04_plan_names_wellformed_partial :
  forall f fs st ces umask mt cs, f <> FRpm ->
  oracle_okb fs st umask mt ces = true -> prep fs st ces umask (fmt_name f) mt = Ok cs -> envelope_C01 cs = true ->
  named_root_ok f cs ->
  forall cl, In cl (check_names f (members_of (payload_of f mt cs))) -> cl = WParents.
Proof. exact plan_names_wellformed. Qed.
Print Assumptions C04_plan_names_wellformed_partial.

(* THE FULL STATEMENT. With the plan's parents first (which C05 proves of every plan the planning model produces),
   no clause of the name checker fails - "parents precede children" included: every member's directory is "", "./"
   or a directory member written earlier. *)
Theorem C04_tar_names_wellformed :
  forall f mt cs, f <> FRpm -> all_prepared f cs -> NoDup (map location cs) -> named_root_ok f cs ->
  parents_beforeb [] cs = true ->
  check_names f (members_of (payload_of f mt cs)) = [].
Proof. exact names_wellformed_all. Qed.
Print Assumptions C04_tar_names_wellformed.

Theorem C04_plan_names_wellformed :
  forall f fs st ces umask mt cs, f <> FRpm ->
  oracle_okb fs st umask mt ces = true -> prep fs st ces umask (fmt_name f) mt = Ok cs -> envelope_C01 cs = true ->
  named_root_ok f cs ->
  check_names f (members_of (payload_of f mt cs)) = [].
Proof. exact plan_names_wellformed_all. Qed.
Print Assumptions C04_plan_names_wellformed.

(* REFUTED without that hypothesis: apk and archlinux write the root directory - a tree or dir entry whose
   destination is "/" - as a member with an EMPTY name (known finding C04-K1) *)
Theorem C04_root_directory_member_refuted :
  In WEmptyName (check_names FArch [([], true); (B "sub/", true)]) /\
  as_rel (B "/") = [].
Proof. split; [|reflexivity]. assert (H : existsb (fun c => match c with WEmptyName => true | _ => false end) (check_names FArch [([], true); (B "sub/", true)]) = true) by (vm_compute; reflexivity).
  apply existsb_exists in H. destruct H as (c & Hin & Hc). destruct c; try discriminate Hc. exact Hin. Qed.
Print Assumptions C04_root_directory_member_refuted.

(* THE RPM PAYLOAD CONTAINER. The cpio "newc" archive, as rpmpack's writer lays it out (110-byte header of
   8-digit upper-case hexadecimal fields, NUL-terminated name, padding to 4 bytes after name and after data, a
   TRAILER!!! entry with link count 1), read back by the reader yields exactly the entries written - every
   field, any number of entries, any names, modes, sizes and bodies that fit the 8-digit fields - and nothing
   is left after the trailer. *)
Theorem C04_cpio_roundtrip :
  forall es, Forall wf_centry es -> cpio_centries (S (List.length es)) (cpio_encode es) = Some (es, []).
Proof. exact cpio_roundtrip_full. Qed.
Print Assumptions C04_cpio_roundtrip.

(* what the per-run check [cpio_reencodes] on the payload of a real rpm means: the real bytes ARE the model
   writer's output for the entries the model reader finds in them *)
Theorem C04_cpio_check_sound :
  forall s, cpio_reencodes s = true ->
  exists es, cpio_centries (S (List.length s)) s = Some (es, []) /\ cpio_encode es = s.
Proof. exact reencodes_sound. Qed.
Print Assumptions C04_cpio_check_sound.

(* non-vacuity: a two-entry archive with a 5-byte body meets the hypothesis and round-trips *)
Example C04_cpio_example :
  let e1 := {| ce_name := B "./usr"; ce_mode := N.to_nat 16877; ce_data := []; ce_pre := B "00000001";
               ce_mid := B "00000000000000000000000200000000"; ce_dev := B "00000000000000000000000000000000"; ce_chk := B "00000000" |} in
  let e2 := {| ce_name := B "./usr/a"; ce_mode := N.to_nat 33188; ce_data := B "hello"; ce_pre := B "00000002";
               ce_mid := B "0000000000000000000000015F5E1000"; ce_dev := B "00000000000000000000000000000000"; ce_chk := B "00000000" |} in
  cpio_reencodes (cpio_encode [e1; e2]) = true /\ List.length (cpio_encode [e1; e2]) = 368.
Proof. vm_compute. split; reflexivity. Qed.

(* THE TAR CONTAINER, at block level, for every header format nfpm writes (USTAR, PAX, GNU: extension members are
   members like any other at this level): 512-byte header blocks whose size field is 11 octal digits and a NUL and
   whose checksum field is 6 octal digits, NUL, blank over the block with that field read as blanks, bodies padded
   to 512 with zeros, two zero blocks at the end. For ANY members (any raw name / mode / owner / time / type / link
   bytes of the right widths, any body below 8 GiB) the reader - which checks every checksum and every padding -
   returns exactly the members written and stops at the end marker. *)
Theorem C04_tar_roundtrip :
  forall ms, Forall wf_tmember ms -> tar_read (tar_full ms) = Some (ms, repeat tnul 1024).
Proof. exact tar_read_full. Qed.
Print Assumptions C04_tar_roundtrip.

(* apk: segments cut before the end-of-archive marker followed by a complete tar ARE one tar archive holding the
   members of all of them in order, and are read as that *)
Theorem C04_apk_segments_read_as_one_tar :
  forall sg ctl data, Forall wf_tmember sg -> Forall wf_tmember ctl -> Forall wf_tmember data ->
  tar_cut sg ++ tar_cut ctl ++ tar_full data = tar_full (sg ++ ctl ++ data) /\
  tar_members (S (List.length (sg ++ ctl ++ data))) (tar_cut sg ++ tar_cut ctl ++ tar_full data)
  = Some (sg ++ ctl ++ data, repeat tnul 1024).
Proof. exact tar_segments_concatenate. Qed.
Print Assumptions C04_apk_segments_read_as_one_tar.

(* a cut segment alone is read to its last byte, with nothing left and no marker seen *)
Theorem C04_tar_cut_roundtrip :
  forall ms, Forall wf_tmember ms -> tar_read (tar_cut ms) = Some (ms, []).
Proof. exact tar_read_cut. Qed.
Print Assumptions C04_tar_cut_roundtrip.

(* what the per-run checks on the tar streams of real packages mean *)
Theorem C04_tar_check_sound :
  (forall s, tar_reencodes_full s = true -> exists ms, tar_read s = Some (ms, repeat tnul 1024) /\ tar_full ms = s) /\
  (forall s, tar_reencodes_cut s = true -> exists ms, tar_read s = Some (ms, []) /\ tar_cut ms = s).
Proof. split; [exact reencodes_full_sound|exact reencodes_cut_sound]. Qed.
Print Assumptions C04_tar_check_sound.

(* non-vacuity: a two-member archive (a directory, a 5-byte file) meets the hypothesis, is 3072 bytes long and passes the check *)
Example C04_tar_example :
  let d := {| tm_pre := B "./usr/" ++ repeat tnul 94 ++ B "0000755" ++ [tnul] ++ B "0000000" ++ [tnul] ++ B "0000000" ++ [tnul];
              tm_mtime := B "14371573400" ++ [tnul]; tm_post := B "5" ++ repeat tnul 355; tm_data := [] |} in
  let f := {| tm_pre := B "./usr/a" ++ repeat tnul 93 ++ B "0000644" ++ [tnul] ++ B "0000000" ++ [tnul] ++ B "0000000" ++ [tnul];
              tm_mtime := B "14371573400" ++ [tnul]; tm_post := B "0" ++ repeat tnul 355; tm_data := B "hello" |} in
  Forall wf_tmember [d; f] /\ tar_reencodes_full (tar_full [d; f]) = true /\ List.length (tar_full [d; f]) = 512 * 5.
Proof.
  cbv zeta. split; [|split; vm_compute; reflexivity].
  repeat constructor; vm_compute; try reflexivity.
Qed.

(* THE RPM FILE LAYOUT: 96-byte lead, signature section, zero padding, header section, payload, each section being
   magic, entry count and store size (32-bit big-endian), 16 bytes per index entry and the store. Read back, a file
   yields exactly what was written - for any index entries, stores and payload - and the header section ALWAYS starts
   at a multiple of 8 ("8-byte-aligned signature header"). *)
Theorem C04_rpm_layout_roundtrip : forall f, wf_rpmfile f -> rpm_decode (rpm_encode f) = Some f.
Proof. exact rpm_roundtrip. Qed.
Print Assumptions C04_rpm_layout_roundtrip.

Theorem C04_rpm_header_aligned : forall f, hdr_offset f mod 8 = 0.
Proof. exact header_aligned. Qed.
Print Assumptions C04_rpm_header_aligned.

(* what the per-run checks on the bytes of real .rpm and .deb files mean (the ar round trip itself is C10_ar_roundtrip) *)
Theorem C04_rpm_check_sound :
  forall s, rpm_reencodes s = true -> exists f, rpm_decode s = Some f /\ rpm_encode f = s /\ hdr_offset f mod 8 = 0.
Proof. exact rpm_reencodes_sound. Qed.
Print Assumptions C04_rpm_check_sound.

Theorem C04_ar_check_sound :
  forall s, ar_reencodes s = true ->
  exists ms, ar_encode ms = s /\ ar_decode s = Some (map (fun m => (m_name m, m_body m)) ms).
Proof. exact ar_reencodes_sound. Qed.
Print Assumptions C04_ar_check_sound.

(* non-vacuity: a file with a one-entry signature section whose 5-byte store needs 3 bytes of padding *)
Example C04_rpm_example :
  let f := {| rf_lead := lead_magic ++ repeat rnul 92;
              rf_sig := {| rs_index := [{| ie_tag := 1000; ie_type := 4; ie_off := 0; ie_cnt := 1 |}]; rs_store := B "12345" |};
              rf_hdr := {| rs_index := [{| ie_tag := 1000; ie_type := 6; ie_off := 0; ie_cnt := 1 |}]; rs_store := B "name" ++ [rnul] |};
              rf_payload := B "payload" |} in
  rpm_reencodes (rpm_encode f) = true /\ hdr_offset f = 136.
Proof. vm_compute. split; reflexivity. Qed.

(* ---- tar at field level (Model/TarFields.v): what is in a header block, and what a reader makes of it ---- *)

(* every header the writer lays out for a set of fields reads back as those fields: name, mode, owner ids, time, type,
   link target, magic, owner names, device numbers (any values within the widths of the format) *)
Theorem C04_tar_header_fields_roundtrip : forall f data,
  wf_hfields f = true -> fields_of (member_of f data) = Some f.
Proof. exact fields_roundtrip. Qed.
Print Assumptions C04_tar_header_fields_roundtrip.

(* PAX records ("<length> key=value\n" with the length counting itself) read back as the list they were written from *)
Theorem C04_pax_records_roundtrip : forall l,
  Forall (fun r => consistent r = true) l -> forall f, List.length l < f -> pax_records f (pax_encode l) = Some (map fst l).
Proof. exact pax_records_roundtrip. Qed.
Print Assumptions C04_pax_records_roundtrip.

(* a reader's logical member: of a plain member; of a PAX extension member and the member after it (path, linkpath,
   owner names and time from the records, the records kept); of a GNU long-name member and the member after it *)
Theorem C04_tar_reader_plain_member : forall f data, wf_hfields f = true -> plain_type (hf_type f) = true ->
  logical [member_of f data] [] None None =
  Some [{| lm_name := ustar_name f; lm_type := hf_type f; lm_mode := hf_mode f; lm_uid := hf_uid f; lm_gid := hf_gid f;
           lm_mtime := hf_mtime f; lm_link := hf_link f; lm_uname := hf_uname f; lm_gname := hf_gname f;
           lm_size := List.length data; lm_pax := []; lm_data := data |}].
Proof. exact logical_plain. Qed.
Print Assumptions C04_tar_reader_plain_member.

Theorem C04_tar_reader_pax_member : forall fx recs f data, wf_hfields fx = true -> hf_type fx = x78 ->
  Forall (fun r => consistent r = true) recs -> wf_hfields f = true -> plain_type (hf_type f) = true ->
  let pax := map fst recs in
  logical [member_of fx (pax_encode recs); member_of f data] [] None None =
  match (match assoc_str (B_ "mtime") pax with Some v => pax_seconds v | None => Some (hf_mtime f) end) with
  | Some mt =>
      Some [{| lm_name := or_else (assoc_str (B_ "path") pax) (ustar_name f); lm_type := hf_type f; lm_mode := hf_mode f;
               lm_uid := hf_uid f; lm_gid := hf_gid f; lm_mtime := mt;
               lm_link := or_else (assoc_str (B_ "linkpath") pax) (hf_link f);
               lm_uname := or_else (assoc_str (B_ "uname") pax) (hf_uname f);
               lm_gname := or_else (assoc_str (B_ "gname") pax) (hf_gname f);
               lm_size := List.length data; lm_pax := pax; lm_data := data |}]
  | None => None
  end.
Proof. exact logical_pax. Qed.
Print Assumptions C04_tar_reader_pax_member.

Theorem C04_tar_reader_gnu_long_name : forall fl name f data, wf_hfields fl = true -> hf_type fl = x4c -> no_nul name = true ->
  wf_hfields f = true -> plain_type (hf_type f) = true ->
  logical [member_of fl (name ++ [tnul]); member_of f data] [] None None =
  Some [{| lm_name := name; lm_type := hf_type f; lm_mode := hf_mode f; lm_uid := hf_uid f; lm_gid := hf_gid f;
           lm_mtime := hf_mtime f; lm_link := hf_link f; lm_uname := hf_uname f; lm_gname := hf_gname f;
           lm_size := List.length data; lm_pax := []; lm_data := data |}].
Proof. exact logical_gnu_longname. Qed.
Print Assumptions C04_tar_reader_gnu_long_name.

(* what the per-run field-level re-encoding of a real tar stream establishes *)
Theorem C04_tar_fields_check_sound : forall s, tar_fields_reencode s = true ->
  exists ms rest, tar_read s = Some (ms, rest) /\ Forall (fun m => exists f, fields_of m = Some f /\ member_of f (tm_data m) = m) ms.
Proof. exact tar_fields_reencode_sound. Qed.
Print Assumptions C04_tar_fields_check_sound.
