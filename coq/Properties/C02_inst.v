(* C02 - obligations over the tables regenerated from /repo on every run: the five GOARCH tables in the
   packagers and the documented tables in www/docs/goarch-to-pkg.md. The arch x format matrix is a finite
   domain, so computation lifted by forallb_forall is a proof. *)
From Coq Require Import List NArith ZArith Bool String.
From Coq Require Import Strings.Byte.
From NfpmV Require Import Lib.Bytes Model.Content Model.Meta Gen.ArchTables.
Import ListNotations.
Open Scope string_scope.

Definition code_table (format : str) : list (str * str) :=
  if seqb format (B "deb") then arch_deb else if seqb format (B "rpm") then arch_rpm
  else if seqb format (B "apk") then arch_apk else if seqb format (B "archlinux") then arch_archlinux
  else if seqb format (B "ipk") then arch_ipk else [].

Definition doc_row_ok (format : str) (row : str * str) : bool :=
  seqb (translate_arch (code_table format) [] (fst row)) (snd row).

(* every documented (GOARCH, format) pair is translated to the documented value *)
Theorem C02_arch_translation_matches_docs :
  forall format rows, In (format, rows) arch_doc -> forall row, In row rows -> doc_row_ok format row = true.
Proof.
  assert (forallb (fun fr => forallb (doc_row_ok (fst fr)) (snd fr)) arch_doc = true) as H by (vm_compute; reflexivity).
  intros format rows Hin row Hrow. rewrite forallb_forall in H. specialize (H _ Hin). cbn in H.
  rewrite forallb_forall in H. exact (H row Hrow).
Qed.
Print Assumptions C02_arch_translation_matches_docs.

(* all five formats are documented, and every row of a code table that renames an architecture is documented *)
Theorem C02_arch_docs_complete :
  forallb (fun f => existsb (fun fr => seqb (fst fr) (B f)) arch_doc) ["deb"; "rpm"; "apk"; "archlinux"; "ipk"] = true /\
  forallb (fun f => forallb (fun kv => seqb (fst kv) (snd kv) ||
                         match lookup (B f) arch_doc with Some rows => match lookup (fst kv) rows with Some v => seqb v (snd kv) | None => false end | None => false end)
                      (code_table (B f))) ["deb"; "rpm"; "apk"; "archlinux"; "ipk"] = true.
Proof. vm_compute. split; reflexivity. Qed.

(* translating twice is translating once: asking for a file name first cannot change the architecture *)
Theorem C02_arch_translation_idempotent :
  forallb (fun f => forallb (fun kv => seqb (translate_arch (code_table (B f)) [] (snd kv)) (snd kv)) (code_table (B f)))
          ["deb"; "rpm"; "apk"; "archlinux"; "ipk"] = true.
Proof. vm_compute. reflexivity. Qed.

(* ---- the architecture step of each packager, translated from its source on every run (Gen/ArchFns.v) ---- *)
From NfpmV Require Import Gen.ArchFns.

(* each packager's step still has the translated shape and indexes the table of its own format
   (the one Gen/ArchTables.v holds under that name) *)
Theorem C02_arch_steps_translated :
  src_deb_arch_translated && src_rpm_arch_translated && src_apk_arch_translated && src_ipk_arch_translated && src_arch_arch_translated
  && seqb src_deb_arch_table (B "archToDebian") && seqb src_rpm_arch_table (B "archToRPM") && seqb src_apk_arch_table (B "archToAlpine")
  && seqb src_ipk_arch_table (B "archToIPK") && seqb src_arch_arch_table (B "archToArchLinux") = true.
Proof. vm_compute. reflexivity. Qed.
Print Assumptions C02_arch_steps_translated.

(* for all settings and every table: the value the SOURCE leaves in info.Arch is translate_arch's - the format's own
   architecture when it names one, the table's entry otherwise, the architecture itself when the table has none *)
Theorem C02_arch_steps_are_the_model : forall tab i,
  src_deb_arch tab i (gs i "arch") = translate_arch tab (gs i "deb.arch") (gs i "arch") /\
  src_rpm_arch tab i (gs i "arch") = translate_arch tab (gs i "rpm.arch") (gs i "arch") /\
  src_apk_arch tab i (gs i "arch") = translate_arch tab (gs i "apk.arch") (gs i "arch") /\
  src_ipk_arch tab i (gs i "arch") = translate_arch tab (gs i "ipk.arch") (gs i "arch") /\
  src_arch_arch tab i (gs i "arch") = translate_arch tab (gs i "archlinux.arch") (gs i "arch").
Proof. intros tab i. repeat split; reflexivity. Qed.
Print Assumptions C02_arch_steps_are_the_model.

(* ---- deb.createTriggers, translated from deb/deb.go on every run (Gen/TriggersFn.v) ---- *)
From NfpmV Require Import Gen.TriggersFn.
(* for all settings: the triggers member the SOURCE writes - its table of directives in its order, each with the list of
   names it points to (yaml keys from the struct tags), one "directive name" line per name - is the model's deb_triggers *)
Theorem C02_deb_triggers_source_is_the_model :
  src_deb_triggers_translated = true /\ forall i, src_deb_triggers i = deb_triggers i.
Proof. split; [reflexivity | intros i; reflexivity]. Qed.
Print Assumptions C02_deb_triggers_source_is_the_model.

(* ---- archlinux: the (key, value) pairs of .PKGINFO, translated from arch/arch.go on every run (Gen/PkginfoFields.v) ---- *)
From NfpmV Require Import Proofs.PkginfoProofs Proofs.StrFnsProofs Gen.ArchPkgver Gen.PkginfoFields.

Lemma replace_byte_nl_sp s : replace_byte x0a x20 s = replace_nl s (B " ").
Proof. induction s as [|b s IH]; [reflexivity|]. cbn [replace_byte replace_nl]. rewrite IH. destruct (beq b x0a); reflexivity. Qed.

Lemma src_arch_defaultStr_is_dflt a d : src_arch_defaultStr a d = dflt a d.
Proof. unfold src_arch_defaultStr, dflt. destruct (nonempty a); reflexivity. Qed.

(* for all settings, architecture tables, sizes, build dates and backup lists: the pairs the SOURCE writes - the map handed
   to writeKVPairs in the order of its sorted keys, then one pair per replaces / conflict / provides / depend / backup
   value, empty values skipped - are the model's arch_info_fields, the list C02_arch_pkginfo_reads_back is about *)
Theorem C02_arch_pkginfo_fields_source_is_the_model : forall archtab i size bd backups,
  src_arch_info_fields_translated = true /\
  src_arch_info_fields i (translate_arch archtab (gs i "archlinux.arch") (gs i "arch")) size bd backups
  = arch_info_fields archtab i size bd backups.
Proof.
  intros. split; [reflexivity|]. unfold src_arch_info_fields, arch_info_fields.
  rewrite !src_arch_defaultStr_is_dflt, replace_byte_nl_sp, src_arch_pkgver_is_model. reflexivity.
Qed.
Print Assumptions C02_arch_pkginfo_fields_source_is_the_model.
