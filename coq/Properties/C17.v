(* C17 - the published JSON schema. The general part: what the Gallina validator demands of a document, so that
   "validates" means what the property says (no unknown key at a closed object, every enumerated scalar in its
   enum). The instance part (C17_inst.v) is re-proved on every run over the regenerated schema, type tree and
   documentation. *)
From Coq Require Import List NArith ZArith Bool String.
From Coq Require Import Strings.Byte.
From NfpmV Require Import Lib.Bytes Model.Content Model.Meta Model.TypeTree Spec.C16.
Import ListNotations.
Open Scope string_scope.
Open Scope list_scope.

(* a closed object (additionalProperties: false, no $ref) reports every key that is not a property *)
Theorem C17_closed_object_rejects_unknown_key : forall n defs o kvs k v,
  jget "$ref" o = None -> jget "additionalProperties" o = Some (JBool false) ->
  In (k, v) kvs ->
  find (fun p => seqb (fst p) k) (match jget "properties" o with Some (JObj p) => p | _ => [] end) = None ->
  In (SUnknownKey k) (validates (S n) defs (JObj o) (DMap kvs)).
Proof.
  intros n defs o kvs k v R A Hin F. cbn [validates jobj]. rewrite R. apply in_or_app. left. apply in_or_app. left.
  apply in_flat_map. exists (k, v). split; [exact Hin|]. cbn [fst snd]. rewrite F, A. left. reflexivity.
Qed.
Print Assumptions C17_closed_object_rejects_unknown_key.

(* an enumerated scalar outside its enum is reported *)
Theorem C17_enum_enforced : forall n defs o s e,
  jget "$ref" o = None -> jget "enum" o = Some e -> existsb (seqb s) (jstrs e) = false ->
  In (SEnum s) (validates (S n) defs (JObj o) (DScalar s)).
Proof. intros n defs o s e R E H. cbn [validates jobj]. rewrite R, E, H. left. reflexivity. Qed.

(* a negated sub-schema is reported exactly when the sub-schema itself has nothing to report *)
Theorem C17_not_enforced : forall n defs o sub d,
  jget "$ref" o = None -> jget "not" o = Some sub -> validates n defs sub d = [] ->
  In SNot (validates (S n) defs (JObj o) d).
Proof.
  intros n defs o sub d R N H. cbn [validates jobj]. rewrite R, N, H. apply in_or_app. right. left. reflexivity.
Qed.
Print Assumptions C17_not_enforced.
Print Assumptions C17_enum_enforced.
