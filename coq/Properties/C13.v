(* C13 - overrides affect only their format; per-packager entries stay in theirs. Statements only. *)
From Coq Require Import List NArith ZArith Bool String.
From Coq Require Import Strings.Byte.
From NfpmV Require Import Lib.Bytes Model.Content Model.Meta Model.Prepare Model.Merge Spec.C13.
From NfpmV Require Import Proofs.C13Proofs Proofs.C13Ptr.
Import ListNotations.
Open Scope string_scope.
Open Scope list_scope.

(* At ANY depth of nested blocks: where the override block has a scalar or a list, the effective settings carry the
   override's value if it is non-empty (lists wholesale) and the base's value otherwise. [merge n] is the model of
   mergo.Merge(.., WithOverride); the nesting depth the fuel [n] allows is unbounded in the statement. *)
Theorem C13_leaf_override_or_base : forall p n b o lb lo,
  List.length p < n ->
  path_get b p = Some lb -> path_get o p = Some lo -> plain lo = true ->
  path_get (merge n b o) p = Some (if is_empty_value lo then lb else lo).
Proof. exact merge_leaf. Qed.
Print Assumptions C13_leaf_override_or_base.

(* the same through pointers that are set on both sides (the key ids), at any depth *)
Theorem C13_leaf_through_pointers : forall p n b o lb lo,
  List.length p < n ->
  path_get2 b p = Some lb -> path_get2 o p = Some lo -> plain lo = true ->
  path_get2 (merge n b o) p = Some (if is_empty_value lo then lb else lo).
Proof. exact merge_leaf2. Qed.
Print Assumptions C13_leaf_through_pointers.

(* nothing else changes: the field names of a block stay as they are, a field the override lacks keeps its value,
   an unset pointer changes nothing *)
Theorem C13_block_shape_kept : forall n fd fs,
  exists fd', merge (S n) (VStruct fd) (VStruct fs) = VStruct fd' /\ map fst fd' = map fst fd.
Proof. exact merge_struct_keys. Qed.
Print Assumptions C13_block_shape_kept.

Theorem C13_absent_field_kept : forall n fd fs k d,
  vlookup k fd = Some d -> vlookup k fs = None ->
  path_get (merge (S n) (VStruct fd) (VStruct fs)) [k] = Some d.
Proof. exact merge_absent_field. Qed.
Print Assumptions C13_absent_field_kept.

Theorem C13_nil_pointer_changes_nothing : forall n d, merge (S n) d (VPtr None) = d.
Proof. exact merge_ptr_nil. Qed.
Print Assumptions C13_nil_pointer_changes_nothing.

(* custom field maps merge key by key: a key the override has is taken from the override - ALSO when its value is
   empty (mergo's map case never asks whether the value is empty) - every other key keeps the base's value *)
Theorem C13_map_key_by_key : forall n ms md k,
  NoDup (map fst ms) -> (forall k' s, In (k', s) ms -> plain s = true) ->
  vlookup k (fold_left (map_step n) ms md) =
  match vlookup k ms with
  | None => vlookup k md
  | Some s => Some s
  end.
Proof. exact merge_map_lookup. Qed.
Print Assumptions C13_map_key_by_key.

(* REFUTED as the property states it ("exactly those fields the block sets to a NON-EMPTY value"): an empty value
   for a custom field in an override block replaces the base's value (known finding C13-K1) *)
Theorem C13_empty_map_value_refuted :
  let base := VStruct [(B "Fields", VMap [(B "Bugs", VStr (B "https://example.com"))])] in
  let ov := VStruct [(B "Fields", VMap [(B "Bugs", VStr [])])] in
  merge 40 base ov <> spec_merge 40 base ov /\
  path_get (merge 40 base ov) [B "Fields"] = Some (VMap [(B "Bugs", VStr [])]).
Proof. split; [vm_compute; discriminate|reflexivity]. Qed.
Print Assumptions C13_empty_map_value_refuted.

(* a format without an override block gets the base settings *)
Theorem C13_no_block_gives_base : forall base ovs f, vlookup f ovs = None -> config_get base ovs f = base.
Proof. exact config_get_no_block. Qed.
Print Assumptions C13_no_block_gives_base.

(* override blocks for other formats have no effect: setting, replacing or adding the block of any other format
   [g] leaves what [f] gets unchanged *)
Theorem C13_other_blocks_irrelevant : forall base ovs f g v,
  seqb g f = false -> config_get base (assoc_set g v ovs) f = config_get base ovs f.
Proof. exact config_get_other_block_irrelevant. Qed.
Print Assumptions C13_other_blocks_irrelevant.

(* with a block, every top-level field but the contents is the merged field *)
Theorem C13_get_is_merge_per_field : forall base ov ovs f fd k,
  vlookup f ovs = Some ov -> merge 40 base ov = VStruct fd -> seqb k (B "Contents") = false ->
  path_get (config_get base ovs f) [k] = path_get (VStruct fd) [k].
Proof. exact config_get_field. Qed.
Print Assumptions C13_get_is_merge_per_field.

(* the contents kept for a format are addressed to it or to no packager *)
Theorem C13_filtered_contents_addressed : forall f l c,
  In c (match filter_contents f (VSlice l) with VSlice l' => l' | _ => [] end) ->
  In c l /\ (content_packager c = f \/ content_packager c = []).
Proof. exact filter_contents_addressed. Qed.
Print Assumptions C13_filtered_contents_addressed.

(* entries addressed to another packager never reach a format's prepared contents (hence its package, C01):
   preparing the whole list equals preparing the list without them, whatever else is in it *)
Theorem C13_foreign_entries_never_prepared : forall fs_paths st umask packager mt ces m,
  steps fs_paths st umask packager mt m (filter (fun ce => is_relevant packager (fst ce)) ces)
  = steps fs_paths st umask packager mt m ces.
Proof. exact steps_ignore_foreign. Qed.
Print Assumptions C13_foreign_entries_never_prepared.

(* non-vacuity: a concrete nested configuration meets the hypotheses of the leaf theorem *)
Example C13_leaf_example :
  let b := VStruct [(B "Depends", VSlice [VStr (B "a")]); (B "Deb", VStruct [(B "Breaks", VSlice [VStr (B "x")]); (B "Arch", VStr (B "base"))])] in
  let o := VStruct [(B "Depends", VSlice []); (B "Deb", VStruct [(B "Breaks", VSlice [VStr (B "y"); VStr (B "z")]); (B "Arch", VStr [])])] in
  path_get (merge 40 b o) [B "Deb"; B "Breaks"] = Some (VSlice [VStr (B "y"); VStr (B "z")])
  /\ path_get (merge 40 b o) [B "Deb"; B "Arch"] = Some (VStr (B "base"))
  /\ path_get (merge 40 b o) [B "Depends"] = Some (VSlice [VStr (B "a")]).
Proof. vm_compute. repeat split. Qed.
