(* C09 - obligations over the wiring table regenerated from the packagers' sources on every run. *)
From Coq Require Import List NArith ZArith Bool String.
From Coq Require Import Strings.Byte.
From NfpmV Require Import Lib.Bytes Model.Path Model.Content Model.Payload Spec.C09.
From NfpmV Require Import Gen.ScriptSlots.
Import ListNotations.

(* what translators/slots.go read off deb/deb.go, ipk/ipk.go, rpm/rpm.go, apk/apk.go and arch/arch.go:
   (configured script, slot it is put into) for every place a packager wires a script *)
Definition wired (f : fmt) : list (str * str) :=
  match f with FDeb => wired_deb | FIpk => wired_ipk | FRpm => wired_rpm | FApk => wired_apk | FArch => wired_arch end.

Definition same_wiring (a b : list (str * str)) : bool := pairs_eqb (sort_slots a) (sort_slots b).

Fixpoint nodupb (l : list str) : bool :=
  match l with [] => true | x :: l' => negb (existsb (seqb x) l') && nodupb l' end.

(* the slot table the theorems of Properties/C09.v are stated over is the wiring the sources have now: the same
   pairs, in whatever order the code lists them *)
Theorem C09_slot_tables_are_the_sources : forall f, same_wiring (wired f) (slots f) = true.
Proof. destruct f; vm_compute; reflexivity. Qed.
Print Assumptions C09_slot_tables_are_the_sources.

(* in the sources no configured script is wired twice and no slot is fed from two scripts *)
Theorem C09_sources_wire_each_script_and_slot_once : forall f,
  nodupb (map fst (wired f)) && nodupb (map snd (wired f)) = true.
Proof. destruct f; vm_compute; reflexivity. Qed.
Print Assumptions C09_sources_wire_each_script_and_slot_once.
