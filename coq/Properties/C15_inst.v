(* C15 - obligations over the packagers' ConventionalFileName functions as translated, statement by statement, from
   the sources on every run (translators/strfn.go -> Gen/StrFns.v). *)
From Coq Require Import List String Bool.
From Coq Require Import Strings.Byte.
From NfpmV Require Import Lib.Bytes Model.Content Model.Payload Model.Meta Proofs.StrFnsProofs.
From NfpmV Require Import Gen.StrFns.
Import ListNotations.
Open Scope list_scope.

(* every function named in translators/strfn.go is still inside the translated subset *)
Theorem C15_sources_translated :
  src_rpm_defaultTo_translated && src_rpm_formatVersion_translated && src_rpm_filename_translated && src_deb_filename_translated
  && src_ipk_filename_translated && src_apk_pkgver_translated && src_apk_filename_translated
  && src_arch_mapValidChar_translated && src_arch_validPkgName_translated && src_arch_filename_translated = true.
Proof. exact all_translated. Qed.
Print Assumptions C15_sources_translated.

(* for all settings and every architecture table: the file name the SOURCE composes - deb, ipk, rpm, apk - is the
   model's (the one the theorems of Properties/C15.v, C02.v and C14.v speak about); [translate_arch ...] is the
   value of info.Arch after the packager's own architecture step *)
Theorem C15_deb_source_is_the_model : forall archtab i,
  src_deb_filename i (translate_arch archtab (gs i "deb.arch") (gs i "arch")) = model_filename FDeb archtab i.
Proof. exact src_deb_filename_is_model. Qed.
Print Assumptions C15_deb_source_is_the_model.

Theorem C15_ipk_source_is_the_model : forall archtab i,
  src_ipk_filename i (translate_arch archtab (gs i "ipk.arch") (gs i "arch")) = model_filename FIpk archtab i.
Proof. exact src_ipk_filename_is_model. Qed.
Print Assumptions C15_ipk_source_is_the_model.

Theorem C15_rpm_source_is_the_model : forall archtab i,
  src_rpm_filename i (translate_arch archtab (gs i "rpm.arch") (gs i "arch")) = model_filename FRpm archtab i.
Proof. exact src_rpm_filename_is_model. Qed.
Print Assumptions C15_rpm_source_is_the_model.

Theorem C15_apk_source_is_the_model : forall archtab i,
  src_apk_filename i (translate_arch archtab (gs i "apk.arch") (gs i "arch")) = model_filename FApk archtab i.
Proof. exact src_apk_filename_is_model. Qed.
Print Assumptions C15_apk_source_is_the_model.

(* archlinux: Atoi of the release with 1 for anything that is not a number, "-" of the prerelease turned into "_", and
   the name cleaned by strings.Map(mapValidChar) and TrimLeft("-.") - mapValidChar read as a test on bytes *)
Theorem C15_archlinux_source_is_the_model : forall archtab i,
  src_arch_filename i (translate_arch archtab (gs i "archlinux.arch") (gs i "arch")) = model_filename FArch archtab i.
Proof. exact src_arch_filename_is_model. Qed.
Print Assumptions C15_archlinux_source_is_the_model.
