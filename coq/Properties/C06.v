(* C06 - failure is loud. Statements only. *)
From Coq Require Import List NArith ZArith Bool Arith String.
From Coq Require Import Strings.Byte.
From NfpmV Require Import Lib.Bytes Model.Content Model.Prepare Model.Writers Model.OutputProgs Spec.C06.
From NfpmV Require Import Proofs.C06Proofs Proofs.C06Complete.
Import ListNotations.
Open Scope list_scope.

(* THE GENERAL THEOREM. Any stack of [n] buffering layers with sticky errors over a destination that loses the
   writes [fault] selects; any flush schedule; any program whose operations address existing layers and are either
   checked or go through a layer (whose sticky error a later checked close will surface), followed by a checked
   close of every layer top-down: if the program reports success, no destination write was lost. *)
Theorem C06_success_means_no_lost_write : forall fault body tr s s' n, List.length (ls s) = n ->
  Forall (fun o => op_j o <= n /\ wf_op n o) body -> ~ fired fault (dst s) ->
  exec fault (body ++ closes 0 n tr) s = (s', false) -> ~ fired fault (dst s').
Proof. exact loud. Qed.
Print Assumptions C06_success_means_no_lost_write.

(* per packager, for every payload, every fault position and every flush schedule *)
Theorem C06_deb_loud : forall fault members sched s',
  exec fault (prog_deb true members) (fresh_stack 0 sched) = (s', false) -> ~ fired fault (dst s').
Proof. exact deb_loud. Qed.
Print Assumptions C06_deb_loud.

Theorem C06_rpm_apk_ipk_loud : forall fault parts sched s',
  exec fault (prog_flat parts) (fresh_stack 0 sched) = (s', false) -> ~ fired fault (dst s').
Proof. exact flat_loud. Qed.
Print Assumptions C06_rpm_apk_ipk_loud.

Theorem C06_archlinux_loud : forall fault chunks trailer sched s',
  exec fault (prog_arch true chunks trailer) (fresh_stack 2 sched) = (s', false) -> ~ fired fault (dst s').
Proof. exact arch_loud. Qed.
Print Assumptions C06_archlinux_loud.

(* SUCCESS MEANS COMPLETE OUTPUT. For any fault set and flush schedule: a program of checked writes to the top layer
   followed by a checked top-down close of all [n] layers, started on empty layers, that reports success has
   delivered to the destination exactly the written payloads followed by the layers' trailers, in order (layers
   are pure buffers in the model: what a compressor does to the bytes is not modelled). *)
Theorem C06_success_means_complete_output : forall fault body tr n sched s',
  Forall (fun o => op_j o = 0 /\ op_checked o = true) body ->
  exec fault (body ++ closes 0 n tr) (fresh_stack n sched) = (s', false) ->
  got (dst s') = List.concat (map op_data body) ++ List.concat (map tr (seq 0 n)).
Proof. exact complete_output. Qed.
Print Assumptions C06_success_means_complete_output.

Theorem C06_deb_complete : forall fault members sched s',
  exec fault (prog_deb true members) (fresh_stack 0 sched) = (s', false) ->
  got (dst s') = List.concat (map op_data (prog_deb true members)).
Proof. exact deb_complete. Qed.
Print Assumptions C06_deb_complete.

Theorem C06_rpm_apk_ipk_complete : forall fault parts sched s',
  exec fault (prog_flat parts) (fresh_stack 0 sched) = (s', false) -> got (dst s') = List.concat parts.
Proof. exact flat_complete. Qed.
Print Assumptions C06_rpm_apk_ipk_complete.

Theorem C06_archlinux_complete : forall fault chunks trailer sched s',
  exec fault (prog_arch true chunks trailer) (fresh_stack 2 sched) = (s', false) ->
  got (dst s') = List.concat chunks ++ trailer.
Proof. exact arch_complete. Qed.
Print Assumptions C06_archlinux_complete.

(* the deb program performs exactly the destination writes the check counts in the implementation *)
Theorem C06_deb_write_count : forall pc members,
  List.length (prog_deb pc members) = deb_dest_writes (map (fun m => Nat.odd (List.length (snd m))) members).
Proof. exact deb_write_count. Qed.
Print Assumptions C06_deb_write_count.

(* REFUTED for the code before the two fixes: unchecked deferred closes (archlinux), unchecked padding write (deb) *)
Theorem C06_archlinux_unchecked_closes_refuted :
  exists s', exec first_write_fails (prog_arch false [[x61]%byte] []) (fresh_stack 2 []) = (s', false)
             /\ fired first_write_fails (dst s').
Proof. exact arch_unchecked_closes_refuted. Qed.
Print Assumptions C06_archlinux_unchecked_closes_refuted.

Theorem C06_deb_unchecked_padding_refuted :
  exists fault s', exec fault (prog_deb false [([x68]%byte, [x62]%byte)]) (fresh_stack 0 []) = (s', false)
                   /\ fired fault (dst s').
Proof. exact deb_unchecked_pad_refuted. Qed.
Print Assumptions C06_deb_unchecked_padding_refuted.

(* the command: whenever the packaging fails - whatever was at the target path before (nothing, an older
   package, a symbolic link) - the exit status is a failure and nothing is left at the target path *)
Theorem C06_cli_failure_leaves_nothing : forall pre close_ok,
  do_package pre true false close_ok = (false, TAbsent).
Proof. intros pre close_ok. destruct pre; reflexivity. Qed.
Print Assumptions C06_cli_failure_leaves_nothing.

Theorem C06_cli_success_means_complete_file : forall pre post,
  pre <> TLink -> do_package pre true true true = (true, post) -> post = TFile true.
Proof. intros pre post Hp H. destruct pre; cbn in H; inversion H; try reflexivity. contradiction Hp; reflexivity. Qed.
Print Assumptions C06_cli_success_means_complete_file.

(* PARTIAL, stated: if only the final Close fails the command reports failure but the file stays (the model
   transcribes the code; no way to make Close alone fail against the real binary, so no demonstrated finding) *)
Theorem C06_cli_close_failure_keeps_file_partial :
  do_package TAbsent true true false = (false, TFile false).
Proof. reflexivity. Qed.
Print Assumptions C06_cli_close_failure_keeps_file_partial.

(* an entry addressed to another packager, or of a type only rpm packages, is not read - and every other one is *)
Theorem C06_reference_used_iff_relevant : forall pk typ f,
  ref_used (RContent pk typ) f = is_relevant f {| c_src := []; c_dst := []; c_typ := typ; c_pkgr := pk; c_fi := None |}.
Proof. reflexivity. Qed.
Print Assumptions C06_reference_used_iff_relevant.
