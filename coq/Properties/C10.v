(* C10 - requested signatures verify over exactly the bytes the verifier checks. Statements only. *)
From Coq Require Import List NArith ZArith Bool String.
From Coq Require Import Strings.Byte.
From NfpmV Require Import Lib.Bytes Model.Content Model.Container Spec.C10.
From NfpmV Require Import Proofs.C10Proofs.
From NfpmV Require Import Model.RpmFile Proofs.RpmFileProofs Model.Tar Proofs.TarProofs.
Import ListNotations.
Open Scope list_scope.

(* The ar container as blakesmith/ar writes it - for ANY members (names up to 16 bytes without blanks, any bodies
   of any parity, any mtime/uid/gid/mode bytes) - read back with the reader dpkg and the harness use, yields exactly
   the names and bodies that went in. *)
Theorem C10_ar_roundtrip : forall ms, Forall wf_member ms ->
  ar_decode (ar_encode ms) = Some (map (fun m => (m_name m, m_body m)) ms).
Proof. exact ar_roundtrip. Qed.
Print Assumptions C10_ar_roundtrip.

(* debsign: a verifier that reads the stored .deb checks exactly debian-binary, control and data concatenated as
   stored - the bytes deb.readDebsignData hands to the signer (or to the SignFn callback) - whatever the signature *)
Theorem C10_debsign_verifier_reads_what_was_signed : forall bin ctl data sig,
  Forall wf_member [bin; ctl; data; sig] ->
  option_map debsign_input (ar_decode (ar_encode [bin; ctl; data; sig])) = Some (m_body bin ++ m_body ctl ++ m_body data).
Proof. exact debsign_verifier_reads_what_was_signed. Qed.
Print Assumptions C10_debsign_verifier_reads_what_was_signed.

Theorem C10_signature_member_stored_last : forall bin ctl data sig,
  Forall wf_member [bin; ctl; data; sig] ->
  option_map (fun ms => nth_error ms 3) (ar_decode (ar_encode [bin; ctl; data; sig])) = Some (Some (m_name sig, m_body sig)).
Proof. exact signature_member_stored_last. Qed.
Print Assumptions C10_signature_member_stored_last.

(* the size field survives its decimal rendering, for every size *)
Theorem C10_size_field_roundtrip : forall n, parse_dec (dec_nat n) = Some n.
Proof. exact parse_dec_nat. Qed.
Print Assumptions C10_size_field_roundtrip.

(* the signature member's name: _gpg<type>, only for the types the method knows *)
Theorem C10_debsign_member_names :
  deb_sig_member [] [] = Some (B "_gpgorigin") /\ deb_sig_member [] (B "maint") = Some (B "_gpgmaint") /\
  deb_sig_member [] (B "archive") = Some (B "_gpgarchive") /\ deb_sig_member (B "dpkg-sig") [] = Some (B "_gpgbuilder") /\
  forall t, existsb (seqb t) [B "origin"; B "maint"; B "archive"] = false -> t <> [] -> deb_sig_member [] t = None.
Proof.
  repeat split. intros t H Hne. unfold deb_sig_member, deb_effective_type. cbn [seqb emptyb].
  destruct t as [|b t]; [contradiction|]. cbn [emptyb]. rewrite H. reflexivity.
Qed.
Print Assumptions C10_debsign_member_names.

Example C10_apk_member_names :
  apk_sig_member [] (B "Foo Bar <foo@example.com>") = B ".SIGN.RSA.foo@example.com.rsa.pub" /\
  apk_sig_member (B "named.rsa.pub") (B "x <y@z>") = B ".SIGN.RSA.named.rsa.pub" /\
  apk_sig_member (B "verif") [] = B ".SIGN.RSA.verif.rsa.pub".
Proof. vm_compute. repeat split. Qed.

(* rpm: the signatures in the signature section cover the header section (and, for the legacy tags, the payload
   after it). In the stored file those are exactly the bytes from the 8-aligned offset after the signature section
   on: whatever the signature section holds, a verifier that reads the stored file gets the bytes that were signed. *)
Theorem C10_rpm_verifier_reads_what_was_signed : forall f, List.length (rf_lead f) = 96 ->
  skipn (hdr_offset f) (rpm_encode f) = enc_section (rf_hdr f) ++ rf_payload f /\
  firstn (List.length (enc_section (rf_hdr f))) (skipn (hdr_offset f) (rpm_encode f)) = enc_section (rf_hdr f).
Proof. exact signed_region. Qed.
Print Assumptions C10_rpm_verifier_reads_what_was_signed.

(* apk: the signature is over the control segment as stored; the signature segment placed before it is a cut tar
   segment, so the package still reads as one tar archive with the signature member first and every control and data
   member unchanged after it *)
Theorem C10_apk_signature_segment_leaves_the_rest : forall sg ctl data,
  Forall wf_tmember sg -> Forall wf_tmember ctl -> Forall wf_tmember data ->
  tar_members (S (List.length (sg ++ ctl ++ data))) (tar_cut sg ++ tar_cut ctl ++ tar_full data)
  = Some (sg ++ ctl ++ data, repeat tnul 1024).
Proof. intros sg ctl data W1 W2 W3. exact (proj2 (tar_segments_concatenate sg ctl data W1 W2 W3)). Qed.
Print Assumptions C10_apk_signature_segment_leaves_the_rest.
