(* C03 - digests and sizes. Statements only. The digests themselves are recomputed by the harness from the
   decoded bytes on every run (hash functions are parameters); these theorems fix WHICH stored value must
   equal WHICH recomputed one for deb's md5sums and the size estimates. *)
From Coq Require Import List NArith ZArith Bool.
From Coq Require Import Strings.Byte.
From NfpmV Require Import Lib.Bytes Model.Payload Spec.C03.
From NfpmV Require Import Proofs.C03Proofs.
Import ListNotations.

Theorem C03_md5sums_one_line_per_regular_file : forall payload d n,
  In (d, n) (md5sums_model payload) <-> exists e, In e payload /\ fo_isfile e = true /\ fo_md5 e = d /\ fo_name e = n.
Proof. exact md5sums_iff. Qed.
Print Assumptions C03_md5sums_one_line_per_regular_file.

Theorem C03_md5sums_in_payload_order : forall payload,
  map snd (md5sums_model payload) = map fo_name (filter fo_isfile payload).
Proof. exact md5sums_order. Qed.
Print Assumptions C03_md5sums_in_payload_order.

Theorem C03_deb_structure : forall payload digests sizes,
  forallb (fun '(s, r) => seqb s r && negb (seqb s [])) digests = true ->
  forallb (fun '(s, r) => Z.eqb s r) sizes = true ->
  check_C03 FDeb payload (md5sums_model payload) true (Some (installed_kib payload)) digests sizes true = [].
Proof. exact deb_structure_passes. Qed.
Print Assumptions C03_deb_structure.

Theorem C03_installed_size_nonneg : forall payload,
  (forall e, In e payload -> 0 <= fo_size e)%Z -> (0 <= installed_kib payload)%Z.
Proof. exact installed_kib_nonneg. Qed.
Print Assumptions C03_installed_size_nonneg.
