(* C03 - digests and sizes. Statements only. The digests themselves are recomputed by the harness from the
   decoded bytes on every run (hash functions are parameters); these theorems fix WHICH stored value must
   equal WHICH recomputed one for deb's md5sums and the size estimates. *)
From Coq Require Import List NArith ZArith Bool.
From Coq Require Import Strings.Byte.
From NfpmV Require Import Lib.Bytes Model.Payload Model.Mtree Spec.C03.
From NfpmV Require Import Proofs.C03Proofs Proofs.MtreeProofs Model.DebLists Proofs.DebListsProofs.
Import ListNotations.

Theorem C03_md5sums_one_line_per_regular_file : forall payload d n,
  In (d, n) (md5sums_model payload) <-> exists e, In e payload /\ fo_isfile e = true /\ fo_md5 e = d /\ fo_name e = n.
Proof. exact md5sums_iff. Qed.
Print Assumptions C03_md5sums_one_line_per_regular_file.

Theorem C03_md5sums_in_payload_order : forall payload,
  map snd (md5sums_model payload) = map fo_name (filter fo_isfile payload).
Proof. exact md5sums_order. Qed.
Print Assumptions C03_md5sums_in_payload_order.

Theorem C03_deb_structure : forall payload digests sizes,
  forallb (fun '(s, r) => seqb s r && negb (seqb s [])) digests = true ->
  forallb (fun '(s, r) => Z.eqb s r) sizes = true ->
  check_C03 FDeb payload (md5sums_model payload) true (Some (installed_kib payload)) digests sizes true = [].
Proof. exact deb_structure_passes. Qed.
Print Assumptions C03_deb_structure.

Theorem C03_installed_size_nonneg : forall payload,
  (forall e, In e payload -> 0 <= fo_size e)%Z -> (0 <= installed_kib payload)%Z.
Proof. exact installed_kib_nonneg. Qed.
Print Assumptions C03_installed_size_nonneg.

(* ---- archlinux .MTREE (Model/Mtree.v): the text as written, and an mtree(5) reader over it ---- *)

(* every entry list reads back as itself - whatever bytes the names and link targets hold (blanks, newlines,
   backslashes, non-ASCII): no hypothesis on [me_path] or [me_link] *)
Theorem C03_mtree_roundtrip : forall es,
  Forall (fun e => wf_mentry e = true) es -> mtree_read (mtree_text es) = Some es.
Proof. exact mtree_roundtrip. Qed.
Print Assumptions C03_mtree_roundtrip.

(* the .MTREE of a package: one line per shipped member, .PKGINFO first, then the payload in archive order, each
   with the type, mode, time (and size, digests, link target) of that member *)
Theorem C03_mtree_lists_what_is_shipped : forall pkginfo payload,
  wf_shipped pkginfo = true -> Forall (fun s => wf_shipped s = true) payload ->
  mtree_read (arch_mtree pkginfo payload) = Some (map mentry_of (pkginfo :: payload)).
Proof. exact arch_mtree_lists_what_is_shipped. Qed.
Print Assumptions C03_mtree_lists_what_is_shipped.

(* what the per-run re-encoding of a real .MTREE establishes *)
Theorem C03_mtree_check_sound : forall s,
  mtree_reencodes s = true -> exists es, mtree_read s = Some es /\ s = mtree_text es.
Proof. exact mtree_reencodes_sound. Qed.
Print Assumptions C03_mtree_check_sound.

(* before the repair (names written without the escape) a name with a blank did not read back; with it, it does *)
Theorem C03_mtree_unquoted_blank_refuted :
  wf_mentry blank_entry = true /\ mtree_read (mtree_header ++ mline_unquoted blank_entry) = None
  /\ mtree_read (mtree_text [blank_entry]) = Some [blank_entry].
Proof. exact unquoted_blank_does_not_read_back. Qed.
Print Assumptions C03_mtree_unquoted_blank_refuted.

(* ---- deb md5sums as text (Model/DebLists.v): "<digest>  <name>" lines ---- *)
Theorem C03_md5sums_text_roundtrip : forall ps,
  Forall (fun p => wf_md5 p = true) ps -> md5sums_read (md5sums_text ps) = Some ps.
Proof. exact md5sums_roundtrip. Qed.
Print Assumptions C03_md5sums_text_roundtrip.

(* ... so a reader of the md5sums member finds one (digest, name) pair per regular payload file, in payload order *)
Theorem C03_md5sums_member_lists_the_payload : forall payload,
  Forall (fun p => wf_md5 p = true) (md5sums_model payload) ->
  md5sums_read (md5sums_text (md5sums_model payload)) = Some (md5sums_model payload).
Proof. intros payload H. apply md5sums_roundtrip. exact H. Qed.
Print Assumptions C03_md5sums_member_lists_the_payload.
