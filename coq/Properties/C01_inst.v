(* C01 - non-vacuity: the hypotheses of C01_payload_fidelity hold of a concrete plan, for every format. *)
From Coq Require Import List NArith ZArith Bool String.
From Coq Require Import Strings.Byte.
From NfpmV Require Import Lib.Bytes Model.Path Model.Content Model.Prepare Model.Payload Spec.C05 Spec.C01 Gen.FsPaths.
From NfpmV Require Import Properties.C05_inst.
Import ListNotations.

Definition witness_for (f : fmt) : bool :=
  match prep owned_paths [] witness_input 18%N (fmt_name f) 1700000000%Z with
  | Ok cs => envelope_C01 cs && Nat.leb 12 (List.length cs) && Nat.leb 10 (List.length (payload_of f 1700000000%Z cs))
             && holds_C01 f [] cs (payload_of f 1700000000%Z cs)
  | Err _ => false
  end.

Example C01_witness : forallb witness_for [FDeb; FRpm; FApk; FIpk; FArch] = true.
Proof. vm_compute. reflexivity. Qed.
