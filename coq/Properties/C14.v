(* C14 - version handling. Statements only. *)
From Coq Require Import List NArith ZArith Bool String.
From Coq Require Import Strings.Byte.
From NfpmV Require Import Lib.Bytes Model.Content Model.Meta Model.Version Model.VerCmp Spec.C14.
From NfpmV Require Import Proofs.C14Proofs Proofs.C14Rpm Proofs.C14Num.
Import ListNotations.
Open Scope string_scope.
Open Scope list_scope.

(* the semver split is lossless: every accepted version string is, byte for byte,
   [v] major [.minor] [.patch] [-prerelease] [+metadata] with the prerelease and metadata the parser reports *)
Theorem C14_semver_split_lossless : forall v sv, semver_parse v = Some sv ->
  exists vpre maj mino pato,
    (vpre = [] \/ vpre = ["v"%byte]) /\ forallb is_digit maj = true /\
    v = vpre ++ maj ++ opt_part "."%byte mino ++ opt_part "."%byte pato
        ++ (if nonempty (sv_pre sv) then "-"%byte :: sv_pre sv else [])
        ++ (if nonempty (sv_meta sv) then "+"%byte :: sv_meta sv else []).
Proof. exact semver_decomposition. Qed.
Print Assumptions C14_semver_split_lossless.

(* dpkg: for EVERY common prefix U, every remainder R and every B that is empty or starts with "+":
   U~R sorts strictly before U B - a prerelease build before the release, with or without metadata *)
Theorem C14_dpkg_prerelease_sorts_first : forall n U R B fuel, List.length U <= n -> n < fuel -> tilde_vs B ->
  verrevcmp fuel (U ++ "~"%byte :: R) (U ++ B) = Some Lt.
Proof. exact verrevcmp_tilde_lt. Qed.
Print Assumptions C14_dpkg_prerelease_sorts_first.

Theorem C14_dpkg_versions_prerelease_lt_release : forall v w e U R B r1 r2,
  dpkg_parts v = (e, U ++ "~"%byte :: R, r1) -> dpkg_parts w = (e, U ++ B, r2) -> tilde_vs B ->
  dpkg_cmp v w = Some Lt.
Proof. exact dpkg_pre_lt_release. Qed.
Print Assumptions C14_dpkg_versions_prerelease_lt_release.

(* rpm: for EVERY common prefix U - digits, letters, separators, even "~" and "^" - every remainder R and every
   tail B that is empty or starts with a separator (the "+" of the metadata) not followed first by "~":
   U~R sorts strictly before U B under rpmvercmp - a prerelease build before the release *)
Theorem C14_rpm_prerelease_sorts_first : forall n U R B fuel, List.length U <= n -> n < fuel -> release_tail B ->
  rpmvercmp fuel (U ++ "~"%byte :: R) (U ++ B) = Some Lt.
Proof. exact rpmvercmp_tilde_lt. Qed.
Print Assumptions C14_rpm_prerelease_sorts_first.

Theorem C14_rpm_versions_prerelease_lt_release : forall e U R B r1 r2, release_tail B ->
  rpm_cmp e (U ++ "~"%byte :: R) r1 e (U ++ B) r2 = Some Lt.
Proof. exact rpm_pre_lt_release. Qed.
Print Assumptions C14_rpm_versions_prerelease_lt_release.

Example C14_rpm_release_tails : release_tail [] /\ release_tail (B "+git.5").
Proof. split; [exact release_tail_nil|apply release_tail_plus; reflexivity]. Qed.

(* digit runs are compared by VALUE - any number of digits, any leading zeros - by dpkg and by rpm alike *)
Theorem C14_digit_runs_compare_numerically : forall a b, forallb is_digit a = true -> forallb is_digit b = true ->
  cmp_digit_runs (strip0 a) (strip0 b) = N.compare (val a) (val b).
Proof. exact cmp_digit_runs_numeric. Qed.
Print Assumptions C14_digit_runs_compare_numerically.

(* a different major.minor.patch orders numerically: for ALL digit strings *)
Theorem C14_dpkg_triples_order_numerically : forall d1 e1 f1 d2 e2 f2 fuel,
  forallb is_digit d1 = true -> forallb is_digit e1 = true -> forallb is_digit f1 = true ->
  forallb is_digit d2 = true -> forallb is_digit e2 = true -> forallb is_digit f2 = true ->
  d1 <> [] -> e1 <> [] -> f1 <> [] -> d2 <> [] -> e2 <> [] -> f2 <> [] -> 4 <= fuel ->
  verrevcmp fuel (d1 ++ dotb :: e1 ++ dotb :: f1) (d2 ++ dotb :: e2 ++ dotb :: f2) =
  Some (triple_cmp (val d1) (val e1) (val f1) (val d2) (val e2) (val f2)).
Proof. exact dpkg_triples_numeric. Qed.
Print Assumptions C14_dpkg_triples_order_numerically.

Theorem C14_rpm_triples_order_numerically : forall d1 e1 f1 d2 e2 f2 fuel,
  forallb is_digit d1 = true -> forallb is_digit e1 = true -> forallb is_digit f1 = true ->
  forallb is_digit d2 = true -> forallb is_digit e2 = true -> forallb is_digit f2 = true ->
  d1 <> [] -> e1 <> [] -> f1 <> [] -> d2 <> [] -> e2 <> [] -> f2 <> [] -> 4 <= fuel ->
  rpmvercmp fuel (d1 ++ dotb :: e1 ++ dotb :: f1) (d2 ++ dotb :: e2 ++ dotb :: f2) =
  Some (triple_cmp (val d1) (val e1) (val f1) (val d2) (val e2) (val f2)).
Proof. exact rpm_triples_numeric. Qed.
Print Assumptions C14_rpm_triples_order_numerically.

(* any higher epoch sorts after any lower one, whatever follows *)
Theorem C14_dpkg_epoch_dominates : forall v w e1 u1 r1 e2 u2 r2,
  dpkg_parts v = (e1, u1, r1) -> dpkg_parts w = (e2, u2, r2) -> (e1 < e2)%Z -> dpkg_cmp v w = Some Lt.
Proof. exact dpkg_epoch_dominates. Qed.
Print Assumptions C14_dpkg_epoch_dominates.

Theorem C14_rpm_epoch_dominates : forall e1 v1 r1 e2 v2 r2, (e1 < e2)%Z -> rpm_cmp e1 v1 r1 e2 v2 r2 = Some Lt.
Proof. exact rpm_epoch_dominates. Qed.
Print Assumptions C14_rpm_epoch_dominates.

(* non-vacuity: version strings as nfpm writes them meet the hypotheses *)
Example C14_witness :
  dpkg_parts (B "2:1.2.3~alpha-3+b-7-1") = (2%Z, B "1.2.3" ++ "~"%byte :: B "alpha-3+b-7", B "1") /\
  dpkg_parts (B "2:1.2.3+b-7-1") = (2%Z, B "1.2.3" ++ B "+b-7", B "1") /\
  dpkg_cmp (B "2:1.2.3~alpha-3+b-7-1") (B "2:1.2.3+b-7-1") = Some Lt /\
  rpm_cmp 0 (B "1.2.3~rc_1+git") (B "1") 0 (B "1.2.3+git") (B "1") = Some Lt /\
  (match semver_parse (B "v1.2-rc.1+git.5") with Some sv => sv_pre sv = B "rc.1" /\ sv_meta sv = B "git.5" | None => False end).
Proof. vm_compute. repeat split. Qed.
