(* C16 - strict parsing and scoped environment expansion. Statements only. *)
From Coq Require Import List NArith ZArith Bool String.
From Coq Require Import Strings.Byte.
From NfpmV Require Import Lib.Bytes Model.Content Model.Meta Model.TypeTree Model.Expand Spec.C16.
From NfpmV Require Import Proofs.C16Proofs.
Import ListNotations.
Open Scope list_scope.

Theorem C16_no_dollar_left_as_written : forall m s, ~ In dollar s -> os_expand m s = s.
Proof. exact no_dollar_identity. Qed.
Print Assumptions C16_no_dollar_left_as_written.

Theorem C16_list_items_trimmed_and_filtered : forall env items x,
  In x (expand_list env items) <-> exists s, In s items /\ x = trim_space (os_expand (env_of env) s) /\ nonempty x = true.
Proof. exact expand_list_iff. Qed.
Print Assumptions C16_list_items_trimmed_and_filtered.

Theorem C16_plain_list_items_only_trimmed : forall env items, Forall (fun s => ~ In dollar s) items ->
  expand_list env items = filter nonempty (map trim_space items).
Proof. exact expand_list_plain. Qed.
Print Assumptions C16_plain_list_items_only_trimmed.

Theorem C16_passphrase_precedence : forall env f,
  (nonempty (env_of env (B "NFPM_" ++ f ++ B "_PASSPHRASE")) = true -> passphrase env f = env_of env (B "NFPM_" ++ f ++ B "_PASSPHRASE")) /\
  (nonempty (env_of env (B "NFPM_" ++ f ++ B "_PASSPHRASE")) = false -> passphrase env f = env_of env (B "NFPM_PASSPHRASE")).
Proof. exact passphrase_precedence. Qed.
Print Assumptions C16_passphrase_precedence.

Theorem C16_content_expanded_only_on_opt_in : forall env p raw, expand_kind p = EContent -> expand_scalar env p false raw = raw.
Proof. exact content_needs_opt_in. Qed.
Print Assumptions C16_content_expanded_only_on_opt_in.

(* an unknown key is rejected wherever it is: at a struct directly, and - through the inversion lemmas for
   pointers, sequences, maps and structs - at any depth *)
Theorem C16_unknown_key_rejected : forall n fs kvs k v, In (k, v) kvs -> lookup_field (flat_fields 8 fs) k = None ->
  accepts (S n) (TyStruct fs) (DMap kvs) = false.
Proof. exact unknown_key_rejected. Qed.
Print Assumptions C16_unknown_key_rejected.

Theorem C16_accepted_documents_have_only_known_keys : forall n fs kvs, accepts (S n) (TyStruct fs) (DMap kvs) = true ->
  forall k v, In (k, v) kvs -> exists f, lookup_field (flat_fields 8 fs) k = Some f /\ accepts n (f_ty f) v = true.
Proof. exact accepts_struct_inv. Qed.
Print Assumptions C16_accepted_documents_have_only_known_keys.
