(* C05 - content planning. Statements only; every proof is [exact <lemma from Proofs/>]. *)
From Coq Require Import List NArith ZArith Bool.
From Coq Require Import Strings.Byte.
From NfpmV Require Import Lib.Bytes Model.Path Model.Content Model.Prepare Spec.C05.
From NfpmV Require Import Proofs.PathFacts Proofs.C05Proofs.
Import ListNotations.

(* Every successful plan - for every content list, oracle (file system answers within the WalkDir
   envelope), umask, packager and mtime - has unique, sorted, absolute, lexically clean destinations,
   every ancestor directory present before the entry, one entry per location, nothing beneath a
   non-directory, and only entries addressed to the packager whose type exists there. *)
Theorem C05_plan_wellformed :
  forall fs st ces umask packager mt cs,
  oracle_okb fs st umask mt ces = true ->
  prep fs st ces umask packager mt = Ok cs ->
  nodupb (map c_dst cs) = true /\ sortedb cs = true /\ forallb dst_shapeb cs = true /\
  negb (existsb double_rootb cs) = true /\ parents_beforeb [] cs = true /\
  nodupb (map location cs) = true /\ negb (beneath_nondirb cs) = true /\
  forallb (is_relevant packager) cs = true.
Proof. exact plan_clauses. Qed.
Print Assumptions C05_plan_wellformed.

(* NormalizeAbsoluteFilePath: absolute, lexically clean, idempotent - for every string *)
Theorem C05_norm_file_clean : forall s, abs_cleanb (norm_file s) = true.
Proof. exact (fun s => abs_cleanb_fkey (comps_abs s) (comps_abs_good s)). Qed.
Print Assumptions C05_norm_file_clean.

Theorem C05_norm_file_idempotent : forall s, norm_file (norm_file s) = norm_file s.
Proof. exact norm_file_idem. Qed.
Print Assumptions C05_norm_file_idempotent.

(* NormalizeAbsoluteDirPath: the root, or a clean absolute path with exactly one trailing slash *)
Theorem C05_norm_dir_shape : forall s, exists cs, Forall good_comp cs /\ norm_dir s = dkey cs.
Proof. exact norm_dir_shape. Qed.
Print Assumptions C05_norm_dir_shape.
