(* C08 - obligations over the table regenerated from rpm/rpm.go and the rpmpack module on every run. *)
From Coq Require Import List NArith ZArith Bool String.
From Coq Require Import Strings.Byte.
From NfpmV Require Import Lib.Bytes Model.Content Spec.C08 Proofs.RpmFlagsProofs.
From NfpmV Require Import Gen.RpmFlags.
Import ListNotations.

(* For EVERY type string (the declared ones, the empty one, anything a document may hold): the flags the switch in
   rpm.createFilesInsideRPM hands to asRPMFile - the row of the type's case, the default branch otherwise, with
   rpmpack's own values for the flag names - say config, doc, missingok, noreplace, ghost, licence and readme exactly
   where the specification does, and nothing else. *)
Theorem C08_rpm_flags_in_the_sources_meet_the_spec :
  forall t, exists fl, flags_of rpm_type_flags rpm_default_flags t = Some fl /\ flag_spec_okb t fl = true.
Proof. apply flags_meet_spec. vm_compute. reflexivity. Qed.
Print Assumptions C08_rpm_flags_in_the_sources_meet_the_spec.

(* not vacuous: the three configuration flavours get three different flag words *)
Example C08_config_flavours_differ :
  flags_of rpm_type_flags rpm_default_flags TConfig <> flags_of rpm_type_flags rpm_default_flags TConfigNoReplace /\
  flags_of rpm_type_flags rpm_default_flags TConfig <> flags_of rpm_type_flags rpm_default_flags TConfigMissingOK.
Proof. split; vm_compute; discriminate. Qed.
