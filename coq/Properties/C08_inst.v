(* C08 - obligations over the table regenerated from rpm/rpm.go and the rpmpack module on every run. *)
From Coq Require Import List NArith ZArith Bool String.
From Coq Require Import Strings.Byte.
From NfpmV Require Import Lib.Bytes Model.Content Spec.C08 Proofs.RpmFlagsProofs.
From NfpmV Require Import Gen.RpmFlags.
Import ListNotations.

(* For EVERY type string (the declared ones, the empty one, anything a document may hold): the flags the switch in
   rpm.createFilesInsideRPM hands to asRPMFile - the row of the type's case, the default branch otherwise, with
   rpmpack's own values for the flag names - say config, doc, missingok, noreplace, ghost, licence and readme exactly
   where the specification does, and nothing else. *)
Theorem C08_rpm_flags_in_the_sources_meet_the_spec :
  forall t, exists fl, flags_of rpm_type_flags rpm_default_flags t = Some fl /\ flag_spec_okb t fl = true.
Proof. apply flags_meet_spec. vm_compute. reflexivity. Qed.
Print Assumptions C08_rpm_flags_in_the_sources_meet_the_spec.

(* not vacuous: the three configuration flavours get three different flag words *)
Example C08_config_flavours_differ :
  flags_of rpm_type_flags rpm_default_flags TConfig <> flags_of rpm_type_flags rpm_default_flags TConfigNoReplace /\
  flags_of rpm_type_flags rpm_default_flags TConfig <> flags_of rpm_type_flags rpm_default_flags TConfigMissingOK.
Proof. split; vm_compute; discriminate. Qed.

(* ---- conffiles of deb and ipk, translated from the sources on every run (Gen/ListFns.v) ---- *)
From NfpmV Require Import Model.DebLists Proofs.ListFnsProofs Gen.ListFns.

(* for every prepared content list: the conffiles member the SOURCE writes - one NormalizeAbsoluteFilePath(destination)
   per entry of type config, config|noreplace or config|missingok, in list order, joined by line breaks and ended by one -
   is the text of the model's list, the one C08_conffiles_iff_declared and C08_conffiles_text_roundtrip speak about *)
Theorem C08_conffiles_source_is_the_model : forall cs,
  src_deb_conffiles_translated && src_ipk_conffiles_translated = true /\
  src_deb_conffiles cs = conffiles_text (conffiles_model cs) /\ src_ipk_conffiles cs = conffiles_text (conffiles_model cs).
Proof. intros cs. exact (conj list_fns_translated (conj (src_deb_conffiles_is_model cs) (src_ipk_conffiles_is_model cs))). Qed.
Print Assumptions C08_conffiles_source_is_the_model.

(* ---- archlinux: the backup lines of .PKGINFO, translated from arch/arch.go on every run (Gen/BackupFn.v) ---- *)
From NfpmV Require Import Gen.BackupFn.

(* for every prepared content list: the values the SOURCE writes under the key "backup" - AsRelativePath(destination) of
   every entry of one of the three configuration types, in list order - are the model's backups_model cs *)
Theorem C08_backup_source_is_the_model : forall cs,
  src_arch_backups_translated && seqb src_arch_backup_key (B "backup") = true /\ src_arch_backups cs = backups_model cs.
Proof. intros cs. exact (conj backups_translated (src_arch_backups_is_model cs)). Qed.
Print Assumptions C08_backup_source_is_the_model.
