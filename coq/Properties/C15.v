(* C15 - conventional file name and CLI target. Statements only. The agreement of the file name with the
   metadata inside the package is decided on every run (model_filename = the real ConventionalFileName on all
   generated settings, and the checker compares the name with the decoded metadata); the architecture part
   rests on C02_arch_translation_idempotent (instance obligation over the regenerated tables). *)
From Coq Require Import List NArith ZArith Bool String.
From Coq Require Import Strings.Byte.
From NfpmV Require Import Lib.Bytes Model.Path Model.Content Model.Meta Model.Cli.
From NfpmV Require Import Proofs.C15Proofs.
Import ListNotations.
Open Scope string_scope.

Theorem C15_cli_flag_wins : forall registered target is_dir flag conv pk path,
  nonempty flag = true -> cli_plan registered target is_dir flag conv = CliOk pk path -> pk = flag.
Proof. exact flag_wins. Qed.
Print Assumptions C15_cli_flag_wins.

Theorem C15_cli_target_exact : forall registered target is_dir flag conv pk path,
  cli_plan registered target is_dir flag conv = CliOk pk path ->
  path = (if negb (nonempty target) then conv else if is_dir then join2 target conv else target).
Proof. exact target_exact. Qed.
Print Assumptions C15_cli_target_exact.

Theorem C15_cli_inference_only_from_extension : forall registered target is_dir conv pk path,
  cli_plan registered target is_dir [] conv = CliOk pk path ->
  is_dir = false /\ ext_of target = dot :: pk /\ existsb (seqb pk) registered = true.
Proof. exact inference_needs_extension. Qed.
Print Assumptions C15_cli_inference_only_from_extension.

Example C15_witness :
  cli_plan [B "deb"; B "rpm"] (B "out/x.deb") false [] (B "p_1_amd64.deb") = CliOk (B "deb") (B "out/x.deb") /\
  cli_plan [B "deb"; B "rpm"] (B "dist") true (B "rpm") (B "p-1-1.x86_64.rpm") = CliOk (B "rpm") (B "dist/p-1-1.x86_64.rpm") /\
  cli_plan [B "deb"; B "rpm"] [] false (B "rpm") (B "p-1-1.x86_64.rpm") = CliOk (B "rpm") (B "p-1-1.x86_64.rpm") /\
  cli_plan [B "deb"; B "rpm"] (B "dist") true [] (B "x") = CliErr /\
  cli_plan [B "deb"; B "rpm"] (B "x.pkg.tar.zst") false [] (B "x") = CliErr.
Proof. exact cli_witness. Qed.
