(* C15 - conventional file name and CLI target. Statements only. The agreement of the file name with the
   metadata inside the package is decided on every run (model_filename = the real ConventionalFileName on all
   generated settings, and the checker compares the name with the decoded metadata); the architecture part
   rests on C02_arch_translation_idempotent (instance obligation over the regenerated tables). *)
From Coq Require Import List NArith ZArith Bool String.
From Coq Require Import Strings.Byte.
From NfpmV Require Import Lib.Bytes Model.Path Model.Content Model.Meta Model.Cli.
From NfpmV Require Import Proofs.C15Proofs.
From NfpmV Require Import Model.Payload Model.Deb822 Proofs.ControlFields Spec.C15.
Import ListNotations.
Open Scope string_scope.

Theorem C15_cli_flag_wins : forall registered target is_dir flag conv pk path,
  nonempty flag = true -> cli_plan registered target is_dir flag conv = CliOk pk path -> pk = flag.
Proof. exact flag_wins. Qed.
Print Assumptions C15_cli_flag_wins.

Theorem C15_cli_target_exact : forall registered target is_dir flag conv pk path,
  cli_plan registered target is_dir flag conv = CliOk pk path ->
  path = (if negb (nonempty target) then conv else if is_dir then join2 target conv else target).
Proof. exact target_exact. Qed.
Print Assumptions C15_cli_target_exact.

Theorem C15_cli_inference_only_from_extension : forall registered target is_dir conv pk path,
  cli_plan registered target is_dir [] conv = CliOk pk path ->
  is_dir = false /\ ext_of target = dot :: pk /\ existsb (seqb pk) registered = true.
Proof. exact inference_needs_extension. Qed.
Print Assumptions C15_cli_inference_only_from_extension.

Example C15_witness :
  cli_plan [B "deb"; B "rpm"] (B "out/x.deb") false [] (B "p_1_amd64.deb") = CliOk (B "deb") (B "out/x.deb") /\
  cli_plan [B "deb"; B "rpm"] (B "dist") true (B "rpm") (B "p-1-1.x86_64.rpm") = CliOk (B "rpm") (B "dist/p-1-1.x86_64.rpm") /\
  cli_plan [B "deb"; B "rpm"] [] false (B "rpm") (B "p-1-1.x86_64.rpm") = CliOk (B "rpm") (B "p-1-1.x86_64.rpm") /\
  cli_plan [B "deb"; B "rpm"] (B "dist") true [] (B "x") = CliErr /\
  cli_plan [B "deb"; B "rpm"] (B "x.pkg.tar.zst") false [] (B "x") = CliErr.
Proof. exact cli_witness. Qed.

(* deb: the conventional file name is composed of what a reader finds in the control file of the package built from
   the same settings - Package, Version without the epoch, Architecture - when the platform is linux (for another
   platform the control file states platform-arch and the name does not: known finding C15-K2) *)
Theorem C15_deb_filename_is_composed_of_control_fields : forall archtab i k,
  control_single_lines archtab i k = true -> seqb (gs i "platform") (B "linux") = true ->
  no_colon (gs i "epoch") = true -> (nonempty (gs i "epoch") = true \/ no_colon (deb_name_version i) = true) ->
  exists fs name ver arch,
    d_read (deb_control archtab i k) = Some fs
    /\ d_get (B "Package") fs = Some name /\ d_get (B "Version") fs = Some ver /\ d_get (B "Architecture") fs = Some arch
    /\ model_filename FDeb archtab i = (name ++ B "_" ++ strip_epoch ver ++ B "_" ++ arch ++ B ".deb")%list.
Proof. exact deb_filename_is_composed_of_control_fields. Qed.
Print Assumptions C15_deb_filename_is_composed_of_control_fields.
