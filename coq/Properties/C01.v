(* C01 - payload fidelity. Statements only; every proof is [exact <lemma from Proofs/>]. *)
From Coq Require Import List NArith ZArith Bool.
From Coq Require Import Strings.Byte.
From NfpmV Require Import Lib.Bytes Model.Path Model.Content Model.Prepare Model.Payload Spec.C05 Spec.C01.
From NfpmV Require Import Proofs.C01Proofs Proofs.C01Plan.
Import ListNotations.

(* For every format, content list, oracle (within the WalkDir envelope), umask and package mtime: the payload
   the packager model writes for the plan states exactly what the plan denotes - every denoted path is
   present once with its kind; regular files carry the declared or defaulted mode (12 bits), owner, group,
   mtime and the source's bytes; directories their mode, owner and group; symlinks their literal target;
   nothing else is in the payload; rpm lists ghosts without payload and records neither implied
   directories nor the root. The envelope: modes below 0o10000 and no non-directory entry at "/". *)
Theorem C01_payload_fidelity :
  forall f hashes fs st ces umask mt cs,
  oracle_okb fs st umask mt ces = true ->
  prep fs st ces umask (fmt_name f) mt = Ok cs ->
  envelope_C01 cs = true ->
  check_C01 f hashes cs (payload_of f mt cs) = [].
Proof. exact payload_fidelity. Qed.
Print Assumptions C01_payload_fidelity.

(* the same statement for any list of prepared entries with distinct locations (no reference to planning) *)
Theorem C01_payload_meets_denotation :
  forall f hashes mt cs, all_prepared f cs -> NoDup (map location cs) ->
  check_C01 f hashes cs (payload_of f mt cs) = [].
Proof. exact payload_meets_denotation. Qed.
Print Assumptions C01_payload_meets_denotation.

(* the denotation does not depend on the format, except for what rpm leaves out: the same plan denotes
   the same logical tree everywhere *)
Theorem C01_denotation_format_independent :
  forall f cs, denote f cs = map denote_entry (filter (in_payload f) cs) /\
  (forall c, in_payload f c = true -> in_payload FDeb c = true).
Proof. exact denote_format_independent. Qed.
Print Assumptions C01_denotation_format_independent.
