(* C14 - obligations over the version-composing functions as translated from the sources on every run. *)
From Coq Require Import List String Bool.
From Coq Require Import Strings.Byte.
From NfpmV Require Import Lib.Bytes Model.Content Model.Payload Model.Meta Proofs.StrFnsProofs.
From NfpmV Require Import Gen.StrFns.
Import ListNotations.
Open Scope list_scope.

(* rpm.formatVersion and apk.pkgver, as the sources have them now, compose the version strings of the model for all
   settings: prerelease after "~" with "-" turned into "_" and metadata after "+" (rpm); prerelease after "_", release
   with its "r", metadata with its letter prefix (apk) *)
Theorem C14_rpm_version_source_is_the_model : forall i arch, src_rpm_formatVersion i arch = rpm_version i.
Proof. exact src_rpm_formatVersion_is_model. Qed.
Print Assumptions C14_rpm_version_source_is_the_model.

Theorem C14_apk_version_source_is_the_model : forall i arch, src_apk_pkgver i arch = apk_version i.
Proof. exact src_apk_pkgver_is_model. Qed.
Print Assumptions C14_apk_version_source_is_the_model.

(* ---- nfpm.WithDefaults and Info.parseSemver, translated from nfpm.go on every run (Gen/WithDefaults.v) ---- *)
From NfpmV Require Import Model.Version Proofs.WithDefaultsProofs Gen.WithDefaults.

(* For every schema, version, prerelease, metadata, platform and description: what the SOURCE's WithDefaults leaves in
   those fields - the default version, nothing touched under schema "none", the parsed numbers with explicit prerelease
   and metadata winning over embedded ones otherwise, "linux" and "no description given" for empty platform and
   description - is the model's split_version / dflt, the functions the theorems of Properties/C14.v and the checker
   check_split are stated over. semver.NewVersion is the model's semver_parse on both sides (hand-modelled, compared
   with the library on every generated version). *)
Theorem C14_with_defaults_source_is_the_model : forall schema v pre meta plat desc,
  src_parseSemver_translated && src_WithDefaults_translated = true /\
  src_WithDefaults schema v pre meta plat desc =
  (let '(v', pre', meta') := split_version schema v pre meta in
   (v', pre', meta', dflt plat (B "linux"), dflt desc (B "no description given"))).
Proof. intros. split; [exact with_defaults_translated | apply src_WithDefaults_is_model]. Qed.
Print Assumptions C14_with_defaults_source_is_the_model.

(* ---- archlinux: the statements of createPkginfo that compute pkgver, translated on every run (Gen/ArchPkgver.v) ---- *)
From NfpmV Require Import Gen.ArchPkgver.
(* Atoi of the release with 1 for anything that is not a number; with an epoch that parses as an unsigned 64-bit number,
   epoch:version followed by the prerelease with "-" turned into "_"; otherwise version-pkgrel - the model's arch_version *)
Theorem C14_arch_version_source_is_the_model :
  src_arch_pkgver_translated = true /\ forall i arch, src_arch_pkgver i arch = arch_version i.
Proof. split; [reflexivity | exact src_arch_pkgver_is_model]. Qed.
Print Assumptions C14_arch_version_source_is_the_model.
