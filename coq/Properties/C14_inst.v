(* C14 - obligations over the version-composing functions as translated from the sources on every run. *)
From Coq Require Import List String Bool.
From Coq Require Import Strings.Byte.
From NfpmV Require Import Lib.Bytes Model.Content Model.Payload Model.Meta Proofs.StrFnsProofs.
From NfpmV Require Import Gen.StrFns.
Import ListNotations.
Open Scope list_scope.

(* rpm.formatVersion and apk.pkgver, as the sources have them now, compose the version strings of the model for all
   settings: prerelease after "~" with "-" turned into "_" and metadata after "+" (rpm); prerelease after "_", release
   with its "r", metadata with its letter prefix (apk) *)
Theorem C14_rpm_version_source_is_the_model : forall i arch, src_rpm_formatVersion i arch = rpm_version i.
Proof. exact src_rpm_formatVersion_is_model. Qed.
Print Assumptions C14_rpm_version_source_is_the_model.

Theorem C14_apk_version_source_is_the_model : forall i arch, src_apk_pkgver i arch = apk_version i.
Proof. exact src_apk_pkgver_is_model. Qed.
Print Assumptions C14_apk_version_source_is_the_model.
