(* C07 - reproducible output: bytes depend only on configuration and sources, never the clock. Statements only. *)
From Coq Require Import List NArith ZArith Bool String Sorting.Sorted Sorting.Permutation.
From Coq Require Import Strings.Byte.
From NfpmV Require Import Lib.Bytes Model.Path Model.Content Model.Prepare Spec.C07.
From NfpmV Require Import Proofs.C05Proofs Proofs.C07Proofs.
Import ListNotations.
Open Scope list_scope.

(* Every entry of every plan files.PrepareForPackager's model produces - for all configurations, file-system
   answers, umasks and formats - carries the package mtime, a per-entry time the configuration states, a time stat
   reported for a source, or a time the tree walk reported for a directory. Nothing else: no clock. *)
Theorem C07_planned_times_have_a_source : forall fs st ces umask packager mt cs,
  prep fs st ces umask packager mt = Ok cs -> forall c, In c cs ->
  mtime_of c = mt \/ In (mtime_of c) (declared_times ces) \/ In (mtime_of c) (stat_times st) \/ In (mtime_of c) (walk_times ces).
Proof. exact planned_times_have_a_source. Qed.
Print Assumptions C07_planned_times_have_a_source.

(* one entry: configured time if any, else the source's time on disk, else the package mtime *)
Theorem C07_entry_time_provenance : forall st umask mt (A : Z -> Prop) c,
  A mt -> (forall p s, stat_of st p = Some s -> A (st_mtime s)) ->
  (is_tzero (mtime_of c) = true \/ A (mtime_of c)) -> A (mtime_of (with_defaults st umask mt c)).
Proof. intros st umask mt A c H1 H2 H3. exact (wd_time st umask mt A H1 H2 c H3). Qed.
Print Assumptions C07_entry_time_provenance.

(* The order of the plan is canonical: two strictly sorted plans with the same entries are the same list - so the
   order in which a map iteration, a glob or a directory walk delivered them cannot reach the output. *)
Theorem C07_sorted_plan_is_canonical : forall l1 l2 : list content,
  StronglySorted dst_lt l1 -> StronglySorted dst_lt l2 -> Permutation l1 l2 -> l1 = l2.
Proof. exact sorted_plan_unique. Qed.
Print Assumptions C07_sorted_plan_is_canonical.

(* non-vacuity of the checker's allowance for time-free gzip headers: exactly the two encodings *)
Example C07_gzip_no_time_values :
  gzip_no_time 0 = true /\ gzip_no_time 2288912640 = true /\ gzip_no_time 1700000000 = false.
Proof. vm_compute. repeat split. Qed.
