(* C12 - concurrent packaging is race-free on the configuration and equals sequential packaging. Statements only. *)
From Coq Require Import List NArith ZArith Bool Arith String.
From Coq Require Import Strings.Byte.
From NfpmV Require Import Lib.Bytes Model.Content Model.History Model.Conc Model.Sharing Spec.C11.
From NfpmV Require Import Proofs.C11Proofs Proofs.C12Proofs.
Import ListNotations.
Open Scope list_scope.

(* ANY schedule of ANY number of threads, each of which only ever writes privately when run alone: no step of the
   interleaving modifies a cell of the shared configuration (so no thread's read of it can race with a write),
   and every thread is exactly where the same number of its own steps, taken alone, would have put it *)
Theorem C12_no_interleaving_touches_shared_cells : forall n shared, List.length shared = n -> forall sched ts,
  (forall i t, nth_error ts i = Some t -> forall k, t_ok (solo n shared t k) = true) ->
  fst (run_sched n shared ts sched) = shared /\
  forall i t, nth_error ts i = Some t ->
    nth_error (snd (run_sched n shared ts sched)) i = Some (solo n shared t (count_of i sched)).
Proof. exact interleaving_equals_solo. Qed.
Print Assumptions C12_no_interleaving_touches_shared_cells.

(* concurrent = sequential: any two schedules that let a thread finish leave it in the state in which it finishes
   alone - an arbitrary interleaving and "one thread after the other" in particular *)
Theorem C12_concurrent_equals_sequential : forall n shared ts s1 s2,
  List.length shared = n ->
  (forall i t, nth_error ts i = Some t -> forall k, t_ok (solo n shared t k) = true) ->
  forall i t steps, nth_error ts i = Some t -> t_done (solo n shared t steps) = true ->
    steps <= count_of i s1 -> steps <= count_of i s2 ->
    nth_error (snd (run_sched n shared ts s1)) i = Some (solo n shared t steps) /\
    nth_error (snd (run_sched n shared ts s2)) i = Some (solo n shared t steps).
Proof. exact complete_schedules_agree. Qed.
Print Assumptions C12_concurrent_equals_sequential.

(* the premise is decided by running each thread alone to completion *)
Theorem C12_premise_by_running_alone : forall n shared t steps,
  solo_private n shared t steps = true -> forall k, t_ok (solo n shared t k) = true.
Proof. exact solo_private_all. Qed.
Print Assumptions C12_premise_by_running_alone.

Definition ex_threads (fixed : bool) : list tstate :=
  map (fun f => t_init ex_root (script_of fixed (OpPackage f))) all_formats.

(* instance: the five packagings of the example configuration (shared file_info, key id, field map, override
   block), with the scripts of the repaired code, under EVERY schedule *)
Theorem C12_example_every_schedule : forall sched,
  fst (run_sched (List.length ex_heap) ex_heap (ex_threads true) sched) = ex_heap.
Proof.
  intros sched.
  assert (Hall : forallb (fun t => solo_private (List.length ex_heap) ex_heap t 400) (ex_threads true) = true)
    by (vm_compute; reflexivity).
  rewrite forallb_forall in Hall.
  apply (interleaving_equals_solo (List.length ex_heap) ex_heap eq_refl sched (ex_threads true)).
  intros i t Hi. apply (solo_private_all _ _ _ 400). apply Hall. apply (nth_error_In _ _ Hi).
Qed.
Print Assumptions C12_example_every_schedule.

(* REFUTED for the code before the fixes: rpm and deb built concurrently from one parsed configuration write the
   shared file_info cell (the data race `go test -race` reported) *)
Theorem C12_before_fixes_refuted :
  exists sched, fst (run_sched (List.length ex_heap) ex_heap (ex_threads false) sched) <> ex_heap.
Proof.
  exists (repeat 0 200 ++ repeat 1 200).
  assert (H : heap_eqb_den ex_root ex_heap (fst (run_sched (List.length ex_heap) ex_heap (ex_threads false) (repeat 0 200 ++ repeat 1 200))) = false)
    by (vm_compute; reflexivity).
  intros E. rewrite E in H. vm_compute in H. discriminate H.
Qed.
Print Assumptions C12_before_fixes_refuted.
