(* C07 - obligations over the table regenerated from the working tree on every run. *)
From Coq Require Import List NArith ZArith Bool String.
From Coq Require Import Strings.Byte.
From NfpmV Require Import Lib.Bytes Model.Content Spec.C07.
From NfpmV Require Import Gen.NondetSites.
Import ListNotations.

(* every place where the packaging code reads the clock, the host, the process, the environment, the CPU count or
   a random source, or iterates over a map, is in the audited list (Spec/C07.v, each with its reason) *)
Theorem C07_every_nondeterminism_site_is_audited : unaudited nondet_sites = [].
Proof. vm_compute. reflexivity. Qed.
Print Assumptions C07_every_nondeterminism_site_is_audited.

