(* C09 - maintainer scripts. Statements only. *)
From Coq Require Import List NArith ZArith Bool String.
From Coq Require Import Strings.Byte.
From NfpmV Require Import Lib.Bytes Model.Content Model.Payload Spec.C09.
From NfpmV Require Import Proofs.C09Proofs.
Import ListNotations.
Open Scope string_scope.

(* no two events share a slot and no event lands in two slots, in every format *)
Theorem C09_slot_map_injective : forall f, NoDup (map fst (slots f)) /\ NoDup (map snd (slots f)).
Proof. exact slots_injective. Qed.
Print Assumptions C09_slot_map_injective.

(* a slot is populated, with exactly the configured bytes, iff its event is configured *)
Theorem C09_slot_iff_configured : forall f cfg slot b,
  In (slot, b) (expected_scripts f cfg) <-> exists g, In (g, slot) (slots f) /\ assoc g cfg = Some b.
Proof. exact expected_iff. Qed.
Print Assumptions C09_slot_iff_configured.

(* deb, ipk, apk, archlinux: the packager model embeds every configured script verbatim for ALL byte strings *)
Theorem C09_verbatim_all_bytes : forall f cfg, f <> FRpm ->
  check_C09 f cfg (model_scripts f cfg) []
    (match f, expected_scripts f cfg with FArch, ((_ :: _) as w) => Some (render_install w) | _, _ => None end) = [].
Proof. exact model_passes. Qed.
Print Assumptions C09_verbatim_all_bytes.

(* rpm: verbatim for non-empty, NUL-free scripts ... *)
Theorem C09_rpm_verbatim_partial : forall cfg,
  forallb (fun '(_, b) => match b with [] => false | _ => true end && nul_free b) (expected_scripts FRpm cfg) = true ->
  check_C09 FRpm cfg (model_scripts FRpm cfg) [] None = [].
Proof. exact rpm_model_passes. Qed.
Print Assumptions C09_rpm_verbatim_partial.

(* ... and the full statement is refuted for rpm (known findings C09-K1, C09-K2) *)
Theorem C09_rpm_refuted :
  (exists cfg, check_C09 FRpm cfg (model_scripts FRpm cfg) [] None <> [] /\ assoc (B "postinstall") cfg = Some []) /\
  (exists cfg, check_C09 FRpm cfg (model_scripts FRpm cfg) [] None <> []).
Proof. exact rpm_refuted. Qed.
Print Assumptions C09_rpm_refuted.
