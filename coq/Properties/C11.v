(* C11 - packagings are isolated: one build never changes what another produces. Statements only. *)
From Coq Require Import List NArith ZArith Bool Arith String.
From Coq Require Import Strings.Byte.
From NfpmV Require Import Lib.Bytes Model.Content Model.History Model.Sharing Spec.C11.
From NfpmV Require Import Proofs.C11Proofs.
Import ListNotations.
Open Scope list_scope.

(* an assignment whose path crosses only references allocated at or after [n] leaves every older cell as it is *)
Theorem C11_private_write_keeps_older_cells : forall n p h v x h' v',
  private_path n h v p = true -> set_path h v p x = Some (h', v') ->
  List.length h <= List.length h' /\ forall l, l < n -> nth_error h' l = nth_error h l.
Proof. exact set_path_frozen. Qed.
Print Assumptions C11_private_write_keeps_older_cells.

(* ANY history - any length, any order, any repetition - of operations each of which is private when run on the
   fresh configuration: the configuration's heap at the end is the heap at the start (so its effective settings
   are unchanged), every output equals the output of that operation on the fresh configuration, and no operation
   in the history is flagged. Whatever the scripts and the rendering are. *)
Theorem C11_history_isolated : forall (op : Type) (script_of : op -> script) (output : Type)
    (render : op -> heap -> hval -> output) root h ops,
  (forall o, In o ops -> private_op op script_of output render root h o = true) ->
  fst (run_history op script_of output render root h ops) = h /\
  map fst (snd (run_history op script_of output render root h ops)) = map (fresh_output op script_of output render root h) ops /\
  forallb snd (snd (run_history op script_of output render root h ops)) = true.
Proof. exact history_isolated. Qed.
Print Assumptions C11_history_isolated.

(* and a history that is flagged contains an operation that is not private already on the fresh configuration *)
Theorem C11_flag_names_an_operation : forall (op : Type) (script_of : op -> script) (output : Type)
    (render : op -> heap -> hval -> output) root h ops,
  forallb snd (snd (run_history op script_of output render root h ops)) = false ->
  exists o, In o ops /\ private_op op script_of output render root h o = false.
Proof. exact history_flags. Qed.
Print Assumptions C11_flag_names_an_operation.

(* dropping the cells an operation allocated loses nothing the configuration can reach *)
Theorem C11_dropping_own_cells_is_sound : forall n h, hclosed n h -> forall fuel v, vclosed n v = true ->
  den fuel (firstn n h) v = den fuel h v.
Proof. exact den_firstn. Qed.
Print Assumptions C11_dropping_own_cells_is_sound.

(* the transcribed scripts of the repaired code on a configuration with a shared file_info, a key id, a custom
   field map and an override block: all eleven operations are private, hence EVERY history over them is isolated *)
Theorem C11_example_every_history_isolated : forall ops, (forall o, In o ops -> In o all_ops) ->
  fst (model_run true ex_root ex_heap ops) = ex_heap /\
  map fst (snd (model_run true ex_root ex_heap ops)) = map (fresh_output hop (script_of true) dtree render_den ex_root ex_heap) ops.
Proof.
  intros ops Hsub.
  assert (Hall : forallb (model_private true ex_root ex_heap) all_ops = true) by (vm_compute; reflexivity).
  rewrite forallb_forall in Hall.
  destruct (history_isolated hop (script_of true) dtree render_den ex_root ex_heap ops) as [H1 [H2 _]].
  - intros o Hin. apply Hall. apply Hsub. exact Hin.
  - split; [exact H1|exact H2].
Qed.
Print Assumptions C11_example_every_history_isolated.

(* REFUTED for the code before the two isolation fixes (its scripts: key ids not cloned by Get, file_info not
   copied by WithFileInfoDefaults): one packaging changes what the parsed configuration denotes *)
Theorem C11_before_fixes_refuted :
  heap_eqb_den ex_root ex_heap (fst (model_run false ex_root ex_heap [OpPackage P_deb])) = false /\
  model_private false ex_root ex_heap OpValidate = false /\
  heap_eqb_den ex_root ex_heap (fst (model_run true ex_root ex_heap [OpPackage P_deb])) = true.
Proof. vm_compute. repeat split. Qed.
Print Assumptions C11_before_fixes_refuted.
