(* C03 - obligations over arch.mtreeQuote as translated from arch/arch.go on every run (Gen/QuoteFn.v). *)
From Coq Require Import List String Bool NArith.
From Coq Require Import Strings.Byte.
From NfpmV Require Import Lib.Bytes Model.Mtree.
From NfpmV Require Import Gen.QuoteFn.
Import ListNotations.
Open Scope list_scope.

(* for every byte string: the escaping the SOURCE applies to a name before it writes it into .MTREE - a backslash and three
   octal digits for every byte up to the blank, for the backslash and for DEL, the byte itself otherwise - is the model's
   mquote, the function C03_mtree_roundtrip is proved about (so the round trip holds for what the code writes) *)
Theorem C03_mtree_quote_source_is_the_model :
  src_mtreeQuote_translated = true /\ forall s, src_mtreeQuote s = mquote s.
Proof.
  split; [reflexivity|]. intros s. unfold src_mtreeQuote, mquote.
  induction s as [|b s IH]; [reflexivity|]. cbn [flat_map]. rewrite IH. f_equal.
Qed.
Print Assumptions C03_mtree_quote_source_is_the_model.

(* ---- MtreeEntry.WriteTo: the three line formats, translated from arch/arch.go on every run (Gen/MtreeLine.v) ---- *)
From NfpmV Require Import Model.Content Gen.MtreeLine.

Lemma src_quote_eq s : src_mtreeQuote s = mquote s.
Proof. exact (proj2 C03_mtree_quote_source_is_the_model s). Qed.

(* for every entry: the line the SOURCE's format strings compose - "./" and the escaped name, time=<seconds>.0, mode in
   octal, then type=dir | type=link link=<escaped target> | size, type=file and the two digests - is the model's mline,
   the line C03_mtree_roundtrip and C03_mtree_lists_what_is_shipped are stated over (digests: the model's field is the
   hex text %x prints) *)
Theorem C03_mtree_line_source_is_the_model :
  src_mtree_line_translated = true /\ forall e, src_mtree_line e = mline e.
Proof.
  split; [reflexivity|]. intros e. unfold src_mtree_line, mline, mwords. rewrite (src_quote_eq (me_path e)), (src_quote_eq (me_link e)).
  generalize (mquote (me_path e)) (mquote (me_link e)) (decN (me_time e)) (octN (me_mode e)) (decN (me_size e)) (me_md5 e) (me_sha256 e).
  intros q ql t m sz d5 d256.
  destruct (me_kind e); unfold kw, B; cbn; repeat (rewrite <- app_assoc; cbn); reflexivity.
Qed.
Print Assumptions C03_mtree_line_source_is_the_model.
