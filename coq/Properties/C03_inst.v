(* C03 - obligations over arch.mtreeQuote as translated from arch/arch.go on every run (Gen/QuoteFn.v). *)
From Coq Require Import List String Bool NArith.
From Coq Require Import Strings.Byte.
From NfpmV Require Import Lib.Bytes Model.Mtree.
From NfpmV Require Import Gen.QuoteFn.
Import ListNotations.
Open Scope list_scope.

(* for every byte string: the escaping the SOURCE applies to a name before it writes it into .MTREE - a backslash and three
   octal digits for every byte up to the blank, for the backslash and for DEL, the byte itself otherwise - is the model's
   mquote, the function C03_mtree_roundtrip is proved about (so the round trip holds for what the code writes) *)
Theorem C03_mtree_quote_source_is_the_model :
  src_mtreeQuote_translated = true /\ forall s, src_mtreeQuote s = mquote s.
Proof.
  split; [reflexivity|]. intros s. unfold src_mtreeQuote, mquote.
  induction s as [|b s IH]; [reflexivity|]. cbn [flat_map]. rewrite IH. f_equal.
Qed.
Print Assumptions C03_mtree_quote_source_is_the_model.
