(* C02 - metadata fidelity. Statements only. *)
From Coq Require Import List NArith ZArith Bool.
From Coq Require Import Strings.Byte.
From NfpmV Require Import Lib.Bytes Model.Meta Spec.C02.
From NfpmV Require Import Proofs.C02Proofs.
Import ListNotations.

(* deb / ipk: the Debian unfolding of what the "multiline" template function wrote gives back the synopsis
   and every further line (blank lines included) - for descriptions of any length and content, provided no
   line contains a newline (they are lines) and no continuation line is exactly "." *)
Theorem C02_description_recovered : forall first rest,
  noNL first -> Forall noNL rest -> first <> [] \/ rest <> [] -> Forall (fun t => t <> [x2e]) rest ->
  deb_unfold (render first rest) = first :: rest.
Proof. exact unfold_render. Qed.
Print Assumptions C02_description_recovered.

Theorem C02_multiline_is_render : forall d, multiline d =
  match scan_lines (trim_space d) with [] => [] | first :: rest => render (trim_space first) (map trim_space rest) end.
Proof. exact multiline_render. Qed.
Print Assumptions C02_multiline_is_render.

(* the hypothesis is necessary: a "." line reads back as a blank line (known finding C02-K2) *)
Theorem C02_description_dot_line_refuted : exists first rest, deb_unfold (render first rest) <> first :: rest.
Proof. exact dot_line_refuted. Qed.
Print Assumptions C02_description_dot_line_refuted.

(* a format-specific architecture override is used verbatim *)
Theorem C02_arch_override_verbatim : forall table o a, nonempty o = true -> translate_arch table o a = o.
Proof. exact override_verbatim. Qed.
Print Assumptions C02_arch_override_verbatim.
