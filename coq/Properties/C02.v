(* C02 - metadata fidelity. Statements only. *)
From Coq Require Import List NArith ZArith Bool.
From Coq Require Import Strings.Byte.
From NfpmV Require Import Lib.Bytes Model.Meta Spec.C02.
From NfpmV Require Import Proofs.C02Proofs.
From NfpmV Require Import Model.Content Model.Deb822 Proofs.Deb822Proofs Proofs.ControlFields.
From NfpmV Require Import Model.Mtree Model.Pkginfo Proofs.PkginfoProofs.
Import ListNotations.

(* deb / ipk: the Debian unfolding of what the "multiline" template function wrote gives back the synopsis
   and every further line (blank lines included) - for descriptions of any length and content, provided no
   line contains a newline (they are lines) and no continuation line is exactly "." *)
Theorem C02_description_recovered : forall first rest,
  noNL first -> Forall noNL rest -> first <> [] \/ rest <> [] -> Forall (fun t => t <> [x2e]) rest ->
  deb_unfold (render first rest) = first :: rest.
Proof. exact unfold_render. Qed.
Print Assumptions C02_description_recovered.

Theorem C02_multiline_is_render : forall d, multiline d =
  match scan_lines (trim_space d) with [] => [] | first :: rest => render (trim_space first) (map trim_space rest) end.
Proof. exact multiline_render. Qed.
Print Assumptions C02_multiline_is_render.

(* the hypothesis is necessary: a "." line reads back as a blank line (known finding C02-K2) *)
Theorem C02_description_dot_line_refuted : exists first rest, deb_unfold (render first rest) <> first :: rest.
Proof. exact dot_line_refuted. Qed.
Print Assumptions C02_description_dot_line_refuted.

(* a format-specific architecture override is used verbatim *)
Theorem C02_arch_override_verbatim : forall table o a, nonempty o = true -> translate_arch table o a = o.
Proof. exact override_verbatim. Qed.
Print Assumptions C02_arch_override_verbatim.

From Coq Require Import String.
Local Open Scope string_scope.
Local Open Scope list_scope.

(* ---- the control file as text (Model/Deb822.v): "Key: value" lines with continuation lines, and the reader of it ---- *)

(* any list of well-formed fields reads back as itself: keys, values, order, continuation lines *)
Theorem C02_control_text_roundtrip : forall fs,
  Forall (fun f => wf_dfield f = true) fs -> d_read (d_write fs) = Some (map kv_of fs).
Proof. exact d_roundtrip. Qed.
Print Assumptions C02_control_text_roundtrip.

(* the text the metadata model composes for a deb (which every run compares byte for byte with the control member of
   the real package) IS the text of a field list: identity, version, architecture, relations in the template's order,
   the description with its continuation lines, the custom fields *)
Theorem C02_deb_control_is_field_text : forall archtab i k, deb_control archtab i k = d_write (deb_fields archtab i k).
Proof. exact deb_control_is_field_text. Qed.
Print Assumptions C02_deb_control_is_field_text.

(* ... and a reader recovers exactly that list, the description field included for EVERY description (it is
   well formed by construction: wf_descf); the premise is a boolean over the single-line values as rendered (no
   newline in a name, a version, a joined relation list ...; custom field names are keys) *)
Theorem C02_deb_control_reads_back : forall archtab i k, control_single_lines archtab i k = true ->
  d_read (deb_control archtab i k) = Some (map kv_of (deb_fields archtab i k)).
Proof. exact deb_control_reads_back. Qed.
Print Assumptions C02_deb_control_reads_back.

Theorem C02_deb_control_states_identity : forall archtab i k, control_single_lines archtab i k = true ->
  exists fs, d_read (deb_control archtab i k) = Some fs
             /\ d_get (B "Package") fs = Some (gs i "name")
             /\ d_get (B "Version") fs = Some (deb_version i)
             /\ d_get (B "Architecture") fs = Some (deb_arch_value archtab i).
Proof. exact deb_control_states_identity. Qed.
Print Assumptions C02_deb_control_states_identity.

(* ipk: the same two facts for the control text of an ipk (fields in opkg's alphabetical order, reserved custom
   fields filtered out) *)
Theorem C02_ipk_control_is_field_text : forall archtab i k, ipk_control archtab i k = d_write (ipk_fields_list archtab i k).
Proof. exact ipk_control_is_field_text. Qed.
Print Assumptions C02_ipk_control_is_field_text.

Theorem C02_ipk_control_reads_back : forall archtab i k, forallb wf_dfield (ipk_fields_list archtab i k) = true ->
  d_read (ipk_control archtab i k) = Some (map kv_of (ipk_fields_list archtab i k)).
Proof. exact ipk_control_reads_back. Qed.
Print Assumptions C02_ipk_control_reads_back.

(* archlinux: the .PKGINFO text ("key = value" lines after a comment line) of the metadata model is the text of a
   key/value list, and a reader recovers that list: architecture, build date, licence, packager, names, description,
   version, size, url and one line per replaces / conflict / provides / depend / backup item, in that order *)
Theorem C02_pkginfo_text_roundtrip : forall fs,
  Forall (fun kv => wf_pfield kv = true) fs -> p_read (p_write fs) = Some fs.
Proof. exact p_roundtrip. Qed.
Print Assumptions C02_pkginfo_text_roundtrip.

Theorem C02_arch_pkginfo_is_field_text : forall archtab i size bd backups,
  arch_pkginfo archtab i size bd backups = arch_comment ++ Mtree.nl :: p_write (arch_info_fields archtab i size bd backups).
Proof. exact arch_pkginfo_is_field_text. Qed.
Print Assumptions C02_arch_pkginfo_is_field_text.

Theorem C02_arch_pkginfo_reads_back : forall archtab i size bd backups,
  forallb wf_pfield (arch_info_fields archtab i size bd backups) = true ->
  p_read (arch_pkginfo archtab i size bd backups) = Some (arch_info_fields archtab i size bd backups).
Proof. exact arch_pkginfo_reads_back. Qed.
Print Assumptions C02_arch_pkginfo_reads_back.

(* the description can never break the file: it is flattened to one line whatever it holds *)
Theorem C02_arch_description_is_one_line : forall d, p_no_nl (replace_nl d (B " ")) = true.
Proof. exact replace_nl_no_nl. Qed.
Print Assumptions C02_arch_description_is_one_line.

(* the premise is satisfiable, with relations, a multi-line description and a custom field *)
Example C02_control_example :
  let i := {| mi_s := [(B "name", B "foo"); (B "version", B "1.2.3"); (B "prerelease", B "rc1"); (B "release", B "2");
                        (B "epoch", B "1"); (B "arch", B "amd64"); (B "platform", B "linux"); (B "section", B "utils");
                        (B "maintainer", B "M <m@example.com>"); (B "description", B (String.append "synopsis" (String (Ascii.ascii_of_nat 10) (String.append "second line" (String (Ascii.ascii_of_nat 10) (String (Ascii.ascii_of_nat 10) "after a blank"))))))];
              mi_l := [(B "depends", [B "bash"; B "libc6 (>= 2.17)"])];
              mi_f := [(B "deb.fields", [(B "Bugs", B "https://example.com")])]; mi_n := [] |} in
  control_single_lines [] i 12 = true
  /\ d_read (deb_control [] i 12) =
     Some [(B "Package", B "foo"); (B "Version", B "1:1.2.3~rc1-2"); (B "Section", B "utils"); (B "Priority", B "optional");
           (B "Architecture", B "amd64"); (B "Maintainer", B "M <m@example.com>"); (B "Installed-Size", B "12");
           (B "Depends", B "bash, libc6 (>= 2.17)");
           (B "Description", B (String.append "synopsis" (String (Ascii.ascii_of_nat 10) (String.append " second line" (String (Ascii.ascii_of_nat 10) (String.append " ." (String (Ascii.ascii_of_nat 10) " after a blank")))))));
           (B "Bugs", B "https://example.com")].
Proof. vm_compute. split; reflexivity. Qed.
