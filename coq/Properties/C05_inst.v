(* C05 - obligations over the tables regenerated from /repo (files/fs.go) and a non-vacuity witness. *)
From Coq Require Import List NArith ZArith Bool String.
From Coq Require Import Strings.Byte.
From NfpmV Require Import Lib.Bytes Model.Path Model.Content Model.Prepare Spec.C05 Gen.FsPaths.
Import ListNotations.
Open Scope string_scope.

Definition mk (src dst typ pk : string) : content :=
  {| c_src := B src; c_dst := B dst; c_typ := B typ; c_pkgr := B pk; c_fi := None |}.
Definition gm (s : string) : gmatch := {| gm_src := B s; gm_isdir := false; gm_readlink := None |}.

Definition witness_input : list (content * eoracle) := [
  (mk "src/f1" "/usr/bin/f1" "" "", {| eo_glob := GOk (B "src/f1") [gm "src/f1"] false; eo_walk := WErr EWalk |});
  (mk "src/d/*" "/etc/app" "config" "", {| eo_glob := GOk (B "src/d/*") [gm "src/d/x"; gm "src/d/y"] true; eo_walk := WErr EWalk |});
  (mk "" "/var/lib/app/" "dir" "", eo_none);
  (mk "/usr/bin/f1" "/usr/bin/app" "symlink" "", eo_none);
  (mk "" "/var/log/app.log" "ghost" "rpm", eo_none);
  (mk "" "/only/deb" "dir" "deb", eo_none);
  (mk "src/t" "/opt/app" "tree" "",
     {| eo_glob := GErr EGlobOther;
        eo_walk := WOk [WDir (B "src/t") 2147484141%N 1600000000%Z; WFile (B "src/t/a") 0%N;
                        WDir (B "src/t/s") 2147484141%N 1600000001%Z; WLink (B "src/t/s/l") (B "a")] |})
].

(* the hypotheses of C05_plan_wellformed are met by a non-trivial input, and the plan has 17 entries *)
(* the hypotheses of C05_plan_wellformed are met by a non-trivial input, and the plan has 18 entries *)
Example C05_witness :
  oracle_okb owned_paths [] 18%N 1700000000%Z witness_input = true /\
  match prep owned_paths [] witness_input 18%N (B "rpm") 1700000000%Z with
  | Ok cs => List.length cs = 18 /\ holds_C05 owned_paths (B "rpm") witness_input (Ok cs) = true
  | Err _ => False
  end.
Proof. vm_compute. repeat split. Qed.

(* a file below a file is rejected, in either order (the defect fixed in f2d5204) *)
Example C05_file_beneath_file_rejected :
  let f := fun d => (mk "src/f1" d "" "", {| eo_glob := GOk (B "src/f1") [gm "src/f1"] false; eo_walk := WErr EWalk |}) in
  prep owned_paths [] [f "/a/b"; f "/a/b/c"] 18%N [] 0%Z = Err ECollision /\
  prep owned_paths [] [f "/a/b/c"; f "/a/b"] 18%N [] 0%Z = Err ECollision.
Proof. vm_compute. split; reflexivity. Qed.

(* the regenerated table still lists clean absolute directories, among them the ones trees rely on *)
Theorem C05_fs_paths_sane :
  forallb (fun p => abs_cleanb p) owned_paths = true /\ existsb (seqb (B "/usr/bin")) owned_paths = true.
Proof. vm_compute. split; reflexivity. Qed.

(* ---- files.isRelevantForPackager, translated from files/files.go on every run (Gen/BoolFns.v) ---- *)
From NfpmV Require Import Proofs.StrFnsProofs Gen.BoolFns.

(* for every packager name and every entry: the decision the SOURCE takes about "is this entry for this packager" is the
   planning model's - the one C05_plan_wellformed, C01, C04, C08 and C13's selection theorems are stated over *)
Theorem C05_relevance_source_is_the_model :
  src_is_relevant_translated = true /\ forall p c, src_is_relevant p c = is_relevant p c.
Proof. split; [reflexivity | exact src_is_relevant_is_model]. Qed.
Print Assumptions C05_relevance_source_is_the_model.

(* ---- the path helpers of files/files.go, translated from the source on every run (Gen/PathFns.v) ---- *)
From NfpmV Require Import Proofs.PathFnsProofs Gen.PathFns.

(* ToNixPath, AsRelativePath, AsExplicitRelativePath, NormalizeAbsoluteFilePath and NormalizeAbsoluteDirPath as the
   SOURCE composes them - over the model's filepath.Clean, with filepath.Join("/", e) = Clean("//" ++ e) and ToSlash the
   identity - are, for every path, the functions of Model/Path.v that planning, member names, conffiles and backup
   lines are stated over *)
Theorem C05_path_helpers_source_is_the_model :
  src_ToNixPath_translated && src_AsRelativePath_translated && src_AsExplicitRelativePath_translated
  && src_NormalizeAbsoluteFilePath_translated && src_NormalizeAbsoluteDirPath_translated = true
  /\ forall s, src_ToNixPath s = to_nix s /\ src_AsRelativePath s = as_rel s /\ src_AsExplicitRelativePath s = as_explicit_rel s
               /\ src_NormalizeAbsoluteFilePath s = norm_file s /\ src_NormalizeAbsoluteDirPath s = norm_dir s.
Proof.
  split; [exact path_fns_translated|]. intros s.
  exact (conj (src_ToNixPath_is_model s) (conj (src_AsRelativePath_is_model s) (conj (src_AsExplicitRelativePath_is_model s)
          (conj (src_NormalizeAbsoluteFilePath_is_model s) (src_NormalizeAbsoluteDirPath_is_model s))))).
Qed.
Print Assumptions C05_path_helpers_source_is_the_model.

(* ---- files.Contents.Less, translated from files/files.go on every run (Gen/BoolFns.v) ---- *)
(* the order the prepared list is sorted by - destination, then type, then packager, each byte-wise - is the model's *)
Theorem C05_order_source_is_the_model :
  src_content_less_translated = true /\ forall a b, src_content_less a b = content_ltb a b.
Proof. split; [reflexivity | exact src_content_less_is_model]. Qed.
Print Assumptions C05_order_source_is_the_model.
