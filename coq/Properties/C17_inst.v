(* C17 - obligations over the files regenerated from the working tree on every run: the reflected type tree of
   nfpm.Config, the schema the freshly built `nfpm jsonschema` emits, the published schema, and the YAML
   reference block of the documentation. All domains are finite: computation is proof. *)
From Coq Require Import List NArith ZArith Bool String.
From Coq Require Import Strings.Byte.
From NfpmV Require Import Lib.Bytes Model.Content Model.Meta Model.TypeTree Spec.C16.
From NfpmV Require Import Gen.TypeTree Gen.Schema Gen.DocConfig.
Import ListNotations.
Open Scope string_scope.

(* every field of the configuration, at every level *)
Fixpoint all_fields (fuel : nat) (t : ty) : list fieldd :=
  match fuel with
  | O => []
  | S n =>
      match t with
      | TyScalar _ => []
      | TyPtr t' | TySlice t' | TyMap t' => all_fields n t'
      | TyStruct fs => fs ++ flat_map (fun f => all_fields n (f_ty f)) fs
      end
  end.

(* yaml and json spell every key the same way, skip and inline the same fields *)
Theorem C17_yaml_and_json_keys_agree :
  forallb (fun f => seqb (f_yaml f) (f_json f) && Bool.eqb (f_yinline f) (f_jinline f)) (all_fields 12 config_ty) = true.
Proof. vm_compute. reflexivity. Qed.

(* every key path the emitted schema allows is a key path of the parser's type tree, and vice versa *)
Theorem C17_schema_paths_equal_parser_paths :
  paths_subset (ty_paths_json 12 config_ty) (schema_root_paths schema_emitted) = true /\
  paths_subset (schema_root_paths schema_emitted) (ty_paths_json 12 config_ty) = true /\
  Nat.leb 150 (List.length (ty_paths_json 12 config_ty)) = true.
Proof. vm_compute. repeat split. Qed.

Fixpoint json_eqb (fuel : nat) (a b : json) : bool :=
  match fuel with
  | O => false
  | S n =>
      match a, b with
      | JNull, JNull => true
      | JBool x, JBool y => Bool.eqb x y
      | JNum x, JNum y | JStr x, JStr y => seqb x y
      | JArr x, JArr y => (fix go (x y : list json) : bool := match x, y with [], [] => true | p :: x', q :: y' => json_eqb n p q && go x' y' | _, _ => false end) x y
      | JObj x, JObj y => (fix go (x y : list (str * json)) : bool :=
                             match x, y with [], [] => true | (k, p) :: x', (k', q) :: y' => seqb k k' && json_eqb n p q && go x' y' | _, _ => false end) x y
      | _, _ => false
      end
  end.

(* the published schema is what the command emits: as JSON terms, and byte for byte when written over an
   existing, longer file *)
Theorem C17_published_schema_is_emitted_schema :
  json_eqb 40 schema_published schema_emitted = true /\ schema_file_equals_published = true /\ schema_stdout_equals_file = true.
Proof. vm_compute. repeat split. Qed.

(* every key of the documented reference configuration is accepted by the parser's type tree and by the
   schema, and the reference configuration itself parses *)
Definition doc_path_ok (paths : list (list str)) (p : list str) : bool :=
  existsb (fun q => (fix m (a b : list str) : bool :=
                       match a, b with
                       | [], [] => true
                       | x :: a', y :: b' => (seqb x y || seqb y (B "*")) && m a' b'
                       | _, _ => false
                       end) p q) paths.

Theorem C17_documented_keys_accepted :
  forallb (fun k => doc_path_ok (ty_paths 12 config_ty) (fst (fst (fst (fst k))))) doc_keys = true /\
  forallb (fun k => doc_path_ok (schema_root_paths schema_emitted) (fst (fst (fst (fst k))))) doc_keys = true /\
  doc_example_parses = true /\ Nat.leb 100 (List.length doc_keys) = true.
Proof. vm_compute. repeat split. Qed.

(* every example value the documentation gives for an enumerated setting is allowed by the schema
   (the rpm compression level suffix is the recorded exception C17-K2: the documentation's example has none) *)
Definition doc_value_ok (k : list str * str * str * bool * str) : bool :=
  let '(path, kind, value, _, _) := k in
  if seqb kind (B "scalar") then
    match schema_enum_at schema_emitted (map (fun s => s) path) with
    | Some e => existsb (seqb value) e
    | None => true
    end
  else true.

Theorem C17_documented_values_allowed : forallb doc_value_ok doc_keys = true.
Proof. vm_compute. reflexivity. Qed.

(* the schema names every value the packagers accept for the enumerated settings *)
Theorem C17_enums_cover_supported_values :
  forallb (fun '(path, values) => match schema_enum_at schema_emitted (map B path) with
                                  | Some e => forallb (fun v => existsb (seqb (B v)) e) values
                                  | None => true end)
    [(["contents"; "[]"; "type"], ["file"; "dir"; "symlink"; "tree"; "config"; "config|noreplace"; "config|missingok"; "ghost"; "doc"; "licence"; "license"; "readme"; ""]);
     (["contents"; "[]"; "packager"], ["deb"; "rpm"; "apk"; "ipk"; "archlinux"; ""]);
     (["rpm"; "compression"], ["gzip"; "lzma"; "xz"; "zstd"]);
     (["deb"; "compression"], ["gzip"; "xz"; "zstd"; "none"]);
     (["deb"; "signature"; "method"], ["debsign"; "dpkg-sig"]);
     (["deb"; "signature"; "type"], ["origin"; "maint"; "archive"]);
     (["version_schema"], ["semver"; "none"])] = true.
Proof. vm_compute. reflexivity. Qed.

(* the emitted and the published schema constrain documents only with keywords the Gallina validator understands:
   a conditional, negated or combined sub-schema (if/then/else, not, allOf, oneOf, const, pattern ...) would be a
   constraint none of the statements above look at *)
Theorem C17_schema_uses_only_understood_keywords :
  foreign_keywords schema_emitted = [] /\ foreign_keywords schema_published = [].
Proof. vm_compute. split; reflexivity. Qed.
Print Assumptions C17_schema_uses_only_understood_keywords.
