(* C10 - obligations over the deb signature-type logic as translated from deb/deb.go on every run (Gen/SigType.v). *)
From Coq Require Import List NArith ZArith Bool String.
From Coq Require Import Strings.Byte.
From NfpmV Require Import Lib.Bytes Model.Content Spec.C10.
From NfpmV Require Import Gen.SigType.
Import ListNotations.

(* for every method and type: what the SOURCE makes of them - doSign's switch over the method; in debSign "origin" unless a
   type is given, and a refusal unless it is origin, maint or archive; in dpkgSign "builder" unless a role is given, never
   refused - is the model's deb_effective_type, which names the signature member (_gpg<type>) and decides "no package is
   reported as built when the type is invalid" *)
Theorem C10_deb_signature_type_source_is_the_model :
  src_deb_effective_type_translated = true /\ forall method typ, src_deb_effective_type method typ = deb_effective_type method typ.
Proof.
  split; [reflexivity|]. intros method typ.
  unfold src_deb_effective_type, src_dpkgsig_type, src_debsign_type, deb_effective_type, emptyb.
  destruct (seqb method (B "dpkg-sig")).
  - destruct typ; reflexivity.
  - destruct typ as [|b t]; [reflexivity|].
    change (seqb (b :: t) (@nil byte)) with false. cbn [negb existsb]. cbv zeta.
    destruct (seqb (b :: t) (B "origin")), (seqb (b :: t) (B "maint")), (seqb (b :: t) (B "archive")); reflexivity.
Qed.
Print Assumptions C10_deb_signature_type_source_is_the_model.
