(* C08 - config-file and special-file typing. Statements only. *)
From Coq Require Import List NArith ZArith Bool.
From Coq Require Import Strings.Byte.
From NfpmV Require Import Lib.Bytes Model.Path Model.Content Model.Prepare Model.Payload Spec.C05 Spec.C01 Spec.C08.
From NfpmV Require Import Proofs.KeyFacts Proofs.StepInv Proofs.C01Proofs Proofs.C08Proofs.
From NfpmV Require Import Model.DebLists Proofs.DebListsProofs.
Import ListNotations.

(* deb / ipk: a path is listed in conffiles iff a config, config|noreplace or config|missingok entry is
   planned at exactly that absolute path - for every plan whose destinations are valid keys *)
Theorem C08_conffiles_iff_declared :
  forall cs p,
  (forall c, In c cs -> exists comps, vkey (c_dst c) comps (is_dir_typ (c_typ c))) ->
  (In p (conffiles_model cs) <-> exists c, In c cs /\ is_config_typ (c_typ c) = true /\ c_dst c = p).
Proof. exact conffiles_iff. Qed.
Print Assumptions C08_conffiles_iff_declared.

(* rpm: every header entry of a prepared type carries exactly the flags its type declares (config,
   noreplace, missingok, ghost, doc, licence, readme - nothing else), ghosts and only ghosts have no
   payload, and a ghost without a mode gets 0644 *)
Theorem C08_rpm_flags_exact :
  forall mt c e, prepared_typ (c_typ c) = true -> In e (rpm_entry mt c) ->
  flag_spec_okb (c_typ c) (pe_flags e) = true /\
  pe_inpayload e = negb (seqb (c_typ c) TGhost) /\
  (seqb (c_typ c) TGhost = true -> fi_mode (the_fi c) = 0%N -> pe_mode e = 420%N).
Proof. exact rpm_entry_flags. Qed.
Print Assumptions C08_rpm_flags_exact.

(* files a config glob expands to inherit the config type (or become symlinks when the source is one) *)
Theorem C08_glob_inherits_type :
  forall st umask mt orig g dst, is_dir_typ (c_typ orig) = false ->
  let v := globbed_file st umask mt orig g dst in
  c_typ v = TSymlink \/ c_typ v = TFile \/ c_typ v = c_typ orig.
Proof. exact (fun st umask mt orig g dst D => proj2 (proj2 (proj2 (globbed_file_facts st umask mt orig g dst D)))). Qed.
Print Assumptions C08_glob_inherits_type.

(* the conffiles member as text (Model/DebLists.v): one path per line, a single blank line when there is none - the
   reader (which skips blank lines, as dpkg does) gets back the paths, in order, for any non-empty paths without a newline *)
Theorem C08_conffiles_text_roundtrip : forall ps,
  Forall (fun p => line_ok p = true /\ nonblank p = true) ps -> conffiles_read (conffiles_text ps) = Some ps.
Proof. exact conffiles_roundtrip. Qed.
Print Assumptions C08_conffiles_text_roundtrip.

(* ... so a reader of the conffiles member of the model's package finds exactly the plan's configuration paths, which by
   C08_conffiles_iff_declared are exactly the declared ones *)
Theorem C08_conffiles_member_lists_the_plan : forall cs,
  Forall (fun p => line_ok p = true /\ nonblank p = true) (conffiles_model cs) ->
  conffiles_read (conffiles_text (conffiles_model cs)) = Some (conffiles_model cs).
Proof. intros cs H. apply conffiles_roundtrip. exact H. Qed.
Print Assumptions C08_conffiles_member_lists_the_plan.
