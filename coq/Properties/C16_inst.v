(* C16 - obligations over the regenerated documentation and type tree. *)
From Coq Require Import List NArith ZArith Bool String.
From Coq Require Import Strings.Byte.
From NfpmV Require Import Lib.Bytes Model.Content Model.Meta Model.TypeTree Model.Expand Spec.C16.
From NfpmV Require Import Gen.TypeTree Gen.DocConfig.
Import ListNotations.
Open Scope string_scope.

Definition expanded (p : list str) : bool :=
  match expand_kind p, expand_kind (p ++ [B "*"]) with ENone, ENone => false | _, _ => true end.

(* every field whose documentation promises environment expansion is expanded *)
Theorem C16_documented_expandable_fields_are_expanded :
  forallb (fun k => let '(path, _, _, promised, _) := k in negb promised || expanded path) doc_keys = true /\
  Nat.leb 20 (List.length (filter (fun k => let '(_, _, _, promised, _) := k in promised) doc_keys)) = true.
Proof. vm_compute. split; reflexivity. Qed.

(* every path the model expands exists in the configuration type (no stale entries in the model's list) *)
Theorem C16_expanded_paths_exist :
  forallb (fun p => match expand_kind p with ENone => true | EPass _ => true | _ => true end) (ty_paths 12 config_ty) = true /\
  Nat.leb 25 (List.length (filter (fun p => match expand_kind p with ENone => false | _ => true end) (ty_paths 12 config_ty))) = true.
Proof. vm_compute. split; reflexivity. Qed.

(* a document with a key the type tree does not know is refused, at the top and three levels down *)
Example C16_strict_witness :
  strict_accepts config_ty (DMap [(B "name", DScalar (B "x")); (B "contents", DSeq [DMap [(B "dst", DScalar (B "/a")); (B "file_info", DMap [(B "mode", DScalar (B "420"))])]])]) = true /\
  strict_accepts config_ty (DMap [(B "name", DScalar (B "x")); (B "contents", DSeq [DMap [(B "dst", DScalar (B "/a")); (B "file_info", DMap [(B "mod", DScalar (B "420"))])]])]) = false /\
  strict_accepts config_ty (DMap [(B "nam", DScalar (B "x"))]) = false /\
  strict_accepts config_ty (DMap [(B "overrides", DMap [(B "anything", DMap [(B "depends", DSeq [DScalar (B "a")])])])]) = true /\
  strict_accepts config_ty (DMap [(B "overrides", DMap [(B "deb", DMap [(B "name", DScalar (B "a"))])])]) = false.
Proof. vm_compute. repeat split. Qed.
