(* C16 - obligations over the regenerated documentation and type tree. *)
From Coq Require Import List NArith ZArith Bool String.
From Coq Require Import Strings.Byte.
From NfpmV Require Import Lib.Bytes Model.Content Model.Meta Model.TypeTree Model.Expand Spec.C16.
From NfpmV Require Import Gen.TypeTree Gen.DocConfig.
Import ListNotations.
Open Scope string_scope.

Definition expanded (p : list str) : bool :=
  match expand_kind p, expand_kind (p ++ [B "*"]) with ENone, ENone => false | _, _ => true end.

(* every field whose documentation promises environment expansion is expanded *)
Theorem C16_documented_expandable_fields_are_expanded :
  forallb (fun k => let '(path, _, _, promised, _) := k in negb promised || expanded path) doc_keys = true /\
  Nat.leb 20 (List.length (filter (fun k => let '(_, _, _, promised, _) := k in promised) doc_keys)) = true.
Proof. vm_compute. split; reflexivity. Qed.

(* every path the model expands exists in the configuration type (no stale entries in the model's list) *)
Theorem C16_expanded_paths_exist :
  forallb (fun p => match expand_kind p with ENone => true | EPass _ => true | _ => true end) (ty_paths 12 config_ty) = true /\
  Nat.leb 25 (List.length (filter (fun p => match expand_kind p with ENone => false | _ => true end) (ty_paths 12 config_ty))) = true.
Proof. vm_compute. split; reflexivity. Qed.

(* a document with a key the type tree does not know is refused, at the top and three levels down *)
Example C16_strict_witness :
  strict_accepts config_ty (DMap [(B "name", DScalar (B "x")); (B "contents", DSeq [DMap [(B "dst", DScalar (B "/a")); (B "file_info", DMap [(B "mode", DScalar (B "420"))])]])]) = true /\
  strict_accepts config_ty (DMap [(B "name", DScalar (B "x")); (B "contents", DSeq [DMap [(B "dst", DScalar (B "/a")); (B "file_info", DMap [(B "mod", DScalar (B "420"))])]])]) = false /\
  strict_accepts config_ty (DMap [(B "nam", DScalar (B "x"))]) = false /\
  strict_accepts config_ty (DMap [(B "overrides", DMap [(B "anything", DMap [(B "depends", DSeq [DScalar (B "a")])])])]) = true /\
  strict_accepts config_ty (DMap [(B "overrides", DMap [(B "deb", DMap [(B "name", DScalar (B "a"))])])]) = false.
Proof. vm_compute. repeat split. Qed.

(* ---- the places Config.expandEnvVars writes to, read off nfpm.go on every run (Gen/ExpandSites.v) ---- *)
From NfpmV Require Import Gen.ExpandSites.

Fixpoint path_eqb (a b : list str) : bool :=
  match a, b with
  | [], [] => true
  | x :: a', y :: b' => seqb x y && path_eqb a' b'
  | _, _ => false
  end.

(* what the model does at the place a source site writes to agrees with what the source writes there *)
Definition site_ok (s : list str * str) : bool :=
  let '(p, k) := s in
  if seqb k (B "scalar") then match expand_kind p with EScalar => true | _ => false end
  else if seqb k (B "keyid") then match expand_kind p with EKeyID => true | _ => false end
  else if seqb k (B "list") then match expand_kind p with EList => true | _ => false end
  else if seqb k (B "contents") then
    match expand_kind (p ++ [B "[]"; B "src"]), expand_kind (p ++ [B "[]"; B "dst"]) with EContent, EContent => true | _, _ => false end
  else if has_prefix (B "pass") k then match expand_kind p with EPass _ => true | _ => false end
  else false.

(* a path of the configuration type is written to by some site *)
Definition covered (p : list str) : bool :=
  existsb (fun s => path_eqb p (fst s)
                    || (seqb (snd s) (B "contents") && (path_eqb p (fst s ++ [B "[]"; B "src"]) || path_eqb p (fst s ++ [B "[]"; B "dst"]))))
          expand_sites.

Definition has_site (p : list string) (k : string) : bool :=
  existsb (fun s => path_eqb (map B p) (fst s) && seqb (snd s) (B k)) expand_sites.

(* expandEnvVars is still inside the translated shapes; every place it writes to is expanded the same way by the model *)
Theorem C16_every_expansion_site_of_the_source_is_modelled :
  expand_sites_translated = true /\ forallb site_ok expand_sites = true.
Proof. vm_compute. split; reflexivity. Qed.
Print Assumptions C16_every_expansion_site_of_the_source_is_modelled.

(* and the other way round: every path of the configuration type (regenerated: Gen/TypeTree.v) that the model expands is
   a place the source writes to - the model expands nothing the code does not *)
Theorem C16_every_modelled_expansion_is_a_site_of_the_source :
  forallb (fun p => match expand_kind p with ENone => true | _ => covered p end) (ty_paths 12 config_ty) = true.
Proof. vm_compute. reflexivity. Qed.
Print Assumptions C16_every_modelled_expansion_is_a_site_of_the_source.

(* the passphrases: each format's field is first given $NFPM_PASSPHRASE and then, only when that one is not empty,
   its own $NFPM_<FORMAT>_PASSPHRASE - the precedence of C16_passphrase_precedence *)
Theorem C16_passphrase_sites :
  forallb (fun fp => has_site [fst fp; "signature"; "-KeyPassphrase"] "pass:NFPM_PASSPHRASE"
                     && has_site [fst fp; "signature"; "-KeyPassphrase"] (String.append "passif:NFPM_" (String.append (snd fp) "_PASSPHRASE")))
          [("deb", "DEB"); ("rpm", "RPM"); ("apk", "APK")] = true.
Proof. vm_compute. reflexivity. Qed.
Print Assumptions C16_passphrase_sites.
