(* The destination map (association list) of the planning model. *)
From Coq Require Import List NArith Lia Bool.
From Coq Require Import Strings.Byte.
From NfpmV Require Import Lib.Bytes Model.Path Model.Content Model.Prepare.
Import ListNotations.

Lemma m_get_in : forall m k v, m_get m k = Some v -> In (k, v) m.
Proof.
  induction m as [|[k' v'] m IH]; intros k v H; cbn [m_get] in H; [discriminate|].
  destruct (seqb k' k) eqn:E.
  - apply seqb_eq in E. subst. injection H as <-. left. reflexivity.
  - right. apply IH. exact H.
Qed.

Lemma m_get_none : forall m k, m_get m k = None -> ~ In k (map fst m).
Proof.
  induction m as [|[k' v'] m IH]; intros k H; cbn [m_get] in H; [intros []|].
  destruct (seqb k' k) eqn:E; [discriminate|]. apply seqb_neq in E.
  cbn. intros [H1|H1]; [contradiction|]. apply (IH k H H1).
Qed.

Lemma m_get_of_in : forall m k v, NoDup (map fst m) -> In (k, v) m -> m_get m k = Some v.
Proof.
  induction m as [|[k' v'] m IH]; intros k v ND H; [contradiction|].
  cbn [map fst] in ND. inversion ND as [|? ? Hn ND']; subst. cbn [m_get].
  destruct H as [H|H].
  - injection H as -> ->. rewrite seqb_refl. reflexivity.
  - destruct (seqb k' k) eqn:E.
    + apply seqb_eq in E. subst. exfalso. apply Hn. apply (in_map fst) in H. exact H.
    + apply IH; assumption.
Qed.

Lemma m_set_in : forall m k v k' v', NoDup (map fst m) -> In (k', v') (m_set m k v) ->
  (k' = k /\ v' = v) \/ (k' <> k /\ In (k', v') m).
Proof.
  induction m as [|[k0 v0] m IH]; intros k v k' v' ND H; cbn [m_set] in H.
  - destruct H as [H|[]]. injection H as <- <-. left. auto.
  - cbn [map fst] in ND. inversion ND as [|? ? Hn ND']; subst.
    destruct (seqb k0 k) eqn:E.
    + apply seqb_eq in E. subst k0. destruct H as [H|H].
      * injection H as <- <-. left. auto.
      * right. split; [|right; exact H]. intros ->. apply Hn. apply (in_map fst) in H. exact H.
    + apply seqb_neq in E. destruct H as [H|H].
      * injection H as <- <-. right. split; [exact E|left; reflexivity].
      * destruct (IH k v k' v' ND' H) as [?|[? ?]]; [left; assumption|right]. split; [assumption|right; assumption].
Qed.

Lemma m_set_new : forall m k v, In (k, v) (m_set m k v).
Proof.
  induction m as [|[k0 v0] m IH]; intros k v; cbn [m_set]; [left; reflexivity|].
  destruct (seqb k0 k); [left; reflexivity|right; apply IH].
Qed.

Lemma m_set_keep : forall m k v k' v', In (k', v') m -> k' <> k -> In (k', v') (m_set m k v).
Proof.
  induction m as [|[k0 v0] m IH]; intros k v k' v' H Hne; [contradiction|]. cbn [m_set].
  destruct (seqb k0 k) eqn:E.
  - apply seqb_eq in E. subst k0. destruct H as [H|H]; [injection H as <- <-; contradiction|right; exact H].
  - destruct H as [H|H]; [left; exact H|right; apply IH; assumption].
Qed.

Lemma m_set_keys : forall m k v k', In k' (map fst (m_set m k v)) <-> k' = k \/ In k' (map fst m).
Proof.
  induction m as [|[k0 v0] m IH]; intros k v k'; cbn [m_set map fst].
  - cbn. intuition.
  - destruct (seqb k0 k) eqn:E; cbn [map fst In].
    + apply seqb_eq in E. subst. intuition.
    + rewrite IH. intuition.
Qed.

Lemma m_set_nodup : forall m k v, NoDup (map fst m) -> NoDup (map fst (m_set m k v)).
Proof.
  induction m as [|[k0 v0] m IH]; intros k v ND; cbn [m_set map fst].
  - constructor; [intros []|constructor].
  - cbn [map fst] in ND. inversion ND as [|? ? Hn ND']; subst.
    destruct (seqb k0 k) eqn:E; cbn [map fst].
    + apply seqb_eq in E. subst. constructor; assumption.
    + apply seqb_neq in E. constructor; [|apply IH; exact ND'].
      rewrite m_set_keys. intros [H|H]; [congruence|contradiction].
Qed.
