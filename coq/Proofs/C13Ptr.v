(* C13: the leaf theorem through pointers as well as nested blocks. *)
From Coq Require Import List NArith ZArith Bool Lia String.
From Coq Require Import Strings.Byte.
From NfpmV Require Import Lib.Bytes Model.Content Model.Meta Model.Merge Spec.C13.
From NfpmV Require Import Proofs.C13Proofs.
Import ListNotations.
Open Scope list_scope.

Inductive seg := Field (k : str) | Deref.

Fixpoint path_get2 (v : value) (p : list seg) : option value :=
  match p with
  | [] => Some v
  | Field k :: rest => match v with
                       | VStruct fs => match vlookup k fs with Some x => path_get2 x rest | None => None end
                       | _ => None
                       end
  | Deref :: rest => match v with VPtr (Some x) => path_get2 x rest | _ => None end
  end.

(* at any depth of nested blocks AND through pointers that are set on both sides (key ids): a scalar or list the
   override sets non-empty replaces the base's, an empty one leaves it *)
Lemma merge_leaf2 : forall p n b o lb lo,
  List.length p < n ->
  path_get2 b p = Some lb -> path_get2 o p = Some lo -> plain lo = true ->
  path_get2 (merge n b o) p = Some (replaced lb lo).
Proof.
  induction p as [|s rest IH]; intros n b o lb lo Hn Hb Ho P.
  - cbn [path_get2] in *. inversion Hb; inversion Ho; subst.
    destruct n as [|n]; [cbn [List.length] in Hn; lia|]. rewrite merge_plain by exact P. reflexivity.
  - destruct n as [|n]; [cbn [List.length] in Hn; lia|]. cbn [List.length] in Hn.
    destruct s as [k|].
    + cbn [path_get2] in Hb, Ho.
      destruct b as [| | | | | | |fd]; try discriminate Hb.
      destruct o as [| | | | | | |fs]; try discriminate Ho.
      rewrite merge_struct. cbn [path_get2].
      rewrite (vlookup_map_fields (fun k d => match vlookup k fs with Some s => merge n d s | None => d end)).
      destruct (vlookup k fd) as [d|] eqn:Ed; [|discriminate Hb].
      destruct (vlookup k fs) as [s|] eqn:Es; [|discriminate Ho].
      cbn [option_map]. apply IH; try assumption. lia.
    + cbn [path_get2] in Hb, Ho.
      destruct b as [| | | |[d|]| | |]; try discriminate Hb.
      destruct o as [| | | |[s|]| | |]; try discriminate Ho.
      rewrite merge_ptr_some. cbn [path_get2]. apply IH; try assumption. lia.
Qed.

(* a pointer the override leaves nil keeps the base's pointee; a pointer only the override sets is taken over *)
Lemma merge_ptr_only_override n s : merge (S n) (VPtr None) (VPtr (Some s)) = VPtr (Some s).
Proof. reflexivity. Qed.
