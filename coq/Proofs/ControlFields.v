(* C02 / C15: the deb control text of the metadata model (Meta.deb_control) is the deb822 text of a field list, and a
   reader gets that field list back: every field the configuration states is found under its key with its value. *)
From Coq Require Import List NArith ZArith Bool Arith Lia String.
From Coq Require Import Strings.Byte.
From NfpmV Require Import Lib.Bytes Model.Content Model.Container Model.Mtree Model.Deb822 Model.Meta.
From NfpmV Require Import Proofs.C10Proofs Proofs.MtreeProofs Proofs.Deb822Proofs Proofs.C02Proofs.
Import ListNotations.
Open Scope list_scope.

Ltac norm_app := repeat first [ rewrite <- app_assoc | progress cbn [app] ].

Definition mkf (k : string) (v : str) : dfield := {| df_key := B k; df_first := v; df_conts := [] |}.
Definition optf (k : string) (v : str) : list dfield := if nonempty v then [mkf k v] else [].
Definition optl (k : string) (l : list str) : list dfield := match l with [] => [] | _ => [mkf k (tjoin l)] end.
Definition customf (l : list (str * str)) : list dfield :=
  flat_map (fun '(k, v) => if nonempty v then [{| df_key := k; df_first := v; df_conts := [] |}] else []) l.

Definition cont_line (l : str) : str := let t := trim_space l in x20 :: (if nonempty t then t else B ".").

Definition descf (d : str) : dfield :=
  match scan_lines (trim_space d) with
  | [] => mkf "Description" []
  | first :: rest => {| df_key := B "Description"; df_first := trim_space first; df_conts := map cont_line rest |}
  end.

Definition deb_arch_value (archtab : list (str * str)) (i : minfo) : str :=
  (if seqb (gs i "platform") (B "linux") then [] else gs i "platform" ++ B "-")
  ++ translate_arch archtab (gs i "deb.arch") (gs i "arch").

(* the single-line fields, in the template's order, before and after the description *)
Definition deb_fields_before (archtab : list (str * str)) (i : minfo) (installed_kib : Z) : list dfield :=
  [mkf "Package" (gs i "name"); mkf "Version" (deb_version i); mkf "Section" (gs i "section");
   mkf "Priority" (dflt (gs i "priority") (B "optional")); mkf "Architecture" (deb_arch_value archtab i)]
  ++ optf "License" (gs i "license")
  ++ [mkf "Maintainer" (deb_maintainer i); mkf "Installed-Size" (dec installed_kib)]
  ++ optl "Replaces" (gl i "replaces")
  ++ optl "Provides" (non_empty_items (gl i "provides"))
  ++ optl "Pre-Depends" (gl i "deb.predepends")
  ++ optl "Depends" (gl i "depends")
  ++ optl "Recommends" (gl i "recommends")
  ++ optl "Suggests" (gl i "suggests")
  ++ optl "Conflicts" (gl i "conflicts")
  ++ optl "Breaks" (gl i "deb.breaks")
  ++ optf "Homepage" (gs i "homepage").

Definition deb_fields (archtab : list (str * str)) (i : minfo) (installed_kib : Z) : list dfield :=
  deb_fields_before archtab i installed_kib ++ [descf (gs i "description")] ++ customf (gf i "deb.fields").

(* ---------- the template's text is the text of the field list ---------- *)
Lemma d_write_app a b : d_write (a ++ b) = d_write a ++ d_write b.
Proof. unfold d_write. apply flat_map_app. Qed.

Lemma field_mkf k v : field k v = d_write [mkf k v].
Proof.
  unfold field, d_write, mkf, df_value. cbn [flat_map df_key df_first df_conts]. rewrite !app_nil_r.
  change (B ": ") with [colon; sp]. norm_app. reflexivity.
Qed.

Lemma opt_field_optf k v : opt_field k v = d_write (optf k v).
Proof. unfold opt_field, optf. destruct (nonempty v); [apply field_mkf|reflexivity]. Qed.

Lemma opt_list_optl k l : opt_list k l = d_write (optl k l).
Proof. unfold opt_list, optl. destruct l; [reflexivity|apply field_mkf]. Qed.

Lemma custom_fields_customf l : custom_fields l = d_write (customf l).
Proof.
  unfold custom_fields, customf. induction l as [|[k v] l IH]; [reflexivity|]. cbn [flat_map].
  rewrite d_write_app, <- IH. destruct (nonempty v); [|reflexivity].
  unfold d_write, df_value. cbn [flat_map df_key df_first df_conts]. rewrite !app_nil_r.
  change (B ": ") with [colon; sp]. norm_app. reflexivity.
Qed.

Lemma flat_map_map {A B C} (f : A -> B) (g : B -> list C) l : flat_map g (map f l) = flat_map (fun x => g (f x)) l.
Proof. induction l as [|x l IH]; cbn [map flat_map]; [reflexivity|]. rewrite IH. reflexivity. Qed.

Lemma description_descf d : field "Description" (multiline d) = d_write [descf d].
Proof.
  unfold descf, multiline. destruct (scan_lines (trim_space d)) as [|first rest]; [apply field_mkf|].
  unfold field, d_write, df_value. cbn [flat_map df_key df_first df_conts]. rewrite app_nil_r.
  rewrite flat_map_map. unfold cont_line. change (B ": ") with [colon; sp]. norm_app. reflexivity.
Qed.

Lemma d_write_cons f fs : d_write (f :: fs) = d_write [f] ++ d_write fs.
Proof. change (f :: fs) with ([f] ++ fs). apply d_write_app. Qed.

Theorem deb_control_is_field_text archtab i k : deb_control archtab i k = d_write (deb_fields archtab i k).
Proof.
  unfold deb_control, deb_fields, deb_fields_before, deb_arch_value.
  rewrite !d_write_app.
  repeat match goal with |- context [d_write (?f :: ?g :: ?r)] => rewrite (d_write_cons f (g :: r)) end.
  rewrite <- !opt_field_optf, <- !opt_list_optl, <- custom_fields_customf, <- description_descf, <- !field_mkf.
  norm_app. reflexivity.
Qed.

(* ---------- the description field is always well formed ---------- *)
Lemma forallb_rev {A} (f : A -> bool) l : forallb f (rev l) = forallb f l.
Proof.
  induction l as [|x l IH]; [reflexivity|]. cbn [rev forallb]. rewrite forallb_app_iff. cbn [forallb]. rewrite IH, andb_true_r. apply andb_comm.
Qed.

Lemma split_lines_no_nl : forall s acc, no_nl acc = true -> Forall (fun l => no_nl l = true) (split_lines_aux acc s).
Proof.
  induction s as [|b s IH]; intros acc Hacc; cbn [split_lines_aux].
  - destruct acc; [constructor|]. constructor; [|constructor]. unfold no_nl in *. rewrite forallb_rev. exact Hacc.
  - destruct (beq b x0a) eqn:E.
    + constructor; [unfold no_nl in *; rewrite forallb_rev; exact Hacc|]. apply IH. reflexivity.
    + apply IH. unfold no_nl in *. cbn [forallb]. change nl with x0a. rewrite E. exact Hacc.
Qed.

Lemma until_too_long_sub ls : Forall (fun l => no_nl l = true) ls -> Forall (fun l => no_nl l = true) (until_too_long ls).
Proof.
  induction 1 as [|l ls Hl _ IH]; cbn [until_too_long]; [constructor|]. destruct (N.leb scanner_limit (N.of_nat (List.length l))); constructor; assumption.
Qed.

Lemma drop_while_no_nl f s : no_nl s = true -> no_nl (drop_while f s) = true.
Proof. unfold no_nl. apply drop_while_forallb. Qed.

Lemma trim_space_no_nl s : no_nl s = true -> no_nl (trim_space s) = true.
Proof.
  intros H. unfold trim_space, trim_both, trim_right, trim_left.
  unfold no_nl. rewrite forallb_rev. apply drop_while_no_nl. unfold no_nl. rewrite forallb_rev. apply drop_while_no_nl. exact H.
Qed.

Lemma drop_cr_no_nl l : no_nl l = true -> no_nl (drop_cr l) = true.
Proof.
  intros H. unfold drop_cr. destruct (rev l) as [|b r] eqn:E; [exact H|]. destruct (beq b x0d); [|exact H].
  unfold no_nl in *. rewrite forallb_rev. rewrite <- forallb_rev, E in H. cbn [forallb] in H. apply andb_true_iff in H. apply H.
Qed.

Lemma scan_lines_no_nl s : Forall (fun l => no_nl l = true) (scan_lines s).
Proof.
  unfold scan_lines. assert (H : Forall (fun l => no_nl l = true) (until_too_long (split_lines_aux [] s))).
  { apply until_too_long_sub. apply split_lines_no_nl. reflexivity. }
  induction H as [|l ls Hl _ IH]; cbn [map]; constructor; [apply drop_cr_no_nl; exact Hl|exact IH].
Qed.

Lemma wf_descf d : wf_dfield (descf d) = true.
Proof.
  unfold descf. pose proof (scan_lines_no_nl (trim_space d)) as H.
  destruct (scan_lines (trim_space d)) as [|first rest]; [reflexivity|].
  inversion H as [|? ? Hf Hr]; subst. clear H. unfold wf_dfield. cbn [df_key df_first df_conts].
  rewrite (trim_space_no_nl _ Hf). cbn [andb]. change (wf_key (B "Description")) with true. cbn [andb].
  induction Hr as [|l ls Hl _ IH]; cbn [map forallb]; [reflexivity|]. rewrite IH, andb_true_r.
  unfold cont_line. cbn [is_cont beq]. rewrite beq_refl. cbn [orb andb].
  unfold no_nl. cbn [forallb]. change (negb (beq x20 nl)) with true. cbn [andb].
  destruct (nonempty (trim_space l)); [apply trim_space_no_nl; exact Hl|reflexivity].
Qed.

(* ---------- reading the control text back ---------- *)
(* the single-line values hold no newline, custom field names are keys: a boolean of the settings as rendered *)
Definition control_single_lines (archtab : list (str * str)) (i : minfo) (k : Z) : bool :=
  forallb wf_dfield (deb_fields_before archtab i k) && forallb wf_dfield (customf (gf i "deb.fields")).

Theorem deb_control_reads_back archtab i k : control_single_lines archtab i k = true ->
  d_read (deb_control archtab i k) = Some (map kv_of (deb_fields archtab i k)).
Proof.
  intros H. unfold control_single_lines in H. apply andb_true_iff in H. destruct H as [H1 H2].
  rewrite deb_control_is_field_text. apply d_roundtrip. unfold deb_fields.
  apply Forall_app. split; [apply Forall_forall; intros f Hf; rewrite forallb_forall in H1; apply H1; exact Hf|].
  apply Forall_app. split; [constructor; [apply wf_descf|constructor]|].
  apply Forall_forall. intros f Hf. rewrite forallb_forall in H2. apply H2. exact Hf.
Qed.

(* what a reader finds under the identity keys *)
Theorem deb_control_states_identity archtab i k : control_single_lines archtab i k = true ->
  exists fs, d_read (deb_control archtab i k) = Some fs
             /\ d_get (B "Package") fs = Some (gs i "name")
             /\ d_get (B "Version") fs = Some (deb_version i)
             /\ d_get (B "Architecture") fs = Some (deb_arch_value archtab i).
Proof.
  intros H. exists (map kv_of (deb_fields archtab i k)). split; [apply deb_control_reads_back; exact H|].
  unfold deb_fields, deb_fields_before. cbn [app map kv_of mkf df_key df_value df_first df_conts flat_map d_get].
  rewrite ?app_nil_r. repeat split; reflexivity.
Qed.

(* ---------- C15: the conventional file name is composed of what the control file states ---------- *)
From NfpmV Require Import Model.VerCmp Model.Payload Spec.C15.

Definition no_colon (s : str) : bool := forallb (fun b => negb (beq b ":"%byte)) s.

Lemma split_first_none c s : forallb (fun b => negb (beq b c)) s = true -> split_first c s = None.
Proof.
  induction s as [|b s IH]; cbn [forallb split_first]; [reflexivity|]. intros H. apply andb_true_iff in H. destruct H as [Hb Hs].
  apply negb_true_iff in Hb. rewrite Hb, (IH Hs). reflexivity.
Qed.

Lemma split_first_app c a r : forallb (fun b => negb (beq b c)) a = true -> split_first c (a ++ c :: r) = Some (a, r).
Proof.
  induction a as [|b a IH]; cbn [forallb app split_first]; intros H.
  - rewrite beq_refl. reflexivity.
  - apply andb_true_iff in H. destruct H as [Hb Ha]. apply negb_true_iff in Hb. rewrite Hb, (IH Ha). reflexivity.
Qed.

Lemma deb_version_split i : deb_version i = (if nonempty (gs i "epoch") then gs i "epoch" ++ B ":" else []) ++ deb_name_version i.
Proof. unfold deb_version, deb_name_version. rewrite <- ?app_assoc. reflexivity. Qed.

Lemma strip_epoch_deb_version i : no_colon (gs i "epoch") = true ->
  (nonempty (gs i "epoch") = true \/ no_colon (deb_name_version i) = true) ->
  strip_epoch (deb_version i) = deb_name_version i.
Proof.
  intros He Hor. unfold strip_epoch. rewrite deb_version_split. destruct (nonempty (gs i "epoch")) eqn:E.
  - change (B ":") with [":"%byte]. rewrite <- app_assoc. cbn [app]. rewrite split_first_app by exact He. reflexivity.
  - destruct Hor as [H|H]; [discriminate|]. cbn [app]. rewrite split_first_none by exact H. reflexivity.
Qed.

Theorem deb_filename_is_composed_of_control_fields archtab i k :
  control_single_lines archtab i k = true -> seqb (gs i "platform") (B "linux") = true ->
  no_colon (gs i "epoch") = true -> (nonempty (gs i "epoch") = true \/ no_colon (deb_name_version i) = true) ->
  exists fs name ver arch,
    d_read (deb_control archtab i k) = Some fs
    /\ d_get (B "Package") fs = Some name /\ d_get (B "Version") fs = Some ver /\ d_get (B "Architecture") fs = Some arch
    /\ model_filename FDeb archtab i = name ++ B "_" ++ strip_epoch ver ++ B "_" ++ arch ++ B ".deb".
Proof.
  intros Hs Hp He Hor. destruct (deb_control_states_identity archtab i k Hs) as (fs & Hr & Hn & Hv & Ha).
  exists fs, (gs i "name"), (deb_version i), (deb_arch_value archtab i). repeat split; try assumption.
  rewrite (strip_epoch_deb_version i He Hor). unfold model_filename, deb_arch_value. rewrite Hp. reflexivity.
Qed.

(* ---------- ipk: the same for the control text of an ipk ---------- *)
Definition ipk_fields_list (archtab : list (str * str)) (i : minfo) (installed_kib : Z) : list dfield :=
  [mkf "Architecture" (translate_arch archtab (gs i "ipk.arch") (gs i "arch")); descf (gs i "description");
   mkf "Maintainer" (ipk_maintainer i); mkf "Package" (gs i "name");
   mkf "Priority" (dflt (gs i "priority") (B "optional")); mkf "Version" (deb_version i)]
  ++ optf "ABIVersion" (gs i "ipk.abi_version")
  ++ (match gl i "ipk.alternatives" with [] => [] | l => [mkf "Alternatives" (join_with (B ", ") l)] end)
  ++ (if Z.eqb (gn i "ipk.auto_installed") 1 then [mkf "Auto-Installed" (B "yes")] else [])
  ++ optl "Conflicts" (gl i "conflicts")
  ++ optl "Depends" (gl i "depends")
  ++ (if Z.eqb (gn i "ipk.essential") 1 then [mkf "Essential" (B "yes")] else [])
  ++ optf "Homepage" (gs i "homepage")
  ++ optf "License" (gs i "license")
  ++ (if Z.eqb installed_kib 0 then [] else [mkf "Installed-Size" (dec installed_kib)])
  ++ optl "Pre-Depends" (gl i "ipk.predepends")
  ++ optl "Provides" (non_empty_items (gl i "provides"))
  ++ optl "Recommends" (gl i "recommends")
  ++ optl "Replaces" (gl i "replaces")
  ++ optf "Section" (gs i "section")
  ++ optl "Suggests" (gl i "suggests")
  ++ optl "Tags" (gl i "ipk.tags")
  ++ optf "Vendor" (gs i "vendor")
  ++ customf (ipk_fields (gf i "ipk.fields")).

Theorem ipk_control_is_field_text archtab i k : ipk_control archtab i k = d_write (ipk_fields_list archtab i k).
Proof.
  unfold ipk_control, ipk_fields_list.
  rewrite !d_write_app.
  repeat match goal with |- context [d_write (?f :: ?g :: ?r)] => rewrite (d_write_cons f (g :: r)) end.
  rewrite <- !opt_field_optf, <- !opt_list_optl, <- custom_fields_customf, <- description_descf.
  destruct (gl i "ipk.alternatives"); destruct (Z.eqb (gn i "ipk.auto_installed") 1); destruct (Z.eqb (gn i "ipk.essential") 1);
    destruct (Z.eqb k 0); rewrite <- ?field_mkf; norm_app; reflexivity.
Qed.

(* a reader recovers the list when every field of it is well formed (the description always is) *)
Theorem ipk_control_reads_back archtab i k : forallb wf_dfield (ipk_fields_list archtab i k) = true ->
  d_read (ipk_control archtab i k) = Some (map kv_of (ipk_fields_list archtab i k)).
Proof.
  intros H. rewrite ipk_control_is_field_text. apply d_roundtrip. apply Forall_forall. intros f Hf. rewrite forallb_forall in H. apply H. exact Hf.
Qed.
