(* C13: what [merge] / [config_get] compute, leaf by leaf. *)
From Coq Require Import List NArith ZArith Bool Lia String.
From Coq Require Import Strings.Byte.
From NfpmV Require Import Lib.Bytes Model.Content Model.Meta Model.Prepare Model.Merge Spec.C13.
Import ListNotations.
Open Scope list_scope.

(* a value mergo replaces as a whole: scalars, opaque values and lists *)
Definition plain (v : value) : bool :=
  match v with VStr _ | VNum _ | VBool _ | VOpaque _ | VSlice _ => true | _ => false end.

Definition replaced (lb lo : value) : value := if is_empty_value lo then lb else lo.

Lemma vlookup_map_fields (g : str -> value -> value) k fs :
  vlookup k (map (fun '(k', d) => (k', g k' d)) fs) = option_map (g k) (vlookup k fs).
Proof.
  induction fs as [|[k' d] fs IH]; cbn [map vlookup option_map]; [reflexivity|].
  destruct (seqb k' k) eqn:E; [|exact IH].
  apply seqb_eq in E. subst k'. reflexivity.
Qed.

Lemma merge_struct n fd fs :
  merge (S n) (VStruct fd) (VStruct fs) =
  VStruct (map (fun '(k, d) => (k, match vlookup k fs with Some s => merge n d s | None => d end)) fd).
Proof.
  cbn [merge]. f_equal. apply map_ext. intros [k d]. destruct (vlookup k fs); reflexivity.
Qed.

(* the field names of a block never change *)
Lemma merge_struct_keys n fd fs :
  exists fd', merge (S n) (VStruct fd) (VStruct fs) = VStruct fd' /\ map fst fd' = map fst fd.
Proof.
  rewrite merge_struct. eexists; split; [reflexivity|].
  rewrite map_map. apply map_ext. intros [k d]. reflexivity.
Qed.

Lemma merge_plain n lb lo : plain lo = true -> merge (S n) lb lo = replaced lb lo.
Proof.
  intros P. unfold replaced. destruct lo; try discriminate P; destruct lb; try reflexivity; destruct v; reflexivity.
Qed.

(* a field path through nested blocks *)
Fixpoint path_get (v : value) (p : list str) : option value :=
  match p with
  | [] => Some v
  | k :: rest => match v with
                 | VStruct fs => match vlookup k fs with Some x => path_get x rest | None => None end
                 | _ => None
                 end
  end.

(* the override block sets a leaf: the merged block carries the override's value if it is non-empty, the base's
   value otherwise - at any depth of nesting *)
Lemma merge_leaf : forall p n b o lb lo,
  List.length p < n ->
  path_get b p = Some lb -> path_get o p = Some lo -> plain lo = true ->
  path_get (merge n b o) p = Some (replaced lb lo).
Proof.
  induction p as [|k rest IH]; intros n b o lb lo Hn Hb Ho P.
  - cbn [path_get] in *. inversion Hb; inversion Ho; subst.
    destruct n as [|n]; [cbn [List.length] in Hn; lia|]. rewrite merge_plain by exact P. reflexivity.
  - cbn [path_get] in Hb, Ho.
    destruct b as [| | | | | | |fd]; try discriminate Hb.
    destruct o as [| | | | | | |fs]; try discriminate Ho.
    destruct n as [|n]; [cbn [List.length] in Hn; lia|].
    rewrite merge_struct. cbn [path_get].
    rewrite (vlookup_map_fields (fun k d => match vlookup k fs with Some s => merge n d s | None => d end)).
    destruct (vlookup k fd) as [d|] eqn:Ed; [|discriminate Hb].
    destruct (vlookup k fs) as [s|] eqn:Es; [|discriminate Ho].
    cbn [option_map]. apply IH; try assumption. cbn [List.length] in Hn. lia.
Qed.

(* a field the override block does not have is left as it is *)
Lemma merge_absent_field n fd fs k d :
  vlookup k fd = Some d -> vlookup k fs = None ->
  path_get (merge (S n) (VStruct fd) (VStruct fs)) [k] = Some d.
Proof.
  intros Hd Hs. rewrite merge_struct. cbn [path_get].
  rewrite (vlookup_map_fields (fun k d => match vlookup k fs with Some s => merge n d s | None => d end)).
  rewrite Hd. cbn [option_map]. rewrite Hs. reflexivity.
Qed.

(* every field of the base that the override block leaves empty - at every depth - keeps the base's value *)
Lemma merge_empty_leaf_keeps : forall p n b o lb lo,
  List.length p < n ->
  path_get b p = Some lb -> path_get o p = Some lo -> plain lo = true -> is_empty_value lo = true ->
  path_get (merge n b o) p = Some lb.
Proof.
  intros p n b o lb lo Hn Hb Ho P E. rewrite (merge_leaf p n b o lb lo Hn Hb Ho P). unfold replaced. rewrite E. reflexivity.
Qed.

Lemma merge_set_leaf_wins : forall p n b o lb lo,
  List.length p < n ->
  path_get b p = Some lb -> path_get o p = Some lo -> plain lo = true -> is_empty_value lo = false ->
  path_get (merge n b o) p = Some lo.
Proof.
  intros p n b o lb lo Hn Hb Ho P E. rewrite (merge_leaf p n b o lb lo Hn Hb Ho P). unfold replaced. rewrite E. reflexivity.
Qed.

(* pointers: an unset pointer changes nothing; a set one is merged through *)
Lemma merge_ptr_nil n d : merge (S n) d (VPtr None) = d.
Proof. destruct d; try reflexivity. destruct v; reflexivity. Qed.

Lemma merge_ptr_some n d s : merge (S n) (VPtr (Some d)) (VPtr (Some s)) = VPtr (Some (merge n d s)).
Proof. reflexivity. Qed.

(* ---------- Config.Get ---------- *)
Lemma config_get_no_block base ovs f : vlookup f ovs = None -> config_get base ovs f = base.
Proof. intros H. unfold config_get. rewrite H. reflexivity. Qed.

Lemma config_get_only_own_block base ovs1 ovs2 f :
  vlookup f ovs1 = vlookup f ovs2 -> config_get base ovs1 f = config_get base ovs2 f.
Proof. intros H. unfold config_get. rewrite H. reflexivity. Qed.

(* adding, removing or changing the block of ANOTHER format does not change what [f] gets *)
Lemma vlookup_assoc_set_other f g v m : seqb g f = false -> vlookup f (assoc_set g v m) = vlookup f m.
Proof.
  intros Hgf. induction m as [|[k x] m IH]; cbn [assoc_set vlookup].
  - rewrite Hgf. reflexivity.
  - destruct (seqb k g) eqn:E.
    + apply seqb_eq in E. subst k. cbn [vlookup]. rewrite Hgf. reflexivity.
    + cbn [vlookup]. destruct (seqb k f); [reflexivity|exact IH].
Qed.

Lemma config_get_other_block_irrelevant base ovs f g v :
  seqb g f = false -> config_get base (assoc_set g v ovs) f = config_get base ovs f.
Proof. intros H. apply config_get_only_own_block. apply vlookup_assoc_set_other. exact H. Qed.

(* with a block: every top-level field other than the contents is the merged field, and the contents are the
   merged contents restricted to entries addressed to the format or to none *)
Lemma filter_contents_addressed f l c :
  In c (match filter_contents f (VSlice l) with VSlice l' => l' | _ => [] end) ->
  In c l /\ (content_packager c = f \/ content_packager c = []).
Proof.
  cbn [filter_contents]. intros H. apply filter_In in H. destruct H as [Hin Hp]. split; [exact Hin|].
  apply orb_true_iff in Hp. destruct Hp as [Hp|Hp].
  - left. apply seqb_eq. exact Hp.
  - right. destruct (content_packager c); [reflexivity|discriminate Hp].
Qed.

Lemma config_get_field base ov ovs f fd k :
  vlookup f ovs = Some ov -> merge 40 base ov = VStruct fd -> seqb k (B "Contents") = false ->
  path_get (config_get base ovs f) [k] = path_get (VStruct fd) [k].
Proof.
  intros Hv Hm Hk. unfold config_get. rewrite Hv, Hm. cbn [path_get].
  set (g := fun (k : str) (v : value) => if seqb k (B "Contents") then filter_contents f v else v).
  replace (map (fun '(k0, v) => if seqb k0 (B "Contents") then (k0, filter_contents f v) else (k0, v)) fd)
    with (map (fun '(k', d) => (k', g k' d)) fd).
  2:{ apply map_ext. intros [k0 v]. unfold g. destruct (seqb k0 (B "Contents")); reflexivity. }
  rewrite vlookup_map_fields. unfold g. destruct (vlookup k fd) as [x|]; cbn [option_map]; [|reflexivity].
  assert (seqb k (B "Contents") = false) as -> by exact Hk. reflexivity.
Qed.

(* ---------- per-packager entries never reach another format's prepared contents ---------- *)
Lemma steps_ignore_foreign fs_paths st umask packager mt : forall ces m,
  steps fs_paths st umask packager mt m (filter (fun ce => is_relevant packager (fst ce)) ces)
  = steps fs_paths st umask packager mt m ces.
Proof.
  induction ces as [|ce ces IH]; intros m; [reflexivity|].
  cbn [filter]. destruct (is_relevant packager (fst ce)) eqn:R.
  - cbn [steps]. destruct (step fs_paths st umask packager mt m ce); [apply IH|reflexivity].
  - rewrite IH. cbn [steps]. unfold step. destruct ce as [c eo]. cbn [fst] in R. rewrite R. cbn [negb]. reflexivity.
Qed.

(* ---------- maps (custom control fields): key by key ---------- *)
Lemma seqb_refl' (k : str) : seqb k k = true.
Proof. apply seqb_eq. reflexivity. Qed.

Lemma vlookup_assoc_set_same k v m : vlookup k (assoc_set k v m) = Some v.
Proof.
  induction m as [|[k' x] m IH]; cbn [assoc_set vlookup].
  - rewrite seqb_refl'. reflexivity.
  - destruct (seqb k' k) eqn:E; cbn [vlookup]; [rewrite seqb_refl'; reflexivity|rewrite E; exact IH].
Qed.

Definition map_step (n : nat) (acc : list (str * value)) (ks : str * value) : list (str * value) :=
  let '(k, s) := ks in
  match vlookup k acc with
  | Some d => match d, s with
              | VStruct _, VStruct _ | VPtr _, VPtr _ | VMap _, VMap _ => assoc_set k (merge n d s) acc
              | _, _ => assoc_set k s acc
              end
  | None => assoc_set k s acc
  end.

Lemma merge_map n md ms : merge (S n) (VMap md) (VMap ms) = VMap (fold_left (map_step n) ms md).
Proof. cbn [merge]. f_equal. Qed.

Lemma map_step_plain n acc k s :
  plain s = true -> map_step n acc (k, s) = assoc_set k s acc.
Proof.
  intros P. unfold map_step. destruct (vlookup k acc) as [d|]; [|reflexivity].
  destruct s; try discriminate P; destruct d; reflexivity.
Qed.

Lemma seqb_sym_false (a b : str) : seqb a b = false -> seqb b a = false.
Proof.
  intros H. destruct (seqb b a) eqn:E; [|reflexivity]. apply seqb_eq in E. subst b. rewrite seqb_refl' in H. discriminate H.
Qed.

Lemma merge_map_lookup n : forall ms md k,
  NoDup (map fst ms) -> (forall k' s, In (k', s) ms -> plain s = true) ->
  vlookup k (fold_left (map_step n) ms md) =
  match vlookup k ms with
  | None => vlookup k md
  | Some s => Some s
  end.
Proof.
  induction ms as [|[k0 s0] ms IH]; intros md k ND PL; [reflexivity|].
  cbn [fold_left]. cbn [map fst] in ND. inversion ND as [|? ? Hnotin ND']; subst.
  rewrite IH; [|exact ND'|intros k' s Hin; apply (PL k' s); right; exact Hin].
  assert (P0 : plain s0 = true) by (apply (PL k0 s0); left; reflexivity).
  rewrite (map_step_plain n md k0 s0 P0).
  cbn [vlookup]. destruct (seqb k0 k) eqn:E.
  - apply seqb_eq in E. subst k0.
    assert (vlookup k ms = None) as ->.
    { clear -Hnotin. induction ms as [|[k1 s1] ms IHm]; [reflexivity|]. cbn [vlookup].
      destruct (seqb k1 k) eqn:E1.
      - exfalso. apply Hnotin. apply seqb_eq in E1. subst k1. left. reflexivity.
      - apply IHm. intros Hin. apply Hnotin. right. exact Hin. }
    apply vlookup_assoc_set_same.
  - destruct (vlookup k ms); [reflexivity|]. apply vlookup_assoc_set_other. exact E.
Qed.
