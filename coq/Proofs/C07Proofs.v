(* C07: where the modification times of the planned contents come from. Every entry files.PrepareForPackager plans
   carries the package mtime, a configured per-entry mtime, or a time the file system reported for a source -
   there is no other source of times in the model, in particular no clock. *)
From Coq Require Import List NArith ZArith Bool Lia.
From Coq Require Import Strings.Byte.
From NfpmV Require Import Lib.Bytes Model.Path Model.Content Model.Prepare.
From NfpmV Require Import Proofs.C05Proofs.
Import ListNotations.
Open Scope list_scope.

Definition mtime_of (c : content) : Z := fi_mtime (the_fi c).

Section Provenance.
  Variable st : stats.
  Variable umask : N.
  Variable mt : Z.
  Variable A : Z -> Prop.                                  (* the times an entry may carry *)
  Hypothesis A_mt : A mt.
  Hypothesis A_stat : forall p s, stat_of st p = Some s -> A (st_mtime s).

  Definition ok_val (v : content) : Prop := A (mtime_of v).
  Definition ok_map (m : cmap) : Prop := forall k v, In (k, v) m -> ok_val v.

  Lemma m_set_in_weak : forall m k v k' v', In (k', v') (m_set m k v) -> (k', v') = (k, v) \/ In (k', v') m.
  Proof.
    induction m as [|[k0 v0] m IH]; intros k v k' v' H; cbn [m_set] in H.
    - destruct H as [H|[]]. left. symmetry. exact H.
    - destruct (seqb k0 k).
      + destruct H as [H|H]; [left; symmetry; exact H|right; right; exact H].
      + destruct H as [H|H]; [right; left; exact H|]. destruct (IH _ _ _ _ H) as [E|E]; [left; exact E|right; right; exact E].
  Qed.

  Lemma ok_set m k v : ok_map m -> ok_val v -> ok_map (m_set m k v).
  Proof.
    intros Hm Hv k' v' H. destruct (m_set_in_weak _ _ _ _ _ H) as [E|E]; [injection E as _ ->; exact Hv|exact (Hm _ _ E)].
  Qed.

  (* WithFileInfoDefaults: the configured time if there is one, else what stat reports, else the package mtime *)
  Lemma wd_time c : (is_tzero (mtime_of c) = true \/ A (mtime_of c)) -> ok_val (with_defaults st umask mt c).
  Proof.
    intros Hc. unfold ok_val, mtime_of, with_defaults, the_fi at 1.
    set (f := the_fi c). fold f in Hc.
    set (mtime1 := if is_tzero (fi_mtime f) then mt else fi_mtime f).
    assert (A1 : A mtime1).
    { unfold mtime1. destruct (is_tzero (fi_mtime f)) eqn:Z; [exact A_mt|].
      destruct Hc as [Hc|Hc]; [unfold mtime_of in Hc; fold f in Hc; congruence|exact Hc]. }
    match goal with |- A (fi_mtime (match c_fi ?x with Some f0 => f0 | None => fi_empty end)) => set (res := x) end.
    destruct (negb (seqb (c_src c) []) && negb _) eqn:Cond.
    - destruct (stat_of st (c_src c)) as [s|] eqn:S; subst res; cbn [c_fi fi_mtime].
      + destruct (is_tzero mtime1) eqn:Z1.
        * destruct (is_tzero (st_mtime s)); [exact A_mt|exact (A_stat _ _ S)].
        * rewrite Z1. exact A1.
      + destruct (is_tzero mtime1); [exact A_mt|exact A1].
    - subst res; cbn [c_fi fi_mtime]. destruct (is_tzero mtime1); [exact A_mt|exact A1].
  Qed.

  Lemma implicit_ok k : ok_val (implicit_dir k mt).
  Proof. exact A_mt. Qed.

  Lemma add_parent_list_ok : forall ps m m', ok_map m -> add_parent_list m ps mt = Ok m' -> ok_map m'.
  Proof.
    induction ps as [|p ps IH]; intros m m' Hm H; cbn [add_parent_list] in H.
    - injection H as <-. exact Hm.
    - destruct (occupant m p) as [c|].
      + destruct (is_dir_typ (c_typ c)); [apply (IH _ _ Hm H)|discriminate H].
      + apply (IH _ _ (ok_set _ _ _ Hm (implicit_ok p)) H).
  Qed.

  Lemma add_parents_ok m path m' : ok_map m -> add_parents m path mt = Ok m' -> ok_map m'.
  Proof. apply add_parent_list_ok. Qed.

  Lemma set_src_dst_time c a b : mtime_of (set_src_dst c a b) = mtime_of c.
  Proof. reflexivity. Qed.

  Definition time_ok (c : content) : Prop := is_tzero (mtime_of c) = true \/ A (mtime_of c).

  Lemma globbed_file_ok orig g dst : time_ok orig -> ok_val (globbed_file st umask mt orig g dst).
  Proof.
    intros Ho. unfold globbed_file.
    match goal with |- ok_val (match _ with Some _ => _ | None => ?nf end) => set (x := nf) end.
    assert (Hx : ok_val x).
    { apply wd_time. unfold mtime_of, the_fi. cbn [c_fi]. unfold time_ok, mtime_of, the_fi in Ho.
      destruct (c_fi orig) as [f|]; cbn [fi_mtime] in *; exact Ho. }
    destruct (gm_readlink g); [|exact Hx]. unfold ok_val, mtime_of, the_fi in *. cbn [c_fi]. exact Hx.
  Qed.

  Lemma add_globbed_ok orig : time_ok orig -> forall pairs all all',
    ok_map all -> add_globbed st umask mt orig all pairs = Ok all' -> ok_map all'.
  Proof.
    intros Ho. induction pairs as [|[g d] rest IH]; intros all all' Hm H; cbn [add_globbed] in H.
    - injection H as <-. exact Hm.
    - destruct (occupant all (norm_file d)); [discriminate H|].
      destruct (add_parents all (norm_file d) mt) as [all1|e] eqn:AP; [|discriminate H].
      apply (IH _ _ (ok_set _ _ _ (add_parents_ok _ _ _ Hm AP) (globbed_file_ok orig g (norm_file d) Ho)) H).
  Qed.

  (* trees: directories carry the time the walk reported for them, everything else goes through the defaults *)
  Definition witem_ok (w : witem) : Prop := match w with WDir _ _ t => is_tzero t = true \/ A t | _ => True end.

  Lemma tree_item_ok fs tree w c : witem_ok w -> tree_item fs st umask mt tree w = Ok c -> ok_val c.
  Proof.
    intros Hw H. unfold tree_item in H.
    destruct (rel_path (c_src tree) (witem_path w)) as [relp|]; [|discriminate H].
    destruct (match c_fi tree with Some f => _ | None => _ end) as [owner group].
    destruct w as [p md mtm|p target|p dt]; injection H as <-; apply wd_time; unfold mtime_of, the_fi; cbn [c_fi fi_mtime].
    - exact Hw.
    - left. reflexivity.
    - left. reflexivity.
  Qed.

  Lemma add_tree_items_ok fs tree : forall ws all all', Forall witem_ok ws ->
    ok_map all -> add_tree_items fs st umask mt tree all ws = Ok all' -> ok_map all'.
  Proof.
    induction ws as [|w ws IH]; intros all all' Hws Hm H; cbn [add_tree_items] in H.
    - injection H as <-. exact Hm.
    - inversion Hws as [|? ? Hw Hws']; subst.
      destruct (tree_item fs st umask mt tree w) as [c|e] eqn:T; [|discriminate H].
      destruct (match occupant all (c_dst c) with Some p => _ | None => false end); [discriminate H|].
      apply (IH _ _ Hws' (ok_set _ _ _ Hm (tree_item_ok _ _ _ _ Hw T)) H).
  Qed.

  Definition walk_ok (wa : wans) : Prop := match wa with WOk ws => Forall witem_ok ws | WErr _ => True end.

  Lemma add_tree_ok fs tree wa all all' : walk_ok wa -> ok_map all -> add_tree fs st umask mt tree wa all = Ok all' -> ok_map all'.
  Proof.
    intros Hwa Hm H. unfold add_tree in H.
    destruct (if negb (seqb (c_dst tree) [slash]) && negb (seqb (c_dst tree) []) then _ else false); [discriminate H|].
    destruct (add_parents all (c_dst tree) mt) as [all1|e] eqn:AP; [|discriminate H].
    destruct wa as [e|ws]; [discriminate H|].
    apply (add_tree_items_ok fs tree ws all1 all' Hwa (add_parents_ok _ _ _ Hm AP) H).
  Qed.

  Definition ce_ok (ce : content * eoracle) : Prop := time_ok (fst ce) /\ walk_ok (eo_walk (snd ce)).

  Lemma step_ok fs packager m ce m' : ce_ok ce -> ok_map m -> step fs st umask packager mt m ce = Ok m' -> ok_map m'.
  Proof.
    intros [Hc Hw] Hm H. destruct ce as [c eo]. cbn [fst snd] in *. unfold step in H.
    destruct (negb (is_relevant packager c)); [injection H as <-; exact Hm|].
    destruct (seqb (c_typ c) TDir).
    { destruct (match occupant m (norm_dir (c_dst c)) with Some p => _ | None => false end); [discriminate H|].
      destruct (add_parents m (c_dst c) mt) as [m1|e] eqn:AP; [|discriminate H].
      injection H as <-. apply ok_set; [apply (add_parents_ok _ _ _ Hm AP)|].
      unfold ok_val. rewrite set_src_dst_time. apply wd_time. exact Hc. }
    destruct (seqb (c_typ c) TImplicitDir); [injection H as <-; exact Hm|].
    destruct (typ_in (c_typ c) [TGhost; TSymlink; TDoc; TLicence; TLicense; TReadme; TDebChangelog]).
    { destruct (occupant m (norm_file (c_dst c))); [discriminate H|].
      destruct (add_parents m (c_dst c) mt) as [m1|e] eqn:AP; [|discriminate H].
      injection H as <-. apply ok_set; [apply (add_parents_ok _ _ _ Hm AP)|].
      unfold ok_val. rewrite set_src_dst_time. apply wd_time. exact Hc. }
    destruct (seqb (c_typ c) TTree); [apply (add_tree_ok fs c (eo_walk eo) m m' Hw Hm H)|].
    destruct (typ_in (c_typ c) [TConfig; TConfigNoReplace; TConfigMissingOK; TFile; TNone]); [|discriminate H].
    destruct (eo_glob eo) as [e|pattern ms use_lcp]; [discriminate H|].
    destruct ms as [|g0 ms0]; [discriminate H|].
    destruct (glob_pairs _ _ _) as [pairs|e]; [|discriminate H].
    apply (add_globbed_ok c Hc pairs m m' Hm H).
  Qed.

  Lemma steps_ok fs packager : forall ces m m', Forall ce_ok ces -> ok_map m ->
    steps fs st umask packager mt m ces = Ok m' -> ok_map m'.
  Proof.
    induction ces as [|ce ces IH]; intros m m' Hall Hm H; cbn [steps] in H.
    - injection H as <-. exact Hm.
    - inversion Hall as [|? ? Hce Hall']; subst.
      destruct (step fs st umask packager mt m ce) as [m1|e] eqn:S; [|discriminate H].
      apply (IH _ _ Hall' (step_ok _ _ _ _ _ Hce Hm S) H).
  Qed.

  Lemma prep_ok fs packager ces cs : Forall ce_ok ces ->
    prep fs st ces umask packager mt = Ok cs -> forall c, In c cs -> ok_val c.
  Proof.
    intros Hall H c Hin. unfold prep in H.
    destruct (steps fs st umask packager mt [] ces) as [m|e] eqn:S; [|discriminate H]. injection H as <-.
    assert (Hm : ok_map m) by (apply (steps_ok fs packager ces [] m Hall); [intros k v []|exact S]).
    apply (Permutation.Permutation_in _ (sort_perm (map snd m))) in Hin.
    apply in_map_iff in Hin. destruct Hin as [[k v] [<- Hkv]]. apply (Hm k v Hkv).
  Qed.
End Provenance.

(* the concrete set of allowed times: the package mtime, the times configured on entries, the times stat reported,
   the times the tree walks reported for directories *)
Definition declared_times (ces : list (content * eoracle)) : list Z := map (fun ce => mtime_of (fst ce)) ces.
Definition stat_times (st : stats) : list Z := map (fun ps => st_mtime (snd ps)) st.
Definition walk_times (ces : list (content * eoracle)) : list Z :=
  flat_map (fun ce => match eo_walk (snd ce) with
                      | WOk ws => flat_map (fun w => match w with WDir _ _ t => [t] | _ => [] end) ws
                      | WErr _ => []
                      end) ces.

Definition allowed_time (mt : Z) (st : stats) (ces : list (content * eoracle)) (t : Z) : Prop :=
  t = mt \/ In t (declared_times ces) \/ In t (stat_times st) \/ In t (walk_times ces).

Lemma stat_of_in : forall (st : stats) p s, stat_of st p = Some s -> In (st_mtime s) (stat_times st).
Proof.
  induction st as [|[p0 s0] st IH]; intros p s H; cbn [stat_of] in H; [discriminate H|].
  cbn [stat_times map snd]. destruct (seqb p0 p).
  - injection H as <-. left. reflexivity.
  - right. apply (IH p s H).
Qed.

Theorem planned_times_have_a_source fs st ces umask packager mt cs :
  prep fs st ces umask packager mt = Ok cs -> forall c, In c cs -> allowed_time mt st ces (mtime_of c).
Proof.
  intros H c Hin.
  apply (prep_ok st umask mt (allowed_time mt st ces)) with (fs := fs) (packager := packager) (ces := ces) (cs := cs); try assumption.
  - left. reflexivity.
  - intros p s Hs. right. right. left. apply (stat_of_in st p s Hs).
  - apply Forall_forall. intros ce Hce. split.
    + right. right. left. apply in_map_iff. exists ce. split; [reflexivity|exact Hce].
    + destruct (eo_walk (snd ce)) as [e|ws] eqn:W; [exact I|]. apply Forall_forall. intros w Hw.
      destruct w as [p md t|p tg|p dt]; try exact I. right. right. right. right.
      unfold walk_times. apply in_flat_map. exists ce. split; [exact Hce|]. rewrite W.
      apply in_flat_map. exists (WDir p md t). split; [exact Hw|left; reflexivity].
Qed.

(* ---------- the order of the plan is canonical ---------- *)
(* Two strictly sorted lists with the same elements are the same list: whatever order a map iteration, a glob or a
   directory walk delivered the entries in, the sorted plan - and hence the order of the payload - is the same. *)
From Coq Require Import Sorting.Sorted Sorting.Permutation.

Lemma SS_head_min : forall (l : list content) a, StronglySorted dst_lt (a :: l) -> forall x, In x l -> dst_lt a x.
Proof. intros l a H x Hx. inversion H as [|? ? _ Hall]; subst. rewrite Forall_forall in Hall. apply Hall. exact Hx. Qed.

Lemma sorted_plan_unique : forall l1 l2 : list content,
  StronglySorted dst_lt l1 -> StronglySorted dst_lt l2 -> Permutation l1 l2 -> l1 = l2.
Proof.
  induction l1 as [|a l1 IH]; intros l2 S1 S2 P.
  - apply Permutation_nil in P. subst. reflexivity.
  - destruct l2 as [|b l2]; [apply Permutation_sym, Permutation_nil in P; discriminate P|].
    assert (Hab : a = b).
    { assert (Ia : In a (b :: l2)) by (apply (Permutation_in _ P); left; reflexivity).
      assert (Ib : In b (a :: l1)) by (apply (Permutation_in _ (Permutation_sym P)); left; reflexivity).
      destruct Ia as [Ia|Ia]; [symmetry; exact Ia|]. destruct Ib as [Ib|Ib]; [exact Ib|].
      pose proof (SS_head_min _ _ S2 a Ia) as H1. pose proof (SS_head_min _ _ S1 b Ib) as H2.
      exfalso. apply (lex_lt_irrefl (c_dst a)). apply (lex_lt_trans _ _ _ H2 H1). }
    subst b. f_equal. apply IH.
    + inversion S1; assumption.
    + inversion S2; assumption.
    + apply (Permutation_cons_inv P).
Qed.
