(* deb / ipk conffiles as translated from the sources on every run (Gen/ListFns.v) is the text of the model's list:
   conffiles_text (conffiles_model cs). *)
From Coq Require Import List String Bool.
From Coq Require Import Strings.Byte.
From NfpmV Require Import Lib.Bytes Model.Path Model.Content Model.Prepare Model.Payload Model.Mtree Model.DebLists
  Spec.C05 Spec.C01 Spec.C08 Proofs.PathFnsProofs.
From NfpmV Require Import Gen.PathFns Gen.ListFns.
Import ListNotations.
Open Scope list_scope.

Lemma concat_sep_nl_text (l : list str) : concat_sep [x0a]%byte l ++ [x0a]%byte = conffiles_text l.
Proof.
  unfold conffiles_text. destruct l as [|x l]; [reflexivity|].
  revert x. induction l as [|y l IH]; intros x.
  - cbn [concat_sep flat_map]. rewrite app_nil_r. reflexivity.
  - change (concat_sep [x0a]%byte (x :: y :: l)) with (x ++ [x0a]%byte ++ concat_sep [x0a]%byte (y :: l)).
    rewrite <- !app_assoc. rewrite (IH y). cbn [flat_map]. rewrite <- !app_assoc. reflexivity.
Qed.

Lemma flat_map_if_filter_map {A B} (p : A -> bool) (f : A -> B) (l : list A) :
  flat_map (fun a => if p a then [f a] else []) l = map f (filter p l).
Proof.
  induction l as [|a l IH]; [reflexivity|]. cbn [flat_map filter]. destruct (p a); cbn [map app]; rewrite IH; reflexivity.
Qed.

Lemma collected_is_model cs :
  flat_map (fun c => if typ_in (c_typ c) [B "config"; B "config|noreplace"; B "config|missingok"]
                     then [src_NormalizeAbsoluteFilePath (c_dst c)] else []) cs = conffiles_model cs.
Proof.
  rewrite flat_map_if_filter_map. unfold conffiles_model.
  apply map_ext_in_iff. intros c _. apply src_NormalizeAbsoluteFilePath_is_model.
Qed.

Theorem src_deb_conffiles_is_model cs : src_deb_conffiles cs = conffiles_text (conffiles_model cs).
Proof. unfold src_deb_conffiles. rewrite collected_is_model. apply concat_sep_nl_text. Qed.

Theorem src_ipk_conffiles_is_model cs : src_ipk_conffiles cs = conffiles_text (conffiles_model cs).
Proof. unfold src_ipk_conffiles. rewrite collected_is_model. apply concat_sep_nl_text. Qed.

Lemma list_fns_translated : src_deb_conffiles_translated && src_ipk_conffiles_translated = true.
Proof. reflexivity. Qed.

(* ---- archlinux: the backup values as translated are the model's list ---- *)
From NfpmV Require Import Gen.BackupFn.

Lemma filter_ext_c (f g : content -> bool) (l : list content) : (forall c, f c = g c) -> filter f l = filter g l.
Proof. intros H. induction l as [|x l IH]; cbn [filter]; [reflexivity|]. rewrite H, IH. reflexivity. Qed.

Theorem src_arch_backups_is_model cs : src_arch_backups cs = backups_model cs.
Proof.
  unfold src_arch_backups, backups_model. rewrite flat_map_if_filter_map.
  rewrite (filter_ext_c _ (fun c => is_config_typ (c_typ c))).
  - apply map_ext_in_iff. intros c _. apply src_AsRelativePath_is_model.
  - intros c. unfold is_config_typ, typ_in, TConfig, TConfigNoReplace, TConfigMissingOK. cbn [existsb].
    destruct (seqb (c_typ c) (B "config")), (seqb (c_typ c) (B "config|noreplace")), (seqb (c_typ c) (B "config|missingok")); reflexivity.
Qed.

Lemma backups_translated : src_arch_backups_translated && seqb src_arch_backup_key (B "backup") = true.
Proof. reflexivity. Qed.
