(* Facts about the lexical path model: shape and idempotence of normalisation, components of keys. *)
From Coq Require Import List NArith Lia Bool.
From Coq Require Import Strings.Byte.
From NfpmV Require Import Lib.Bytes Model.Path.
Import ListNotations.

Definition noslash (c : str) : Prop := ~ In slash c.
Definition good_comp (c : str) : Prop :=
  c <> [] /\ is_dot c = false /\ is_dotdot c = false /\ noslash c.

Lemma is_slash_true b : is_slash b = true <-> b = slash.
Proof. unfold is_slash. apply beq_eq. Qed.
Lemma is_slash_false b : is_slash b = false <-> b <> slash.
Proof. unfold is_slash. apply beq_neq. Qed.

(* ---- split ---- *)
Lemma split_aux_noslash : forall s acc, noslash acc -> Forall noslash (split_aux acc s).
Proof.
  induction s as [|b s IH]; intros acc Hacc; cbn [split_aux].
  - constructor; [|constructor]. unfold noslash. rewrite <- in_rev. exact Hacc.
  - destruct (is_slash b) eqn:E.
    + constructor. { unfold noslash. rewrite <- in_rev; exact Hacc. } apply IH. intros [].
    + apply IH. intros [H|H]; [|auto]. subst b. apply is_slash_false in E. congruence.
Qed.

Lemma split_noslash s : Forall noslash (split s).
Proof. apply split_aux_noslash. intros []. Qed.

Lemma split_aux_app_noslash : forall c acc rest, noslash c ->
  split_aux acc (c ++ rest) = split_aux (rev c ++ acc) rest.
Proof.
  induction c as [|b c IH]; intros acc rest Hc; cbn [app split_aux rev].
  - reflexivity.
  - assert (is_slash b = false) as E.
    { apply is_slash_false. intros ->. apply Hc. left. reflexivity. }
    rewrite E. rewrite IH by (intros H; apply Hc; right; exact H).
    rewrite <- app_assoc. reflexivity.
Qed.

Lemma split_aux_slash acc rest : split_aux acc (slash :: rest) = rev acc :: split_aux [] rest.
Proof. cbn [split_aux]. assert (is_slash slash = true) as -> by (apply is_slash_true; reflexivity). reflexivity. Qed.

Lemma split_aux_join_abs : forall cs acc, Forall noslash cs ->
  split_aux acc (join_abs cs) = rev acc :: cs.
Proof.
  induction cs as [|c cs IH]; intros acc H; cbn [join_abs].
  - reflexivity.
  - inversion H as [|? ? Hc Hcs]; subst.
    rewrite split_aux_slash. f_equal.
    rewrite split_aux_app_noslash by exact Hc. rewrite app_nil_r.
    rewrite IH by exact Hcs. rewrite rev_involutive. reflexivity.
Qed.

Lemma split_aux_join_abs_slash : forall cs acc, Forall noslash cs ->
  split_aux acc (join_abs cs ++ [slash]) = rev acc :: cs ++ [[]].
Proof.
  induction cs as [|c cs IH]; intros acc H; cbn [join_abs app].
  - rewrite split_aux_slash. reflexivity.
  - inversion H as [|? ? Hc Hcs]; subst.
    rewrite split_aux_slash. f_equal.
    rewrite <- app_assoc. rewrite split_aux_app_noslash by exact Hc. rewrite app_nil_r.
    rewrite IH by exact Hcs. rewrite rev_involutive. reflexivity.
Qed.

(* ---- clean_rooted ---- *)
Lemma clean_rooted_good_out : forall cs stack,
  Forall noslash cs -> Forall good_comp stack -> Forall good_comp (clean_rooted stack cs).
Proof.
  induction cs as [|c cs IH]; intros stack Hcs Hst; cbn [clean_rooted].
  - apply Forall_rev; exact Hst.
  - inversion Hcs as [|? ? Hc Hcs']; subst.
    destruct (is_empty c) eqn:E1; cbn [orb]. { apply IH; assumption. }
    destruct (is_dot c) eqn:E2; cbn [orb]. { apply IH; assumption. }
    destruct (is_dotdot c) eqn:E3.
    + apply IH; [assumption|]. destruct stack; [constructor|]. inversion Hst; assumption.
    + apply IH; [assumption|]. constructor; [|assumption].
      repeat split; try assumption. intros ->. discriminate.
Qed.

Lemma good_comp_flags c : good_comp c -> is_empty c = false /\ is_dot c = false /\ is_dotdot c = false.
Proof. intros (H1 & H2 & H3 & _). repeat split; auto. destruct c; [contradiction|reflexivity]. Qed.

Lemma clean_rooted_id : forall cs stack, Forall good_comp cs -> clean_rooted stack cs = rev stack ++ cs.
Proof.
  induction cs as [|c cs IH]; intros stack H; cbn [clean_rooted].
  - rewrite app_nil_r. reflexivity.
  - inversion H as [|? ? Hc Hcs]; subst. destruct (good_comp_flags c Hc) as (-> & -> & ->). cbn [orb].
    rewrite IH by exact Hcs. cbn [rev]. rewrite <- app_assoc. reflexivity.
Qed.

Lemma clean_rooted_app : forall a b stack,
  clean_rooted stack (a ++ b) = clean_rooted (rev (clean_rooted stack a)) b.
Proof.
  induction a as [|c a IH]; intros b stack; cbn [app clean_rooted].
  - rewrite rev_involutive. reflexivity.
  - destruct (is_empty c || is_dot c); [apply IH|]. destruct (is_dotdot c); apply IH.
Qed.

Lemma comps_abs_good s : Forall good_comp (comps_abs s).
Proof. apply clean_rooted_good_out; [apply split_noslash|constructor]. Qed.

Lemma good_noslash cs : Forall good_comp cs -> Forall noslash cs.
Proof. apply Forall_impl. intros c (_ & _ & _ & H). exact H. Qed.

Lemma comps_abs_join_abs cs : Forall good_comp cs -> comps_abs (join_abs cs) = cs.
Proof.
  intros H. unfold comps_abs, split. rewrite split_aux_join_abs by (apply good_noslash; exact H).
  cbn [rev clean_rooted is_empty orb]. apply clean_rooted_id. exact H.
Qed.

Lemma comps_abs_join_abs_slash cs : Forall good_comp cs -> comps_abs (join_abs cs ++ [slash]) = cs.
Proof.
  intros H. unfold comps_abs, split. rewrite split_aux_join_abs_slash by (apply good_noslash; exact H).
  cbn [rev clean_rooted is_empty orb]. rewrite clean_rooted_app.
  rewrite (clean_rooted_id cs [] H). cbn [rev app clean_rooted is_empty orb].
  rewrite rev_involutive. reflexivity.
Qed.

Lemma comps_abs_abs_of cs : Forall good_comp cs -> comps_abs (abs_of cs) = cs.
Proof.
  intros H. destruct cs as [|c cs]; [reflexivity|]. cbn [abs_of]. apply comps_abs_join_abs. exact H.
Qed.

(* ---- normalisation ---- *)
Lemma norm_file_spec s : norm_file s = abs_of (comps_abs s).
Proof. reflexivity. Qed.

Theorem norm_file_idem s : norm_file (norm_file s) = norm_file s.
Proof. rewrite !norm_file_spec. rewrite comps_abs_abs_of by apply comps_abs_good. reflexivity. Qed.

Theorem norm_file_shape s : exists cs, Forall good_comp cs /\ norm_file s = abs_of cs.
Proof. exists (comps_abs s). split; [apply comps_abs_good|reflexivity]. Qed.

(* directory key of a component list *)
Definition dkey (cs : list str) : str := match cs with [] => [slash] | _ => join_abs cs ++ [slash] end.
Definition fkey (cs : list str) : str := abs_of cs.

Lemma join_abs_nonempty c cs : join_abs (c :: cs) <> [].
Proof. cbn. discriminate. Qed.

Lemma join_abs_head cs : cs <> [] -> exists r, join_abs cs = slash :: r.
Proof. destruct cs; [contradiction|]. intros _. cbn. eauto. Qed.

Lemma seqb_slash_join c cs : seqb (join_abs (c :: cs)) [slash] = false \/ c = [].
Proof.
  destruct c as [|b c]; [right; reflexivity|left].
  cbn. destruct (beq slash slash); cbn; reflexivity.
Qed.

Theorem norm_dir_shape s : exists cs, Forall good_comp cs /\ norm_dir s = dkey cs.
Proof.
  unfold norm_dir. exists (comps_abs (trim_right is_slash s)). split; [apply comps_abs_good|].
  rewrite norm_file_spec. pose proof (comps_abs_good (trim_right is_slash s)) as G.
  destruct (comps_abs (trim_right is_slash s)) as [|c cs]; [reflexivity|].
  cbn [abs_of dkey]. inversion G as [|? ? Hc _]; subst.
  destruct (seqb_slash_join c cs) as [E | E]; [rewrite E; reflexivity | subst c]. destruct Hc as [Hc _]. contradiction.
Qed.

Lemma comps_abs_dkey cs : Forall good_comp cs -> comps_abs (dkey cs) = cs.
Proof.
  intros H. destruct cs as [|c cs]; [reflexivity|]. cbn [dkey]. apply comps_abs_join_abs_slash. exact H.
Qed.

Lemma comps_abs_fkey cs : Forall good_comp cs -> comps_abs (fkey cs) = cs.
Proof. apply comps_abs_abs_of. Qed.

(* ---- last byte ---- *)
Lemma last_join_abs : forall cs, Forall good_comp cs -> cs <> [] ->
  exists r b, join_abs cs = r ++ [b] /\ b <> slash.
Proof.
  induction cs as [|c cs IH]; intros H Hne; [contradiction|].
  inversion H as [|? ? Hc Hcs]; subst. cbn [join_abs].
  destruct cs as [|c' cs'].
  - cbn [join_abs]. rewrite app_nil_r. destruct Hc as (Hne' & _ & _ & Hns).
    destruct (exists_last Hne') as (r & b & ->). exists (slash :: r), b. split; [reflexivity|].
    intros ->. apply Hns. apply in_or_app. right. left. reflexivity.
  - destruct (IH Hcs ltac:(discriminate)) as (r & b & E & Hb). rewrite E.
    exists (slash :: c ++ r), b. split; [|exact Hb]. cbn. rewrite <- app_assoc. reflexivity.
Qed.

Lemma strip_dir_slash_snoc r : strip_dir_slash (r ++ [slash]) = r.
Proof.
  unfold strip_dir_slash. rewrite rev_app_distr. cbn [rev app].
  assert (is_slash slash = true) as -> by (apply is_slash_true; reflexivity). apply rev_involutive.
Qed.

Lemma strip_dir_slash_noslash r b : b <> slash -> strip_dir_slash (r ++ [b]) = r ++ [b].
Proof.
  intros H. unfold strip_dir_slash. rewrite rev_app_distr. cbn [rev app].
  apply is_slash_false in H. rewrite H. reflexivity.
Qed.

(* location of keys *)
Lemma location_dkey cs : Forall good_comp cs -> cs <> [] -> strip_dir_slash (dkey cs) = fkey cs.
Proof.
  intros H Hne. destruct cs as [|c cs]; [contradiction|]. cbn [dkey fkey abs_of]. apply strip_dir_slash_snoc.
Qed.

Lemma location_fkey cs : Forall good_comp cs -> cs <> [] -> strip_dir_slash (fkey cs) = fkey cs.
Proof.
  intros H Hne. destruct (last_join_abs cs H Hne) as (r & b & E & Hb).
  destruct cs as [|c cs]; [contradiction|]. cbn [fkey abs_of]. rewrite E. apply strip_dir_slash_noslash. exact Hb.
Qed.

Lemma fkey_inj a b : Forall good_comp a -> Forall good_comp b -> fkey a = fkey b -> a = b.
Proof. intros Ha Hb E. rewrite <- (comps_abs_fkey a Ha), <- (comps_abs_fkey b Hb), E. reflexivity. Qed.

Lemma dkey_inj a b : Forall good_comp a -> Forall good_comp b -> dkey a = dkey b -> a = b.
Proof. intros Ha Hb E. rewrite <- (comps_abs_dkey a Ha), <- (comps_abs_dkey b Hb), E. reflexivity. Qed.

(* ---- ancestors ---- *)
Lemma ancestor_dirs_key k cs : comps_abs k = cs ->
  ancestor_dirs k = map (fun p => join_abs p ++ [slash]) (filter nonnil (prefixes cs)).
Proof. intros <-. reflexivity. Qed.

Lemma prefixes_spec {A} : forall (l p : list A), In p (prefixes l) <-> exists r, r <> [] /\ l = p ++ r.
Proof.
  induction l as [|x l IH]; intros p; cbn [prefixes].
  - split; [intros []|]. intros (r & Hr & E). destruct p; destruct r; try discriminate. contradiction.
  - split.
    + intros [<-|H].
      * exists (x :: l). split; [discriminate|reflexivity].
      * apply in_map_iff in H as (q & <- & Hq). apply IH in Hq as (r & Hr & ->). exists r. split; auto.
    + intros (r & Hr & E). destruct p as [|y p].
      * left. reflexivity.
      * right. cbn in E. injection E as <- ->. apply in_map. apply IH. eauto.
Qed.

Lemma prefixes_good cs p : Forall good_comp cs -> In p (prefixes cs) -> Forall good_comp p.
Proof.
  intros H Hp. apply prefixes_spec in Hp as (r & _ & ->). apply Forall_app in H. tauto.
Qed.

Lemma prefixes_trans {A} (l p q : list A) : In p (prefixes l) -> In q (prefixes p) -> In q (prefixes l).
Proof.
  intros H1 H2. apply prefixes_spec in H1 as (r1 & Hr1 & ->). apply prefixes_spec in H2 as (r2 & Hr2 & ->).
  apply prefixes_spec. exists (r2 ++ r1). split.
  - destruct r2; [contradiction|discriminate].
  - rewrite app_assoc. reflexivity.
Qed.
