(* C02: the Debian description printer (template function "multiline") and the control-file unfolding are
   inverse on the trimmed lines, up to the two cases the format cannot express. *)
From Coq Require Import List NArith ZArith Lia Bool String.
From Coq Require Import Strings.Byte.
From NfpmV Require Import Lib.Bytes Model.Path Model.Content Model.Payload Model.Meta Spec.C02.
Import ListNotations.
Open Scope list_scope.

Definition noNL (s : str) : Prop := ~ In x0a s.

Lemma beq_nl_false b : b <> x0a -> beq b x0a = false.
Proof. intros H. apply beq_neq. exact H. Qed.

Lemma split_lines_app_noNL : forall a acc r, noNL a -> split_lines_aux acc (a ++ r) = split_lines_aux (rev a ++ acc) r.
Proof.
  induction a as [|b a IH]; intros acc r H; cbn [app split_lines_aux rev]; [reflexivity|].
  rewrite beq_nl_false by (intros ->; apply H; left; reflexivity).
  rewrite IH by (intros H'; apply H; right; exact H'). rewrite <- app_assoc. reflexivity.
Qed.

Lemma split_lines_nl acc r : split_lines_aux acc (x0a :: r) = rev acc :: split_lines_aux [] r.
Proof. cbn [split_lines_aux]. rewrite beq_refl. reflexivity. Qed.

(* what multiline writes for one continuation line *)
Definition cont (t : str) : str := x0a :: x20 :: (if nonempty t then t else [x2e]).
Definition render (first : str) (rest : list str) : str := first ++ flat_map cont rest.

Lemma split_render_rest : forall rest acc, Forall noNL rest -> acc <> [] \/ rest <> [] ->
  split_lines_aux acc (flat_map cont rest) = rev acc :: map (fun t => x20 :: (if nonempty t then t else [x2e])) rest.
Proof.
  induction rest as [|t rest IH]; intros acc H NE; cbn [flat_map map].
  - destruct NE as [NE|NE]; [|contradiction]. cbn [split_lines_aux]. destruct acc; [contradiction|reflexivity].
  - inversion H as [|? ? Ht Hr]; subst. unfold cont at 1. cbn [app]. rewrite split_lines_nl. f_equal.
    change (x20 :: (if nonempty t then t else [x2e]) ++ flat_map cont rest)
      with ((x20 :: (if nonempty t then t else [x2e])) ++ flat_map cont rest).
    rewrite split_lines_app_noNL.
    + rewrite app_nil_r. rewrite IH; [rewrite rev_involutive; reflexivity|exact Hr|left].
      cbn [rev]. intros E. apply app_eq_nil in E as [_ E]. discriminate.
    + intros [E|E]; [discriminate|]. destruct (nonempty t); [apply Ht; exact E|destruct E as [E|[]]; discriminate].
Qed.

Lemma split_render first rest : noNL first -> Forall noNL rest -> first <> [] \/ rest <> [] ->
  split_lines_aux [] (render first rest) = first :: map (fun t => x20 :: (if nonempty t then t else [x2e])) rest.
Proof.
  intros Hf Hr NE. unfold render. rewrite split_lines_app_noNL by exact Hf. rewrite app_nil_r.
  rewrite split_render_rest; [rewrite rev_involutive; reflexivity|exact Hr|].
  destruct NE as [NE|NE]; [left|right; exact NE]. intros E. apply NE. rewrite <- (rev_involutive first), E. reflexivity.
Qed.

(* unfolding gives back every line, blank lines included, unless a line is exactly "." *)
Theorem unfold_render first rest : noNL first -> Forall noNL rest -> first <> [] \/ rest <> [] ->
  Forall (fun t => t <> [x2e]) rest ->
  deb_unfold (render first rest) = first :: rest.
Proof.
  intros Hf Hr NE ND. unfold deb_unfold. rewrite split_render by assumption. f_equal.
  rewrite map_map. rewrite <- (map_id rest) at 2. apply map_ext_in. intros t Ht. cbn [beq].
  rewrite beq_refl. rewrite Forall_forall in ND. specialize (ND t Ht).
  destruct t as [|b t]; cbn [nonempty].
  - rewrite seqb_refl. reflexivity.
  - destruct (seqb (b :: t) (B ".")) eqn:E; [|reflexivity]. apply seqb_eq in E. contradiction.
Qed.

(* multiline is that rendering of the trimmed scanned lines *)
Lemma multiline_render d : multiline d =
  match scan_lines (trim_space d) with [] => [] | first :: rest => render (trim_space first) (map trim_space rest) end.
Proof.
  unfold multiline, render. destruct (scan_lines (trim_space d)) as [|first rest]; [reflexivity|]. f_equal.
  rewrite flat_map_concat_map, flat_map_concat_map, map_map. reflexivity.
Qed.

(* the refutation: a line "." does not survive *)
Theorem dot_line_refuted : exists first rest, deb_unfold (render first rest) <> first :: rest.
Proof. exists [x61], [[x2e]]. vm_compute. discriminate. Qed.

(* translation by a table: an override is used verbatim, whatever the table says *)
Theorem override_verbatim table o a : nonempty o = true -> translate_arch table o a = o.
Proof. unfold translate_arch. intros ->. reflexivity. Qed.
