(* The rpm file layout read back yields what was written, and the header section starts at a multiple of 8 (C04). *)
From Coq Require Import List NArith ZArith Bool Arith Lia.
From Coq Require Import Strings.Byte.
From Coq Require Import ZifyN ZifyNat.
From NfpmV Require Import Lib.Bytes Model.RpmFile.
From NfpmV Require Import Proofs.C10Proofs.
Import ListNotations.
Open Scope list_scope.
Ltac Zify.zify_post_hook ::= Z.div_mod_to_equations.

Lemma bN_byte_of_N n : bN (byte_of_N n) = (n mod 256)%N.
Proof.
  unfold byte_of_N, bN. destruct (Byte.of_N (n mod 256)) as [b|] eqn:E.
  - apply Byte.to_of_N in E. exact E.
  - apply Byte.of_N_None_iff in E. pose proof (N.mod_lt n 256 ltac:(discriminate)). lia.
Qed.

Lemma rd32_be32 n rest : u32 n -> rd32 (be32 n ++ rest) = n.
Proof.
  unfold u32. intros H. unfold be32. cbn [app rd32]. rewrite !bN_byte_of_N. lia.
Qed.

Lemma be32_length n : List.length (be32 n) = 4.
Proof. reflexivity. Qed.

Lemma enc_ientry_length e : List.length (enc_ientry e) = 16.
Proof. reflexivity. Qed.

Lemma skip_field {A} (a l : list A) k n : List.length a = k -> skipn (k + n) (a ++ l) = skipn n l.
Proof.
  intros <-. rewrite skipn_app. replace (List.length a + n - List.length a) with n by lia.
  rewrite skipn_all2 by lia. reflexivity.
Qed.

Lemma rd32_cons n rest : u32 n ->
  rd32 (byte_of_N (n / 16777216) :: byte_of_N (n / 65536) :: byte_of_N (n / 256) :: byte_of_N n :: rest) = n.
Proof. intros H. apply (rd32_be32 n rest H). Qed.

Lemma rd_ientry e rest : wf_ientry e ->
  {| ie_tag := rd32 (enc_ientry e ++ rest); ie_type := rd32 (skipn 4 (enc_ientry e ++ rest));
     ie_off := rd32 (skipn 8 (enc_ientry e ++ rest)); ie_cnt := rd32 (skipn 12 (enc_ientry e ++ rest)) |} = e.
Proof.
  intros (H1 & H2 & H3 & H4). unfold enc_ientry, be32. cbn [app skipn].
  rewrite !rd32_cons by assumption. destruct e; reflexivity.
Qed.

Lemma rd_index_all idx : Forall wf_ientry idx -> forall rest,
  rd_index (List.length idx) (List.concat (map enc_ientry idx) ++ rest) = idx.
Proof.
  induction 1 as [|e idx We _ IH]; intros rest; [reflexivity|].
  cbn [List.length map List.concat rd_index]. rewrite <- app_assoc.
  rewrite (rd_ientry e _ We). f_equal.
  rewrite (skipn_app_exact (enc_ientry e) _ 16 (enc_ientry_length e)). apply IH.
Qed.

Lemma index_bytes_length idx : List.length (List.concat (map enc_ientry idx)) = 16 * List.length idx.
Proof. induction idx as [|e idx IH]; [reflexivity|]. cbn [map List.concat List.length]. rewrite app_length, enc_ientry_length, IH. lia. Qed.

Lemma enc_section_length x : List.length (enc_section x) = 16 + 16 * List.length (rs_index x) + List.length (rs_store x).
Proof. unfold enc_section. rewrite !app_length, index_bytes_length. cbn [List.length section_magic be32]. lia. Qed.

Lemma rd_section_enc x rest : wf_section x -> rd_section (enc_section x ++ rest) = Some (x, rest).
Proof.
  intros (Wi & Wn & Ws). unfold rd_section, enc_section. rewrite <- !app_assoc.
  rewrite (firstn_app_exact section_magic _ 8 eq_refl). rewrite seqb_refl. cbn [negb].
  unfold section_magic, be32. cbn [app skipn].
  rewrite !rd32_cons by assumption.
  rewrite !Nat2N.id.
  set (ib := List.concat (map enc_ientry (rs_index x))).
  assert (Lib : List.length ib = 16 * List.length (rs_index x)) by apply index_bytes_length.
  assert (Hlen : Nat.ltb (List.length (ib ++ rs_store x ++ rest)) (16 * List.length (rs_index x) + List.length (rs_store x)) = false).
  { apply Nat.ltb_ge. rewrite !app_length. lia. }
  rewrite Hlen.
  unfold ib at 1. rewrite (rd_index_all _ Wi).
  rewrite (skipn_app_exact ib _ _ Lib). rewrite (firstn_app_exact (rs_store x) rest _ eq_refl).
  assert (Hskip : skipn (16 * List.length (rs_index x) + List.length (rs_store x)) (ib ++ rs_store x ++ rest) = rest).
  { rewrite app_assoc. apply skipn_app_exact. rewrite app_length. lia. }
  rewrite Hskip. destruct x; reflexivity.
Qed.

Lemma forallb_repeat_nul k : forallb (fun b => beq b rnul) (repeat rnul k) = true.
Proof. induction k as [|k IH]; [reflexivity|]. cbn [repeat forallb]. rewrite IH. reflexivity. Qed.

Theorem rpm_roundtrip f : wf_rpmfile f -> rpm_decode (rpm_encode f) = Some f.
Proof.
  intros (Hl & Hm & Wsig & Whdr). unfold rpm_decode, rpm_encode.
  assert (Hmagic : firstn 4 (rf_lead f ++ enc_section (rf_sig f) ++ repeat rnul (pad8 (List.length (rs_store (rf_sig f))))
                                ++ enc_section (rf_hdr f) ++ rf_payload f) = lead_magic).
  { rewrite firstn_app. rewrite Hl. cbn [Nat.sub firstn]. rewrite app_nil_r. exact Hm. }
  rewrite Hmagic, seqb_refl. cbn [negb orb].
  assert (Hlen : Nat.ltb (List.length (rf_lead f ++ enc_section (rf_sig f) ++ repeat rnul (pad8 (List.length (rs_store (rf_sig f))))
                                ++ enc_section (rf_hdr f) ++ rf_payload f)) 96 = false).
  { apply Nat.ltb_ge. rewrite app_length. lia. }
  rewrite Hlen.
  rewrite (skipn_app_exact (rf_lead f) _ 96 Hl), (firstn_app_exact (rf_lead f) _ 96 Hl).
  rewrite (rd_section_enc _ _ Wsig).
  set (p := pad8 (List.length (rs_store (rf_sig f)))).
  assert (Hp : Nat.ltb (List.length (repeat rnul p ++ enc_section (rf_hdr f) ++ rf_payload f)) p = false).
  { apply Nat.ltb_ge. rewrite app_length, repeat_length. lia. }
  rewrite Hp. rewrite (firstn_app_exact (repeat rnul p) _ p (repeat_length _ _)), forallb_repeat_nul. cbn [negb orb].
  rewrite (skipn_app_exact (repeat rnul p) _ p (repeat_length _ _)).
  rewrite (rd_section_enc _ _ Whdr). destruct f; reflexivity.
Qed.

(* the signature section is followed by exactly the padding that puts the header section at a multiple of 8 *)
Theorem header_aligned f : hdr_offset f mod 8 = 0.
Proof.
  unfold hdr_offset, pad8. rewrite enc_section_length.
  set (n := List.length (rs_index (rf_sig f))). set (hs := List.length (rs_store (rf_sig f))).
  lia.
Qed.

Lemma rpm_reencodes_sound s : rpm_reencodes s = true ->
  exists f, rpm_decode s = Some f /\ rpm_encode f = s /\ hdr_offset f mod 8 = 0.
Proof.
  unfold rpm_reencodes. destruct (rpm_decode s) as [f|]; [|discriminate].
  intros H. apply andb_prop in H. destruct H as [H1 _]. apply seqb_eq in H1.
  exists f. split; [reflexivity|]. split; [exact H1|apply header_aligned].
Qed.

(* what an rpm signature covers: the header section alone (RSA/SHA tags over the header) or the header section and
   the payload (the legacy tags) - in the stored file these are exactly the bytes from the aligned offset on *)
Theorem signed_region f : List.length (rf_lead f) = 96 ->
  skipn (hdr_offset f) (rpm_encode f) = enc_section (rf_hdr f) ++ rf_payload f /\
  firstn (List.length (enc_section (rf_hdr f))) (skipn (hdr_offset f) (rpm_encode f)) = enc_section (rf_hdr f).
Proof.
  intros Hl. unfold hdr_offset, rpm_encode.
  assert (E : skipn (96 + List.length (enc_section (rf_sig f)) + pad8 (List.length (rs_store (rf_sig f))))
                (rf_lead f ++ enc_section (rf_sig f) ++ repeat rnul (pad8 (List.length (rs_store (rf_sig f))))
                 ++ enc_section (rf_hdr f) ++ rf_payload f) = enc_section (rf_hdr f) ++ rf_payload f).
  { rewrite (app_assoc (rf_lead f)), (app_assoc (rf_lead f ++ enc_section (rf_sig f))).
    apply skipn_app_exact. rewrite !app_length, repeat_length, Hl. reflexivity. }
  rewrite E. split; [reflexivity|]. apply firstn_app_exact. reflexivity.
Qed.
