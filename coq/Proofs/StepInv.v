(* Every branch of the planning loop preserves the map invariant. *)
From Coq Require Import List NArith ZArith Lia Bool.
From Coq Require Import Strings.Byte.
From NfpmV Require Import Lib.Bytes Model.Path Model.Content Model.Prepare.
From NfpmV Require Import Proofs.PathFacts Proofs.MapFacts Proofs.KeyFacts Proofs.PrepInv.
Import ListNotations.

(* ---- trailing slashes do not change the components ---- *)
Lemma split_aux_snoc_slash : forall s acc, split_aux acc (s ++ [slash]) = split_aux acc s ++ [[]].
Proof.
  induction s as [|b s IH]; intros acc; cbn [app split_aux].
  - assert (is_slash slash = true) as -> by (apply is_slash_true; reflexivity). reflexivity.
  - destruct (is_slash b); [cbn [app]; f_equal; apply IH|apply IH].
Qed.

Lemma comps_abs_snoc_slash s : comps_abs (s ++ [slash]) = comps_abs s.
Proof.
  unfold comps_abs, split. rewrite split_aux_snoc_slash, clean_rooted_app.
  cbn [clean_rooted is_empty orb]. apply rev_involutive.
Qed.

Lemma drop_while_slash_rev : forall r, exists n, r = repeat slash n ++ drop_while is_slash r.
Proof.
  induction r as [|b r IH]; [exists 0; reflexivity|]. cbn [drop_while].
  destruct (is_slash b) eqn:E.
  - apply is_slash_true in E. subst. destruct IH as (n & IH). exists (S n). cbn [repeat app]. f_equal. exact IH.
  - exists 0. reflexivity.
Qed.

Lemma comps_abs_repeat_slash : forall n s, comps_abs (s ++ repeat slash n) = comps_abs s.
Proof.
  induction n as [|n IH]; intros s; cbn [repeat]; [rewrite app_nil_r; reflexivity|].
  change (slash :: repeat slash n) with ([slash] ++ repeat slash n). rewrite app_assoc, IH.
  apply comps_abs_snoc_slash.
Qed.

Lemma rev_repeat {A} (x : A) n : rev (repeat x n) = repeat x n.
Proof.
  induction n as [|n IH]; [reflexivity|]. cbn [repeat rev]. rewrite IH.
  clear IH. induction n as [|n IH]; [reflexivity|]. cbn [repeat app]. f_equal. exact IH.
Qed.

Lemma comps_abs_trim s : comps_abs (trim_right is_slash s) = comps_abs s.
Proof.
  unfold trim_right. destruct (drop_while_slash_rev (rev s)) as (n & E).
  assert (s = rev (drop_while is_slash (rev s)) ++ repeat slash n) as Es.
  { rewrite <- (rev_involutive s) at 1. rewrite E at 1. rewrite rev_app_distr, rev_repeat. reflexivity. }
  rewrite Es at 2. rewrite comps_abs_repeat_slash. reflexivity.
Qed.

Lemma norm_dir_key s : norm_dir s = dkey (comps_abs s).
Proof.
  destruct (norm_dir_shape s) as (cs & G & E). rewrite E.
  assert (comps_abs (norm_dir s) = comps_abs s) as C.
  { unfold norm_dir. rewrite norm_file_spec.
    pose proof (comps_abs_good (trim_right is_slash s)) as G0.
    destruct (seqb (abs_of (comps_abs (trim_right is_slash s))) [slash]).
    - rewrite comps_abs_abs_of by exact G0. apply comps_abs_trim.
    - rewrite comps_abs_snoc_slash, comps_abs_abs_of by exact G0. apply comps_abs_trim. }
  rewrite E, comps_abs_dkey in C by exact G. subst. reflexivity.
Qed.

Lemma norm_file_key s : norm_file s = fkey (comps_abs s).
Proof. reflexivity. Qed.

Lemma ancestor_dirs_same a b : comps_abs a = comps_abs b -> ancestor_dirs a = ancestor_dirs b.
Proof. unfold ancestor_dirs. intros ->. reflexivity. Qed.

(* ---- WithFileInfoDefaults keeps destination and packager, and only completes the type ---- *)
Lemma wd_dst st u mt c : c_dst (with_defaults st u mt c) = c_dst c.
Proof. unfold with_defaults. destruct (negb _ && negb _); [destruct (stat_of _ _)|]; reflexivity. Qed.
Lemma wd_pkgr st u mt c : c_pkgr (with_defaults st u mt c) = c_pkgr c.
Proof. unfold with_defaults. destruct (negb _ && negb _); [destruct (stat_of _ _)|]; reflexivity. Qed.
Lemma wd_src st u mt c : c_src (with_defaults st u mt c) = c_src c.
Proof. unfold with_defaults. destruct (negb _ && negb _); [destruct (stat_of _ _)|]; reflexivity. Qed.
Lemma wd_typ st u mt c : c_typ (with_defaults st u mt c) = if seqb (c_typ c) TNone then TFile else c_typ c.
Proof. unfold with_defaults. destruct (negb _ && negb _); [destruct (stat_of _ _)|]; reflexivity. Qed.

Lemma is_dir_typ_file : is_dir_typ TFile = false.
Proof. reflexivity. Qed.

Lemma wd_is_dir st u mt c : is_dir_typ (c_typ (with_defaults st u mt c)) = is_dir_typ (c_typ c).
Proof.
  rewrite wd_typ. destruct (seqb (c_typ c) TNone) eqn:E; [|reflexivity].
  apply seqb_eq in E. rewrite E. reflexivity.
Qed.

(* ---- inserting one planned entry after its parents ---- *)
Definition relevant_vals (packager : str) (m : cmap) : Prop :=
  forall k v, In (k, v) m -> is_relevant packager v = true.

Lemma implicit_relevant packager k mt : is_relevant packager (implicit_dir k mt) = true.
Proof.
  unfold is_relevant, implicit_dir; cbn [c_pkgr c_typ].
  destruct (seqb packager []); [reflexivity|]. cbn [seqb negb andb].
  destruct (negb (seqb packager P_rpm)); cbn [andb]; destruct (negb (seqb packager P_deb)); reflexivity.
Qed.

Lemma added_relevant packager m m' qs mt : relevant_vals packager m -> added_by m m' qs mt -> relevant_vals packager m'.
Proof.
  intros R [_ New] k v Hin. destruct (New k v Hin) as [H|(q & _ & _ & ->)]; [eapply R; eauto|apply implicit_relevant].
Qed.

(* the general insertion step shared by the dir, single-entry and globbed-file branches *)
Lemma insert_after_parents m path mt m1 k v (d : bool) :
  wf m -> add_parents m path mt = Ok m1 ->
  k = (if d then dkey (comps_abs path) else fkey (comps_abs path)) ->
  c_dst v = k -> is_dir_typ (c_typ v) = d ->
  (occupant m k = None \/
   (d = true /\ exists p, occupant m k = Some p /\ is_dir_typ (c_typ p) = true)) ->
  wf (m_set m1 k v).
Proof.
  intros W AP Ek Ed Et Occ.
  destruct (add_parents_spec _ _ _ _ W AP) as (W1 & A & Par).
  assert (vkey k (comps_abs path) d) as K by (split; [apply comps_abs_good|exact Ek]).
  assert (val_ok k v) as VO by (split; [exact Ed|exists (comps_abs path); rewrite Et; exact K]).
  assert (comps_abs k = comps_abs path) as Ck by (apply (vkey_comps _ _ _ K)).
  destruct Occ as [O|(-> & p & O & Dp)].
  - apply wf_insert_fresh; [exact W1|exact VO| |].
    + rewrite Ck. apply (added_not_at _ _ _ _ A). intros k' v' Hin.
      apply (occupant_none _ _ _ _ (wf_vals _ W) K O _ _ Hin).
    + intros a Ha. apply Par. rewrite <- (ancestor_dirs_same k path Ck). exact Ha.
  - pose proof (occupant_dir_at _ _ _ _ (wf_vals _ W) K O Dp) as G.
    apply (wf_replace _ _ p); [exact W1| |exact VO|intros _; exact Et].
    apply m_get_of_in; [apply (wf_nodup _ W1)|]. apply (proj1 A). apply m_get_in. exact G.
Qed.

(* ---- relevance depends on packager tag and type only ---- *)
Lemma is_relevant_ext packager a b : c_pkgr a = c_pkgr b -> c_typ a = c_typ b ->
  is_relevant packager a = is_relevant packager b.
Proof. unfold is_relevant. intros -> ->. reflexivity. Qed.

Lemma is_relevant_none_file packager a b : c_pkgr a = c_pkgr b -> c_typ a = TNone -> c_typ b = TFile ->
  is_relevant packager a = is_relevant packager b.
Proof. unfold is_relevant. intros -> -> ->. reflexivity. Qed.

Lemma wd_relevant packager st u mt c : is_relevant packager (with_defaults st u mt c) = is_relevant packager c.
Proof.
  destruct (seqb (c_typ c) TNone) eqn:E.
  - symmetry. apply is_relevant_none_file; [rewrite wd_pkgr; reflexivity|apply seqb_eq; exact E|].
    rewrite wd_typ, E. reflexivity.
  - apply is_relevant_ext; [apply wd_pkgr|]. rewrite wd_typ, E. reflexivity.
Qed.

Lemma relevant_set packager m k v : NoDup (map fst m) -> relevant_vals packager m -> is_relevant packager v = true ->
  relevant_vals packager (m_set m k v).
Proof.
  intros ND R Hv k' v' Hin. apply m_set_in in Hin; [|exact ND].
  destruct Hin as [[_ ->]|[_ Hin]]; [exact Hv|eapply R; eauto].
Qed.

(* ---- dir and single-entry branches ---- *)
Lemma not_dir_typ t : seqb t TDir = false -> seqb t TImplicitDir = false -> is_dir_typ t = false.
Proof. intros H1 H2. unfold is_dir_typ, typ_in. cbn [existsb]. rewrite H1, H2. reflexivity. Qed.

Lemma implicit_is_dir t : seqb t TImplicitDir = true -> is_dir_typ t = true.
Proof. intros H. apply seqb_eq in H. subst. reflexivity. Qed.

Lemma step_dir_wf st umask packager mt m c m1 :
  wf m -> relevant_vals packager m -> is_relevant packager c = true -> seqb (c_typ c) TDir = true ->
  match occupant m (norm_dir (c_dst c)) with Some p => negb (seqb (c_typ p) TImplicitDir) | None => false end = false ->
  add_parents m (c_dst c) mt = Ok m1 ->
  let cc := with_defaults st umask mt c in
  let cc' := set_src_dst cc (to_nix (c_src cc)) (norm_dir (c_dst cc)) in
  wf (m_set m1 (c_dst cc') cc') /\ relevant_vals packager (m_set m1 (c_dst cc') cc').
Proof.
  intros W R Rc T Occ AP cc cc'.
  destruct (add_parents_spec _ _ _ _ W AP) as (W1 & A & _).
  assert (c_dst cc' = dkey (comps_abs (c_dst c))) as Ek.
  { unfold cc', cc. cbn [set_src_dst c_dst]. rewrite wd_dst. apply norm_dir_key. }
  assert (is_dir_typ (c_typ cc') = true) as Dt.
  { unfold cc', cc. cbn [set_src_dst c_typ]. rewrite wd_is_dir. apply seqb_eq in T. rewrite T. reflexivity. }
  split.
  - apply (insert_after_parents m (c_dst c) mt m1 _ _ true W AP Ek eq_refl Dt).
    rewrite Ek. rewrite <- norm_dir_key.
    destruct (occupant m (norm_dir (c_dst c))) as [p|]; [right|left; reflexivity].
    split; [reflexivity|]. exists p. split; [reflexivity|]. apply implicit_is_dir.
    destruct (seqb (c_typ p) TImplicitDir); [reflexivity|discriminate].
  - apply relevant_set; [apply (wf_nodup _ W1)|eapply added_relevant; eauto|].
    rewrite <- Rc. unfold cc', cc. rewrite <- (wd_relevant packager st umask mt c). apply is_relevant_ext; reflexivity.
Qed.

Lemma step_single_wf st umask packager mt m c m1 :
  wf m -> relevant_vals packager m -> is_relevant packager c = true ->
  seqb (c_typ c) TDir = false -> seqb (c_typ c) TImplicitDir = false ->
  occupant m (norm_file (c_dst c)) = None ->
  add_parents m (c_dst c) mt = Ok m1 ->
  let cc := with_defaults st umask mt c in
  let cc' := set_src_dst cc (to_nix (c_src cc)) (norm_file (c_dst cc)) in
  wf (m_set m1 (c_dst cc') cc') /\ relevant_vals packager (m_set m1 (c_dst cc') cc').
Proof.
  intros W R Rc T1 T2 Occ AP cc cc'.
  destruct (add_parents_spec _ _ _ _ W AP) as (W1 & A & _).
  assert (c_dst cc' = fkey (comps_abs (c_dst c))) as Ek.
  { unfold cc', cc. cbn [set_src_dst c_dst]. rewrite wd_dst. apply norm_file_key. }
  assert (is_dir_typ (c_typ cc') = false) as Dt.
  { unfold cc', cc. cbn [set_src_dst c_typ]. rewrite wd_is_dir. apply not_dir_typ; assumption. }
  split.
  - apply (insert_after_parents m (c_dst c) mt m1 _ _ false W AP Ek eq_refl Dt).
    left. rewrite Ek. exact Occ.
  - apply relevant_set; [apply (wf_nodup _ W1)|eapply added_relevant; eauto|].
    rewrite <- Rc. unfold cc', cc. rewrite <- (wd_relevant packager st umask mt c). apply is_relevant_ext; reflexivity.
Qed.

(* ---- globbed files ---- *)
Lemma symlink_relevant packager a b : c_pkgr a = c_pkgr b -> c_typ a = TSymlink -> c_typ b = TFile ->
  is_relevant packager a = is_relevant packager b.
Proof. unfold is_relevant. intros -> -> ->. reflexivity. Qed.

Definition file_like (t : str) : bool := typ_in t [TConfig; TConfigNoReplace; TConfigMissingOK; TFile; TNone].

Lemma file_like_relevant packager a b : c_pkgr a = c_pkgr b -> file_like (c_typ a) = true ->
  (c_typ b = TSymlink \/ c_typ b = TFile \/ c_typ b = c_typ a) -> is_relevant packager a = is_relevant packager b.
Proof.
  intros Hp Ha [Hb|[Hb|Hb]]; [| |apply is_relevant_ext; auto].
  - revert Ha. unfold is_relevant, file_like, typ_in. rewrite Hp, Hb. cbn [existsb].
    repeat rewrite orb_true_iff. intros [Ha|[Ha|[Ha|[Ha|[Ha|Ha]]]]]; try discriminate; apply seqb_eq in Ha; rewrite Ha; reflexivity.
  - revert Ha. unfold is_relevant, file_like, typ_in. rewrite Hp, Hb. cbn [existsb].
    repeat rewrite orb_true_iff. intros [Ha|[Ha|[Ha|[Ha|[Ha|Ha]]]]]; try discriminate; apply seqb_eq in Ha; rewrite Ha; reflexivity.
Qed.

Lemma globbed_file_facts st umask mt orig g dst :
  is_dir_typ (c_typ orig) = false ->
  let v := globbed_file st umask mt orig g dst in
  c_dst v = norm_file dst /\ is_dir_typ (c_typ v) = false /\ c_pkgr v = c_pkgr orig /\
  (c_typ v = TSymlink \/ c_typ v = TFile \/ c_typ v = c_typ orig).
Proof.
  intros D v. unfold v, globbed_file. destruct (gm_readlink g); cbn [c_dst c_typ c_pkgr].
  - rewrite wd_dst, wd_pkgr. cbn [c_dst c_pkgr]. repeat split; auto.
  - rewrite wd_dst, wd_pkgr, wd_is_dir, wd_typ. cbn [c_dst c_typ c_pkgr].
    repeat split; auto. destruct (seqb (c_typ orig) TNone); auto.
Qed.

Lemma add_globbed_wf st umask packager mt orig : is_dir_typ (c_typ orig) = false ->
  file_like (c_typ orig) = true -> is_relevant packager orig = true ->
  forall pairs all all', wf all -> relevant_vals packager all ->
  add_globbed st umask mt orig all pairs = Ok all' -> wf all' /\ relevant_vals packager all'.
Proof.
  intros D FL Ro. induction pairs as [|[g d] rest IH]; intros all all' W R H; cbn [add_globbed] in H.
  - injection H as <-. auto.
  - destruct (occupant all (norm_file d)) eqn:O; [discriminate|].
    destruct (add_parents all (norm_file d) mt) as [all1|e] eqn:AP; [|discriminate].
    destruct (globbed_file_facts st umask mt orig g (norm_file d) D) as (Ed & Dt & Ep & Et).
    set (v := globbed_file st umask mt orig g (norm_file d)) in *.
    destruct (add_parents_spec _ _ _ _ W AP) as (W1 & A & _).
    apply (IH _ _) in H; [exact H| |].
    + apply (insert_after_parents all (norm_file d) mt all1 (norm_file d) v false W AP); auto.
      * rewrite <- norm_file_key. symmetry. apply norm_file_idem.
      * rewrite Ed. apply norm_file_idem.
    + apply relevant_set; [apply (wf_nodup _ W1)|eapply added_relevant; eauto|].
      rewrite <- Ro. symmetry. apply file_like_relevant; auto.
Qed.

(* ---- trees ---- *)
From NfpmV Require Import Spec.C05.

Lemma tree_item_facts fs st umask mt tree w c : tree_item fs st umask mt tree w = Ok c ->
  c_pkgr c = [] /\
  exists path, (is_dir_typ (c_typ c) = true /\ c_dst c = dkey (comps_abs path) /\ (c_typ c = TDir \/ c_typ c = TImplicitDir))
            \/ (is_dir_typ (c_typ c) = false /\ c_dst c = fkey (comps_abs path) /\ (c_typ c = TSymlink \/ c_typ c = TFile)).
Proof.
  unfold tree_item. destruct (rel_path (c_src tree) (witem_path w)) as [relp|]; [|discriminate].
  destruct (match c_fi tree with Some f => _ | None => _ end) as [owner group].
  destruct w as [p md mtm|p target|p dt]; intros H; injection H as <-; rewrite wd_pkgr, wd_dst, wd_is_dir, wd_typ; cbn [c_pkgr c_dst c_typ].
  - split; [reflexivity|]. exists (join2 (c_dst tree) relp). left.
    destruct (owned_by_fs fs (norm_dir (join2 (c_dst tree) relp))); cbn; (split; [reflexivity|split; [apply norm_dir_key|auto]]).
  - split; [reflexivity|]. exists (join2 (c_dst tree) relp). right. cbn. auto.
  - split; [reflexivity|]. exists (join2 (c_dst tree) relp). right. cbn. auto.
Qed.

Lemma tree_item_relevant packager c : c_pkgr c = [] ->
  (c_typ c = TDir \/ c_typ c = TImplicitDir \/ c_typ c = TSymlink \/ c_typ c = TFile) -> is_relevant packager c = true.
Proof.
  intros Hp Ht. unfold is_relevant. rewrite Hp. cbn [seqb negb andb].
  destruct (seqb packager []); [reflexivity|].
  destruct Ht as [-> | [-> | [-> | ->]]]; cbn; rewrite !andb_false_r; reflexivity.
Qed.

Lemma add_tree_items_wf fs st umask packager mt tree : forall ws all all' seen,
  wf all -> relevant_vals packager all -> (forall a, In a seen -> dir_at all a) ->
  walk_closedb fs st umask mt tree seen ws = true ->
  add_tree_items fs st umask mt tree all ws = Ok all' -> wf all' /\ relevant_vals packager all'.
Proof.
  induction ws as [|w ws IH]; intros all all' seen W R S WC H; cbn [add_tree_items] in H.
  - injection H as <-. auto.
  - cbn [walk_closedb] in WC. destruct (tree_item fs st umask mt tree w) as [c|e] eqn:TI; [|discriminate].
    apply andb_true_iff in WC as [Anc WC].
    destruct (tree_item_facts _ _ _ _ _ _ _ TI) as (Hp & path & Facts).
    assert (exists d, is_dir_typ (c_typ c) = d /\ vkey (c_dst c) (comps_abs path) d) as (d & Dt & K).
    { destruct Facts as [(D & E & _)|(D & E & _)]; [exists true|exists false]; (split; [exact D|split; [apply comps_abs_good|exact E]]). }
    assert (val_ok (c_dst c) c) as VO by (split; [reflexivity|exists (comps_abs path); rewrite Dt; exact K]).
    assert (is_relevant packager c = true) as Rc.
    { apply tree_item_relevant; [exact Hp|]. destruct Facts as [(_ & _ & [?|?])|(_ & _ & [?|?])]; auto. }
    assert (forall a, In a (ancestor_dirs (c_dst c)) -> dir_at all a) as Par.
    { intros a Ha. apply S. rewrite forallb_forall in Anc. specialize (Anc a Ha).
      apply existsb_exists in Anc as (a' & Ha' & E). apply seqb_eq in E. subst. exact Ha'. }
    destruct (occupant all (c_dst c)) as [p|] eqn:O.
    + destruct (negb (seqb (c_typ p) TImplicitDir) || negb (is_dir_typ (c_typ c))) eqn:B; [discriminate|].
      apply orb_false_iff in B as [B1 B2]. apply negb_false_iff in B1, B2.
      rewrite B2 in Dt. subst d.
      pose proof (occupant_dir_at _ _ _ _ (wf_vals _ W) K O (implicit_is_dir _ B1)) as G.
      assert (wf (m_set all (c_dst c) c)) as W'.
      { apply (wf_replace _ _ p); [exact W|exact G|exact VO|intros _; exact B2]. }
      apply (IH _ _ (if is_dir_typ (c_typ c) then c_dst c :: seen else seen) W') in H; [exact H| | |exact WC].
      * apply relevant_set; [apply (wf_nodup _ W)|exact R|exact Rc].
      * rewrite B2. intros a [<-|Ha].
        -- exists c. split; [apply m_set_new|exact B2].
        -- destruct (S a Ha) as (va & Hva & Dva).
           destruct (list_eq_dec Byte.byte_eq_dec a (c_dst c)) as [->|Hne].
           ++ exists c. split; [apply m_set_new|exact B2].
           ++ exists va. split; [apply m_set_keep; assumption|exact Dva].
    + pose proof (occupant_none _ _ _ _ (wf_vals _ W) K O) as Fresh.
      assert (wf (m_set all (c_dst c) c)) as W'.
      { apply wf_insert_fresh; [exact W|exact VO| |exact Par].
        intros k' v' Hin. rewrite (vkey_comps _ _ _ K). eapply Fresh; eauto. }
      apply (IH _ _ (if is_dir_typ (c_typ c) then c_dst c :: seen else seen) W') in H; [exact H| | |exact WC].
      * apply relevant_set; [apply (wf_nodup _ W)|exact R|exact Rc].
      * assert (forall a, In a seen -> dir_at (m_set all (c_dst c) c) a) as S'.
        { intros a Ha. destruct (S a Ha) as (va & Hva & Dva). exists va. split; [|exact Dva].
          apply m_set_keep; [exact Hva|]. intros ->. apply (Fresh _ _ Hva). apply (vkey_comps _ _ _ K). }
        destruct (is_dir_typ (c_typ c)) eqn:Dc; [|exact S'].
        intros a [<-|Ha]; [|apply S'; exact Ha]. exists c. split; [apply m_set_new|exact Dc].
Qed.

Lemma add_tree_wf fs st umask packager mt tree wa all all' :
  wf all -> relevant_vals packager all ->
  match wa with WOk ws => walk_closedb fs st umask mt tree (ancestor_dirs (c_dst tree)) ws = true | WErr _ => True end ->
  add_tree fs st umask mt tree wa all = Ok all' -> wf all' /\ relevant_vals packager all'.
Proof.
  intros W R WC H. unfold add_tree in H.
  destruct (if negb (seqb (c_dst tree) [slash]) && negb (seqb (c_dst tree) []) then _ else false); [discriminate|].
  destruct (add_parents all (c_dst tree) mt) as [all1|e] eqn:AP; [|discriminate].
  destruct wa as [e|ws]; [discriminate|].
  destruct (add_parents_spec _ _ _ _ W AP) as (W1 & A & Par).
  eapply add_tree_items_wf; [exact W1|eapply added_relevant; eauto|exact Par|exact WC|exact H].
Qed.

(* ---- the whole loop ---- *)
Lemma step_wf fs st umask packager mt m ce m' :
  wf m -> relevant_vals packager m ->
  (let '(c, eo) := ce in
   if seqb (c_typ c) TTree then
     match eo_walk eo with
     | WOk ws => walk_closedb fs st umask mt c (ancestor_dirs (c_dst c)) ws
     | WErr _ => true
     end
   else true) = true ->
  step fs st umask packager mt m ce = Ok m' -> wf m' /\ relevant_vals packager m'.
Proof.
  intros W R OK H. destruct ce as [c eo]. unfold step in H.
  destruct (is_relevant packager c) eqn:Rc; cbn [negb] in H; [|injection H as <-; auto].
  destruct (seqb (c_typ c) TDir) eqn:T1.
  { destruct (match occupant m (norm_dir (c_dst c)) with Some p => _ | None => false end) eqn:Occ; [discriminate|].
    destruct (add_parents m (c_dst c) mt) as [m1|e] eqn:AP; [|discriminate].
    injection H as <-. apply (step_dir_wf st umask packager mt m c m1); assumption. }
  destruct (seqb (c_typ c) TImplicitDir) eqn:T2; [injection H as <-; auto|].
  destruct (typ_in (c_typ c) [TGhost; TSymlink; TDoc; TLicence; TLicense; TReadme; TDebChangelog]) eqn:T3.
  { destruct (occupant m (norm_file (c_dst c))) eqn:Occ; [discriminate|].
    destruct (add_parents m (c_dst c) mt) as [m1|e] eqn:AP; [|discriminate].
    injection H as <-. apply (step_single_wf st umask packager mt m c m1); assumption. }
  destruct (seqb (c_typ c) TTree) eqn:T4.
  { eapply add_tree_wf; [exact W|exact R| |exact H]. destruct (eo_walk eo); [exact I|exact OK]. }
  destruct (typ_in (c_typ c) [TConfig; TConfigNoReplace; TConfigMissingOK; TFile; TNone]) eqn:T5; [|discriminate].
  destruct (eo_glob eo) as [e|pattern ms use_lcp]; [discriminate|].
  destruct ms as [|g0 ms0]; [discriminate|].
  destruct (glob_pairs _ _ _) as [pairs|e]; [|discriminate].
  exact (add_globbed_wf st umask packager mt c (not_dir_typ _ T1 T2) T5 Rc pairs m m' W R H).
Qed.

Lemma steps_wf fs st umask packager mt : forall ces m m',
  wf m -> relevant_vals packager m -> oracle_okb fs st umask mt ces = true ->
  steps fs st umask packager mt m ces = Ok m' -> wf m' /\ relevant_vals packager m'.
Proof.
  induction ces as [|ce ces IH]; intros m m' W R OK H; cbn [steps] in H.
  - injection H as <-. auto.
  - cbn [oracle_okb forallb] in OK. apply andb_true_iff in OK as [OK1 OK2].
    destruct (step fs st umask packager mt m ce) as [m1|e] eqn:S; [|discriminate].
    destruct (step_wf _ _ _ _ _ _ _ _ W R OK1 S) as [W1 R1].
    eapply IH; eauto.
Qed.
