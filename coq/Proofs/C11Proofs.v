(* C11: writes that only cross references allocated during the operation leave every older cell as it is; hence
   any history of such operations leaves the parsed configuration's heap unchanged and every output equals the
   output of the same operation on a fresh configuration. *)
From Coq Require Import List NArith ZArith Bool Arith Lia.
From Coq Require Import Strings.Byte.
From NfpmV Require Import Lib.Bytes Model.History.
Import ListNotations.
Open Scope list_scope.

Definition frozen (n : nat) (h h' : heap) : Prop :=
  List.length h <= List.length h' /\ forall l, l < n -> nth_error h' l = nth_error h l.

Lemma frozen_refl n h : frozen n h h.
Proof. split; [lia|reflexivity]. Qed.

Lemma frozen_trans n h1 h2 h3 : frozen n h1 h2 -> frozen n h2 h3 -> frozen n h1 h3.
Proof. intros [L1 F1] [L2 F2]. split; [lia|]. intros l Hl. rewrite F2, F1 by exact Hl. reflexivity. Qed.

Lemma length_upd l c h : List.length (upd l c h) = List.length h.
Proof. revert l; induction h as [|x h IH]; intros [|l]; cbn [upd List.length]; try reflexivity. rewrite IH. reflexivity. Qed.

Lemma nth_error_upd_other l c h l0 : l0 <> l -> nth_error (upd l c h) l0 = nth_error h l0.
Proof.
  revert l l0; induction h as [|x h IH]; intros [|l] [|l0] Hne; cbn [upd nth_error]; try reflexivity.
  - congruence.
  - apply IH. congruence.
Qed.

Lemma frozen_app n h e : n <= List.length h -> frozen n h (h ++ e).
Proof.
  intros Hn. split; [rewrite app_length; lia|]. intros l Hl. apply nth_error_app1. lia.
Qed.

(* a private assignment leaves every cell below [n] alone *)
Lemma set_path_frozen n : forall p h v x h' v',
  private_path n h v p = true -> set_path h v p x = Some (h', v') -> frozen n h h'.
Proof.
  induction p as [|k rest IH]; intros h v x h' v' Hp Hs.
  - cbn [set_path] in Hs. inversion Hs; subst. apply frozen_refl.
  - cbn [set_path private_path] in Hs, Hp. destruct v as [s|fs|rk l]; [discriminate Hs| |].
    + destruct (hlookup k fs) as [y|]; [|discriminate Hs].
      destruct (set_path h y rest x) as [[h1 y1]|] eqn:E; [|discriminate Hs].
      inversion Hs; subst. apply (IH _ _ _ _ _ Hp E).
    + apply andb_true_iff in Hp. destruct Hp as [Hnl Hp]. apply Nat.leb_le in Hnl.
      destruct (nth_error h l) as [c|]; [|discriminate Hs].
      destruct (hlookup k c) as [y|].
      2:{ destruct rest; [|discriminate Hs]. inversion Hs; subst. split; [rewrite length_upd; lia|].
          intros l0 Hl0. apply nth_error_upd_other. lia. }
      destruct (set_path h y rest x) as [[h1 y1]|] eqn:E; [|discriminate Hs].
      destruct (nth_error h1 l) as [c'|]; [|discriminate Hs].
      inversion Hs; subst. pose proof (IH _ _ _ _ _ Hp E) as [L F].
      split; [rewrite length_upd; exact L|].
      intros l0 Hl0. rewrite nth_error_upd_other by lia. apply F. exact Hl0.
Qed.

(* looking at a longer heap does not change what a path means or whether it is private *)
Lemma private_path_app n e : forall p h v, private_path n h v p = true -> private_path n (h ++ e) v p = true.
Proof.
  induction p as [|k rest IH]; intros h v Hp; [reflexivity|].
  cbn [private_path] in *. destruct v as [s|fs|rk l]; [discriminate Hp| |].
  - destruct (hlookup k fs); [apply IH; exact Hp|discriminate Hp].
  - apply andb_true_iff in Hp. destruct Hp as [Hnl Hp]. rewrite Hnl. cbn [andb].
    destruct (nth_error h l) as [c|] eqn:E; [|discriminate Hp].
    rewrite (nth_error_app1 h e) by (apply nth_error_Some; congruence). rewrite E.
    destruct (hlookup k c); [apply IH; exact Hp|exact Hp].
Qed.

Lemma exec_wr_frozen n h v w h' v' :
  n <= List.length h -> private_path n h v (wr_path w) = true -> exec_wr (h, v) w = Some (h', v') -> frozen n h h'.
Proof.
  intros Hn Hp He. destruct w as [p x|rk p c|p]; cbn [exec_wr wr_path] in *.
  - apply (set_path_frozen n _ _ _ _ _ _ Hp He).
  - apply (frozen_trans n h (h ++ [c])); [apply frozen_app; exact Hn|].
    eapply (set_path_frozen n p (h ++ [c]) v); [apply private_path_app; exact Hp|exact He].
  - destruct (get_path h v p) as [[s|fs|rk l]|]; try discriminate He.
    destruct (nth_error h l) as [c|]; [|discriminate He].
    apply (frozen_trans n h (h ++ [c])); [apply frozen_app; exact Hn|].
    eapply (set_path_frozen n p (h ++ [c]) v); [apply private_path_app; exact Hp|exact He].
Qed.

Lemma exec_wr_total_frozen n hv w :
  n <= List.length (fst hv) -> private_path n (fst hv) (snd hv) (wr_path w) = true ->
  frozen n (fst hv) (fst (exec_wr_total hv w)).
Proof.
  destruct hv as [h v]. cbn [fst snd]. intros Hn Hp. unfold exec_wr_total.
  destruct (exec_wr (h, v) w) as [[h' v']|] eqn:E; cbn [fst]; [|apply frozen_refl].
  apply (exec_wr_frozen n h v w h' v' Hn Hp E).
Qed.

Lemma exec_wrs_cons n hv w r :
  exec_wrs n hv (w :: r) =
  (fst (exec_wrs n (exec_wr_total hv w) r),
   private_path n (fst hv) (snd hv) (wr_path w) && snd (exec_wrs n (exec_wr_total hv w) r)).
Proof. cbn [exec_wrs]. destruct (exec_wrs n (exec_wr_total hv w) r). reflexivity. Qed.

Lemma exec_script_cons n hv f r :
  exec_script n hv (f :: r) =
  (fst (exec_script n (fst (exec_wrs n hv (f (fst hv) (snd hv)))) r),
   snd (exec_wrs n hv (f (fst hv) (snd hv))) && snd (exec_script n (fst (exec_wrs n hv (f (fst hv) (snd hv)))) r)).
Proof.
  cbn [exec_script]. destruct (exec_wrs n hv (f (fst hv) (snd hv))) as [hv' ok]. cbn [fst snd].
  destruct (exec_script n hv' r). reflexivity.
Qed.

Lemma exec_wrs_frozen n : forall ws hv,
  n <= List.length (fst hv) -> snd (exec_wrs n hv ws) = true -> frozen n (fst hv) (fst (fst (exec_wrs n hv ws))).
Proof.
  induction ws as [|w r IH]; intros hv Hn Hok; [apply frozen_refl|].
  rewrite exec_wrs_cons in *. cbn [fst snd] in *.
  apply andb_true_iff in Hok. destruct Hok as [Hp Hok].
  pose proof (exec_wr_total_frozen n hv w Hn Hp) as F1.
  assert (Hn' : n <= List.length (fst (exec_wr_total hv w))) by (destruct F1; lia).
  apply (frozen_trans n _ _ _ F1 (IH (exec_wr_total hv w) Hn' Hok)).
Qed.

Lemma exec_script_frozen n : forall s hv,
  n <= List.length (fst hv) -> snd (exec_script n hv s) = true -> frozen n (fst hv) (fst (fst (exec_script n hv s))).
Proof.
  induction s as [|f r IH]; intros hv Hn Hok; [apply frozen_refl|].
  rewrite exec_script_cons in *. cbn [fst snd] in *.
  apply andb_true_iff in Hok. destruct Hok as [Hok Hok'].
  pose proof (exec_wrs_frozen n (f (fst hv) (snd hv)) hv Hn Hok) as F1.
  assert (Hn' : n <= List.length (fst (fst (exec_wrs n hv (f (fst hv) (snd hv)))))) by (destruct F1; lia).
  apply (frozen_trans n _ _ _ F1 (IH _ Hn' Hok')).
Qed.

Lemma firstn_frozen h h' : frozen (List.length h) h h' -> firstn (List.length h) h' = h.
Proof.
  revert h'; induction h as [|x h IH]; intros h' [L F]; [reflexivity|].
  destruct h' as [|x' h']; [cbn [List.length] in L; lia|].
  cbn [List.length firstn]. f_equal.
  - specialize (F 0). cbn [nth_error List.length] in F. assert (0 < S (List.length h)) as H0 by lia. specialize (F H0). congruence.
  - apply IH. split; [cbn [List.length] in L; lia|]. intros l Hl. apply (F (S l)). cbn [List.length]. lia.
Qed.

Section Machine.
  Variable op : Type.
  Variable script_of : op -> script.
  Variable output : Type.
  Variable render : op -> heap -> hval -> output.

  Notation run_op := (run_op op script_of output render).
  Notation run_history := (run_history op script_of output render).
  Notation fresh_output := (fresh_output op script_of output render).

  Definition private_op (root : hval) (h : heap) (o : op) : bool := snd (snd (run_op root h o)).

  (* an operation all of whose writes are private leaves the configuration's heap exactly as it was *)
  Lemma run_op_private root h o : private_op root h o = true -> fst (run_op root h o) = h.
  Proof.
    unfold private_op, History.run_op. destruct (exec_script (List.length h) (h, root) (script_of o)) as [res ok] eqn:E.
    cbn [fst snd]. intros Hok. apply firstn_frozen.
    pose proof (exec_script_frozen (List.length h) (script_of o) (h, root)) as F. rewrite E in F. cbn [fst snd] in F.
    apply F; [lia|exact Hok].
  Qed.

  Lemma run_history_cons root h o r :
    run_history root h (o :: r) =
    (fst (run_history root (fst (run_op root h o)) r), snd (run_op root h o) :: snd (run_history root (fst (run_op root h o)) r)).
  Proof.
    cbn [History.run_history]. destruct (run_op root h o) as [h' out]. cbn [fst snd].
    destruct (History.run_history op script_of output render root h' r). reflexivity.
  Qed.

  (* ANY history of operations that are private on the fresh configuration: the configuration's heap at the end
     is the heap at the start, and every operation's output is its output on the fresh configuration *)
  Theorem history_isolated root h : forall ops,
    (forall o, In o ops -> private_op root h o = true) ->
    fst (run_history root h ops) = h /\
    map fst (snd (run_history root h ops)) = map (fresh_output root h) ops /\
    forallb snd (snd (run_history root h ops)) = true.
  Proof.
    induction ops as [|o r IH]; intros Hall; [repeat split|].
    rewrite run_history_cons. cbn [fst snd map forallb].
    assert (Hp : private_op root h o = true) by (apply Hall; left; reflexivity).
    rewrite (run_op_private root h o Hp).
    assert (Hr : forall o0, In o0 r -> private_op root h o0 = true) by (intros o0 Hin; apply Hall; right; exact Hin).
    destruct (IH Hr) as [I1 [I2 I3]]. repeat split.
    - exact I1.
    - f_equal. exact I2.
    - rewrite I3. unfold private_op in Hp. rewrite Hp. reflexivity.
  Qed.

  (* the converse direction the check uses: the first non-private operation of a history is flagged *)
  Lemma history_flags root h ops :
    forallb snd (snd (run_history root h ops)) = false -> exists o, In o ops /\ private_op root h o = false.
  Proof.
    intros Hf. destruct (forallb (fun o => private_op root h o) ops) eqn:E.
    - exfalso. rewrite forallb_forall in E. destruct (history_isolated root h ops E) as [_ [_ H3]]. congruence.
    - clear Hf. induction ops as [|o r IHr]; [discriminate E|]. cbn [forallb] in E.
      destruct (private_op root h o) eqn:Eo.
      + cbn [andb] in E. destruct (IHr E) as [o' [Hin Ho']]. exists o'. split; [right; exact Hin|exact Ho'].
      + exists o. split; [left; reflexivity|exact Eo].
  Qed.
End Machine.

(* ---------- dropping the operation's own cells is sound: nothing the configuration reaches is lost ---------- *)
Fixpoint vclosed (n : nat) (v : hval) : bool :=
  match v with
  | HS _ => true
  | HT fs => forallb (fun kv => vclosed n (snd kv)) fs
  | HR _ l => l <? n
  end.

Definition hclosed (n : nat) (h : heap) : Prop :=
  forall l c, l < n -> nth_error h l = Some c -> forallb (fun kv => vclosed n (snd kv)) c = true.

Lemma nth_error_firstn_lt {A} n (h : list A) l : l < n -> nth_error (firstn n h) l = nth_error h l.
Proof.
  revert h l; induction n as [|n IH]; intros h l Hl; [lia|].
  destruct h as [|x h]; [destruct l; reflexivity|]. destruct l as [|l]; [reflexivity|].
  cbn [firstn nth_error]. apply IH. lia.
Qed.

Lemma den_firstn n h : hclosed n h -> forall fuel v, vclosed n v = true -> den fuel (firstn n h) v = den fuel h v.
Proof.
  intros Hc. induction fuel as [|f IH]; intros v Hv; [reflexivity|].
  cbn [den]. destruct v as [s|fs|rk l]; [reflexivity| |].
  - f_equal. apply map_ext_in. intros [k x] Hin. cbn [fst snd]. f_equal. apply IH.
    cbn [vclosed] in Hv. rewrite forallb_forall in Hv. apply (Hv (k, x) Hin).
  - cbn [vclosed] in Hv. apply Nat.ltb_lt in Hv. rewrite nth_error_firstn_lt by exact Hv.
    destruct (nth_error h l) as [c|] eqn:E; [|reflexivity].
    f_equal. apply map_ext_in. intros [k x] Hin. cbn [fst snd]. f_equal. apply IH.
    pose proof (Hc l c Hv E) as Hcl. rewrite forallb_forall in Hcl. apply (Hcl (k, x) Hin).
Qed.
