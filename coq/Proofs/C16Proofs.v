(* C16: os.Expand leaves dollar-free text alone; list items are trimmed and filtered in order; the passphrase
   precedence; content fields only expand on opt-in; strict decoding only accepts known keys at every level. *)
From Coq Require Import List NArith ZArith Lia Bool String.
From Coq Require Import Strings.Byte.
From NfpmV Require Import Lib.Bytes Model.Path Model.Content Model.Meta Model.TypeTree Model.Expand Spec.C16.
Import ListNotations.
Open Scope list_scope.

Lemma expand_no_dollar m : forall fuel s, ~ In dollar s -> expand fuel m s = s.
Proof.
  induction fuel as [|f IH]; intros s H; [reflexivity|]. destruct s as [|b r]; [reflexivity|]. cbn [expand].
  assert (beq b dollar = false) as -> by (apply beq_neq; intros ->; apply H; left; reflexivity).
  cbn [andb]. f_equal. apply IH. intros H'. apply H. right. exact H'.
Qed.

Theorem no_dollar_identity m s : ~ In dollar s -> os_expand m s = s.
Proof. apply expand_no_dollar. Qed.

Theorem expand_list_iff env items x :
  In x (expand_list env items) <-> exists s, In s items /\ x = trim_space (os_expand (env_of env) s) /\ nonempty x = true.
Proof.
  unfold expand_list. rewrite filter_In, in_map_iff. split.
  - intros [(s & <- & Hs) Hn]. exists s. auto.
  - intros (s & Hs & -> & Hn). split; [exists s; auto|exact Hn].
Qed.

(* items without a '$' are only trimmed *)
Theorem expand_list_plain env items : Forall (fun s => ~ In dollar s) items ->
  expand_list env items = filter nonempty (map trim_space items).
Proof.
  intros H. unfold expand_list. f_equal. apply map_ext_in. intros s Hs. rewrite Forall_forall in H.
  rewrite no_dollar_identity by (apply H; exact Hs). reflexivity.
Qed.

Theorem passphrase_precedence env f :
  (nonempty (env_of env (B "NFPM_" ++ f ++ B "_PASSPHRASE")) = true -> passphrase env f = env_of env (B "NFPM_" ++ f ++ B "_PASSPHRASE")) /\
  (nonempty (env_of env (B "NFPM_" ++ f ++ B "_PASSPHRASE")) = false -> passphrase env f = env_of env (B "NFPM_PASSPHRASE")).
Proof. unfold passphrase. split; intros ->; reflexivity. Qed.

Theorem content_needs_opt_in env p raw : expand_kind p = EContent -> expand_scalar env p false raw = raw.
Proof. unfold expand_scalar. intros ->. reflexivity. Qed.

Theorem unexpanded_fields_untouched env p o raw : expand_kind p = ENone -> expand_scalar env p o raw = raw.
Proof. unfold expand_scalar. intros ->. reflexivity. Qed.

(* strict decoding, inversion: an accepted mapping at a struct has only known keys, and every value is accepted
   at its field's type - hence, by iteration, at every nesting level *)
Theorem accepts_struct_inv n fs kvs : accepts (S n) (TyStruct fs) (DMap kvs) = true ->
  forall k v, In (k, v) kvs -> exists f, lookup_field (flat_fields 8 fs) k = Some f /\ accepts n (f_ty f) v = true.
Proof.
  cbn [accepts]. intros H k v Hin. rewrite forallb_forall in H. specialize (H (k, v) Hin). cbn [fst snd] in H.
  destruct (lookup_field (flat_fields 8 fs) k) as [f|]; [|discriminate]. exists f. auto.
Qed.

Theorem unknown_key_rejected n fs kvs k v : In (k, v) kvs -> lookup_field (flat_fields 8 fs) k = None ->
  accepts (S n) (TyStruct fs) (DMap kvs) = false.
Proof.
  intros Hin Hk. destruct (accepts (S n) (TyStruct fs) (DMap kvs)) eqn:A; [|reflexivity].
  destruct (accepts_struct_inv _ _ _ A k v Hin) as (f & E & _). congruence.
Qed.

Theorem accepts_through_pointer n t d : accepts (S n) (TyPtr t) d = accepts n t d.
Proof. reflexivity. Qed.

Theorem accepts_seq_inv n t l : accepts (S n) (TySlice t) (DSeq l) = true -> forall d, In d l -> accepts n t d = true.
Proof. cbn [accepts]. intros H d Hd. rewrite forallb_forall in H. auto. Qed.

Theorem accepts_map_inv n t kvs : accepts (S n) (TyMap t) (DMap kvs) = true -> forall k v, In (k, v) kvs -> accepts n t v = true.
Proof. cbn [accepts]. intros H k v Hin. rewrite forallb_forall in H. apply (H (k, v) Hin). Qed.
