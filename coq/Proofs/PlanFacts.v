(* What every entry of a successful plan satisfies - the bridge from C05's invariant to the package-level
   theorems (C01, C04, C08). *)
From Coq Require Import List NArith ZArith Lia Bool Sorting.Permutation.
From Coq Require Import Strings.Byte.
From NfpmV Require Import Lib.Bytes Model.Path Model.Content Model.Prepare Model.Payload Spec.C05 Spec.C01.
From NfpmV Require Import Proofs.PathFacts Proofs.MapFacts Proofs.KeyFacts Proofs.PrepInv Proofs.StepInv Proofs.TypInv Proofs.C05Proofs.
Import ListNotations.

Theorem plan_entries fs st ces umask packager mt cs :
  oracle_okb fs st umask mt ces = true ->
  prep fs st ces umask packager mt = Ok cs ->
  (forall c, In c cs ->
     (exists comps, vkey (c_dst c) comps (is_dir_typ (c_typ c))) /\
     is_relevant packager c = true /\ prepared_typ (c_typ c) = true) /\
  NoDup (map location cs) /\ NoDup (map c_dst cs).
Proof.
  intros OK H. unfold prep in H.
  destruct (steps fs st umask packager mt [] ces) as [m|e] eqn:S; [|discriminate]. injection H as <-.
  destruct (steps_wf fs st umask packager mt ces [] m wf_empty) as [W R]; [intros k v []|exact OK|exact S|].
  assert (typed_vals m) as T by (eapply typed_steps; [|exact S]; intros k v []).
  split; [|split].
  - intros c Hc. pose proof (in_cs m W c Hc) as P. destruct (wf_vals _ W _ _ P) as (_ & K).
    split; [exact K|]. split; [eapply R; eauto|eapply T; eauto].
  - apply (NoDup_map_inj_in location c_dst); [|apply cs_nodup_dst; exact W].
    intros x y Hx Hy. apply (location_eq_dst m W); assumption.
  - apply cs_nodup_dst. exact W.
Qed.
