(* C03: structure of deb's md5sums and of the size estimates, relative to the payload shipped. *)
From Coq Require Import List NArith ZArith Lia Bool.
From Coq Require Import Strings.Byte.
From NfpmV Require Import Lib.Bytes Model.Path Model.Content Model.Payload Spec.C05 Spec.C03.
Import ListNotations.

(* one line per regular payload file, and only for those: digest and name of that very member *)
Theorem md5sums_iff payload d n :
  In (d, n) (md5sums_model payload) <-> exists e, In e payload /\ fo_isfile e = true /\ fo_md5 e = d /\ fo_name e = n.
Proof.
  unfold md5sums_model. rewrite in_map_iff. split.
  - intros (e & E & He). apply filter_In in He as [He F]. injection E as <- <-. exists e. auto.
  - intros (e & He & F & <- & <-). exists e. split; [reflexivity|]. apply filter_In. auto.
Qed.

(* in payload order *)
Theorem md5sums_order payload : map snd (md5sums_model payload) = map fo_name (filter fo_isfile payload).
Proof. unfold md5sums_model. rewrite map_map. reflexivity. Qed.

Lemma pairs_eqb_refl l : pairs_eqb l l = true.
Proof. induction l as [|[k v] l IH]; [reflexivity|]. cbn [pairs_eqb]. rewrite !seqb_refl, IH. reflexivity. Qed.

(* a deb whose md5sums member is the model's and whose Installed-Size is the KiB estimate passes the
   structural clauses of the checker; directories, symlinks and empty payloads included *)
Theorem deb_structure_passes payload digests sizes :
  forallb (fun '(s, r) => seqb s r && negb (seqb s [])) digests = true ->
  forallb (fun '(s, r) => Z.eqb s r) sizes = true ->
  check_C03 FDeb payload (md5sums_model payload) true (Some (installed_kib payload)) digests sizes true = [].
Proof.
  intros D S. unfold check_C03. rewrite D, S, pairs_eqb_refl, Z.eqb_refl. reflexivity.
Qed.

(* the size estimate only counts regular files, and is monotone in them *)
Theorem installed_kib_nonneg payload : (forall e, In e payload -> 0 <= fo_size e)%Z -> (0 <= installed_kib payload)%Z.
Proof.
  intros H. unfold installed_kib. apply Z.div_pos; [|lia].
  induction payload as [|e p IH]; [cbn; lia|]. cbn [fold_right].
  assert (0 <= fold_right (fun e acc => (if fo_isfile e then fo_size e else 0) + acc) 0 p)%Z by (apply IH; intros; apply H; right; assumption).
  specialize (H e (or_introl eq_refl)). destruct (fo_isfile e); lia.
Qed.
