(* The tar container read back yields the members that were written; cut segments concatenate (C04). *)
From Coq Require Import List NArith Bool Arith Lia.
From Coq Require Import Strings.Byte.
From NfpmV Require Import Lib.Bytes Model.Tar.
From NfpmV Require Import Proofs.C10Proofs.
Import ListNotations.
Open Scope list_scope.

(* ---------- octal ---------- *)
Lemma oct_val_digit d : (d < 8)%N -> oct_val (oct_digit d) = Some d.
Proof.
  intros H. destruct d as [|p]; [reflexivity|].
  destruct p as [[[?|?|]|[?|?|]|]|[[?|?|]|[?|?|]|]|]; try reflexivity; exfalso; lia.
Qed.

Lemma oct_digit_nonzero d : beq (oct_digit d) tnul = false.
Proof.
  destruct d as [|p]; [reflexivity|].
  destruct p as [[[?|?|]|[?|?|]|]|[[?|?|]|[?|?|]|]|]; reflexivity.
Qed.

Lemma parse_oct_acc_app a b acc :
  parse_oct_acc acc (a ++ b) = match parse_oct_acc acc a with Some x => parse_oct_acc x b | None => None end.
Proof.
  revert acc. induction a as [|c a IH]; intros acc; cbn [app parse_oct_acc]; [reflexivity|].
  destruct (oct_val c); [apply IH|reflexivity].
Qed.

Lemma parse_oct_fixed k : forall n acc, parse_oct_acc acc (oct_fixed k n) = Some (acc * 8 ^ N.of_nat k + n mod 8 ^ N.of_nat k)%N.
Proof.
  induction k as [|k IH]; intros n acc.
  - cbn [oct_fixed parse_oct_acc]. change (N.of_nat 0) with 0%N. rewrite N.pow_0_r, N.mod_1_r. f_equal. lia.
  - cbn [oct_fixed]. rewrite parse_oct_acc_app, IH. cbn [parse_oct_acc].
    rewrite oct_val_digit by (apply N.mod_lt; discriminate). f_equal.
    rewrite Nat2N.inj_succ, N.pow_succ_r'.
    rewrite (N.mod_mul_r n 8 (8 ^ N.of_nat k)) by (try discriminate; apply N.pow_nonzero; discriminate).
    lia.
Qed.

Lemma parse_oct_fixed0 k n : (n < 8 ^ N.of_nat k)%N -> parse_oct (oct_fixed k n) = Some n.
Proof. intros H. unfold parse_oct. rewrite parse_oct_fixed, N.mod_small by exact H. f_equal. Qed.

Lemma oct_fixed_length k : forall n, List.length (oct_fixed k n) = k.
Proof. induction k as [|k IH]; intros n; cbn [oct_fixed]; [reflexivity|]. rewrite app_length, IH. cbn. lia. Qed.

(* ---------- sums, zero blocks ---------- *)
Lemma sum_bytes_app a b : sum_bytes (a ++ b) = (sum_bytes a + sum_bytes b)%N.
Proof. induction a as [|x a IH]; cbn [app sum_bytes]; [reflexivity|]. rewrite IH. lia. Qed.

Lemma sum_bytes_bound s : (sum_bytes s <= 255 * N.of_nat (List.length s))%N.
Proof.
  induction s as [|b s IH]; cbn [sum_bytes List.length]; [lia|].
  pose proof (Byte.to_N_bounded b) as Hb. unfold bN. lia.
Qed.

Lemma all_zero_app a b : all_zero (a ++ b) = all_zero a && all_zero b.
Proof. unfold all_zero. apply forallb_app. Qed.

Lemma all_zero_repeat k : all_zero (repeat tnul k) = true.
Proof. induction k as [|k IH]; [reflexivity|]. cbn [repeat]. unfold all_zero in *. cbn [forallb]. rewrite IH. reflexivity. Qed.

Lemma all_zero_oct k n : all_zero (oct_fixed (S k) n) = false.
Proof.
  cbn [oct_fixed]. rewrite all_zero_app. unfold all_zero at 2. cbn [forallb]. rewrite oct_digit_nonzero.
  rewrite andb_false_r. reflexivity.
Qed.

(* ---------- the header block ---------- *)
Lemma skip_field {A} (a l : list A) k n : List.length a = k -> skipn (k + n) (a ++ l) = skipn n l.
Proof.
  intros <-. rewrite skipn_app. replace (List.length a + n - List.length a) with n by lia.
  rewrite skipn_all2 by lia. reflexivity.
Qed.

Definition hparts (m : tmember) : str :=
  tm_pre m ++ oct_fixed 11 (N.of_nat (List.length (tm_data m))) ++ [tnul] ++ tm_mtime m
  ++ oct_fixed 6 (header_sum m) ++ [tnul; tspace] ++ tm_post m.

Lemma theader_parts m : theader m = hparts m.
Proof. unfold theader, hparts, size_field, chk_field. rewrite <- !app_assoc. reflexivity. Qed.

Lemma theader_length m : wf_tmember m -> List.length (theader m) = 512.
Proof.
  intros (H1 & H2 & H3 & _). rewrite theader_parts. unfold hparts.
  rewrite !app_length, !oct_fixed_length, H1, H2, H3. reflexivity.
Qed.

Lemma header_sum_small m : wf_tmember m -> (header_sum m < 8 ^ 6)%N.
Proof.
  intros (H1 & H2 & H3 & _). unfold header_sum.
  pose proof (sum_bytes_bound (tm_pre m)) as B1. pose proof (sum_bytes_bound (size_field m)) as B2.
  pose proof (sum_bytes_bound (tm_mtime m)) as B3. pose proof (sum_bytes_bound (tm_post m)) as B4.
  assert (L2 : List.length (size_field m) = 12) by (unfold size_field; rewrite app_length, oct_fixed_length; reflexivity).
  rewrite H1 in B1. rewrite L2 in B2. rewrite H2 in B3. rewrite H3 in B4.
  change (8 ^ 6)%N with 262144%N. lia.
Qed.

Lemma theader_fields m : wf_tmember m ->
  firstn 124 (theader m) = tm_pre m /\
  firstn 11 (skipn 124 (theader m)) = oct_fixed 11 (N.of_nat (List.length (tm_data m))) /\
  firstn 1 (skipn 135 (theader m)) = [tnul] /\
  firstn 12 (skipn 136 (theader m)) = tm_mtime m /\
  firstn 6 (skipn 148 (theader m)) = oct_fixed 6 (header_sum m) /\
  firstn 2 (skipn 154 (theader m)) = [tnul; tspace] /\
  skipn 156 (theader m) = tm_post m /\
  firstn 148 (theader m) = tm_pre m ++ size_field m ++ tm_mtime m.
Proof.
  intros (H1 & H2 & H3 & _).
  pose proof (oct_fixed_length 11 (N.of_nat (List.length (tm_data m)))) as L11.
  pose proof (oct_fixed_length 6 (header_sum m)) as L6.
  assert (Ln : List.length [tnul] = 1) by reflexivity.
  assert (Lc : List.length [tnul; tspace] = 2) by reflexivity.
  repeat match goal with |- _ /\ _ => split end.
  - unfold theader. apply firstn_app_exact. exact H1.
  - rewrite theader_parts. unfold hparts. change 124 with (124 + 0). rewrite (skip_field _ _ 124 _ H1). cbn [skipn].
    apply firstn_app_exact. exact L11.
  - rewrite theader_parts. unfold hparts. change 135 with (124 + (11 + 0)).
    rewrite (skip_field _ _ 124 _ H1), (skip_field _ _ 11 _ L11). cbn [skipn]. reflexivity.
  - rewrite theader_parts. unfold hparts. change 136 with (124 + (11 + (1 + 0))).
    rewrite (skip_field _ _ 124 _ H1), (skip_field _ _ 11 _ L11), (skip_field _ _ 1 _ Ln). cbn [skipn].
    apply firstn_app_exact. exact H2.
  - rewrite theader_parts. unfold hparts. change 148 with (124 + (11 + (1 + (12 + 0)))).
    rewrite (skip_field _ _ 124 _ H1), (skip_field _ _ 11 _ L11), (skip_field _ _ 1 _ Ln), (skip_field _ _ 12 _ H2). cbn [skipn].
    apply firstn_app_exact. exact L6.
  - rewrite theader_parts. unfold hparts. change 154 with (124 + (11 + (1 + (12 + (6 + 0))))).
    rewrite (skip_field _ _ 124 _ H1), (skip_field _ _ 11 _ L11), (skip_field _ _ 1 _ Ln), (skip_field _ _ 12 _ H2),
      (skip_field _ _ 6 _ L6). cbn [skipn]. reflexivity.
  - rewrite theader_parts. unfold hparts. change 156 with (124 + (11 + (1 + (12 + (6 + (2 + 0)))))).
    rewrite (skip_field _ _ 124 _ H1), (skip_field _ _ 11 _ L11), (skip_field _ _ 1 _ Ln), (skip_field _ _ 12 _ H2),
      (skip_field _ _ 6 _ L6), (skip_field _ _ 2 _ Lc). cbn [skipn]. reflexivity.
  - unfold theader. rewrite (app_assoc (tm_pre m)), (app_assoc (tm_pre m ++ size_field m)).
    rewrite <- (app_assoc (tm_pre m)). apply firstn_app_exact.
    unfold size_field. rewrite !app_length, L11, H1, H2. reflexivity.
Qed.

Lemma theader_not_zero m : all_zero (theader m) = false.
Proof.
  rewrite theader_parts. unfold hparts. rewrite all_zero_app, all_zero_app, all_zero_oct.
  rewrite andb_false_l, andb_false_r. reflexivity.
Qed.

(* ---------- one member ---------- *)
Lemma members_step f m rest : wf_tmember m ->
  tar_members (S f) (enc_member m ++ rest) =
  match tar_members f rest with
  | Some (r, tl) => Some (m :: r, tl)
  | None => None
  end.
Proof.
  intros W. pose proof (theader_length m W) as L. pose proof (header_sum_small m W) as Hs.
  destruct (theader_fields m W) as (F1 & F2 & F3 & F4 & F5 & F6 & F7 & F8).
  destruct W as (H1 & H2 & H3 & H4).
  unfold enc_member. rewrite <- !app_assoc.
  set (tail := tm_data m ++ repeat tnul (pad512 (List.length (tm_data m))) ++ rest).
  cbn [tar_members].
  rewrite (firstn_app_exact (theader m) tail 512 L), (skipn_app_exact (theader m) tail 512 L).
  rewrite L. change (Nat.ltb 512 512) with false. cbn match.
  rewrite theader_not_zero.
  rewrite F2, F3, F5, F6, F7, F8, F1, F4.
  rewrite (parse_oct_fixed0 11) by exact H4. rewrite (parse_oct_fixed0 6) by exact Hs.
  rewrite Nat2N.id.
  assert (Esum : (sum_bytes (tm_pre m ++ size_field m ++ tm_mtime m) + 256 + sum_bytes (tm_post m))%N = header_sum m).
  { unfold header_sum. rewrite !sum_bytes_app. lia. }
  rewrite Esum, N.eqb_refl. cbn [negb orb]. rewrite !seqb_refl. cbn [negb orb].
  unfold tail.
  assert (Hlen : Nat.ltb (List.length (tm_data m ++ repeat tnul (pad512 (List.length (tm_data m))) ++ rest))
                   (List.length (tm_data m) + pad512 (List.length (tm_data m))) = false).
  { apply Nat.ltb_ge. rewrite !app_length, repeat_length. lia. }
  rewrite Hlen. cbn [orb].
  rewrite (skipn_app_exact (tm_data m)) by reflexivity.
  rewrite (firstn_app_exact (repeat tnul (pad512 (List.length (tm_data m))))) by apply repeat_length.
  rewrite all_zero_repeat. cbn [negb].
  rewrite (firstn_app_exact (tm_data m)) by reflexivity.
  assert (Hrest : skipn (List.length (tm_data m) + pad512 (List.length (tm_data m)))
                    (tm_data m ++ repeat tnul (pad512 (List.length (tm_data m))) ++ rest) = rest).
  { rewrite app_assoc. apply skipn_app_exact. rewrite app_length, repeat_length. reflexivity. }
  rewrite Hrest. destruct (tar_members f rest) as [[r tl]|]; [|reflexivity].
  destruct m; reflexivity.
Qed.

Lemma members_end_empty f : tar_members (S f) [] = Some ([], []).
Proof. reflexivity. Qed.

Lemma members_end_zero f rest : tar_members (S f) (repeat tnul 512 ++ rest) = Some ([], repeat tnul 512 ++ rest).
Proof.
  cbn [tar_members]. rewrite (firstn_app_exact (repeat tnul 512) rest 512) by apply repeat_length.
  rewrite repeat_length. change (Nat.ltb 512 512) with false. cbn match. rewrite all_zero_repeat. reflexivity.
Qed.

Lemma zeros_1024 : repeat tnul 1024 = repeat tnul 512 ++ repeat tnul 512.
Proof. rewrite <- repeat_app. reflexivity. Qed.

(* ---------- whole archives ---------- *)
Lemma tar_cut_app a b : tar_cut (a ++ b) = tar_cut a ++ tar_cut b.
Proof. unfold tar_cut. rewrite map_app, concat_app. reflexivity. Qed.

Lemma members_cut_then ms : Forall wf_tmember ms -> forall f rest,
  tar_members (List.length ms + f) (tar_cut ms ++ rest) =
  match tar_members f rest with Some (r, tl) => Some (ms ++ r, tl) | None => None end.
Proof.
  induction ms as [|m ms IH]; intros W f rest.
  - cbn [List.length tar_cut map List.concat app Nat.add]. destruct (tar_members f rest) as [[r tl]|]; reflexivity.
  - inversion W as [|? ? Wm Wms]; subst. unfold tar_cut in *. cbn [map List.concat List.length Nat.add].
    rewrite <- app_assoc. rewrite members_step by exact Wm. rewrite (IH Wms).
    destruct (tar_members f rest) as [[r tl]|]; reflexivity.
Qed.

Theorem tar_cut_roundtrip ms : Forall wf_tmember ms ->
  tar_members (S (List.length ms)) (tar_cut ms) = Some (ms, []).
Proof.
  intros W. rewrite <- (app_nil_r (tar_cut ms)). replace (S (List.length ms)) with (List.length ms + 1) by lia.
  rewrite (members_cut_then ms W 1 []). rewrite members_end_empty, app_nil_r. reflexivity.
Qed.

Theorem tar_full_roundtrip ms : Forall wf_tmember ms ->
  tar_members (S (List.length ms)) (tar_full ms) = Some (ms, repeat tnul 1024).
Proof.
  intros W. unfold tar_full. replace (S (List.length ms)) with (List.length ms + 1) by lia.
  rewrite (members_cut_then ms W 1 _). rewrite zeros_1024, members_end_zero, app_nil_r. reflexivity.
Qed.

(* apk: a signature segment and a control segment without end-of-archive marker followed by a complete data
   tar read as ONE archive holding the members of all three, in that order *)
Theorem tar_segments_concatenate sg ctl data :
  Forall wf_tmember sg -> Forall wf_tmember ctl -> Forall wf_tmember data ->
  tar_cut sg ++ tar_cut ctl ++ tar_full data = tar_full (sg ++ ctl ++ data) /\
  tar_members (S (List.length (sg ++ ctl ++ data))) (tar_cut sg ++ tar_cut ctl ++ tar_full data)
  = Some (sg ++ ctl ++ data, repeat tnul 1024).
Proof.
  intros W1 W2 W3.
  assert (E : tar_cut sg ++ tar_cut ctl ++ tar_full data = tar_full (sg ++ ctl ++ data)).
  { unfold tar_full. rewrite !tar_cut_app, <- !app_assoc. reflexivity. }
  split; [exact E|]. rewrite E. apply tar_full_roundtrip.
  apply Forall_app. split; [exact W1|]. apply Forall_app. split; assumption.
Qed.

(* more fuel never changes an answer *)
Lemma members_fuel_mono f : forall s r, tar_members f s = Some r -> forall g, f <= g -> tar_members g s = Some r.
Proof.
  induction f as [|f IH]; intros s r H g Hg; [discriminate|].
  destruct g as [|g]; [lia|]. cbn [tar_members] in *.
  destruct (Nat.ltb (List.length (firstn 512 s)) 512); [exact H|].
  destruct (all_zero (firstn 512 s)); [exact H|].
  destruct (parse_oct (firstn 11 (skipn 124 (firstn 512 s)))) as [size|]; [|discriminate].
  destruct (parse_oct (firstn 6 (skipn 148 (firstn 512 s)))) as [chk|]; [|discriminate].
  match type of H with (if ?c then _ else _) = _ => destruct c; [discriminate|] end.
  match type of H with
  | match tar_members f ?x with _ => _ end = _ => destruct (tar_members f x) as [[r0 tl]|] eqn:E; [|discriminate];
      rewrite (IH _ _ E g ltac:(lia)); exact H
  end.
Qed.

Lemma enc_member_length m : wf_tmember m -> 512 <= List.length (enc_member m).
Proof. intros W. unfold enc_member. rewrite app_length, (theader_length m W). lia. Qed.

Lemma tar_cut_length ms : Forall wf_tmember ms -> List.length ms <= List.length (tar_cut ms).
Proof.
  induction 1 as [|m ms Wm _ IH]; [cbn; lia|]. unfold tar_cut in *. cbn [map List.concat List.length].
  rewrite app_length. pose proof (enc_member_length m Wm). lia.
Qed.

Theorem tar_read_full ms : Forall wf_tmember ms -> tar_read (tar_full ms) = Some (ms, repeat tnul 1024).
Proof.
  intros W. unfold tar_read. apply (members_fuel_mono _ _ _ (tar_full_roundtrip ms W)).
  unfold tar_full. rewrite app_length. pose proof (tar_cut_length ms W). lia.
Qed.

Theorem tar_read_cut ms : Forall wf_tmember ms -> tar_read (tar_cut ms) = Some (ms, []).
Proof.
  intros W. unfold tar_read. apply (members_fuel_mono _ _ _ (tar_cut_roundtrip ms W)).
  pose proof (tar_cut_length ms W). lia.
Qed.

(* the meaning of the per-run checks *)
Lemma reencodes_full_sound s : tar_reencodes_full s = true ->
  exists ms, tar_read s = Some (ms, repeat tnul 1024) /\ tar_full ms = s.
Proof.
  unfold tar_reencodes_full. destruct (tar_read s) as [[ms rest]|]; [|discriminate].
  intros H. apply andb_prop in H. destruct H as [H1 H2]. apply seqb_eq in H1. apply seqb_eq in H2. subst rest.
  exists ms. split; [reflexivity|exact H2].
Qed.

Lemma reencodes_cut_sound s : tar_reencodes_cut s = true ->
  exists ms, tar_read s = Some (ms, []) /\ tar_cut ms = s.
Proof.
  unfold tar_reencodes_cut. destruct (tar_read s) as [[ms rest]|]; [|discriminate].
  intros H. apply andb_prop in H. destruct H as [H1 H2]. apply seqb_eq in H1. apply seqb_eq in H2. subst rest.
  exists ms. split; [reflexivity|exact H2].
Qed.
