(* The cpio archive read back yields the entries that were written, field for field (C04, rpm payload). *)
From Coq Require Import List NArith ZArith Bool Arith Lia String.
From Coq Require Import Strings.Byte Strings.Ascii Numbers.HexadecimalString Numbers.HexadecimalN Numbers.HexadecimalPos.
From NfpmV Require Import Lib.Bytes Model.Cpio.
From NfpmV Require Import Proofs.C10Proofs.
Import ListNotations.
Open Scope list_scope.

Lemma string_of_list_byte_app a b :
  string_of_list_byte (a ++ b) = (string_of_list_byte a ++ string_of_list_byte b)%string.
Proof.
  unfold string_of_list_byte. induction a as [|x a IH]; cbn [app map string_of_list_ascii String.append]; [reflexivity|].
  rewrite IH. reflexivity.
Qed.

Lemma parse_zeros k (s : string) :
  NilEmpty.uint_of_string (string_of_list_byte (repeat zero_b k) ++ s)%string =
  option_map (fun d => Nat.iter k Hexadecimal.D0 d) (NilEmpty.uint_of_string s).
Proof.
  unfold string_of_list_byte. induction k as [|k IH]; cbn [repeat map string_of_list_ascii String.append Nat.iter].
  - destruct (NilEmpty.uint_of_string s); reflexivity.
  - change (ascii_of_byte zero_b) with "0"%char. cbn [NilEmpty.uint_of_string]. rewrite IH.
    destruct (NilEmpty.uint_of_string s); reflexivity.
Qed.

Lemma of_hex_D0_iter k d : N.of_hex_uint (Nat.iter k Hexadecimal.D0 d) = N.of_hex_uint d.
Proof. induction k as [|k IH]; [reflexivity|]. cbn [Nat.iter]. rewrite <- IH. reflexivity. Qed.

(* upper case on the way out, lower case on the way in *)
Lemma lower_upper_digits d :
  map lower_hex (map upper_hex (list_byte_of_string (NilEmpty.string_of_uint d))) = list_byte_of_string (NilEmpty.string_of_uint d).
Proof.
  induction d as [|d IH|d IH|d IH|d IH|d IH|d IH|d IH|d IH|d IH|d IH|d IH|d IH|d IH|d IH|d IH|d IH];
    [reflexivity|
     cbn [NilEmpty.string_of_uint]; unfold list_byte_of_string in *; cbn [list_ascii_of_string map]; rewrite IH; reflexivity ..].
Qed.

Lemma lower_zeros k : map lower_hex (repeat zero_b k) = repeat zero_b k.
Proof. induction k as [|k IH]; [reflexivity|]. cbn [repeat map]. rewrite IH. reflexivity. Qed.

Lemma hex_nat_length n : List.length (hex_nat n) = List.length (hex_lower n).
Proof. unfold hex_nat. apply map_length. Qed.

Lemma parse_hex8 n : parse_hex (hex8 n) = Some n.
Proof.
  unfold parse_hex, hex8, hex_nat, hex_lower.
  assert (Hn : N.to_hex_uint (N.of_nat n) <> Hexadecimal.Nil).
  { destruct (N.of_nat n); cbn [N.to_hex_uint]; [discriminate|apply HexadecimalPos.Unsigned.to_uint_nonnil]. }
  assert (E : NilZero.string_of_uint (N.to_hex_uint (N.of_nat n)) = NilEmpty.string_of_uint (N.to_hex_uint (N.of_nat n)))
    by (destruct (N.to_hex_uint (N.of_nat n)); [contradiction|reflexivity..]).
  rewrite E, map_app, lower_zeros, lower_upper_digits.
  rewrite string_of_list_byte_app, string_of_list_byte_of_string, parse_zeros.
  rewrite NilEmpty.usu. cbn [option_map]. rewrite of_hex_D0_iter, HexadecimalN.Unsigned.of_to, Nat2N.id. reflexivity.
Qed.

Lemma hex8_length n : List.length (hex_nat n) <= 8 -> List.length (hex8 n) = 8.
Proof. intros H. unfold hex8. rewrite app_length, repeat_length. lia. Qed.

(* ---------- the header ---------- *)
Lemma skip_field {A} (a l : list A) k n : List.length a = k -> skipn (k + n) (a ++ l) = skipn n l.
Proof.
  intros <-. rewrite skipn_app. replace (List.length a + n - List.length a) with n by lia.
  rewrite skipn_all2 by lia. reflexivity.
Qed.

Lemma chead_length e : wf_fields e -> List.length (chead e) = 110.
Proof.
  intros (H1 & H2 & H3 & H4 & H5 & H6 & H7). unfold chead. rewrite !app_length, !hex8_length by assumption.
  rewrite H1, H2, H3, H4. reflexivity.
Qed.

Lemma chead_fields e : wf_fields e ->
  firstn 6 (chead e) = cpio_magic /\
  firstn 8 (skipn 6 (chead e)) = ce_pre e /\
  firstn 8 (skipn 14 (chead e)) = hex8 (ce_mode e) /\
  firstn 32 (skipn 22 (chead e)) = ce_mid e /\
  firstn 8 (skipn 54 (chead e)) = hex8 (List.length (ce_data e)) /\
  firstn 32 (skipn 62 (chead e)) = ce_dev e /\
  firstn 8 (skipn 94 (chead e)) = hex8 (S (List.length (ce_name e))) /\
  firstn 8 (skipn 102 (chead e)) = ce_chk e.
Proof.
  intros (H1 & H2 & H3 & H4 & H5 & H6 & H7). unfold chead.
  pose proof (hex8_length _ H5) as L5. pose proof (hex8_length _ H6) as L6. pose proof (hex8_length _ H7) as L7.
  assert (L0 : List.length cpio_magic = 6) by reflexivity.
  repeat match goal with |- _ /\ _ => split end.
  - apply firstn_app_exact. reflexivity.
  - change 6 with (6 + 0). rewrite (skip_field cpio_magic _ 6 0 L0). cbn [skipn]. apply firstn_app_exact. exact H1.
  - change 14 with (6 + (8 + 0)). rewrite (skip_field cpio_magic _ 6 _ L0), (skip_field (ce_pre e) _ 8 _ H1).
    cbn [skipn]. apply firstn_app_exact. exact L5.
  - change 22 with (6 + (8 + (8 + 0))).
    rewrite (skip_field cpio_magic _ 6 _ L0), (skip_field (ce_pre e) _ 8 _ H1), (skip_field _ _ 8 _ L5).
    cbn [skipn]. apply firstn_app_exact. exact H2.
  - change 54 with (6 + (8 + (8 + (32 + 0)))).
    rewrite (skip_field cpio_magic _ 6 _ L0), (skip_field (ce_pre e) _ 8 _ H1), (skip_field _ _ 8 _ L5), (skip_field _ _ 32 _ H2).
    cbn [skipn]. apply firstn_app_exact. exact L6.
  - change 62 with (6 + (8 + (8 + (32 + (8 + 0))))).
    rewrite (skip_field cpio_magic _ 6 _ L0), (skip_field (ce_pre e) _ 8 _ H1), (skip_field _ _ 8 _ L5), (skip_field _ _ 32 _ H2),
      (skip_field _ _ 8 _ L6).
    cbn [skipn]. apply firstn_app_exact. exact H3.
  - change 94 with (6 + (8 + (8 + (32 + (8 + (32 + 0)))))).
    rewrite (skip_field cpio_magic _ 6 _ L0), (skip_field (ce_pre e) _ 8 _ H1), (skip_field _ _ 8 _ L5), (skip_field _ _ 32 _ H2),
      (skip_field _ _ 8 _ L6), (skip_field _ _ 32 _ H3).
    cbn [skipn]. apply firstn_app_exact. exact L7.
  - change 102 with (6 + (8 + (8 + (32 + (8 + (32 + (8 + 0))))))).
    rewrite (skip_field cpio_magic _ 6 _ L0), (skip_field (ce_pre e) _ 8 _ H1), (skip_field _ _ 8 _ L5), (skip_field _ _ 32 _ H2),
      (skip_field _ _ 8 _ L6), (skip_field _ _ 32 _ H3), (skip_field _ _ 8 _ L7).
    cbn [skipn]. rewrite <- H4. apply firstn_all.
Qed.

(* ---------- one entry ---------- *)
Lemma centries_step f e rest : wf_fields e ->
  cpio_centries (S f) (enc_centry e ++ rest) =
  if seqb (ce_name e) trailer_name
  then Some ([], ce_data e ++ repeat nul (pad4 (List.length (ce_data e))) ++ rest)
  else match cpio_centries f rest with
       | Some (r, tl) => Some (e :: r, tl)
       | None => None
       end.
Proof.
  intros W. pose proof (chead_length e W) as L.
  destruct (chead_fields e W) as (F1 & F2 & F3 & F4 & F5 & F6 & F7 & F8).
  unfold enc_centry. rewrite <- !app_assoc.
  set (tail := ce_name e ++ [nul] ++ repeat nul (pad4 (110 + S (List.length (ce_name e)))) ++ ce_data e
               ++ repeat nul (pad4 (List.length (ce_data e))) ++ rest).
  cbn [cpio_centries].
  rewrite (firstn_app_exact (chead e) tail 110 L), (skipn_app_exact (chead e) tail 110 L).
  rewrite F1. assert (seqb cpio_magic cpio_magic = true) as -> by reflexivity. cbn [negb].
  rewrite F2, F3, F4, F5, F6, F7, F8, !parse_hex8.
  unfold tail.
  rewrite (firstn_app_exact (ce_name e)) by reflexivity.
  assert (Hbody : skipn (S (List.length (ce_name e)) + pad4 (110 + S (List.length (ce_name e))))
                    (ce_name e ++ [nul] ++ repeat nul (pad4 (110 + S (List.length (ce_name e)))) ++ ce_data e
                     ++ repeat nul (pad4 (List.length (ce_data e))) ++ rest)
                  = ce_data e ++ repeat nul (pad4 (List.length (ce_data e))) ++ rest).
  { rewrite (app_assoc (ce_name e)), (app_assoc (ce_name e ++ [nul])). apply skipn_app_exact.
    rewrite !app_length, repeat_length. cbn [List.length]. lia. }
  rewrite Hbody.
  destruct (seqb (ce_name e) trailer_name); [reflexivity|].
  rewrite (firstn_app_exact (ce_data e)) by reflexivity.
  assert (Hrest : skipn (List.length (ce_data e) + pad4 (List.length (ce_data e)))
                    (ce_data e ++ repeat nul (pad4 (List.length (ce_data e))) ++ rest) = rest).
  { rewrite app_assoc. apply skipn_app_exact. rewrite app_length, repeat_length. reflexivity. }
  rewrite Hrest. destruct (cpio_centries f rest) as [[r tl]|]; [|reflexivity].
  destruct e; reflexivity.
Qed.

Lemma trailer_fields : wf_fields trailer.
Proof. repeat split; vm_compute; lia. Qed.

Theorem cpio_roundtrip_full : forall es, Forall wf_centry es ->
  cpio_centries (S (List.length es)) (cpio_encode es) = Some (es, []).
Proof.
  unfold cpio_encode. induction es as [|e es IH]; intros W.
  - cbn [map List.concat app List.length]. rewrite <- (app_nil_r (enc_centry trailer)).
    rewrite (centries_step 0 trailer [] trailer_fields). reflexivity.
  - inversion W as [|? ? We Wes]; subst. cbn [map List.concat List.length]. rewrite <- app_assoc.
    destruct We as (Wf & Hn).
    rewrite centries_step by exact Wf.
    assert (seqb (ce_name e) trailer_name = false) as ->.
    { destruct (seqb (ce_name e) trailer_name) eqn:E; [|reflexivity]. apply seqb_eq in E. contradiction. }
    rewrite (IH Wes). reflexivity.
Qed.

Theorem cpio_roundtrip : forall es, Forall wf_centry es ->
  cpio_entries (S (List.length es)) (cpio_encode es) = Some (map (fun e => (ce_name e, ce_mode e, ce_data e)) es).
Proof. intros es W. unfold cpio_entries. rewrite (cpio_roundtrip_full es W). reflexivity. Qed.

(* more fuel never changes an answer, so the reader may be given any bound at least the number of entries + 1 *)
Lemma centries_fuel_mono f s r : cpio_centries f s = Some r -> forall g, f <= g -> cpio_centries g s = Some r.
Proof.
  revert s r. induction f as [|f IH]; intros s r H g Hg; [discriminate|].
  destruct g as [|g]; [lia|]. cbn [cpio_centries] in *.
  destruct (negb (seqb (firstn 6 (firstn 110 s)) cpio_magic)); [discriminate|].
  destruct (parse_hex (firstn 8 (skipn 14 (firstn 110 s)))) as [mode|]; [|discriminate].
  destruct (parse_hex (firstn 8 (skipn 54 (firstn 110 s)))) as [size|]; [|discriminate].
  destruct (parse_hex (firstn 8 (skipn 94 (firstn 110 s)))) as [[|namelen]|]; try discriminate.
  destruct (seqb _ trailer_name); [exact H|].
  match type of H with
  | match cpio_centries f ?x with _ => _ end = _ => destruct (cpio_centries f x) as [[r0 tl]|] eqn:E; [|discriminate];
      rewrite (IH _ _ E g ltac:(lia)); exact H
  end.
Qed.

(* a archive the model's reader accepts and the model's writer reproduces IS an encoding of its entries:
   this is the run-time check's meaning *)
Lemma reencodes_sound s : cpio_reencodes s = true ->
  exists es, cpio_centries (S (List.length s)) s = Some (es, []) /\ cpio_encode es = s.
Proof.
  unfold cpio_reencodes. destruct (cpio_centries (S (List.length s)) s) as [[es rest]|]; [|discriminate].
  intros H. apply andb_prop in H. destruct H as [H1 H2]. apply seqb_eq in H1. apply seqb_eq in H2. subst rest.
  exists es. split; [reflexivity|exact H1].
Qed.
