(* C08: configuration files are registered iff declared; rpm flags say exactly the declared type. *)
From Coq Require Import List NArith ZArith Lia Bool Sorting.Permutation.
From Coq Require Import Strings.Byte.
From NfpmV Require Import Lib.Bytes Model.Path Model.Content Model.Prepare Model.Payload Spec.C05 Spec.C01 Spec.C08.
From NfpmV Require Import Proofs.PathFacts Proofs.KeyFacts Proofs.RelFacts Proofs.StepInv Proofs.C05Proofs Proofs.C01Proofs.
Import ListNotations.

Lemma strs_eqb_refl l : strs_eqb l l = true.
Proof. induction l as [|x l IH]; [reflexivity|]. cbn [strs_eqb]. rewrite seqb_refl, IH. reflexivity. Qed.

Lemma config_not_dir t : is_config_typ t = true -> is_dir_typ t = false.
Proof.
  unfold is_config_typ, typ_in. cbn [existsb]. repeat rewrite orb_true_iff.
  intros [H|[H|[H|H]]]; try discriminate; apply seqb_eq in H; subst; reflexivity.
Qed.

(* a configuration file's planned destination is already normalized *)
Lemma norm_file_config c comps : vkey (c_dst c) comps (is_dir_typ (c_typ c)) -> is_config_typ (c_typ c) = true ->
  norm_file (c_dst c) = c_dst c.
Proof.
  intros [G E] Cf. rewrite (config_not_dir _ Cf) in E. rewrite E.
  rewrite norm_file_spec, comps_abs_fkey by exact G. reflexivity.
Qed.

(* listed in conffiles iff a config entry is planned at that path: no false positives, none missing *)
Theorem conffiles_iff cs p :
  (forall c, In c cs -> exists comps, vkey (c_dst c) comps (is_dir_typ (c_typ c))) ->
  (In p (conffiles_model cs) <-> exists c, In c cs /\ is_config_typ (c_typ c) = true /\ c_dst c = p).
Proof.
  intros K. unfold conffiles_model. rewrite in_map_iff. split.
  - intros (c & E & Hc). apply filter_In in Hc as [Hc Cf]. exists c. split; [exact Hc|]. split; [exact Cf|].
    destruct (K c Hc) as (comps & Kc). rewrite <- E. symmetry. eapply norm_file_config; eauto.
  - intros (c & Hc & Cf & E). exists c. split; [|apply filter_In; auto].
    destruct (K c Hc) as (comps & Kc). rewrite <- E. eapply norm_file_config; eauto.
Qed.

(* the flags rpm records for a prepared type are exactly the ones the type declares *)
Lemma rpm_flags_exact t : prepared_typ t = true -> flag_spec_okb t (rpm_flags t) = true.
Proof.
  intros T. apply prepared_typ_cases in T. cbn [In] in T.
  repeat (destruct T as [<-|T]; [vm_compute; reflexivity|]). contradiction.
Qed.

Lemma zero_flags_ok t : prepared_typ t = true -> is_dir_typ t = true \/ seqb t TSymlink = true -> flag_spec_okb t 0 = true.
Proof.
  intros T. apply prepared_typ_cases in T. cbn [In] in T.
  repeat (destruct T as [<-|T]; [intros [H|H]; try discriminate; vm_compute; reflexivity|]). contradiction.
Qed.

Theorem rpm_entry_flags mt c e : prepared_typ (c_typ c) = true -> In e (rpm_entry mt c) ->
  flag_spec_okb (c_typ c) (pe_flags e) = true /\
  pe_inpayload e = negb (seqb (c_typ c) TGhost) /\
  (seqb (c_typ c) TGhost = true -> fi_mode (the_fi c) = 0%N -> pe_mode e = 420%N).
Proof.
  intros T. unfold rpm_entry, fi_of.
  destruct (negb (seqb (c_pkgr c) []) && negb (seqb (c_pkgr c) P_rpm)); [intros []|].
  destruct (seqb (c_typ c) TImplicitDir) eqn:TI; [intros []|].
  destruct (seqb (to_nix (c_dst c)) [slash]); [intros []|].
  destruct (seqb (c_typ c) TDir) eqn:TD.
  { intros [<-|[]]. cbn [pe_flags pe_inpayload pe_mode]. apply seqb_eq in TD. rewrite TD. repeat split; try reflexivity. discriminate. }
  destruct (seqb (c_typ c) TSymlink) eqn:Sy.
  { intros [<-|[]]. cbn [pe_flags pe_inpayload pe_mode]. apply seqb_eq in Sy. rewrite Sy. repeat split; try reflexivity. discriminate. }
  cbv zeta. intros [<-|[]]. cbn [pe_flags pe_inpayload pe_mode]. split; [apply rpm_flags_exact; exact T|]. split; [reflexivity|].
  intros G Z. rewrite G, Z. reflexivity.
Qed.
