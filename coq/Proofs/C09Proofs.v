(* C09: the slot tables are injective, a slot is populated iff its event is configured, and the model of
   every packager but rpm passes the checker for all script bytes; rpm is refuted for empty scripts and
   for scripts containing a NUL byte, and holds otherwise. *)
From Coq Require Import List NArith ZArith Lia Bool String.
From Coq Require Import Strings.Byte.
From NfpmV Require Import Lib.Bytes Model.Path Model.Content Model.Payload Spec.C05 Spec.C09.
Import ListNotations.

Lemma slots_injective f : NoDup (map fst (slots f)) /\ NoDup (map snd (slots f)).
Proof.
  assert (forall l : list str, nodupb l = true -> NoDup l) as R.
  { induction l as [|x l IH]; intros H; [constructor|]. cbn in H. apply andb_true_iff in H as [H1 H2].
    constructor; [|apply IH; exact H2]. intros Hin. apply negb_true_iff in H1.
    assert (existsb (seqb x) l = true) as E by (apply existsb_exists; exists x; split; [exact Hin|apply seqb_refl]).
    congruence. }
  destruct f; split; apply R; vm_compute; reflexivity.
Qed.

Lemma expected_iff f cfg slot b :
  In (slot, b) (expected_scripts f cfg) <-> exists g, In (g, slot) (slots f) /\ assoc g cfg = Some b.
Proof.
  unfold expected_scripts. rewrite in_flat_map. split.
  - intros ([g s] & Hin & H). destruct (assoc g cfg) as [b'|] eqn:A; [|contradiction].
    destruct H as [H|[]]. injection H as -> ->. exists g. auto.
  - intros (g & Hin & A). exists (g, slot). split; [exact Hin|]. rewrite A. left. reflexivity.
Qed.

Lemma pairs_eqb_refl l : pairs_eqb l l = true.
Proof. induction l as [|[k v] l IH]; [reflexivity|]. cbn [pairs_eqb]. rewrite !seqb_refl, IH. reflexivity. Qed.

Theorem model_passes f cfg : f <> FRpm ->
  check_C09 f cfg (model_scripts f cfg) []
    (match f, expected_scripts f cfg with FArch, ((_ :: _) as w) => Some (render_install w) | _, _ => None end) = [].
Proof.
  intros NR. destruct f; try contradiction; unfold check_C09, model_scripts; cbn [forallb app].
  - rewrite pairs_eqb_refl. reflexivity.
  - rewrite pairs_eqb_refl. reflexivity.
  - rewrite pairs_eqb_refl. reflexivity.
  - destruct (expected_scripts FArch cfg) as [|p l]; [reflexivity|]. cbv beta iota zeta. rewrite seqb_refl. reflexivity.
Qed.

Definition nul_free (b : str) : bool := negb (existsb (fun c => beq c x00) b).

Lemma until_nul_id b : nul_free b = true -> until_nul b = b.
Proof.
  unfold nul_free. induction b as [|c b IH]; [reflexivity|]. cbn [existsb until_nul].
  intros H. apply negb_true_iff in H. apply orb_false_iff in H as [H1 H2]. rewrite H1.
  rewrite IH; [reflexivity|]. apply negb_true_iff. exact H2.
Qed.

Theorem rpm_model_passes cfg :
  forallb (fun '(_, b) => match b with [] => false | _ => true end && nul_free b) (expected_scripts FRpm cfg) = true ->
  check_C09 FRpm cfg (model_scripts FRpm cfg) [] None = [].
Proof.
  intros H. unfold check_C09, model_scripts, rpm_scripts_model. cbn [forallb app].
  assert (filter (fun '(_, b) => match b with [] => false | _ => true end)
            (map (fun '(s, b) => (s, until_nul b)) (expected_scripts FRpm cfg)) = expected_scripts FRpm cfg) as ->.
  { induction (expected_scripts FRpm cfg) as [|[s b] l IH]; [reflexivity|].
    cbn [forallb] in H. apply andb_true_iff in H as [H1 H2]. apply andb_true_iff in H1 as [Hn Hz].
    cbn [map filter]. rewrite (until_nul_id b Hz). destruct b; [discriminate|]. rewrite IH by exact H2. reflexivity. }
  rewrite pairs_eqb_refl. reflexivity.
Qed.

(* the full statement is false for rpm: an empty script leaves its slot unpopulated, and bytes after a NUL are lost *)
Theorem rpm_refuted :
  (exists cfg, check_C09 FRpm cfg (model_scripts FRpm cfg) [] None <> [] /\ assoc (B "postinstall") cfg = Some []) /\
  (exists cfg, check_C09 FRpm cfg (model_scripts FRpm cfg) [] None <> []).
Proof.
  split.
  - exists [(B "postinstall", [])]. split; [vm_compute; discriminate|reflexivity].
  - exists [(B "preinstall", [x61; x00; x62])]. vm_compute. discriminate.
Qed.
