(* C03: the .MTREE text reads back, line for line, as the entries it was written from - for every name and link target. *)
From Coq Require Import List NArith Bool Arith Lia String.
From Coq Require Import Strings.Byte Strings.Ascii Numbers.DecimalString Numbers.DecimalN Numbers.DecimalPos.
From NfpmV Require Import Lib.Bytes Model.Container Model.Tar Model.Mtree Proofs.C10Proofs Proofs.TarProofs.
Import ListNotations.
Open Scope list_scope.

(* ---------- separators ---------- *)
Definition nosep (b : byte) : bool := negb (beq b sp) && negb (beq b nl).

Lemma nosep_sp b : nosep b = true -> beq b sp = false.
Proof. unfold nosep. intros H. apply andb_true_iff in H. destruct H as [H _]. apply negb_true_iff in H. exact H. Qed.
Lemma nosep_nl b : nosep b = true -> beq b nl = false.
Proof. unfold nosep. intros H. apply andb_true_iff in H. destruct H as [_ H]. apply negb_true_iff in H. exact H. Qed.

Lemma forallb_app_iff {A} (f : A -> bool) a b : forallb f (a ++ b) = forallb f a && forallb f b.
Proof. induction a as [|x a IH]; cbn [app forallb]; [reflexivity|]. rewrite IH. apply andb_assoc. Qed.

Lemma forallb_impl {A} (f g : A -> bool) l : (forall x, f x = true -> g x = true) -> forallb f l = true -> forallb g l = true.
Proof.
  intros Hfg. induction l as [|x l IH]; cbn [forallb]; [reflexivity|]. intros H. apply andb_true_iff in H. destruct H as [Hx Hl].
  rewrite (Hfg _ Hx), (IH Hl). reflexivity.
Qed.

(* ---------- splitting ---------- *)
Lemma splitb_nonnil d s : splitb d s <> [].
Proof. destruct s as [|b r]; cbn [splitb]; [discriminate|]. destruct (beq b d); [discriminate|]. destruct (splitb d r); discriminate. Qed.

Lemma splitb_app_sep d w r : forallb (fun b => negb (beq b d)) w = true -> splitb d (w ++ d :: r) = w :: splitb d r.
Proof.
  induction w as [|x w IH]; cbn [app forallb]; intros H.
  - cbn [splitb]. rewrite beq_refl. reflexivity.
  - apply andb_true_iff in H. destruct H as [Hx Hw]. apply negb_true_iff in Hx. cbn [splitb]. rewrite Hx, (IH Hw). reflexivity.
Qed.

Lemma splitb_nosep d w : forallb (fun b => negb (beq b d)) w = true -> splitb d w = [w].
Proof.
  induction w as [|x w IH]; cbn [forallb]; intros H; [reflexivity|].
  apply andb_true_iff in H. destruct H as [Hx Hw]. apply negb_true_iff in Hx. cbn [splitb]. rewrite Hx, (IH Hw). reflexivity.
Qed.

Lemma nosep_no_sp w : forallb nosep w = true -> forallb (fun b => negb (beq b sp)) w = true.
Proof. apply forallb_impl. intros x H. rewrite (nosep_sp _ H). reflexivity. Qed.
Lemma nosep_no_nl w : forallb nosep w = true -> forallb (fun b => negb (beq b nl)) w = true.
Proof. apply forallb_impl. intros x H. rewrite (nosep_nl _ H). reflexivity. Qed.

Lemma splitb_join ws : ws <> [] -> Forall (fun w => forallb nosep w = true) ws -> splitb sp (join_sp ws) = ws.
Proof.
  induction ws as [|w ws IH]; intros Hne Hall; [contradiction|].
  inversion Hall as [|? ? Hw Hws]; subst.
  destruct ws as [|w2 ws'].
  - cbn [join_sp]. apply splitb_nosep. apply nosep_no_sp. exact Hw.
  - change (join_sp (w :: w2 :: ws')) with (w ++ sp :: join_sp (w2 :: ws')).
    rewrite splitb_app_sep by (apply nosep_no_sp; exact Hw). rewrite IH; [reflexivity|discriminate|exact Hws].
Qed.

Lemma join_no_nl ws : Forall (fun w => forallb nosep w = true) ws -> forallb (fun b => negb (beq b nl)) (join_sp ws) = true.
Proof.
  induction ws as [|w ws IH]; intros Hall; [reflexivity|]. inversion Hall as [|? ? Hw Hws]; subst.
  destruct ws as [|w2 ws'].
  - cbn [join_sp]. apply nosep_no_nl. exact Hw.
  - change (join_sp (w :: w2 :: ws')) with (w ++ sp :: join_sp (w2 :: ws')).
    rewrite forallb_app_iff. cbn [forallb]. rewrite (nosep_no_nl _ Hw), (IH Hws). reflexivity.
Qed.

(* ---------- numbers ---------- *)
Lemma decN_digits n : forallb digitb (decN n) = true.
Proof.
  unfold decN. destruct (N.to_uint n) eqn:E; cbn [NilZero.string_of_uint];
    try (rewrite <- E; clear E); try reflexivity;
    match goal with |- forallb digitb (list_byte_of_string (NilEmpty.string_of_uint ?d)) = true => apply digits_uint end.
Qed.

Lemma to_uint_nonnil n : N.to_uint n <> Decimal.Nil.
Proof. destruct n; cbn [N.to_uint]; [discriminate|apply DecimalPos.Unsigned.to_uint_nonnil]. Qed.

Lemma decN_nonempty n : decN n <> [].
Proof.
  unfold decN. pose proof (to_uint_nonnil n) as H. destruct (N.to_uint n); try contradiction; cbn; discriminate.
Qed.

Lemma parse_decN_decN n : parse_decN (decN n) = Some n.
Proof.
  unfold parse_decN. pose proof (decN_nonempty n) as Hne. destruct (decN n) eqn:E; [contradiction|]. rewrite <- E.
  rewrite decN_digits. unfold decN. rewrite string_of_list_byte_of_string. rewrite NilZero.usu by apply to_uint_nonnil.
  cbn [option_map]. rewrite DecimalN.Unsigned.of_to. reflexivity.
Qed.

Lemma digit_nosep b : digitb b = true -> nosep b = true.
Proof. destruct b; cbn; intros H; try reflexivity; discriminate. Qed.

Lemma decN_nosep n : forallb nosep (decN n) = true.
Proof. apply (forallb_impl digitb); [apply digit_nosep|apply decN_digits]. Qed.

Definition octb (b : byte) : bool := match oct_val b with Some _ => true | None => false end.

Lemma oct_fixed_octb k : forall n, forallb octb (oct_fixed k n) = true.
Proof.
  induction k as [|k IH]; intros n; cbn [oct_fixed]; [reflexivity|]. rewrite forallb_app_iff, IH. cbn [forallb].
  assert (n mod 8 < 8)%N as H by (apply N.mod_lt; discriminate).
  unfold octb. rewrite (oct_val_digit _ H). reflexivity.
Qed.

Lemma drop_while_forallb f g s : forallb g s = true -> forallb g (drop_while f s) = true.
Proof.
  induction s as [|b s IH]; cbn [drop_while forallb]; [reflexivity|]. intros H. apply andb_true_iff in H. destruct H as [Hb Hs].
  destruct (f b); [apply IH; exact Hs|]. cbn [forallb]. rewrite Hb, Hs. reflexivity.
Qed.

Lemma octN_octb n : forallb octb (octN n) = true.
Proof.
  unfold octN. pose proof (drop_while_forallb is_zero_digit octb _ (oct_fixed_octb 22 n)) as H.
  destruct (drop_while is_zero_digit (oct_fixed 22 n)); [reflexivity|exact H].
Qed.

Lemma octb_nosep b : octb b = true -> nosep b = true.
Proof. destruct b; cbn; intros H; try reflexivity; discriminate. Qed.

Lemma octN_nosep n : forallb nosep (octN n) = true.
Proof. apply (forallb_impl octb); [apply octb_nosep|apply octN_octb]. Qed.

Lemma parse_oct_drop_zeros s : parse_oct (drop_while is_zero_digit s) = parse_oct s.
Proof.
  unfold parse_oct. induction s as [|b s IH]; cbn [drop_while]; [reflexivity|].
  destruct (is_zero_digit b) eqn:E; [|reflexivity].
  unfold is_zero_digit in E. apply beq_eq in E. subst b. cbn [parse_oct_acc oct_val]. exact IH.
Qed.

Lemma octN_nonempty n : octN n <> [].
Proof. unfold octN. destruct (drop_while is_zero_digit (oct_fixed 22 n)); discriminate. Qed.

Lemma parse_octN_octN n : (n < 8 ^ 22)%N -> parse_octN (octN n) = Some n.
Proof.
  intros Hn. unfold parse_octN. pose proof (octN_nonempty n) as Hne. destruct (octN n) eqn:E; [contradiction|]. rewrite <- E. clear Hne.
  unfold octN. pose proof (parse_oct_drop_zeros (oct_fixed 22 n)) as Hd.
  rewrite (parse_oct_fixed0 22 n Hn) in Hd.
  destruct (drop_while is_zero_digit (oct_fixed 22 n)) eqn:D.
  - cbn in Hd. injection Hd as <-. reflexivity.
  - exact Hd.
Qed.

(* ---------- quoting: every byte ---------- *)
Lemma unquote_quote_byte b r : unquote (quote_byte b ++ r) = option_map (cons b) (unquote r).
Proof. destruct b; reflexivity. Qed.

Lemma unquote_mquote s : unquote (mquote s) = Some s.
Proof.
  induction s as [|b s IH]; [reflexivity|]. unfold mquote. cbn [flat_map]. rewrite unquote_quote_byte.
  change (flat_map quote_byte s) with (mquote s). rewrite IH. reflexivity.
Qed.

Lemma quote_byte_nosep b : forallb nosep (quote_byte b) = true.
Proof. destruct b; reflexivity. Qed.

Lemma mquote_nosep s : forallb nosep (mquote s) = true.
Proof.
  induction s as [|b s IH]; [reflexivity|]. unfold mquote. cbn [flat_map]. rewrite forallb_app_iff, quote_byte_nosep. exact IH.
Qed.

Lemma plain_nosep s : plain s = true -> forallb nosep s = true.
Proof. unfold plain. apply forallb_impl. intros b. destruct b; cbn; intros H; try reflexivity; discriminate. Qed.

(* ---------- words ---------- *)
Lemma strip_prefix_app p v : strip_prefix p (p ++ v) = Some v.
Proof. induction p as [|x p IH]; cbn [app strip_prefix]; [reflexivity|]. rewrite beq_refl. exact IH. Qed.

Lemma kv_val_kw k v : kv_val k (kw k v) = Some v.
Proof. unfold kv_val, kw. rewrite app_assoc. apply strip_prefix_app. Qed.

Lemma string_nosep_kw (k : string) v : forallb nosep (list_byte_of_string k ++ [eqs]) = true -> forallb nosep v = true ->
  forallb nosep (kw k v) = true.
Proof. intros Hk Hv. unfold kw. rewrite app_assoc, forallb_app_iff, Hk, Hv. reflexivity. Qed.

Lemma parse_time_dec t : parse_time (decN t ++ [x2e; x30]%byte) = Some t.
Proof.
  unfold parse_time.
  assert (take_whileb digitb (decN t ++ [x2e; x30]%byte) = decN t) as Ht.
  { apply take_whileb_app_stop; [apply decN_digits|reflexivity]. }
  rewrite Ht. rewrite skipn_app_exact by reflexivity. cbn [seqb beq]. rewrite !beq_refl. cbn [andb]. apply parse_decN_decN.
Qed.

Lemma mwords_nosep e : wf_mentry e = true -> Forall (fun w => forallb nosep w = true) (mwords e).
Proof.
  intros Hwf. unfold wf_mentry in Hwf. apply andb_true_iff in Hwf. destruct Hwf as [_ Hk].
  unfold mwords.
  assert (forallb nosep ([x2e; x2f]%byte ++ mquote (me_path e)) = true) as H1.
  { rewrite forallb_app_iff, mquote_nosep. reflexivity. }
  assert (forallb nosep (kw "time" (decN (me_time e) ++ [x2e; x30]%byte)) = true) as H2.
  { apply string_nosep_kw; [reflexivity|]. rewrite forallb_app_iff, decN_nosep. reflexivity. }
  assert (forallb nosep (kw "mode" (octN (me_mode e))) = true) as H3.
  { apply string_nosep_kw; [reflexivity|apply octN_nosep]. }
  destruct (me_kind e).
  - repeat constructor; assumption.
  - repeat constructor; try assumption. apply string_nosep_kw; [reflexivity|apply mquote_nosep].
  - apply andb_true_iff in Hk. destruct Hk as [Hk _]. apply andb_true_iff in Hk. destruct Hk as [Hm Hs].
    repeat constructor; try assumption.
    + apply string_nosep_kw; [reflexivity|apply decN_nosep].
    + apply string_nosep_kw; [reflexivity|apply plain_nosep; exact Hm].
    + apply string_nosep_kw; [reflexivity|apply plain_nosep; exact Hs].
Qed.

Lemma mwords_nonnil e : mwords e <> [].
Proof. unfold mwords. cbn [app]. discriminate. Qed.

Lemma parse_words_mwords e : wf_mentry e = true -> parse_words (mwords e) = Some e.
Proof.
  intros Hwf. unfold wf_mentry in Hwf. apply andb_true_iff in Hwf. destruct Hwf as [Hmode Hk]. apply N.ltb_lt in Hmode.
  destruct e as [path kind time mode size md5 sha link]. cbn [me_path me_kind me_time me_mode me_size me_md5 me_sha256 me_link] in *.
  unfold mwords. cbn [me_path me_kind me_time me_mode me_size me_md5 me_sha256 me_link].
  destruct kind; cbn [app parse_words strip_prefix beq];
    rewrite ?beq_refl; cbn [strip_prefix]; rewrite unquote_mquote, !kv_val_kw; cbn [option_map];
    rewrite parse_time_dec, (parse_octN_octN _ Hmode).
  - rewrite seqb_refl.
    apply andb_true_iff in Hk. destruct Hk as [Hk Hl]. apply andb_true_iff in Hk. destruct Hk as [Hk Hs]. apply andb_true_iff in Hk. destruct Hk as [Hz Hm].
    apply N.eqb_eq in Hz. apply seqb_eq in Hm, Hs, Hl. subst. reflexivity.
  - rewrite seqb_refl, ?kv_val_kw. cbn [option_map]. rewrite unquote_mquote.
    apply andb_true_iff in Hk. destruct Hk as [Hk Hs]. apply andb_true_iff in Hk. destruct Hk as [Hz Hm].
    apply N.eqb_eq in Hz. apply seqb_eq in Hm, Hs. subst. reflexivity.
  - rewrite seqb_refl, ?kv_val_kw. cbn [option_map]. rewrite parse_decN_decN.
    apply andb_true_iff in Hk. destruct Hk as [_ Hl]. apply seqb_eq in Hl. subst. reflexivity.
Qed.

(* ---------- lines ---------- *)
Definition mbody (e : mentry) : str := join_sp (mwords e).

Lemma mline_body e : mline e = mbody e ++ [nl].
Proof. reflexivity. Qed.

Lemma split_lines es : Forall (fun e => wf_mentry e = true) es ->
  splitb nl (List.concat (map mline es)) = map mbody es ++ [[]].
Proof.
  induction es as [|e es IH]; intros Hall; [reflexivity|]. inversion Hall as [|? ? He Hes]; subst.
  cbn [map List.concat app]. rewrite mline_body, <- app_assoc. cbn [app].
  rewrite splitb_app_sep by (apply join_no_nl, mwords_nosep; exact He).
  rewrite (IH Hes). reflexivity.
Qed.

Lemma parse_lines_bodies es : Forall (fun e => wf_mentry e = true) es -> parse_lines (map mbody es ++ [[]]) = Some es.
Proof.
  induction es as [|e es IH]; intros Hall; [reflexivity|]. inversion Hall as [|? ? He Hes]; subst.
  cbn [map app].
  assert (parse_lines (mbody e :: (map mbody es ++ [[]])) =
          match parse_words (splitb sp (mbody e)), parse_lines (map mbody es ++ [[]]) with
          | Some e0, Some es0 => Some (e0 :: es0) | _, _ => None end) as Hstep.
  { destruct (map mbody es ++ [[]]) eqn:E; [|reflexivity]. destruct (map mbody es); discriminate. }
  rewrite Hstep. unfold mbody at 1.
  rewrite splitb_join by (apply mwords_nonnil || (apply mwords_nosep; exact He)).
  rewrite (parse_words_mwords _ He), (IH Hes). reflexivity.
Qed.

Theorem mtree_roundtrip es : Forall (fun e => wf_mentry e = true) es -> mtree_read (mtree_text es) = Some es.
Proof.
  intros Hall. unfold mtree_read, mtree_text. rewrite strip_prefix_app. rewrite (split_lines _ Hall). apply parse_lines_bodies. exact Hall.
Qed.

(* ---------- what the per-run check means ---------- *)
Theorem mtree_reencodes_sound s : mtree_reencodes s = true -> exists es, mtree_read s = Some es /\ s = mtree_text es.
Proof.
  unfold mtree_reencodes. destruct (mtree_read s) as [es|]; [|discriminate]. intros H. apply seqb_eq in H. exists es. split; [reflexivity|symmetry; exact H].
Qed.

(* ---------- the archive and its .MTREE ---------- *)
Lemma wf_mentry_of s : wf_shipped s = true -> wf_mentry (mentry_of s) = true.
Proof.
  unfold wf_shipped, wf_mentry, mentry_of. intros H. apply andb_true_iff in H. destruct H as [Hm Hk].
  destruct (sh_kind s); cbn [me_mode me_kind me_size me_md5 me_sha256 me_link].
  - rewrite Hm, Hk. reflexivity.
  - rewrite Hm. reflexivity.
  - reflexivity.
Qed.

Theorem arch_mtree_lists_what_is_shipped pkginfo payload :
  wf_shipped pkginfo = true -> Forall (fun s => wf_shipped s = true) payload ->
  mtree_read (arch_mtree pkginfo payload) = Some (map mentry_of (pkginfo :: payload)).
Proof.
  intros Hp Hall. unfold arch_mtree. apply mtree_roundtrip. cbn [map]. constructor; [apply wf_mentry_of; exact Hp|].
  induction Hall as [|s l Hs _ IH]; cbn [map]; constructor; [apply wf_mentry_of; exact Hs|exact IH].
Qed.

(* a name with a blank in it, written WITHOUT the escape, does not read back: the line names another path and holds a
   word that is no keyword (what the code did before the repair) *)
Definition mline_unquoted (e : mentry) : str :=
  join_sp (([x2e; x2f]%byte ++ me_path e) :: tl (mwords e)) ++ [nl].

Example blank_entry : mentry :=
  {| me_path := list_byte_of_string "opt/my file"; me_kind := MDir; me_time := 1700000000; me_mode := 493; me_size := 0;
     me_md5 := []; me_sha256 := []; me_link := [] |}.

Theorem unquoted_blank_does_not_read_back :
  wf_mentry blank_entry = true /\ mtree_read (mtree_header ++ mline_unquoted blank_entry) = None
  /\ mtree_read (mtree_text [blank_entry]) = Some [blank_entry].
Proof. vm_compute. repeat split. Qed.
