(* Every planned entry has one of the thirteen prepared types (the empty type has become "file"). *)
From Coq Require Import List NArith ZArith Lia Bool.
From Coq Require Import Strings.Byte.
From NfpmV Require Import Lib.Bytes Model.Path Model.Content Model.Prepare Model.Payload Spec.C05 Spec.C01.
From NfpmV Require Import Proofs.PathFacts Proofs.MapFacts Proofs.KeyFacts Proofs.PrepInv Proofs.StepInv.
Import ListNotations.

Definition typed_vals (m : cmap) : Prop := forall k v, In (k, v) m -> prepared_typ (c_typ v) = true.

Lemma m_set_in_weak : forall m k v k' v', In (k', v') (m_set m k v) -> v' = v \/ In (k', v') m.
Proof.
  induction m as [|[k0 v0] m IH]; intros k v k' v' H; cbn [m_set] in H.
  - destruct H as [H|[]]. injection H as <- <-. left. reflexivity.
  - destruct (seqb k0 k).
    + destruct H as [H|H]; [injection H as <- <-; left; reflexivity|right; right; exact H].
    + destruct H as [H|H]; [right; left; exact H|].
      destruct (IH _ _ _ _ H) as [?|?]; [left; assumption|right; right; assumption].
Qed.

Lemma typed_set m k v : typed_vals m -> prepared_typ (c_typ v) = true -> typed_vals (m_set m k v).
Proof. intros T Hv k' v' H. apply m_set_in_weak in H as [->|H]; [exact Hv|eapply T; eauto]. Qed.

Lemma typed_parent_list : forall ps m m' mt, typed_vals m -> add_parent_list m ps mt = Ok m' -> typed_vals m'.
Proof.
  induction ps as [|p ps IH]; intros m m' mt T H; cbn [add_parent_list] in H.
  - injection H as <-. exact T.
  - destruct (occupant m p) as [c|].
    + destruct (is_dir_typ (c_typ c)); [eapply IH; eauto|discriminate].
    + eapply IH; [|exact H]. apply typed_set; [exact T|reflexivity].
Qed.

Lemma typed_add_parents m path mt m' : typed_vals m -> add_parents m path mt = Ok m' -> typed_vals m'.
Proof. unfold add_parents. apply typed_parent_list. Qed.

Lemma file_like_prepared t : file_like t = true -> seqb t TNone = false -> prepared_typ t = true.
Proof.
  unfold file_like, typ_in. cbn [existsb]. repeat rewrite orb_true_iff.
  intros [H|[H|[H|[H|[H|H]]]]] N; try discriminate; try (apply seqb_eq in H; subst; reflexivity).
  congruence.
Qed.

Lemma typed_globbed st umask mt orig : file_like (c_typ orig) = true ->
  forall pairs all all', typed_vals all -> add_globbed st umask mt orig all pairs = Ok all' -> typed_vals all'.
Proof.
  intros FL. induction pairs as [|[g d] rest IH]; intros all all' T H; cbn [add_globbed] in H.
  - injection H as <-. exact T.
  - destruct (occupant all (norm_file d)); [discriminate|].
    destruct (add_parents all (norm_file d) mt) as [all1|e] eqn:AP; [|discriminate].
    eapply IH; [|exact H]. apply typed_set; [eapply typed_add_parents; eauto|].
    unfold globbed_file. destruct (gm_readlink g); cbn [c_typ]; [reflexivity|].
    rewrite wd_typ. cbn [c_typ]. destruct (seqb (c_typ orig) TNone) eqn:E; [reflexivity|].
    apply file_like_prepared; assumption.
Qed.

Lemma typed_tree_items fs st umask mt tree : forall ws all all',
  typed_vals all -> add_tree_items fs st umask mt tree all ws = Ok all' -> typed_vals all'.
Proof.
  induction ws as [|w ws IH]; intros all all' T H; cbn [add_tree_items] in H.
  - injection H as <-. exact T.
  - destruct (tree_item fs st umask mt tree w) as [c|e] eqn:TI; [|discriminate].
    destruct (match occupant all (c_dst c) with Some p => _ | None => false end); [discriminate|].
    eapply IH; [|exact H]. apply typed_set; [exact T|].
    destruct (tree_item_facts _ _ _ _ _ _ _ TI) as (_ & path & [(_ & _ & [E|E])|(_ & _ & [E|E])]); rewrite E; reflexivity.
Qed.

Lemma typed_step fs st umask packager mt m ce m' :
  typed_vals m -> step fs st umask packager mt m ce = Ok m' -> typed_vals m'.
Proof.
  intros T H. destruct ce as [c eo]. unfold step in H.
  destruct (negb (is_relevant packager c)); [injection H as <-; exact T|].
  destruct (seqb (c_typ c) TDir) eqn:T1.
  { destruct (match occupant m (norm_dir (c_dst c)) with Some p => _ | None => false end); [discriminate|].
    destruct (add_parents m (c_dst c) mt) as [m1|e] eqn:AP; [|discriminate].
    injection H as <-. apply typed_set; [eapply typed_add_parents; eauto|].
    cbn [set_src_dst c_typ]. rewrite wd_typ. apply seqb_eq in T1. rewrite T1. reflexivity. }
  destruct (seqb (c_typ c) TImplicitDir) eqn:T2; [injection H as <-; exact T|].
  destruct (typ_in (c_typ c) [TGhost; TSymlink; TDoc; TLicence; TLicense; TReadme; TDebChangelog]) eqn:T3.
  { destruct (occupant m (norm_file (c_dst c))); [discriminate|].
    destruct (add_parents m (c_dst c) mt) as [m1|e] eqn:AP; [|discriminate].
    injection H as <-. apply typed_set; [eapply typed_add_parents; eauto|].
    cbn [set_src_dst c_typ]. rewrite wd_typ.
    unfold typ_in in T3. cbn [existsb] in T3. repeat rewrite orb_true_iff in T3.
    destruct T3 as [E|[E|[E|[E|[E|[E|[E|E]]]]]]]; try discriminate; apply seqb_eq in E; rewrite E; reflexivity. }
  destruct (seqb (c_typ c) TTree) eqn:T4.
  { unfold add_tree in H.
    destruct (if negb (seqb (c_dst c) [slash]) && negb (seqb (c_dst c) []) then _ else false); [discriminate|].
    destruct (add_parents m (c_dst c) mt) as [m1|e] eqn:AP; [|discriminate].
    destruct (eo_walk eo) as [e|ws]; [discriminate|].
    eapply typed_tree_items; [eapply typed_add_parents; eauto|exact H]. }
  destruct (typ_in (c_typ c) [TConfig; TConfigNoReplace; TConfigMissingOK; TFile; TNone]) eqn:T5; [|discriminate].
  destruct (eo_glob eo) as [e|pattern ms use_lcp]; [discriminate|].
  destruct ms as [|g0 ms0]; [discriminate|].
  destruct (glob_pairs _ _ _) as [pairs|e]; [|discriminate].
  eapply typed_globbed; [exact T5|exact T|exact H].
Qed.

Lemma typed_steps fs st umask packager mt : forall ces m m',
  typed_vals m -> steps fs st umask packager mt m ces = Ok m' -> typed_vals m'.
Proof.
  induction ces as [|ce ces IH]; intros m m' T H; cbn [steps] in H.
  - injection H as <-. exact T.
  - destruct (step fs st umask packager mt m ce) as [m1|e] eqn:S; [|discriminate].
    eapply IH; [eapply typed_step; eauto|exact H].
Qed.
