(* Keys of the destination map: directory keys [dkey cs], file keys [fkey cs], their locations,
   and what files.occupant finds. *)
From Coq Require Import List NArith Lia Bool.
From Coq Require Import Strings.Byte.
From NfpmV Require Import Lib.Bytes Model.Path Model.Content Model.Prepare Proofs.PathFacts Proofs.MapFacts.
Import ListNotations.

Lemma has_suffix_snoc_slash r : has_suffix [slash] (r ++ [slash]) = true.
Proof.
  unfold has_suffix. rewrite rev_app_distr. cbn [rev app has_prefix]. rewrite beq_refl. reflexivity.
Qed.

Lemma has_suffix_snoc_other r b : b <> slash -> has_suffix [slash] (r ++ [b]) = false.
Proof.
  intros H. unfold has_suffix. rewrite rev_app_distr. cbn [rev app has_prefix].
  assert (beq slash b = false) as -> by (apply beq_neq; congruence). reflexivity.
Qed.

Lemma dkey_suffix cs : has_suffix [slash] (dkey cs) = true.
Proof. destruct cs; [reflexivity|]. cbn [dkey]. apply has_suffix_snoc_slash. Qed.

Lemma fkey_suffix cs : Forall good_comp cs -> cs <> [] -> has_suffix [slash] (fkey cs) = false.
Proof.
  intros H Hne. destruct (last_join_abs cs H Hne) as (r & b & E & Hb).
  destruct cs; [contradiction|]. cbn [fkey abs_of]. rewrite E. apply has_suffix_snoc_other. exact Hb.
Qed.

Lemma dkey_fkey_disjoint a b : Forall good_comp a -> Forall good_comp b -> dkey a = fkey b -> a = [] /\ b = [].
Proof.
  intros Ha Hb E.
  assert (comps_abs (dkey a) = comps_abs (fkey b)) as C by (rewrite E; reflexivity).
  rewrite comps_abs_dkey, comps_abs_fkey in C by assumption. subst b.
  destruct a as [|c a]; [auto|]. exfalso.
  pose proof (dkey_suffix (c :: a)) as S1. rewrite E in S1.
  rewrite fkey_suffix in S1 by (auto; discriminate). discriminate.
Qed.

Lemma dkey_not_root cs : Forall good_comp cs -> cs <> [] -> seqb (dkey cs) [slash] = false.
Proof.
  intros H Hne. apply seqb_neq. intros E. change [slash] with (dkey []) in E.
  apply dkey_inj in E; [contradiction|exact H|constructor].
Qed.

Lemma fkey_not_root cs : Forall good_comp cs -> cs <> [] -> seqb (fkey cs) [slash] = false.
Proof.
  intros H Hne. apply seqb_neq. intros E. change [slash] with (fkey []) in E.
  apply fkey_inj in E; [contradiction|exact H|constructor].
Qed.

Lemma dkey_strip cs : cs <> [] -> strip_dir_slash (dkey cs) = fkey cs.
Proof. destruct cs; [contradiction|]. intros _. cbn [dkey fkey abs_of]. apply strip_dir_slash_snoc. Qed.

Lemma fkey_snoc cs : cs <> [] -> fkey cs ++ [slash] = dkey cs.
Proof. destruct cs; [contradiction|]. reflexivity. Qed.

(* a valid key for a value of directory kind [d] *)
Definition vkey (k : str) (cs : list str) (d : bool) : Prop :=
  Forall good_comp cs /\ k = (if d then dkey cs else fkey cs).

Lemma vkey_comps k cs d : vkey k cs d -> comps_abs k = cs.
Proof. intros [H ->]. destruct d; [apply comps_abs_dkey|apply comps_abs_fkey]; exact H. Qed.

Definition val_ok (k : str) (v : content) : Prop :=
  c_dst v = k /\ exists cs, vkey k cs (is_dir_typ (c_typ v)).

Definition vals_ok (m : cmap) : Prop := forall k v, In (k, v) m -> val_ok k v.

(* nothing at this location *)
Lemma occupant_none m k cs d : vals_ok m -> vkey k cs d -> occupant m k = None ->
  forall k' v', In (k', v') m -> comps_abs k' <> cs.
Proof.
  intros V K O k' v' Hin C. destruct (V k' v' Hin) as (_ & cs' & K').
  pose proof (vkey_comps _ _ _ K') as C'. rewrite C in C'. subst cs'.
  destruct K as [G Ek], K' as [_ Ek'].
  unfold occupant in O. destruct (m_get m k) eqn:G1; [discriminate|].
  assert (k' <> k) as Hne.
  { intros ->. apply m_get_none in G1. apply G1. apply (in_map fst) in Hin. exact Hin. }
  destruct cs as [|c cs].
  - (* root: both spellings coincide *)
    apply Hne. rewrite Ek, Ek'. destruct d, (is_dir_typ (c_typ v')); reflexivity.
  - assert (c :: cs <> []) as NE by discriminate.
    destruct d.
    + rewrite Ek in O. rewrite dkey_not_root, dkey_suffix, dkey_strip in O by assumption.
      apply m_get_none in O. destruct (is_dir_typ (c_typ v')); [congruence|].
      apply O. apply (in_map fst) in Hin. rewrite Ek' in Hin. exact Hin.
    + rewrite Ek in O. rewrite fkey_not_root, fkey_suffix, fkey_snoc in O by assumption.
      apply m_get_none in O. destruct (is_dir_typ (c_typ v')); [|congruence].
      apply O. apply (in_map fst) in Hin. rewrite Ek' in Hin. exact Hin.
Qed.

Lemma occupant_in m k p : occupant m k = Some p -> exists k', In (k', p) m.
Proof.
  unfold occupant. destruct (m_get m k) eqn:G.
  - intros H. injection H as <-. exists k. apply m_get_in. exact G.
  - destruct (seqb k [slash]); [discriminate|]. destruct (has_suffix [slash] k); intros H; apply m_get_in in H; eauto.
Qed.

(* a directory found by occupant for a directory key sits at that very key *)
Lemma occupant_dir_at m k cs p : vals_ok m -> vkey k cs true -> occupant m k = Some p ->
  is_dir_typ (c_typ p) = true -> m_get m k = Some p.
Proof.
  intros V [G Ek] O D. unfold occupant in O. destruct (m_get m k) eqn:G1; [exact O|].
  exfalso. destruct cs as [|c cs].
  - rewrite Ek in O. cbn in O. discriminate.
  - assert (c :: cs <> []) as NE by discriminate.
    rewrite Ek in O. rewrite dkey_not_root, dkey_suffix, dkey_strip in O by assumption.
    apply m_get_in in O. destruct (V _ _ O) as (_ & cs' & G' & E'). rewrite D in E'.
    symmetry in E'. apply dkey_fkey_disjoint in E'; [|assumption|assumption]. destruct E' as [_ E']. discriminate.
Qed.

(* a non-directory found by occupant for a file key sits at that very key *)
Lemma occupant_file_at m k cs p : vals_ok m -> vkey k cs false -> occupant m k = Some p ->
  is_dir_typ (c_typ p) = false -> m_get m k = Some p.
Proof.
  intros V [G Ek] O D. unfold occupant in O. destruct (m_get m k) eqn:G1; [exact O|].
  exfalso. destruct cs as [|c cs].
  - rewrite Ek in O. cbn in O. discriminate.
  - assert (c :: cs <> []) as NE by discriminate.
    rewrite Ek in O. rewrite fkey_not_root, fkey_suffix, fkey_snoc in O by assumption.
    apply m_get_in in O. destruct (V _ _ O) as (_ & cs' & G' & E'). rewrite D in E'.
    apply dkey_fkey_disjoint in E'; [|assumption|assumption]. destruct E' as [E' _]. discriminate.
Qed.

(* ---- prefixes as a chain ---- *)
Fixpoint chain (pre : list str) (l : list str) : list (list str) :=
  match l with
  | [] => []
  | x :: l' => (pre ++ [x]) :: chain (pre ++ [x]) l'
  end.

Lemma filter_nonnil_cons {A} (x : A) (ls : list (list A)) : filter nonnil (map (cons x) ls) = map (cons x) ls.
Proof. induction ls as [|l ls IH]; cbn; [reflexivity|]. rewrite IH. reflexivity. Qed.

Lemma nonnil_prefixes_cons {A} (x : A) l : filter nonnil (prefixes (x :: l)) = map (cons x) (prefixes l).
Proof. cbn [prefixes filter nonnil]. apply filter_nonnil_cons. Qed.

Lemma prefixes_head {A} (y : A) l : prefixes (y :: l) = [] :: filter nonnil (prefixes (y :: l)).
Proof. cbn [prefixes filter nonnil]. rewrite filter_nonnil_cons. reflexivity. Qed.

Lemma chain_prefixes : forall l pre,
  map (app pre) (filter nonnil (prefixes l)) = chain pre (removelast l).
Proof.
  induction l as [|x l IH]; intros pre; [reflexivity|].
  rewrite nonnil_prefixes_cons. destruct l as [|y l'].
  - reflexivity.
  - change (removelast (x :: y :: l')) with (x :: removelast (y :: l')). cbn [chain].
    rewrite prefixes_head. cbn [map]. f_equal.
    rewrite <- IH. rewrite !map_map. apply map_ext. intros q. rewrite <- app_assoc. reflexivity.
Qed.

Lemma ancestor_dirs_chain k :
  ancestor_dirs k = map (fun p => join_abs p ++ [slash]) (chain [] (removelast (comps_abs k))).
Proof.
  unfold ancestor_dirs. rewrite <- chain_prefixes. rewrite map_map. reflexivity.
Qed.

Lemma in_chain_nil l q : In q (chain [] (removelast l)) <-> q <> [] /\ In q (prefixes l).
Proof.
  rewrite <- chain_prefixes. cbn [app]. rewrite map_id. rewrite filter_In.
  destruct q; cbn [nonnil]; intuition congruence.
Qed.

Lemma prefixes_snoc {A} : forall (l : list A) x, prefixes (l ++ [x]) = prefixes l ++ [l].
Proof.
  induction l as [|y l IH]; intros x; [reflexivity|].
  cbn [app prefixes]. rewrite IH. rewrite map_app. reflexivity.
Qed.

Lemma prefix_neq {A} (l p : list A) : In p (prefixes l) -> p <> l.
Proof.
  intros H E. apply prefixes_spec in H as (r & Hr & H). subst p.
  apply (f_equal (@length A)) in H. rewrite app_length in H. destruct r; [contradiction|cbn in H; lia].
Qed.

Lemma dkey_nonnil p : p <> [] -> dkey p = join_abs p ++ [slash].
Proof. destruct p; [contradiction|reflexivity]. Qed.
