(* C10: what a debsign verifier reads out of the stored package is, byte for byte, what the signer was handed. *)
From Coq Require Import List NArith ZArith Bool Arith Lia String.
From Coq Require Import Strings.Byte Strings.Ascii Numbers.DecimalString Numbers.DecimalN Numbers.DecimalPos.
From NfpmV Require Import Lib.Bytes Model.Container.
Import ListNotations.
Open Scope list_scope.

(* ---------- decimal fields ---------- *)
Lemma digits_uint d : forallb digitb (list_byte_of_string (NilEmpty.string_of_uint d)) = true.
Proof.
  induction d; [reflexivity| | | | | | | | | |];
    (change (list_byte_of_string (NilEmpty.string_of_uint ?x)) with (list_byte_of_string (NilEmpty.string_of_uint x)) in *;
     cbn [NilEmpty.string_of_uint]; unfold list_byte_of_string in *; cbn [list_ascii_of_string map forallb];
     rewrite IHd; reflexivity).
Qed.

Lemma dec_nat_digits n : forallb digitb (dec_nat n) = true.
Proof.
  unfold dec_nat. destruct (N.to_uint (N.of_nat n)) eqn:E; cbn [NilZero.string_of_uint];
    try (rewrite <- E; clear E); try reflexivity;
    match goal with |- forallb digitb (list_byte_of_string (NilEmpty.string_of_uint ?d)) = true => apply digits_uint end.
Qed.

Lemma parse_dec_nat n : parse_dec (dec_nat n) = Some n.
Proof.
  unfold parse_dec, dec_nat. rewrite string_of_list_byte_of_string.
  rewrite NilZero.usu.
  - cbn [option_map]. rewrite DecimalN.Unsigned.of_to. rewrite Nat2N.id. reflexivity.
  - destruct (N.of_nat n); cbn [N.to_uint]; [discriminate|apply DecimalPos.Unsigned.to_uint_nonnil].
Qed.

(* ---------- list plumbing ---------- *)
Lemma take_whileb_app_stop f a b r : forallb f a = true -> f b = false -> take_whileb f (a ++ b :: r) = a.
Proof.
  induction a as [|x a IH]; intros Ha Hb; cbn [app take_whileb].
  - rewrite Hb. reflexivity.
  - cbn [forallb] in Ha. apply andb_true_iff in Ha. destruct Ha as [Hx Ha]. rewrite Hx. f_equal. apply IH; assumption.
Qed.

Lemma take_whileb_all f a : forallb f a = true -> take_whileb f a = a.
Proof.
  induction a as [|x a IH]; intros Ha; [reflexivity|]. cbn [forallb] in Ha. apply andb_true_iff in Ha. destruct Ha as [Hx Ha].
  cbn [take_whileb]. rewrite Hx. f_equal. apply IH. exact Ha.
Qed.

Lemma take_whileb_pad f n a : forallb f a = true -> f sp = false -> take_whileb f (pad_right n a) = a.
Proof.
  intros Ha Hs. unfold pad_right. destruct (n - List.length a) as [|k]; cbn [repeat].
  - rewrite app_nil_r. apply take_whileb_all. exact Ha.
  - apply take_whileb_app_stop; assumption.
Qed.

Lemma pad_right_length n a : List.length a <= n -> List.length (pad_right n a) = n.
Proof. intros H. unfold pad_right. rewrite app_length, repeat_length. lia. Qed.

Lemma firstn_app_exact {A} (a b : list A) n : List.length a = n -> firstn n (a ++ b) = a.
Proof. intros <-. rewrite firstn_app, Nat.sub_diag, firstn_all. cbn [firstn]. apply app_nil_r. Qed.

Lemma skipn_app_exact {A} (a b : list A) n : List.length a = n -> skipn n (a ++ b) = b.
Proof. intros <-. rewrite skipn_app, Nat.sub_diag, skipn_all. reflexivity. Qed.

(* ---------- one member ---------- *)
Definition head60 (m : member) : str :=
  pad_right 16 (m_name m) ++ m_rest m ++ pad_right 10 (dec_nat (List.length (m_body m))) ++ hdr_end.

Lemma head60_length m : wf_member m -> List.length (head60 m) = 60.
Proof.
  intros (_ & Hn & _ & Hr & Hd). unfold head60. rewrite !app_length, !pad_right_length by assumption. rewrite Hr. reflexivity.
Qed.

Lemma enc_member_split m : enc_member m = head60 m ++ m_body m ++ (if Nat.odd (List.length (m_body m)) then [x0a]%byte else []).
Proof. unfold enc_member, head60. rewrite <- !app_assoc. reflexivity. Qed.

Lemma digitb_sp : digitb sp = false. Proof. reflexivity. Qed.

Lemma ar_members_nonempty f s : s <> [] ->
  ar_members (S f) s =
  let h := firstn 60 s in
  let name := take_whileb (fun b => negb (beq b sp)) (firstn 16 h) in
  match parse_dec (take_whileb digitb (firstn 10 (skipn 48 h))) with
  | None => None
  | Some size =>
      let after := skipn 60 s in
      match ar_members f (skipn (size + (if Nat.odd size then 1 else 0)) after) with
      | Some r => Some ((name, firstn size after) :: r)
      | None => None
      end
  end.
Proof. intros H. destruct s; [contradiction|reflexivity]. Qed.

Lemma members_step f m rest : wf_member m ->
  ar_members (S f) (enc_member m ++ rest) =
  match ar_members f rest with Some r => Some ((m_name m, m_body m) :: r) | None => None end.
Proof.
  intros W. pose proof (head60_length m W) as L60. destruct W as (Hne & Hn & Hns & Hr & Hd).
  rewrite enc_member_split. rewrite <- !app_assoc.
  set (tail := m_body m ++ (if Nat.odd (List.length (m_body m)) then [x0a]%byte else []) ++ rest).
  assert (Hnonempty : head60 m ++ tail <> []).
  { intros E. apply (f_equal (@List.length byte)) in E. rewrite app_length, L60 in E. cbn in E. lia. }
  rewrite (ar_members_nonempty f _ Hnonempty). cbv zeta.
  rewrite (firstn_app_exact (head60 m) tail 60 L60), (skipn_app_exact (head60 m) tail 60 L60).
  (* the name *)
  assert (Hname : take_whileb (fun b => negb (beq b sp)) (firstn 16 (head60 m)) = m_name m).
  { unfold head60. rewrite (firstn_app_exact (pad_right 16 (m_name m))) by (apply pad_right_length; exact Hn).
    apply take_whileb_pad; [exact Hns|reflexivity]. }
  (* the size *)
  assert (Hsize : take_whileb digitb (firstn 10 (skipn 48 (head60 m))) = dec_nat (List.length (m_body m))).
  { unfold head60. rewrite app_assoc.
    rewrite (skipn_app_exact (pad_right 16 (m_name m) ++ m_rest m)) by (rewrite app_length, pad_right_length, Hr by exact Hn; reflexivity).
    rewrite (firstn_app_exact (pad_right 10 (dec_nat (List.length (m_body m))))) by (apply pad_right_length; exact Hd).
    apply take_whileb_pad; [apply dec_nat_digits|exact digitb_sp]. }
  rewrite Hname, Hsize, parse_dec_nat.
  unfold tail. rewrite (firstn_app_exact (m_body m)) by reflexivity.
  assert (Hskip : skipn (List.length (m_body m) + (if Nat.odd (List.length (m_body m)) then 1 else 0))
                    (m_body m ++ (if Nat.odd (List.length (m_body m)) then [x0a]%byte else []) ++ rest) = rest).
  { rewrite app_assoc. apply skipn_app_exact. rewrite app_length. destruct (Nat.odd (List.length (m_body m))); reflexivity. }
  rewrite Hskip. reflexivity.
Qed.

Lemma members_all : forall ms f, Forall wf_member ms -> List.length ms < f ->
  ar_members f (List.concat (map enc_member ms)) = Some (map (fun m => (m_name m, m_body m)) ms).
Proof.
  induction ms as [|m ms IH]; intros f W Hf.
  - destruct f; [lia|]. reflexivity.
  - destruct f as [|f]; [lia|]. inversion W as [|? ? Wm Wms]; subst.
    cbn [map List.concat]. rewrite (members_step f m _ Wm). rewrite IH; [reflexivity|exact Wms|cbn [List.length] in Hf; lia].
Qed.

Lemma enc_member_length_pos m : wf_member m -> 60 <= List.length (enc_member m).
Proof. intros W. rewrite enc_member_split, app_length, (head60_length m W). lia. Qed.

Lemma concat_length_ge : forall ms, Forall wf_member ms -> List.length ms <= List.length (List.concat (map enc_member ms)).
Proof.
  induction ms as [|m ms IH]; intros W; [cbn; lia|]. inversion W as [|? ? Wm Wms]; subst.
  cbn [map List.concat List.length]. rewrite app_length. pose proof (enc_member_length_pos m Wm). specialize (IH Wms). lia.
Qed.

(* reading back what was written *)
Theorem ar_roundtrip ms : Forall wf_member ms ->
  ar_decode (ar_encode ms) = Some (map (fun m => (m_name m, m_body m)) ms).
Proof.
  intros W. unfold ar_decode, ar_encode.
  rewrite (firstn_app_exact ar_magic) by reflexivity. rewrite (skipn_app_exact ar_magic) by reflexivity.
  assert (seqb ar_magic ar_magic = true) as -> by reflexivity.
  apply members_all; [exact W|]. rewrite app_length. pose proof (concat_length_ge ms W). cbn [List.length ar_magic]. lia.
Qed.

(* the deb as nfpm assembles it: debian-binary, control, data, then the signature member. Whatever the signature
   is, a verifier that reads the stored package gets exactly the three members' bytes - the bytes handed to the
   signer (deb.readDebsignData) *)
Theorem debsign_verifier_reads_what_was_signed bin ctl data sig :
  Forall wf_member [bin; ctl; data; sig] ->
  option_map debsign_input (ar_decode (ar_encode [bin; ctl; data; sig])) = Some (m_body bin ++ m_body ctl ++ m_body data).
Proof.
  intros W. rewrite (ar_roundtrip _ W). cbn [option_map map debsign_input firstn snd List.concat]. rewrite app_nil_r. reflexivity.
Qed.

(* and the signature member is stored last, under its own name, untouched *)
Theorem signature_member_stored_last bin ctl data sig :
  Forall wf_member [bin; ctl; data; sig] ->
  option_map (fun ms => nth_error ms 3) (ar_decode (ar_encode [bin; ctl; data; sig])) = Some (Some (m_name sig, m_body sig)).
Proof. intros W. rewrite (ar_roundtrip _ W). reflexivity. Qed.

(* ---------- the per-run check on a real .deb ---------- *)
Lemma ar_members_full_proj f : forall s,
  ar_members f s = option_map (map (fun m => (m_name m, m_body m))) (ar_members_full f s).
Proof.
  induction f as [|f IH]; intros s; [reflexivity|].
  destruct s as [|b s]; [reflexivity|].
  cbn [ar_members ar_members_full].
  destruct (parse_dec _) as [size|]; [|reflexivity].
  rewrite IH. destruct (ar_members_full f _); reflexivity.
Qed.

Lemma ar_reencodes_sound s : ar_reencodes s = true ->
  exists ms, ar_encode ms = s /\ ar_decode s = Some (map (fun m => (m_name m, m_body m)) ms).
Proof.
  unfold ar_reencodes, ar_decode. intros H. apply andb_prop in H. destruct H as [Hm H]. rewrite Hm.
  rewrite ar_members_full_proj.
  destruct (ar_members_full (S (List.length s)) (skipn 8 s)) as [ms|]; [|discriminate].
  apply seqb_eq in H. exists ms. split; [exact H|reflexivity].
Qed.
