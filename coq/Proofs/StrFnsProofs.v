(* The packagers' string-composing functions as translated from the sources on every run (Gen/StrFns.v)
   equal the hand-written models the theorems of C02, C14 and C15 are stated over. *)
From Coq Require Import List String Bool.
From Coq Require Import Strings.Byte.
From NfpmV Require Import Lib.Bytes Model.Content Model.Payload Model.Meta.
From NfpmV Require Import Gen.StrFns.
Import ListNotations.
Open Scope list_scope.

Ltac norm := cbv zeta; repeat rewrite <- app_assoc; cbn [app]; rewrite ?app_nil_r.

Lemma src_rpm_defaultTo_is_dflt a d : src_rpm_defaultTo a d = dflt a d.
Proof. unfold src_rpm_defaultTo, dflt. destruct (nonempty a); reflexivity. Qed.

Lemma src_rpm_formatVersion_is_model i arch : src_rpm_formatVersion i arch = rpm_version i.
Proof.
  unfold src_rpm_formatVersion, rpm_version.
  destruct (nonempty (gs i "prerelease")), (nonempty (gs i "version_metadata")); norm; reflexivity.
Qed.

Lemma src_rpm_filename_is_model archtab i :
  src_rpm_filename i (translate_arch archtab (gs i "rpm.arch") (gs i "arch")) = model_filename FRpm archtab i.
Proof.
  unfold src_rpm_filename, model_filename. rewrite src_rpm_formatVersion_is_model, src_rpm_defaultTo_is_dflt.
  norm. reflexivity.
Qed.

Lemma src_deb_filename_is_model archtab i :
  src_deb_filename i (translate_arch archtab (gs i "deb.arch") (gs i "arch")) = model_filename FDeb archtab i.
Proof.
  unfold src_deb_filename, model_filename, deb_name_version.
  destruct (nonempty (gs i "prerelease")), (nonempty (gs i "version_metadata")), (nonempty (gs i "release")); norm; reflexivity.
Qed.

Lemma src_ipk_filename_is_model archtab i :
  src_ipk_filename i (translate_arch archtab (gs i "ipk.arch") (gs i "arch")) = model_filename FIpk archtab i.
Proof.
  unfold src_ipk_filename, model_filename, deb_name_version.
  destruct (nonempty (gs i "prerelease")), (nonempty (gs i "version_metadata")), (nonempty (gs i "release")); norm; reflexivity.
Qed.

Lemma src_apk_pkgver_is_model i arch : src_apk_pkgver i arch = apk_version i.
Proof.
  unfold src_apk_pkgver, apk_version.
  destruct (nonempty (gs i "prerelease")), (nonempty (gs i "release")), (has_prefix (B "r") (gs i "release")),
    (nonempty (gs i "version_metadata")), (has_prefix (B "p") (gs i "version_metadata")), (has_prefix (B "cvs") (gs i "version_metadata")),
    (has_prefix (B "svn") (gs i "version_metadata")), (has_prefix (B "git") (gs i "version_metadata")), (has_prefix (B "hg") (gs i "version_metadata"));
  cbn [negb andb orb]; norm; reflexivity.
Qed.

Lemma src_apk_filename_is_model archtab i :
  src_apk_filename i (translate_arch archtab (gs i "apk.arch") (gs i "arch")) = model_filename FApk archtab i.
Proof.
  unfold src_apk_filename, model_filename. cbv zeta. rewrite src_apk_pkgver_is_model. norm. reflexivity.
Qed.

(* archlinux: the character test, the name clean-up and the file name *)
Lemma src_arch_mapValidChar_is_model b : src_arch_mapValidChar b = valid_pkg_char' b.
Proof. destruct b; reflexivity. Qed.

Lemma filter_ext_b (f g : byte -> bool) (l : str) : (forall b, f b = g b) -> filter f l = filter g l.
Proof. intros H. induction l as [|x l IH]; cbn [filter]; [reflexivity|]. rewrite H, IH. reflexivity. Qed.

Lemma src_arch_filename_is_model archtab i :
  src_arch_filename i (translate_arch archtab (gs i "archlinux.arch") (gs i "arch")) = model_filename FArch archtab i.
Proof.
  unfold src_arch_filename, src_arch_validPkgName, model_filename, arch_pkgrel. cbv zeta.
  rewrite (filter_ext_b _ _ _ src_arch_mapValidChar_is_model).
  repeat rewrite <- app_assoc. reflexivity.
Qed.

Lemma all_translated :
  src_rpm_defaultTo_translated && src_rpm_formatVersion_translated && src_rpm_filename_translated && src_deb_filename_translated
  && src_ipk_filename_translated && src_apk_pkgver_translated && src_apk_filename_translated
  && src_arch_mapValidChar_translated && src_arch_validPkgName_translated && src_arch_filename_translated = true.
Proof. reflexivity. Qed.

(* ---- files.isRelevantForPackager as translated equals the planning model's is_relevant ---- *)
From NfpmV Require Import Model.Path Model.Prepare Gen.BoolFns.

Lemma src_is_relevant_is_model p c : src_is_relevant p c = is_relevant p c.
Proof.
  unfold src_is_relevant, is_relevant, is_rpm_only_typ, typ_in, P_rpm, P_deb, TDoc, TLicence, TLicense, TReadme, TGhost, TDebChangelog.
  cbn [existsb].
  destruct (seqb p []), (seqb (c_pkgr c) []), (seqb (c_pkgr c) p), (seqb p (B "rpm")), (seqb p (B "deb")),
    (seqb (c_typ c) (B "doc")), (seqb (c_typ c) (B "licence")), (seqb (c_typ c) (B "license")), (seqb (c_typ c) (B "readme")),
    (seqb (c_typ c) (B "ghost")), (seqb (c_typ c) (B "debian changelog")); reflexivity.
Qed.

(* files.Contents.Less as translated is the planning model's order on entries *)
Lemma src_content_less_is_model a b : src_content_less a b = content_ltb a b.
Proof. reflexivity. Qed.

(* archlinux: the pkgver computed inside createPkginfo *)
From Coq Require Import ZArith.
From NfpmV Require Import Gen.ArchPkgver.
Lemma src_arch_pkgver_is_model i arch : src_arch_pkgver i arch = arch_version i.
Proof.
  unfold src_arch_pkgver, arch_version, arch_pkgrel. cbv zeta.
  destruct (nonempty (gs i "epoch")); [|norm; reflexivity].
  destruct (parse_uint 18446744073709551616%Z (gs i "epoch")); norm; reflexivity.
Qed.
