(* C02: the .PKGINFO text reads back as the key/value list it was written from; the archlinux .PKGINFO of the metadata
   model is such a text. *)
From Coq Require Import List NArith ZArith Bool Arith Lia String.
From Coq Require Import Strings.Byte.
From NfpmV Require Import Lib.Bytes Model.Content Model.Container Model.Mtree Model.Pkginfo Model.Meta.
From NfpmV Require Import Proofs.C10Proofs Proofs.MtreeProofs.
Import ListNotations.
Open Scope list_scope.

Lemma wf_pfield_parts kv : wf_pfield kv = true ->
  fst kv <> [] /\ is_comment (fst kv ++ sep3 ++ snd kv) = false
  /\ forallb (fun b => negb (beq b sp)) (fst kv) = true /\ p_no_nl (p_line kv) = true.
Proof.
  destruct kv as [k v]. unfold wf_pfield, wf_pkey. cbn [fst snd]. destruct k as [|b k]; [discriminate|].
  intros H. rewrite !andb_true_iff in H. destruct H as [[Hc Hk] Hv]. apply negb_true_iff in Hc.
  repeat split.
  - discriminate.
  - cbn [app is_comment]. exact Hc.
  - revert Hk. apply forallb_impl. intros x Hx. apply andb_true_iff in Hx. apply Hx.
  - unfold p_no_nl, p_line. cbn [fst snd]. rewrite !forallb_app_iff. unfold p_no_nl in Hv. rewrite Hv.
    assert (forallb (fun c => negb (beq c nl)) (b :: k) = true) as H1.
    { revert Hk. apply forallb_impl. intros x Hx. apply andb_true_iff in Hx. apply Hx. }
    rewrite H1. reflexivity.
Qed.

Lemma p_split_line kv : wf_pfield kv = true -> p_split (p_line kv) = Some kv.
Proof.
  intros H. destruct (wf_pfield_parts kv H) as (Hne & _ & Hsp & _). destruct kv as [k v]. cbn [fst snd] in *.
  unfold p_split, p_line. cbn [fst snd].
  assert (Ht : take_whileb (fun b => negb (beq b sp)) (k ++ sep3 ++ v) = k).
  { unfold sep3. cbn [app]. apply take_whileb_app_stop; [exact Hsp|]. rewrite beq_refl. reflexivity. }
  cbv zeta. rewrite Ht. destruct k as [|b k'] eqn:E; [contradiction|]. rewrite <- E.
  rewrite (skipn_app_exact k (sep3 ++ v) (List.length k) eq_refl). unfold sep3. cbn [app]. rewrite !beq_refl. reflexivity.
Qed.

Lemma p_text_lines : forall fs, Forall (fun kv => wf_pfield kv = true) fs -> splitb nl (p_write fs) = map p_line fs ++ [[]].
Proof.
  induction fs as [|kv fs IH]; intros Hall; [reflexivity|]. inversion Hall as [|? ? Hk Hfs]; subst.
  unfold p_write. cbn [flat_map map]. fold (p_write fs). rewrite <- app_assoc. cbn [app].
  destruct (wf_pfield_parts kv Hk) as (_ & _ & _ & Hnl).
  rewrite splitb_app_sep by exact Hnl. rewrite (IH Hfs). reflexivity.
Qed.

Lemma p_lines_fields : forall fs, Forall (fun kv => wf_pfield kv = true) fs -> p_lines (map p_line fs) = Some fs.
Proof.
  induction fs as [|kv fs IH]; intros Hall; [reflexivity|]. inversion Hall as [|? ? Hk Hfs]; subst.
  cbn [map p_lines]. destruct (wf_pfield_parts kv Hk) as (_ & Hc & _ & _). unfold p_line at 1. rewrite Hc.
  rewrite (p_split_line kv Hk), (IH Hfs). reflexivity.
Qed.

Theorem p_roundtrip fs : Forall (fun kv => wf_pfield kv = true) fs -> p_read (p_write fs) = Some fs.
Proof.
  intros Hall. unfold p_read. rewrite (p_text_lines fs Hall). rewrite rev_app_distr. cbn [rev app]. rewrite rev_involutive.
  apply p_lines_fields. exact Hall.
Qed.

(* a comment line in front changes nothing *)
Theorem p_roundtrip_after_comment c fs : p_no_nl c = true -> is_comment c = true ->
  Forall (fun kv => wf_pfield kv = true) fs -> p_read (c ++ nl :: p_write fs) = Some fs.
Proof.
  intros Hc Hcm Hall. unfold p_read. rewrite splitb_app_sep by exact Hc. rewrite (p_text_lines fs Hall).
  change (c :: map p_line fs ++ [[]]) with ((c :: map p_line fs) ++ [[]]). rewrite rev_app_distr.
  change (rev [([] : str)]) with [([] : str)]. cbn [app]. rewrite rev_involutive.
  cbn [p_lines]. rewrite Hcm. apply p_lines_fields. exact Hall.
Qed.

(* ---------- the archlinux .PKGINFO of the metadata model ---------- *)
Definition okf (k : string) (v : str) : list (str * str) := if nonempty v then [(B k, v)] else [].

Definition arch_info_fields (archtab : list (str * str)) (i : minfo) (size builddate : Z) (backups : list str) : list (str * str) :=
  okf "arch" (translate_arch archtab (gs i "archlinux.arch") (gs i "arch"))
  ++ okf "builddate" (dec builddate)
  ++ okf "license" (gs i "license")
  ++ okf "packager" (dflt (gs i "archlinux.packager") (B "Unknown Packager"))
  ++ okf "pkgbase" (dflt (gs i "archlinux.pkgbase") (gs i "name"))
  ++ okf "pkgdesc" (replace_nl (gs i "description") (B " "))
  ++ okf "pkgname" (gs i "name")
  ++ okf "pkgver" (arch_version i)
  ++ okf "size" (dec size)
  ++ okf "url" (gs i "homepage")
  ++ flat_map (okf "replaces") (gl i "replaces")
  ++ flat_map (okf "conflict") (gl i "conflicts")
  ++ flat_map (okf "provides") (gl i "provides")
  ++ flat_map (okf "depend") (gl i "depends")
  ++ flat_map (okf "backup") backups.

Lemma p_write_app a b : p_write (a ++ b) = p_write a ++ p_write b.
Proof. unfold p_write. apply flat_map_app. Qed.

Lemma okv_okf k v : okv k v = p_write (okf k v).
Proof.
  unfold okv, okf, kv. destruct (nonempty v); [|reflexivity]. unfold p_write, p_line, sep3. cbn [flat_map fst snd].
  rewrite app_nil_r. change (B " = ") with [sp; x3d; sp]. rewrite <- ?app_assoc. reflexivity.
Qed.

Lemma flat_okv_okf k l : flat_map (okv k) l = p_write (flat_map (okf k) l).
Proof.
  induction l as [|x l IH]; [reflexivity|]. cbn [flat_map]. rewrite p_write_app, <- IH, okv_okf. reflexivity.
Qed.

Definition arch_comment : str := B "# Generated by nfpm".

Theorem arch_pkginfo_is_field_text archtab i size bd backups :
  arch_pkginfo archtab i size bd backups = arch_comment ++ nl :: p_write (arch_info_fields archtab i size bd backups).
Proof.
  unfold arch_pkginfo, arch_info_fields, arch_comment. rewrite !p_write_app, <- !okv_okf, <- !flat_okv_okf.
  rewrite <- ?app_assoc. reflexivity.
Qed.

Theorem arch_pkginfo_reads_back archtab i size bd backups :
  forallb wf_pfield (arch_info_fields archtab i size bd backups) = true ->
  p_read (arch_pkginfo archtab i size bd backups) = Some (arch_info_fields archtab i size bd backups).
Proof.
  intros H. rewrite arch_pkginfo_is_field_text. apply p_roundtrip_after_comment; [reflexivity|reflexivity|].
  apply Forall_forall. intros kv Hkv. rewrite forallb_forall in H. apply H. exact Hkv.
Qed.

(* the description line never breaks the file: every newline of the description has become a blank *)
Lemma replace_nl_no_nl s : p_no_nl (replace_nl s (B " ")) = true.
Proof.
  induction s as [|b s IH]; [reflexivity|]. cbn [replace_nl]. unfold p_no_nl in *. rewrite forallb_app_iff, IH, andb_true_r.
  destruct (beq b x0a) eqn:E; [reflexivity|]. cbn [forallb]. change nl with x0a. rewrite E. reflexivity.
Qed.
