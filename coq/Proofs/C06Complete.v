(* C06, second half: when an output program whose operations are all checked reports success, the destination holds
   every byte that was written, in order - the output is complete (layers are pure buffers in the model). *)
From Coq Require Import List Arith Lia Bool.
From Coq Require Import Strings.Byte.
From NfpmV Require Import Lib.Bytes Model.Writers.
Import ListNotations.

Section C.
Variable fault : nat -> bool.

(* everything handed to the stack so far that has not been lost: what the destination got, then what the layers
   still hold, bottom layer first *)
Definition all_data (ls : list layer) (d : dest) : str := got d ++ concat (map pend (rev ls)).

Definition clean (ls : list layer) : Prop := Forall (fun l => lerr l = false) ls.

Lemma push_data : forall ls p force sched d ls' sched' d',
  clean ls -> push fault ls p force sched d = (ls', sched', d', false) ->
  clean ls' /\ all_data ls' d' = all_data ls d ++ p /\ List.length ls' = List.length ls /\
  (force = true -> match ls' with l' :: _ => pend l' = [] | [] => True end).
Proof.
  induction ls as [|l below IH]; intros p force sched d ls' sched' d' C H; cbn [push] in H.
  - unfold dwrite in H. destruct (fault (writes d)); [discriminate H|]. inversion H; subst.
    unfold all_data. cbn [rev map concat got]. rewrite !app_nil_r. repeat split; constructor.
  - inversion C as [|? ? Hl Cb]; subst. rewrite Hl in H.
    destruct (force || hd false sched) eqn:F.
    + destruct (push fault below (pend l ++ p) false (tl sched) d) as [[[b' s''] d1] e1] eqn:P.
      inversion H; subst. destruct (IH _ _ _ _ _ _ _ Cb P) as (Cb' & D & L & _).
      split; [|split; [|split]].
      * constructor; [reflexivity|exact Cb'].
      * unfold all_data in *. cbn [rev map]. rewrite !map_app, !concat_app. cbn [map concat pend]. rewrite !app_nil_r.
        rewrite D. rewrite <- !app_assoc. reflexivity.
      * cbn [List.length]. rewrite L. reflexivity.
      * intros _. reflexivity.
    + inversion H; subst. split; [|split; [|split]].
      * constructor; [reflexivity|exact Cb].
      * unfold all_data. cbn [rev map]. rewrite !map_app, !concat_app. cbn [map concat pend]. rewrite !app_nil_r, <- !app_assoc. reflexivity.
      * reflexivity.
      * intros Hf. rewrite Hf in F. discriminate F.
Qed.

Definition drained (j : nat) (ls : list layer) : Prop := Forall (fun l => pend l = []) (firstn j ls).

Lemma all_data_drained j ls d : drained j ls -> all_data ls d = all_data (skipn j ls) d.
Proof.
  intros H. unfold all_data. f_equal. rewrite <- (firstn_skipn j ls) at 1. rewrite rev_app_distr, map_app, concat_app.
  assert (concat (map pend (rev (firstn j ls))) = []) as ->; [|apply app_nil_r].
  unfold drained in H. induction (firstn j ls) as [|l r IHr]; [reflexivity|]. inversion H; subst.
  cbn [rev]. rewrite map_app, concat_app. cbn [map concat]. rewrite IHr by assumption.
  match goal with Hp : pend l = [] |- _ => rewrite Hp end. reflexivity.
Qed.

Definition op_data (o : op) : str := match o with OWrite _ p _ => p | OClose _ t _ => t end.

(* one operation that did not report an error, at layer j of a stack whose layers above j hold nothing *)
Lemma do_op_data o s s' : clean (ls s) -> drained (op_j o) (ls s) -> op_j o <= List.length (ls s) ->
  do_op fault o s = (s', false) ->
  clean (ls s') /\ all_data (ls s') (dst s') = all_data (ls s) (dst s) ++ op_data o /\
  List.length (ls s') = List.length (ls s) /\ drained (op_j o) (ls s') /\
  (match o with OClose _ _ _ => op_j o < List.length (ls s) -> drained (S (op_j o)) (ls s') | _ => True end).
Proof.
  intros C Dr Hj H. unfold do_op in H.
  destruct (match o with OWrite _ p _ => (p, false) | OClose _ t _ => (t, true) end) as [p force] eqn:Ep.
  destruct (push fault (skipn (op_j o) (ls s)) p force (sched s) (dst s)) as [[[sub' sc'] d'] e'] eqn:P.
  injection H as Hs He. subst s' e'. cbn [ls dst].
  assert (Cs : clean (skipn (op_j o) (ls s))).
  { unfold clean in *. rewrite <- (firstn_skipn (op_j o) (ls s)) in C. apply Forall_app in C. apply C. }
  destruct (push_data _ _ _ _ _ _ _ _ Cs P) as (C' & D & L & Fl).
  assert (Hp : p = op_data o) by (destruct o; inversion Ep; reflexivity).
  assert (Hfl : List.length (firstn (op_j o) (ls s)) = op_j o) by (rewrite firstn_length; lia).
  assert (Hfirst : firstn (op_j o) (firstn (op_j o) (ls s) ++ sub') = firstn (op_j o) (ls s)).
  { rewrite firstn_app, Hfl, Nat.sub_diag. cbn [firstn]. rewrite app_nil_r. rewrite firstn_firstn, Nat.min_id. reflexivity. }
  assert (Hskip : skipn (op_j o) (firstn (op_j o) (ls s) ++ sub') = sub').
  { rewrite skipn_app, Hfl, Nat.sub_diag. cbn [skipn]. rewrite skipn_all2 by lia. reflexivity. }
  assert (Dr' : drained (op_j o) (firstn (op_j o) (ls s) ++ sub')) by (unfold drained; rewrite Hfirst; exact Dr).
  repeat split.
  - unfold clean in *. apply Forall_app. split; [|exact C'].
    rewrite <- (firstn_skipn (op_j o) (ls s)) in C. apply Forall_app in C. apply C.
  - rewrite (all_data_drained (op_j o) _ d' Dr'), Hskip, D, <- Hp. rewrite (all_data_drained (op_j o) (ls s) (dst s) Dr). reflexivity.
  - rewrite app_length, Hfl, L, skipn_length. lia.
  - exact Dr'.
  - destruct o as [j0 p0 c0|j0 t0 c0]; [exact I|]. cbn [op_j] in *. intros Hlt. inversion Ep; subst p force.
    unfold drained. assert (Hsub : sub' <> []) by (intros ->; cbn in L; rewrite skipn_length in L; lia).
    destruct sub' as [|l' r']; [contradiction|]. specialize (Fl eq_refl). cbn in Fl.
    replace (firstn (S j0) (firstn j0 (ls s) ++ l' :: r')) with (firstn j0 (ls s) ++ [l']).
    + apply Forall_app. split; [exact Dr|constructor; [exact Fl|constructor]].
    + symmetry. rewrite (firstn_app (S j0) (firstn j0 (ls s)) (l' :: r')). rewrite Hfl. replace (S j0 - j0) with 1 by lia. change (firstn 1 (l' :: r')) with [l'].
      rewrite (firstn_all2 (firstn j0 (ls s))) by (rewrite Hfl; lia). reflexivity.
Qed.

Lemma exec_body_data : forall body s s',
  clean (ls s) -> Forall (fun o => op_j o = 0 /\ op_checked o = true) body ->
  exec fault body s = (s', false) ->
  clean (ls s') /\ List.length (ls s') = List.length (ls s) /\
  all_data (ls s') (dst s') = all_data (ls s) (dst s) ++ concat (map op_data body).
Proof.
  induction body as [|o body IH]; intros s s' C W H; cbn [exec] in H.
  - inversion H; subst. cbn [map concat]. rewrite app_nil_r. auto.
  - inversion W as [|? ? [Hj Hc] W']; subst. destruct (do_op fault o s) as [s1 e] eqn:D.
    rewrite Hc, andb_true_r in H. destruct e; [discriminate H|].
    destruct (do_op_data o s s1 C) as (C1 & D1 & L1 & _); [rewrite Hj; constructor|rewrite Hj; lia|exact D|].
    destruct (IH s1 s' C1 W' H) as (C2 & L2 & D2). split; [exact C2|]. split; [lia|].
    rewrite D2, D1. cbn [map concat]. rewrite <- !app_assoc. reflexivity.
Qed.

Lemma exec_closes_data : forall k j tr s s',
  clean (ls s) -> List.length (ls s) = j + k -> drained j (ls s) ->
  exec fault (closes j k tr) s = (s', false) ->
  List.length (ls s') = j + k /\ drained (j + k) (ls s') /\
  all_data (ls s') (dst s') = all_data (ls s) (dst s) ++ concat (map tr (seq j k)).
Proof.
  induction k as [|k IH]; intros j tr s s' C L Dr H; cbn [closes exec] in H.
  - inversion H; subst. cbn [seq map concat]. rewrite app_nil_r, Nat.add_0_r in *. auto.
  - destruct (do_op fault (OClose j (tr j) true) s) as [s1 e] eqn:D. cbn [op_checked] in H. rewrite andb_true_r in H.
    destruct e; [discriminate H|].
    destruct (do_op_data (OClose j (tr j) true) s s1 C) as (C1 & D1 & L1 & _ & Dr1); [exact Dr|cbn [op_j]; lia|exact D|].
    cbn [op_j op_data] in *.
    destruct (IH (S j) tr s1 s' C1) as (L2 & Dr2 & D2); [lia|apply Dr1; lia|exact H|].
    split; [lia|]. split; [replace (j + S k) with (S j + k) by lia; exact Dr2|].
    rewrite D2, D1. cbn [seq map concat]. rewrite <- !app_assoc. reflexivity.
Qed.

Lemma exec_app_split : forall ops1 ops2 s0 sf, exec fault (ops1 ++ ops2) s0 = (sf, false) ->
  exists sm, exec fault ops1 s0 = (sm, false) /\ exec fault ops2 sm = (sf, false).
Proof.
  induction ops1 as [|o ops1 IH1]; intros ops2 s0 sf He; cbn [app exec] in *.
  - eauto.
  - destruct (do_op fault o s0) as [s1 e]. destruct (e && op_checked o); [discriminate|]. apply IH1; exact He.
Qed.

(* THE COMPLETENESS THEOREM: a program of checked writes to the top layer followed by a checked top-down close of
   all [n] layers, started on empty layers: if it reports success, the destination has received exactly the
   written payloads followed by the layers' trailers, in order, and no layer holds anything back. *)
Theorem complete_output body tr n sched s' :
  Forall (fun o => op_j o = 0 /\ op_checked o = true) body ->
  exec fault (body ++ closes 0 n tr) (fresh_stack n sched) = (s', false) ->
  got (dst s') = concat (map op_data body) ++ concat (map tr (seq 0 n)).
Proof.
  intros W H. destruct (exec_app_split _ _ _ _ H) as (sm & H1 & H2).
  assert (C0 : clean (ls (fresh_stack n sched))) by (cbn; clear; induction n; cbn; constructor; auto).
  assert (L0 : List.length (ls (fresh_stack n sched)) = n) by (cbn; apply repeat_length).
  destruct (exec_body_data body _ sm C0 W H1) as (C1 & L1 & D1).
  destruct (exec_closes_data n 0 tr sm s' C1) as (L2 & Dr2 & D2); [lia|constructor|exact H2|].
  cbn [Nat.add] in *.
  rewrite (all_data_drained n (ls s') (dst s') Dr2) in D2. rewrite skipn_all2 in D2 by lia.
  unfold all_data at 1 in D2. cbn [rev map concat] in D2. rewrite app_nil_r in D2. rewrite D2, D1.
  assert (all_data (ls (fresh_stack n sched)) (dst (fresh_stack n sched)) = []) as ->.
  { unfold all_data. cbn [fresh_stack ls dst got app]. clear. induction n as [|k IHk]; [reflexivity|].
    cbn [repeat]. cbn [rev]. rewrite map_app, concat_app. cbn [map concat pend]. rewrite IHk. reflexivity. }
  cbn [app]. reflexivity.
Qed.
End C.

From NfpmV Require Import Model.OutputProgs.

Lemma all_top_checked_deb members : Forall (fun o => op_j o = 0 /\ op_checked o = true) (prog_deb true members).
Proof.
  unfold prog_deb. constructor; [split; reflexivity|].
  induction members as [|m r IH]; cbn [flat_map]; [constructor|]. apply Forall_app. split; [|exact IH].
  unfold deb_member. apply Forall_app. split; [repeat constructor|].
  destruct (Nat.odd (List.length (snd m))); repeat constructor.
Qed.

Corollary deb_complete fault members sched s' :
  exec fault (prog_deb true members) (fresh_stack 0 sched) = (s', false) ->
  got (dst s') = concat (map op_data (prog_deb true members)).
Proof.
  intros H. rewrite (complete_output fault (prog_deb true members) (fun _ => []) 0 sched s' (all_top_checked_deb members)).
  - cbn [seq map concat]. apply app_nil_r.
  - cbn [closes]. rewrite app_nil_r. exact H.
Qed.

Corollary flat_complete fault parts sched s' :
  exec fault (prog_flat parts) (fresh_stack 0 sched) = (s', false) -> got (dst s') = concat parts.
Proof.
  intros H.
  assert (W : Forall (fun o => op_j o = 0 /\ op_checked o = true) (prog_flat parts)).
  { unfold prog_flat. apply Forall_forall. intros o Hin. apply in_map_iff in Hin. destruct Hin as [p [<- _]]. split; reflexivity. }
  rewrite (complete_output fault (prog_flat parts) (fun _ => []) 0 sched s' W).
  - cbn [seq map concat]. rewrite app_nil_r. unfold prog_flat. rewrite map_map. cbn [op_data]. rewrite map_id. reflexivity.
  - cbn [closes]. rewrite app_nil_r. exact H.
Qed.

Corollary arch_complete fault chunks trailer sched s' :
  exec fault (prog_arch true chunks trailer) (fresh_stack 2 sched) = (s', false) ->
  got (dst s') = concat chunks ++ trailer.
Proof.
  intros H.
  assert (W : Forall (fun o => op_j o = 0 /\ op_checked o = true) (map (fun c => OWrite 0 c true) chunks)).
  { apply Forall_forall. intros o Hin. apply in_map_iff in Hin. destruct Hin as [p [<- _]]. split; reflexivity. }
  rewrite (complete_output fault _ (fun j => match j with 0 => trailer | _ => [] end) 2 sched s' W H).
  rewrite map_map. cbn [op_data seq map concat]. rewrite map_id, !app_nil_r. reflexivity.
Qed.
