From Coq Require Import List NArith ZArith Lia Bool.
From Coq Require Import Strings.Byte.
From NfpmV Require Import Lib.Bytes Model.Path Model.Content Model.Prepare Model.Payload Spec.C05 Spec.C01 Spec.C04.
From NfpmV Require Import Proofs.KeyFacts Proofs.C01Proofs Proofs.PlanFacts Proofs.C04Proofs.
Import ListNotations.

Theorem plan_names_wellformed f fs st ces umask mt cs : f <> FRpm ->
  oracle_okb fs st umask mt ces = true -> prep fs st ces umask (fmt_name f) mt = Ok cs -> envelope_C01 cs = true ->
  named_root_ok f cs ->
  forall cl, In cl (check_names f (members_of (payload_of f mt cs))) -> cl = WParents.
Proof.
  intros NR OK H Env RO. destruct (plan_entries _ _ _ _ _ _ _ OK H) as (E & NL & _).
  unfold envelope_C01 in Env. apply andb_true_iff in Env as [E1 E2]. rewrite forallb_forall in E1, E2.
  apply names_wellformed; [exact NR| |exact NL|exact RO].
  intros c Hc. destruct (E c Hc) as (K & R & T). split; auto.
  intros D. specialize (E2 c Hc). rewrite D in E2. cbn [orb] in E2. apply negb_true_iff in E2.
  intros L. rewrite L in E2. discriminate.
Qed.
