(* The invariant of the destination map and its preservation by every planning step. *)
From Coq Require Import List NArith ZArith Lia Bool.
From Coq Require Import Strings.Byte.
From NfpmV Require Import Lib.Bytes Model.Path Model.Content Model.Prepare.
From NfpmV Require Import Proofs.PathFacts Proofs.MapFacts Proofs.KeyFacts.
Import ListNotations.

Definition dir_at (m : cmap) (a : str) : Prop :=
  exists v', In (a, v') m /\ is_dir_typ (c_typ v') = true.

Record wf (m : cmap) : Prop := {
  wf_nodup : NoDup (map fst m);
  wf_vals : vals_ok m;
  wf_loc : forall k1 v1 k2 v2, In (k1, v1) m -> In (k2, v2) m -> comps_abs k1 = comps_abs k2 -> k1 = k2;
  wf_par : forall k v, In (k, v) m -> forall a, In a (ancestor_dirs k) -> dir_at m a
}.

Lemma wf_empty : wf [].
Proof.
  split.
  - constructor.
  - intros k v [].
  - intros k1 v1 k2 v2 [].
  - intros k v [].
Qed.

Lemma wf_insert_fresh m k v : wf m -> val_ok k v ->
  (forall k' v', In (k', v') m -> comps_abs k' <> comps_abs k) ->
  (forall a, In a (ancestor_dirs k) -> dir_at m a) ->
  wf (m_set m k v).
Proof.
  intros W VO Fresh Par. destruct W as [ND V L P].
  assert (forall k' v', In (k', v') m -> k' <> k) as Hne.
  { intros k' v' H ->. apply (Fresh k v' H). reflexivity. }
  split.
  - apply m_set_nodup. exact ND.
  - intros k' v' H. apply m_set_in in H; [|exact ND]. destruct H as [[-> ->]|[_ H]]; [exact VO|apply V; exact H].
  - intros k1 v1 k2 v2 H1 H2 C.
    apply m_set_in in H1; [|exact ND]. apply m_set_in in H2; [|exact ND].
    destruct H1 as [[-> ->]|[_ H1]], H2 as [[-> ->]|[_ H2]].
    + reflexivity.
    + exfalso. apply (Fresh _ _ H2). symmetry. exact C.
    + exfalso. apply (Fresh _ _ H1). exact C.
    + eapply L; eauto.
  - intros k' v' H a Ha. apply m_set_in in H; [|exact ND].
    assert (dir_at m a) as (va & Hva & Dva).
    { destruct H as [[-> ->]|[_ H]]; [apply Par; exact Ha|eapply P; eauto]. }
    exists va. split; [|exact Dva]. apply m_set_keep; [exact Hva|eapply Hne; eauto].
Qed.

Lemma wf_replace m k p v : wf m -> m_get m k = Some p -> val_ok k v ->
  (is_dir_typ (c_typ p) = true -> is_dir_typ (c_typ v) = true) ->
  wf (m_set m k v).
Proof.
  intros W G VO D. destruct W as [ND V L P].
  pose proof (m_get_in _ _ _ G) as Hp.
  assert (forall k', In k' (map fst (m_set m k v)) <-> In k' (map fst m)) as Keys.
  { intros k'. rewrite m_set_keys. split; [|auto]. intros [->|H]; [|exact H]. apply (in_map fst) in Hp. exact Hp. }
  assert (forall k' v', In (k', v') (m_set m k v) -> exists v0, In (k', v0) m) as Old.
  { intros k' v' H. apply (in_map fst) in H. apply Keys in H. apply in_map_iff in H as ([k0 v0] & E & H). cbn in E. subst. eauto. }
  split.
  - apply m_set_nodup. exact ND.
  - intros k' v' H. apply m_set_in in H; [|exact ND]. destruct H as [[-> ->]|[_ H]]; [exact VO|apply V; exact H].
  - intros k1 v1 k2 v2 H1 H2 C. destruct (Old _ _ H1) as (u1 & U1), (Old _ _ H2) as (u2 & U2). eapply L; eauto.
  - intros k' v' H a Ha. destruct (Old _ _ H) as (u & U).
    destruct (P _ _ U a Ha) as (va & Hva & Dva).
    destruct (list_eq_dec Byte.byte_eq_dec a k) as [->|Hne].
    + exists v. split; [apply m_set_new|]. apply D.
      rewrite (m_get_of_in _ _ _ ND Hva) in G. injection G as <-. exact Dva.
    + exists va. split; [apply m_set_keep; assumption|exact Dva].
Qed.

(* ---- addParents ---- *)
Lemma implicit_dir_ok p mt : Forall good_comp p -> p <> [] -> val_ok (dkey p) (implicit_dir (dkey p) mt).
Proof.
  intros G NE. split; [reflexivity|]. exists p. split; [exact G|]. reflexivity.
Qed.

Definition added_by (m m' : cmap) (qs : list (list str)) (mt : Z) : Prop :=
  (forall k v, In (k, v) m -> In (k, v) m') /\
  (forall k v, In (k, v) m' -> In (k, v) m \/ exists q, In q qs /\ k = dkey q /\ v = implicit_dir k mt).

Lemma ancestor_dirs_dkey p : Forall good_comp p ->
  ancestor_dirs (dkey p) = map (fun q => join_abs q ++ [slash]) (filter nonnil (prefixes p)).
Proof. intros G. apply ancestor_dirs_key. apply comps_abs_dkey. exact G. Qed.

Lemma add_chain : forall l pre m m' mt,
  wf m -> Forall good_comp (pre ++ l) ->
  (forall q, q <> [] -> (q = pre \/ In q (prefixes pre)) -> dir_at m (dkey q)) ->
  add_parent_list m (map (fun p => join_abs p ++ [slash]) (chain pre l)) mt = Ok m' ->
  wf m' /\ added_by m m' (chain pre l) mt /\ (forall q, In q (chain pre l) -> dir_at m' (dkey q)).
Proof.
  induction l as [|x l IH]; intros pre m m' mt W G Inv H; cbn [chain map add_parent_list] in H.
  - injection H as <-. split; [exact W|]. split; [|intros q []]. split; auto.
  - set (p := pre ++ [x]) in *.
    assert (p <> []) as NEp by (unfold p; destruct pre; discriminate).
    assert (Forall good_comp (p ++ l)) as Gpl by (unfold p; rewrite <- app_assoc; exact G).
    assert (Forall good_comp p) as Gp by (apply Forall_app in Gpl; tauto).
    rewrite <- (dkey_nonnil p NEp) in H.
    assert (vkey (dkey p) p true) as K by (split; auto).
    assert (forall m1, (forall k v, In (k, v) m -> In (k, v) m1) -> dir_at m1 (dkey p) ->
              forall q, q <> [] -> (q = p \/ In q (prefixes p)) -> dir_at m1 (dkey q)) as Inv'.
    { intros m1 Keep Dp q Hq [->|Hin]; [exact Dp|].
      unfold p in Hin. rewrite prefixes_snoc in Hin. apply in_app_or in Hin.
      destruct (Inv q Hq) as (vq & Hvq & Dq).
      { destruct Hin as [Hin|[<-|[]]]; auto. }
      exists vq. split; [apply Keep; exact Hvq|exact Dq]. }
    destruct (occupant m (dkey p)) as [c|] eqn:O.
    + destruct (is_dir_typ (c_typ c)) eqn:Dc; [|discriminate].
      pose proof (occupant_dir_at _ _ _ _ (wf_vals _ W) K O Dc) as Gc.
      assert (dir_at m (dkey p)) as Dp by (exists c; split; [apply m_get_in; exact Gc|exact Dc]).
      destruct (IH p m m' mt W Gpl (Inv' m (fun _ _ h => h) Dp) H) as (W' & [Keep New] & Dirs).
      split; [exact W'|]. split; [split|].
      * exact Keep.
      * intros k v Hin. destruct (New k v Hin) as [?|(q & Hq & ? & ?)]; [left; assumption|right].
        exists q. split; [right; exact Hq|auto].
      * intros q [<-|Hq]; [|apply Dirs; exact Hq].
        destruct Dp as (vp & Hvp & Dvp). exists vp. split; [apply Keep; exact Hvp|exact Dvp].
    + set (m1 := m_set m (dkey p) (implicit_dir (dkey p) mt)) in *.
      pose proof (occupant_none _ _ _ _ (wf_vals _ W) K O) as Fresh.
      assert (wf m1) as W1.
      { apply wf_insert_fresh; [exact W|apply implicit_dir_ok; assumption| |].
        - intros k' v' Hin. rewrite (comps_abs_dkey p Gp). eapply Fresh; eauto.
        - intros a Ha. rewrite (ancestor_dirs_dkey p Gp) in Ha.
          apply in_map_iff in Ha as (q & <- & Hq). apply filter_In in Hq as [Hq Hn].
          assert (q <> []) as NEq by (destruct q; [discriminate|discriminate]).
          rewrite <- (dkey_nonnil q NEq). apply Inv; [exact NEq|].
          unfold p in Hq. rewrite prefixes_snoc in Hq. apply in_app_or in Hq. destruct Hq as [Hq|[<-|[]]]; auto. }
      assert (forall k v, In (k, v) m -> In (k, v) m1) as Keep1.
      { intros k v Hin. apply m_set_keep; [exact Hin|]. intros ->.
        apply (Fresh _ _ Hin). apply comps_abs_dkey. exact Gp. }
      assert (dir_at m1 (dkey p)) as Dp.
      { exists (implicit_dir (dkey p) mt). split; [apply m_set_new|reflexivity]. }
      destruct (IH p m1 m' mt W1 Gpl (Inv' m1 Keep1 Dp) H) as (W' & [Keep New] & Dirs).
      split; [exact W'|]. split; [split|].
      * intros k v Hin. apply Keep. apply Keep1. exact Hin.
      * intros k v Hin. destruct (New k v Hin) as [Hin1|(q & Hq & ? & ?)].
        -- apply m_set_in in Hin1; [|apply (wf_nodup _ W)].
           destruct Hin1 as [[-> ->]|[_ Hin1]]; [right|left; exact Hin1].
           exists p. split; [left; reflexivity|auto].
        -- right. exists q. split; [right; exact Hq|auto].
      * intros q [<-|Hq]; [|apply Dirs; exact Hq].
        destruct Dp as (vp & Hvp & Dvp). exists vp. split; [apply Keep; exact Hvp|exact Dvp].
Qed.

Lemma add_parents_spec m path mt m' : wf m -> add_parents m path mt = Ok m' ->
  wf m' /\ added_by m m' (chain [] (removelast (comps_abs path))) mt /\
  (forall a, In a (ancestor_dirs path) -> dir_at m' a).
Proof.
  intros W H. unfold add_parents in H. rewrite ancestor_dirs_chain in H.
  assert (Forall good_comp ([] ++ removelast (comps_abs path))) as G.
  { cbn [app]. pose proof (comps_abs_good path) as G0.
    destruct (comps_abs path) as [|c cs] eqn:E; [constructor|].
    assert (c :: cs <> []) as NE by discriminate.
    rewrite (app_removelast_last c NE) in G0. apply Forall_app in G0. tauto. }
  destruct (add_chain _ [] m m' mt W G) as (W' & A & D); [|exact H|].
  - intros q Hq [->|[]]. contradiction.
  - split; [exact W'|]. split; [exact A|].
    intros a Ha. rewrite ancestor_dirs_chain in Ha. apply in_map_iff in Ha as (q & <- & Hq).
    assert (q <> []) as NE by (apply in_chain_nil in Hq; tauto).
    rewrite <- (dkey_nonnil q NE). apply D. exact Hq.
Qed.

(* entries added by addParents sit at proper ancestors, never at the location itself *)
Lemma added_not_at path m m' mt :
  added_by m m' (chain [] (removelast (comps_abs path))) mt ->
  (forall k v, In (k, v) m -> comps_abs k <> comps_abs path) ->
  forall k v, In (k, v) m' -> comps_abs k <> comps_abs path.
Proof.
  intros [_ New] Fresh k v Hin. destruct (New k v Hin) as [H|(q & Hq & -> & _)]; [eapply Fresh; eauto|].
  apply in_chain_nil in Hq as [NE Hq].
  rewrite comps_abs_dkey by (eapply prefixes_good; [apply comps_abs_good|exact Hq]).
  apply prefix_neq. exact Hq.
Qed.
