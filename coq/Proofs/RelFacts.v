(* Archive member names derived from planned destinations: AsRelativePath / AsExplicitRelativePath /
   ToNixPath on directory and file keys, and the location they denote. *)
From Coq Require Import List NArith Lia Bool.
From Coq Require Import Strings.Byte.
From NfpmV Require Import Lib.Bytes Model.Path Model.Content Model.Prepare Model.Payload Spec.C05 Spec.C01.
From NfpmV Require Import Proofs.PathFacts Proofs.KeyFacts.
Import ListNotations.

Lemma is_slash_slash : is_slash slash = true.
Proof. apply is_slash_true. reflexivity. Qed.

(* ToNixPath of a key is the file spelling of its components *)
Lemma to_nix_fkey cs : Forall good_comp cs -> to_nix (fkey cs) = fkey cs.
Proof.
  intros G. unfold to_nix, clean. destruct cs as [|c cs]; [reflexivity|].
  cbn [fkey abs_of join_abs]. rewrite is_slash_slash.
  change (slash :: c ++ join_abs cs) with (join_abs (c :: cs)).
  fold (comps_abs (join_abs (c :: cs))). rewrite comps_abs_join_abs by exact G. reflexivity.
Qed.

Lemma to_nix_dkey cs : Forall good_comp cs -> to_nix (dkey cs) = fkey cs.
Proof.
  intros G. unfold to_nix, clean. destruct cs as [|c cs]; [reflexivity|].
  cbn [dkey join_abs app]. rewrite is_slash_slash.
  change (slash :: (c ++ join_abs cs) ++ [slash]) with (join_abs (c :: cs) ++ [slash]).
  fold (comps_abs (join_abs (c :: cs) ++ [slash])). rewrite comps_abs_join_abs_slash by exact G. reflexivity.
Qed.

(* the relative spelling: the file key without its leading slash *)
Definition rel_key (cs : list str) : str := match fkey cs with _ :: r => r | [] => [] end.

Lemma good_head_noslash c : good_comp c -> exists b r, c = b :: r /\ is_slash b = false.
Proof.
  intros (H1 & _ & _ & H4). destruct c as [|b r]; [contradiction|]. exists b, r. split; [reflexivity|].
  apply is_slash_false. intros ->. apply H4. left. reflexivity.
Qed.

Lemma trim_left_fkey cs : Forall good_comp cs -> trim_left is_slash (fkey cs) = rel_key cs.
Proof.
  intros G. destruct cs as [|c cs]; [reflexivity|]. inversion G as [|? ? Hc _]; subst.
  destruct (good_head_noslash c Hc) as (b & r & -> & Hb).
  cbn [fkey abs_of join_abs rel_key trim_left drop_while app]. rewrite is_slash_slash, Hb. reflexivity.
Qed.

Lemma slash_rel_key cs : cs <> [] -> slash :: rel_key cs = fkey cs.
Proof. destruct cs; [contradiction|]. reflexivity. Qed.

Lemma rel_key_nil : rel_key [] = [].
Proof. reflexivity. Qed.

(* AsRelativePath of a key: the relative spelling, directories keep a trailing slash when longer than one byte *)
Lemma as_rel_fkey cs : Forall good_comp cs -> cs <> [] -> as_rel (fkey cs) = rel_key cs.
Proof.
  intros G NE. unfold as_rel. rewrite to_nix_fkey, trim_left_fkey by exact G.
  rewrite fkey_suffix by assumption. rewrite andb_false_r. reflexivity.
Qed.

Lemma as_rel_dkey cs : Forall good_comp cs ->
  as_rel (dkey cs) = rel_key cs \/ (cs <> [] /\ as_rel (dkey cs) = rel_key cs ++ [slash]).
Proof.
  intros G. destruct cs as [|c cs]; [left; reflexivity|].
  unfold as_rel. rewrite to_nix_dkey, trim_left_fkey by exact G.
  destruct (_ && _); [right; split; [discriminate|reflexivity]|left; reflexivity].
Qed.

Lemma as_rel_root : as_rel [slash] = [].
Proof. reflexivity. Qed.

(* the location of a key *)
Definition loc_of (cs : list str) : str := join_abs cs.

Lemma strip_fkey cs : Forall good_comp cs -> strip_dir_slash (fkey cs) = loc_of cs.
Proof.
  intros G. destruct cs as [|c cs]; [reflexivity|]. rewrite location_fkey by (auto; discriminate). reflexivity.
Qed.

Lemma strip_dkey cs : Forall good_comp cs -> strip_dir_slash (dkey cs) = loc_of cs.
Proof.
  intros G. destruct cs as [|c cs]; [reflexivity|]. rewrite dkey_strip by discriminate. reflexivity.
Qed.

Lemma strip_fkey_slash cs : Forall good_comp cs -> cs <> [] -> strip_dir_slash (fkey cs ++ [slash]) = loc_of cs.
Proof. intros G NE. rewrite strip_dir_slash_snoc. destruct cs; [contradiction|reflexivity]. Qed.

(* the location denoted by the tar-style relative name of a key, with or without the directory slash *)
Lemma logical_rel cs : Forall good_comp cs ->
  strip_dir_slash (slash :: rel_key cs) = loc_of cs /\ strip_dir_slash (slash :: rel_key cs ++ [slash]) = loc_of cs \/ cs = [].
Proof.
  intros G. destruct cs as [|c cs]; [right; reflexivity|left].
  rewrite slash_rel_key by discriminate. split; [apply strip_fkey; exact G|].
  change (slash :: rel_key (c :: cs) ++ [slash]) with ((slash :: rel_key (c :: cs)) ++ [slash]).
  rewrite slash_rel_key by discriminate. apply strip_fkey_slash; [exact G|discriminate].
Qed.

Lemma logical_rel_any cs r : Forall good_comp cs -> (r = rel_key cs \/ (cs <> [] /\ r = rel_key cs ++ [slash])) ->
  strip_dir_slash (slash :: r) = loc_of cs.
Proof.
  intros G Hr. destruct (logical_rel cs G) as [[H1 H2]| ->].
  - destruct Hr as [-> | [_ ->]]; assumption.
  - destruct Hr as [-> | [NE _]]; [reflexivity|contradiction].
Qed.

(* ---- the relative spelling is itself clean: AsRelativePath is idempotent on file names ---- *)
Lemma clean_rel_id : forall cs stack, Forall good_comp cs -> clean_rel stack cs = rev stack ++ cs.
Proof.
  induction cs as [|c cs IH]; intros stack H; cbn [clean_rel].
  - rewrite app_nil_r. reflexivity.
  - inversion H as [|? ? Hc Hcs]; subst. destruct (good_comp_flags c Hc) as (-> & -> & ->). cbn [orb].
    rewrite IH by exact Hcs. cbn [rev]. rewrite <- app_assoc. reflexivity.
Qed.

Lemma join_rel_cons c cs : join_rel (c :: cs) = c ++ join_abs cs.
Proof.
  revert c. induction cs as [|c' cs IH]; intros c.
  - cbn. rewrite app_nil_r. reflexivity.
  - change (join_rel (c :: c' :: cs)) with (c ++ [slash] ++ join_rel (c' :: cs)). rewrite IH. reflexivity.
Qed.

Lemma rel_key_cons c cs : rel_key (c :: cs) = c ++ join_abs cs.
Proof. reflexivity. Qed.

Lemma split_rel_key c cs : Forall good_comp (c :: cs) -> split (rel_key (c :: cs)) = c :: cs.
Proof.
  intros G. inversion G as [|? ? Hc Hcs]; subst. rewrite rel_key_cons. unfold split.
  rewrite split_aux_app_noslash by (destruct Hc as (_ & _ & _ & H); exact H).
  rewrite app_nil_r, split_aux_join_abs by (apply good_noslash; exact Hcs). rewrite rev_involutive. reflexivity.
Qed.

Lemma to_nix_rel_key cs : Forall good_comp cs -> cs <> [] -> to_nix (rel_key cs) = rel_key cs.
Proof.
  intros G NE. destruct cs as [|c cs]; [contradiction|]. inversion G as [|? ? Hc _]; subst.
  destruct (good_head_noslash c Hc) as (b & r & E & Hb).
  assert (rel_key (c :: cs) = b :: (r ++ join_abs cs)) as Er by (rewrite rel_key_cons, E; reflexivity).
  unfold to_nix, clean. rewrite Er. rewrite Hb. rewrite <- Er.
  rewrite split_rel_key by exact G. rewrite clean_rel_id by exact G.
  cbn [rev app rel_of]. apply join_rel_cons.
Qed.

Lemma rel_key_suffix cs : Forall good_comp cs -> cs <> [] -> has_suffix [slash] (rel_key cs) = false.
Proof.
  intros G NE. destruct (last_join_abs cs G NE) as (r & b & E & Hb).
  destruct cs as [|c cs]; [contradiction|]. unfold rel_key. cbn [fkey abs_of]. rewrite E.
  destruct r as [|x r]; cbn [app].
  - (* join_abs is "/" ++ ..., so r cannot be empty unless the string is one byte: then b would be slash *)
    exfalso. cbn [join_abs] in E. injection E as E1 E2. congruence.
  - apply has_suffix_snoc_other. exact Hb.
Qed.

Lemma trim_left_rel_key cs : Forall good_comp cs -> trim_left is_slash (rel_key cs) = rel_key cs.
Proof.
  intros G. destruct cs as [|c cs]; [reflexivity|]. inversion G as [|? ? Hc _]; subst.
  destruct (good_head_noslash c Hc) as (b & r & -> & Hb).
  rewrite rel_key_cons. cbn [app trim_left drop_while]. rewrite Hb. reflexivity.
Qed.

Lemma as_rel_rel_key cs : Forall good_comp cs -> cs <> [] -> as_rel (rel_key cs) = rel_key cs.
Proof.
  intros G NE. unfold as_rel. rewrite to_nix_rel_key, trim_left_rel_key, rel_key_suffix by assumption.
  rewrite andb_false_r. reflexivity.
Qed.
