(* From the map invariant to the clauses of the C05 checker, for every successful planning run of the model. *)
From Coq Require Import List NArith ZArith Lia Bool Sorting.Permutation Sorting.Sorted.
From Coq Require Import Strings.Byte.
From NfpmV Require Import Lib.Bytes Model.Path Model.Content Model.Prepare Spec.C05.
From NfpmV Require Import Proofs.PathFacts Proofs.MapFacts Proofs.KeyFacts Proofs.PrepInv Proofs.StepInv.
Import ListNotations.

(* ---- sorting ---- *)
Definition dst_lt (a b : content) : Prop := lex_lt (c_dst a) (c_dst b).

Lemma content_ltb_dst a b : c_dst a <> c_dst b -> content_ltb a b = lex_ltb (c_dst a) (c_dst b).
Proof. intros H. unfold content_ltb. apply seqb_neq in H. rewrite H. reflexivity. Qed.

Lemma dst_lt_neq a b : dst_lt a b -> c_dst a <> c_dst b.
Proof. intros H E. unfold dst_lt in H. rewrite E in H. apply (lex_lt_irrefl _ H). Qed.

Lemma insert_perm c : forall l, Permutation (insert_sorted c l) (c :: l).
Proof.
  induction l as [|x l IH]; cbn [insert_sorted]; [reflexivity|].
  destruct (content_ltb x c); [|reflexivity].
  rewrite IH. apply perm_swap.
Qed.

Lemma sort_perm : forall l, Permutation (sort_contents l) l.
Proof.
  induction l as [|x l IH]; cbn; [constructor|].
  fold (sort_contents l). rewrite insert_perm. constructor. exact IH.
Qed.

Lemma insert_SS c : forall l, StronglySorted dst_lt l -> (forall x, In x l -> c_dst x <> c_dst c) ->
  StronglySorted dst_lt (insert_sorted c l).
Proof.
  induction l as [|x l IH]; intros SS Hne; cbn [insert_sorted].
  - constructor; constructor.
  - inversion SS as [|? ? SS' Fx]; subst.
    assert (c_dst x <> c_dst c) as Hxc by (apply Hne; left; reflexivity).
    rewrite (content_ltb_dst _ _ Hxc). destruct (lex_ltb (c_dst x) (c_dst c)) eqn:E.
    + apply lex_ltb_lt in E. constructor.
      * apply IH; [exact SS'|]. intros y Hy. apply Hne. right. exact Hy.
      * rewrite Forall_forall. intros y Hy.
        apply (Permutation_in _ (insert_perm c l)) in Hy. destruct Hy as [<-|Hy]; [exact E|].
        rewrite Forall_forall in Fx. apply Fx. exact Hy.
    + assert (dst_lt c x) as Hcx.
      { destruct (lex_total (c_dst x) (c_dst c)) as [H|[H|H]]; [|contradiction|exact H].
        apply lex_ltb_lt in H. congruence. }
      constructor; [exact SS|]. constructor; [exact Hcx|].
      rewrite Forall_forall in *. intros y Hy. eapply lex_lt_trans; [exact Hcx|apply Fx; exact Hy].
Qed.

Lemma sort_SS : forall l, NoDup (map c_dst l) -> StronglySorted dst_lt (sort_contents l).
Proof.
  induction l as [|x l IH]; intros ND; cbn; [constructor|]. fold (sort_contents l).
  cbn [map] in ND. inversion ND as [|? ? Hn ND']; subst.
  apply insert_SS; [apply IH; exact ND'|].
  intros y Hy E. apply Hn. apply (Permutation_in _ (sort_perm l)) in Hy.
  rewrite <- E. apply in_map. exact Hy.
Qed.

Lemma SS_sortedb : forall l, StronglySorted dst_lt l -> sortedb l = true.
Proof.
  induction l as [|x l IH]; intros SS; [reflexivity|]. inversion SS as [|? ? SS' Fx]; subst.
  cbn [sortedb]. destruct l as [|y l']; [reflexivity|].
  inversion Fx as [|? ? Hxy _]; subst.
  rewrite (content_ltb_dst _ _ (dst_lt_neq _ _ Hxy)).
  apply lex_ltb_lt in Hxy. rewrite Hxy. apply IH. exact SS'.
Qed.

(* ---- bool reflections ---- *)
Lemma nodupb_NoDup : forall l, NoDup l -> nodupb l = true.
Proof.
  induction l as [|x l IH]; intros ND; [reflexivity|]. inversion ND as [|? ? Hn ND']; subst.
  cbn [nodupb]. rewrite IH by exact ND'. rewrite andb_true_r. apply negb_true_iff.
  destruct (existsb (seqb x) l) eqn:E; [|reflexivity].
  apply existsb_exists in E as (y & Hy & E). apply seqb_eq in E. subst. contradiction.
Qed.

Lemma NoDup_map_inj_in {A B C} (f : A -> B) (g : A -> C) : forall l,
  (forall x y, In x l -> In y l -> f x = f y -> g x = g y) -> NoDup (map g l) -> NoDup (map f l).
Proof.
  induction l as [|x l IH]; intros Inj ND; [constructor|]. cbn [map] in *.
  inversion ND as [|? ? Hn ND']; subst. constructor.
  - intros H. apply in_map_iff in H as (y & E & Hy). apply Hn.
    rewrite (Inj x y (or_introl eq_refl) (or_intror Hy) (eq_sym E)). apply in_map. exact Hy.
  - apply IH; [|exact ND']. intros a b Ha Hb. apply Inj; right; assumption.
Qed.

(* ---- facts about single planned entries ---- *)
Definition planned (m : cmap) (c : content) : Prop := In (c_dst c, c) m.

Lemma good_compb_of c : good_comp c -> good_compb c = true.
Proof.
  intros (H1 & H2 & H3 & H4). unfold good_compb. rewrite H2, H3.
  destruct c; [contradiction|]. cbn [is_empty negb andb].
  destruct (existsb is_slash (b :: c)) eqn:E; [|reflexivity].
  apply existsb_exists in E as (x & Hx & E). apply is_slash_true in E. subst. contradiction.
Qed.

Lemma abs_cleanb_fkey cs : Forall good_comp cs -> abs_cleanb (fkey cs) = true.
Proof.
  intros G. destruct cs as [|c cs]; [reflexivity|].
  cbn [fkey abs_of join_abs abs_cleanb]. assert (is_slash slash = true) as -> by (apply is_slash_true; reflexivity).
  cbn [andb]. inversion G as [|? ? Hc Hcs]; subst.
  unfold split. rewrite split_aux_app_noslash by (destruct Hc as (_ & _ & _ & H); exact H).
  rewrite app_nil_r, split_aux_join_abs by (apply good_noslash; exact Hcs). rewrite rev_involutive.
  apply orb_true_iff. right.
  apply forallb_forall. intros x Hx. apply good_compb_of. rewrite Forall_forall in G. apply G. exact Hx.
Qed.

Lemma shape_of_val_ok k v : val_ok k v -> dst_shapeb v = true.
Proof.
  intros (E & cs & G & Ek). unfold dst_shapeb. rewrite E. destruct (is_dir_typ (c_typ v)); rewrite Ek.
  - rewrite dkey_suffix. cbn [andb]. destruct cs as [|c cs]; [reflexivity|].
    rewrite dkey_strip by discriminate. rewrite abs_cleanb_fkey by exact G. apply orb_true_r.
  - apply abs_cleanb_fkey. exact G.
Qed.

Lemma not_double_root k v : val_ok k v -> double_rootb v = false.
Proof.
  intros (E & cs & G & Ek). unfold double_rootb. rewrite E. apply seqb_neq. intros H.
  assert (comps_abs k = []) as C by (rewrite H; reflexivity).
  assert (comps_abs k = cs) as C' by (apply (vkey_comps k cs (is_dir_typ (c_typ v))); split; assumption).
  rewrite C in C'. subst cs. rewrite H in Ek. destruct (is_dir_typ (c_typ v)); discriminate.
Qed.

Lemma join_abs_app a b : join_abs (a ++ b) = join_abs a ++ join_abs b.
Proof. induction a as [|c a IH]; [reflexivity|]. cbn [app join_abs]. rewrite IH, <- !app_assoc. reflexivity. Qed.

Lemma join_abs_inj a b : Forall good_comp a -> Forall good_comp b -> join_abs a = join_abs b -> a = b.
Proof.
  intros Ga Gb E. destruct a as [|x a], b as [|y b]; try reflexivity; try discriminate.
  apply fkey_inj; assumption.
Qed.

Lemma location_key k cs d : vkey k cs d -> strip_dir_slash k = join_abs cs.
Proof.
  intros [G ->]. destruct cs as [|c cs]; [destruct d; reflexivity|].
  destruct d; [rewrite dkey_strip by discriminate|rewrite location_fkey by (auto; discriminate)]; reflexivity.
Qed.

(* an ancestor directory sorts strictly before the entry *)
Lemma ancestor_lex_lt k cs d a : vkey k cs d -> In a (ancestor_dirs k) -> lex_lt a k.
Proof.
  intros K Ha. pose proof (vkey_comps _ _ _ K) as C. destruct K as [G Ek].
  rewrite (ancestor_dirs_key k cs C) in Ha. apply in_map_iff in Ha as (q & <- & Hq).
  apply filter_In in Hq as [Hq Hn]. apply prefixes_spec in Hq as (r & Hr & Ecs).
  destruct r as [|c r]; [contradiction|].
  assert (good_comp c) as Gc.
  { rewrite Ecs in G. apply Forall_app in G as [_ G]. inversion G; assumption. }
  assert (exists rest, rest <> [] /\ k = (join_abs q ++ [slash]) ++ rest) as (rest & Hrest & ->).
  { assert (cs <> []) as NE by (rewrite Ecs; destruct q; discriminate).
    destruct cs as [|c0 cs0]; [contradiction|].
    assert (join_abs (c0 :: cs0) = (join_abs q ++ [slash]) ++ c ++ join_abs r) as J.
    { rewrite Ecs, join_abs_app. cbn [join_abs]. rewrite <- app_assoc. reflexivity. }
    destruct Gc as (Hc & _). destruct c as [|b c]; [contradiction|].
    destruct d; rewrite Ek.
    - exists ((b :: c) ++ join_abs r ++ [slash]). split; [discriminate|].
      cbn [dkey]. rewrite J. rewrite <- !app_assoc. reflexivity.
    - exists ((b :: c) ++ join_abs r). split; [discriminate|]. cbn [fkey abs_of]. exact J. }
  apply prefix_lex_lt. exact Hrest.
Qed.

(* ---- parents precede children in a list sorted by destination ---- *)
Lemma parents_before_sorted : forall l seen,
  StronglySorted dst_lt l ->
  (forall c, In c l -> forall a, In a (ancestor_dirs (c_dst c)) ->
     lex_lt a (c_dst c) /\ exists d, In d (seen ++ l) /\ c_dst d = a /\ is_dir_typ (c_typ d) = true) ->
  parents_beforeb seen l = true.
Proof.
  induction l as [|c l IH]; intros seen SS H; [reflexivity|].
  inversion SS as [|? ? SS' Fc]; subst. cbn [parents_beforeb]. apply andb_true_iff. split.
  - apply forallb_forall. intros a Ha. destruct (H c (or_introl eq_refl) a Ha) as (Lt & d & Hd & Ed & Dd).
    apply existsb_exists. apply in_app_or in Hd. destruct Hd as [Hd|[<-|Hd]].
    + exists d. split; [exact Hd|]. rewrite Ed, seqb_refl, Dd. reflexivity.
    + exfalso. rewrite Ed in Lt. apply (lex_lt_irrefl _ Lt).
    + exfalso. rewrite Forall_forall in Fc. specialize (Fc d Hd). unfold dst_lt in Fc. rewrite Ed in Fc.
      apply (lex_lt_irrefl a). eapply lex_lt_trans; eauto.
  - apply IH; [exact SS'|]. intros c' Hc' a Ha. destruct (H c' (or_intror Hc') a Ha) as (Lt & d & Hd & Ed & Dd).
    split; [exact Lt|]. exists d. split; [|auto]. apply in_app_or in Hd. apply in_or_app.
    destruct Hd as [Hd|[<-|Hd]]; [left; right; exact Hd|left; left; reflexivity|right; exact Hd].
Qed.

(* ---- the clauses, from the invariant ---- *)
Section FromInvariant.
Variable m : cmap.
Variable packager : str.
Hypothesis W : wf m.
Hypothesis R : relevant_vals packager m.

Let cs := sort_contents (map snd m).

Lemma in_cs c : In c cs -> planned m c.
Proof.
  intros H. apply (Permutation_in _ (sort_perm _)) in H. apply in_map_iff in H as ([k v] & E & H). cbn in E. subst v.
  unfold planned. destruct (wf_vals _ W _ _ H) as (-> & _). exact H.
Qed.

Lemma cs_of_in k v : In (k, v) m -> In v cs.
Proof.
  intros H. apply (Permutation_in _ (Permutation_sym (sort_perm _))). apply in_map_iff. exists (k, v). auto.
Qed.

Lemma map_dst_keys : map c_dst (map snd m) = map fst m.
Proof.
  rewrite map_map. apply map_ext_in. intros [k v] H. cbn. destruct (wf_vals _ W _ _ H) as (E & _). exact E.
Qed.

Lemma cs_nodup_dst : NoDup (map c_dst cs).
Proof.
  apply (Permutation_NoDup (l := map c_dst (map snd m))).
  - apply Permutation_map. apply Permutation_sym. apply sort_perm.
  - rewrite map_dst_keys. apply (wf_nodup _ W).
Qed.

Lemma cs_SS : StronglySorted dst_lt cs.
Proof. apply sort_SS. rewrite map_dst_keys. apply (wf_nodup _ W). Qed.

Theorem clause_unique : nodupb (map c_dst cs) = true.
Proof. apply nodupb_NoDup. apply cs_nodup_dst. Qed.

Theorem clause_sorted : sortedb cs = true.
Proof. apply SS_sortedb. apply cs_SS. Qed.

Theorem clause_shape : forallb dst_shapeb cs = true.
Proof. apply forallb_forall. intros c Hc. eapply shape_of_val_ok. apply (wf_vals _ W). apply in_cs. exact Hc. Qed.

Theorem clause_double_root : negb (existsb double_rootb cs) = true.
Proof.
  apply negb_true_iff. destruct (existsb double_rootb cs) eqn:E; [|reflexivity].
  apply existsb_exists in E as (c & Hc & E). rewrite (not_double_root (c_dst c) c) in E; [discriminate|].
  apply (wf_vals _ W). apply in_cs. exact Hc.
Qed.

Theorem clause_parents : parents_beforeb [] cs = true.
Proof.
  apply parents_before_sorted; [apply cs_SS|]. intros c Hc a Ha. pose proof (in_cs c Hc) as P.
  destruct (wf_vals _ W _ _ P) as (_ & comps & K). split.
  - eapply ancestor_lex_lt; eauto.
  - destruct (wf_par _ W _ _ P a Ha) as (d & Hd & Dd). exists d. cbn [app].
    split; [eapply cs_of_in; eauto|]. split; [|exact Dd]. destruct (wf_vals _ W _ _ Hd) as (E & _). exact E.
Qed.

Lemma location_eq_dst c1 c2 : In c1 cs -> In c2 cs -> location c1 = location c2 -> c_dst c1 = c_dst c2.
Proof.
  intros H1 H2 E. pose proof (in_cs _ H1) as P1. pose proof (in_cs _ H2) as P2.
  destruct (wf_vals _ W _ _ P1) as (_ & a & K1). destruct (wf_vals _ W _ _ P2) as (_ & b & K2).
  unfold location in E. rewrite (location_key _ _ _ K1), (location_key _ _ _ K2) in E.
  apply join_abs_inj in E; [|apply K1|apply K2].
  apply (wf_loc _ W _ _ _ _ P1 P2). rewrite (vkey_comps _ _ _ K1), (vkey_comps _ _ _ K2). exact E.
Qed.

Theorem clause_location_unique : nodupb (map location cs) = true.
Proof.
  apply nodupb_NoDup. apply (NoDup_map_inj_in location c_dst); [|apply cs_nodup_dst].
  intros x y Hx Hy. apply location_eq_dst; assumption.
Qed.

Theorem clause_beneath : negb (beneath_nondirb cs) = true.
Proof.
  apply negb_true_iff. destruct (beneath_nondirb cs) eqn:E; [|reflexivity]. exfalso.
  unfold beneath_nondirb in E. apply existsb_exists in E as (c & Hc & E).
  apply existsb_exists in E as (a & Ha & E). apply existsb_exists in E as (d & Hd & E).
  apply andb_true_iff in E as [Dd E]. apply negb_true_iff in Dd. apply seqb_eq in E.
  pose proof (in_cs _ Hc) as Pc. pose proof (in_cs _ Hd) as Pd.
  destruct (wf_par _ W _ _ Pc a Ha) as (v' & Hv' & Dv').
  destruct (wf_vals _ W _ _ Pd) as (_ & cd & Kd). rewrite Dd in Kd.
  destruct (wf_vals _ W _ _ Hv') as (_ & ca & Ka). rewrite Dv' in Ka.
  destruct Kd as [Gd Ed], Ka as [Ga Ea].
  (* a = dst d ++ "/" and a is a directory key *)
  assert (ca <> []) as NEa.
  { intros ->. destruct (wf_vals _ W _ _ Pc) as (_ & cc & Kc). pose proof (vkey_comps _ _ _ Kc) as Cc.
    rewrite (ancestor_dirs_key _ _ Cc) in Ha. apply in_map_iff in Ha as (q & Eq & Hq).
    apply filter_In in Hq as [_ Hn]. rewrite Ea in Eq. cbn [dkey] in Eq. destruct q as [|x q']; [discriminate|].
    cbn [join_abs app] in Eq. injection Eq as Eq. apply app_eq_nil in Eq as [_ Eq]. discriminate. }
  assert (cd = ca) as ->.
  { destruct cd as [|x cd].
    - exfalso. rewrite Ed in E. rewrite Ea, (dkey_nonnil _ NEa) in E.
      change (fkey [] ++ [slash]) with ([slash] ++ [slash]) in E. apply app_inj_tail in E as [E _].
      destruct ca as [|y ca']; [contradiction|]. cbn [join_abs] in E. injection E as E.
      symmetry in E. apply app_eq_nil in E as [-> _]. inversion Ga as [|? ? (Hy & _) _]. contradiction.
    - rewrite Ed, fkey_snoc in E by discriminate. rewrite Ea in E. apply dkey_inj in E; assumption. }
  assert (c_dst d = a) as Bad.
  { apply (wf_loc _ W _ _ _ _ Pd Hv').
    rewrite (vkey_comps (c_dst d) ca false), (vkey_comps a ca true); [reflexivity|split; assumption|split; assumption]. }
  rewrite Ed, Ea in Bad. symmetry in Bad. apply dkey_fkey_disjoint in Bad; [|assumption|assumption].
  destruct Bad as [Bad _]. contradiction.
Qed.

Theorem clause_relevant : forallb (is_relevant packager) cs = true.
Proof. apply forallb_forall. intros c Hc. eapply R. apply in_cs. exact Hc. Qed.

End FromInvariant.

(* ---- the planning theorem ---- *)
Theorem plan_clauses fs st ces umask packager mt cs :
  oracle_okb fs st umask mt ces = true ->
  prep fs st ces umask packager mt = Ok cs ->
  nodupb (map c_dst cs) = true /\ sortedb cs = true /\ forallb dst_shapeb cs = true /\
  negb (existsb double_rootb cs) = true /\ parents_beforeb [] cs = true /\
  nodupb (map location cs) = true /\ negb (beneath_nondirb cs) = true /\
  forallb (is_relevant packager) cs = true.
Proof.
  intros OK H. unfold prep in H.
  destruct (steps fs st umask packager mt [] ces) as [m|e] eqn:S; [|discriminate]. injection H as <-.
  destruct (steps_wf fs st umask packager mt ces [] m wf_empty) as [W R]; [intros k v []|exact OK|exact S|].
  repeat split.
  - apply clause_unique; exact W.
  - apply clause_sorted; exact W.
  - apply clause_shape; exact W.
  - apply clause_double_root; exact W.
  - apply clause_parents; exact W.
  - apply clause_location_unique; exact W.
  - apply clause_beneath; exact W.
  - apply clause_relevant with (m := m); assumption.
Qed.
