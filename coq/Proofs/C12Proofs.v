(* C12: threads whose writes are private when each runs alone never modify a shared cell under ANY interleaving,
   and each ends exactly where it ends when run alone - so concurrent results equal sequential results. *)
From Coq Require Import List NArith ZArith Bool Arith Lia.
From Coq Require Import Strings.Byte.
From NfpmV Require Import Lib.Bytes Model.History Model.Conc.
From NfpmV Require Import Proofs.C11Proofs.
Import ListNotations.
Open Scope list_scope.

Lemma firstn_frozen_gen : forall n h h', n <= List.length h -> frozen n h h' -> firstn n h' = firstn n h.
Proof.
  induction n as [|n IH]; intros h h' Hn [L F]; [reflexivity|].
  destruct h as [|x h]; [cbn [List.length] in Hn; lia|].
  destruct h' as [|x' h']; [cbn [List.length] in L; lia|].
  cbn [firstn]. f_equal.
  - specialize (F 0 ltac:(lia)). cbn [nth_error] in F. congruence.
  - apply IH; [cbn [List.length] in Hn; lia|]. split; [cbn [List.length] in L; lia|].
    intros l Hl. apply (F (S l)). lia.
Qed.

Lemma firstn_shared (shared loc : heap) : firstn (List.length shared) (shared ++ loc) = shared.
Proof. rewrite firstn_app, Nat.sub_diag, firstn_all. cbn [firstn]. apply app_nil_r. Qed.

(* a step whose write was private leaves the shared cells exactly as they were *)
Lemma t_step_private_shared n shared t :
  List.length shared = n -> t_ok (snd (t_step n shared t)) = true -> fst (t_step n shared t) = shared.
Proof.
  intros Hn. unfold t_step. destruct (t_pend t) as [|w r].
  - destruct (t_rest t); reflexivity.
  - cbn [fst snd t_ok]. intros Hok. apply andb_true_iff in Hok. destruct Hok as [_ Hp].
    pose proof (exec_wr_total_frozen n (shared ++ t_local t, t_root t) w) as F. cbn [fst snd] in F.
    rewrite (firstn_frozen_gen n (shared ++ t_local t)).
    + subst n. apply firstn_shared.
    + rewrite app_length. lia.
    + apply F; [rewrite app_length; lia|exact Hp].
Qed.

Lemma nth_error_set_nth_same {A} : forall (l : list A) i x y, nth_error l i = Some y -> nth_error (set_nth i x l) i = Some x.
Proof.
  induction l as [|a l IH]; intros [|i] x y H; cbn [set_nth nth_error] in *; try discriminate H; [reflexivity|].
  apply (IH i x y H).
Qed.

Lemma nth_error_set_nth_other {A} : forall (l : list A) i j x, i <> j -> nth_error (set_nth i x l) j = nth_error l j.
Proof.
  induction l as [|a l IH]; intros [|i] [|j] x Hne; cbn [set_nth nth_error]; try reflexivity; [congruence|].
  apply IH. congruence.
Qed.

Lemma solo_S n shared t k : solo n shared t (S k) = solo n shared (snd (t_step n shared t)) k.
Proof. reflexivity. Qed.

Lemma count_of_cons_same i r : count_of i (i :: r) = S (count_of i r).
Proof. unfold count_of. cbn [filter]. rewrite Nat.eqb_refl. reflexivity. Qed.

Lemma count_of_cons_other i j r : j <> i -> count_of j (i :: r) = count_of j r.
Proof. intros H. unfold count_of. cbn [filter]. apply Nat.eqb_neq in H. rewrite H. reflexivity. Qed.

(* ANY schedule: the shared cells never change, and every thread is where the same number of its own steps,
   taken alone, would have put it *)
Theorem interleaving_equals_solo n shared : List.length shared = n -> forall sched ts,
  (forall i t, nth_error ts i = Some t -> forall k, t_ok (solo n shared t k) = true) ->
  fst (run_sched n shared ts sched) = shared /\
  forall i t, nth_error ts i = Some t ->
    nth_error (snd (run_sched n shared ts sched)) i = Some (solo n shared t (count_of i sched)).
Proof.
  intros Hn. induction sched as [|i r IH]; intros ts Hall.
  - split; [reflexivity|]. intros i t Hi. exact Hi.
  - cbn [run_sched]. destruct (nth_error ts i) as [t|] eqn:Ei.
    + destruct (t_step n shared t) as [shared' t'] eqn:Es.
      assert (Hok1 : t_ok t' = true).
      { pose proof (Hall i t Ei 1) as H1. cbn [solo] in H1. rewrite Es in H1. exact H1. }
      assert (Hsh : shared' = shared).
      { pose proof (t_step_private_shared n shared t Hn) as H. rewrite Es in H. apply H. exact Hok1. }
      subst shared'.
      assert (Hall' : forall j u, nth_error (set_nth i t' ts) j = Some u -> forall k, t_ok (solo n shared u k) = true).
      { intros j u Hj k. destruct (Nat.eq_dec i j) as [->|Hne].
        - rewrite (nth_error_set_nth_same ts j t' t Ei) in Hj. inversion Hj; subst u.
          pose proof (Hall j t Ei (S k)) as H. rewrite solo_S, Es in H. exact H.
        - rewrite nth_error_set_nth_other in Hj by exact Hne. apply (Hall j u Hj). }
      destruct (IH (set_nth i t' ts) Hall') as [I1 I2]. split; [exact I1|].
      intros j u Hj. destruct (Nat.eq_dec i j) as [->|Hne].
      * rewrite Ei in Hj. inversion Hj; subst u. rewrite count_of_cons_same, solo_S, Es. cbn [snd].
        apply I2. apply (nth_error_set_nth_same ts j t' t Ei).
      * rewrite count_of_cons_other by congruence. apply I2. rewrite nth_error_set_nth_other by exact Hne. exact Hj.
    + destruct (IH ts Hall) as [I1 I2]. split; [exact I1|].
      intros j u Hj. assert (j <> i) by (intros ->; congruence).
      rewrite count_of_cons_other by assumption. apply I2. exact Hj.
Qed.

(* two schedules that give every thread the same number of steps end in the same thread states: in particular an
   arbitrary interleaving and the sequential schedule (thread 0 to completion, then thread 1, ...) *)
Corollary schedules_agree n shared ts s1 s2 :
  List.length shared = n ->
  (forall i t, nth_error ts i = Some t -> forall k, t_ok (solo n shared t k) = true) ->
  (forall i, count_of i s1 = count_of i s2) ->
  fst (run_sched n shared ts s1) = fst (run_sched n shared ts s2) /\
  forall i t, nth_error ts i = Some t ->
    nth_error (snd (run_sched n shared ts s1)) i = nth_error (snd (run_sched n shared ts s2)) i.
Proof.
  intros Hn Hall Hc.
  destruct (interleaving_equals_solo n shared Hn s1 ts Hall) as [A1 A2].
  destruct (interleaving_equals_solo n shared Hn s2 ts Hall) as [B1 B2].
  split; [congruence|]. intros i t Hi. rewrite (A2 i t Hi), (B2 i t Hi), Hc. reflexivity.
Qed.

(* a finished thread stays where it is: extra steps in a schedule change nothing *)
Lemma solo_done n shared t k : t_done t = true -> solo n shared t k = t.
Proof.
  intros Hd. induction k as [|k IH]; [reflexivity|]. rewrite solo_S.
  assert (snd (t_step n shared t) = t) as ->; [|exact IH].
  unfold t_done in Hd. unfold t_step. destruct (t_pend t); [|discriminate Hd]. destruct (t_rest t); [reflexivity|discriminate Hd].
Qed.

Lemma solo_add n shared t a b : solo n shared t (a + b) = solo n shared (solo n shared t a) b.
Proof. revert t; induction a as [|a IH]; intros t; [reflexivity|]. cbn [Nat.add solo]. apply IH. Qed.

Corollary complete_schedules_agree n shared ts s1 s2 :
  List.length shared = n ->
  (forall i t, nth_error ts i = Some t -> forall k, t_ok (solo n shared t k) = true) ->
  forall i t steps, nth_error ts i = Some t -> t_done (solo n shared t steps) = true ->
    steps <= count_of i s1 -> steps <= count_of i s2 ->
    nth_error (snd (run_sched n shared ts s1)) i = Some (solo n shared t steps) /\
    nth_error (snd (run_sched n shared ts s2)) i = Some (solo n shared t steps).
Proof.
  intros Hn Hall i t steps Hi Hd H1 H2.
  destruct (interleaving_equals_solo n shared Hn s1 ts Hall) as [_ A2].
  destruct (interleaving_equals_solo n shared Hn s2 ts Hall) as [_ B2].
  rewrite (A2 i t Hi), (B2 i t Hi).
  replace (count_of i s1) with (steps + (count_of i s1 - steps)) by lia.
  replace (count_of i s2) with (steps + (count_of i s2 - steps)) by lia.
  rewrite !solo_add, !(solo_done n shared _ _ Hd). split; reflexivity.
Qed.

(* ---------- discharging the premise by running each thread alone to completion ---------- *)
Lemma t_ok_step_mono n shared t : t_ok (snd (t_step n shared t)) = true -> t_ok t = true.
Proof.
  unfold t_step. destruct (t_pend t) as [|w r].
  - destruct (t_rest t); cbn [snd t_ok]; intros H; exact H.
  - cbn [snd t_ok]. intros H. apply andb_true_iff in H. destruct H as [H _]. exact H.
Qed.

Lemma t_ok_solo_mono n shared : forall b t, t_ok (solo n shared t b) = true -> t_ok t = true.
Proof.
  induction b as [|b IH]; intros t H; [exact H|]. rewrite solo_S in H. apply (t_ok_step_mono n shared). apply IH. exact H.
Qed.

Definition solo_private (n : nat) (shared : heap) (t : tstate) (steps : nat) : bool :=
  t_done (solo n shared t steps) && t_ok (solo n shared t steps).

Lemma solo_private_all n shared t steps :
  solo_private n shared t steps = true -> forall k, t_ok (solo n shared t k) = true.
Proof.
  unfold solo_private. intros H k. apply andb_true_iff in H. destruct H as [Hd Hok].
  destruct (Nat.le_gt_cases k steps) as [Hle|Hgt].
  - apply (t_ok_solo_mono n shared (steps - k)). rewrite <- solo_add. replace (k + (steps - k)) with steps by lia. exact Hok.
  - replace k with (steps + (k - steps)) by lia. rewrite solo_add, (solo_done n shared _ _ Hd). exact Hok.
Qed.
