(* C04 / C01: the fields of a tar header read back as written; PAX records read back as written; the logical member a
   reader reconstructs from an extension member and the member it describes. *)
From Coq Require Import List NArith Bool Arith Lia String.
From Coq Require Import Strings.Byte.
From NfpmV Require Import Lib.Bytes Model.Container Model.Tar Model.Mtree Model.TarFields.
From NfpmV Require Import Proofs.C10Proofs Proofs.TarProofs Proofs.MtreeProofs.
Import ListNotations.
Open Scope list_scope.

(* ---------- cutting ---------- *)
Lemma cut_app n a b : List.length a = n -> cut n (a ++ b) = (a, b).
Proof. intros H. unfold cut. rewrite (firstn_app_exact a b n H), (skipn_app_exact a b n H). reflexivity. Qed.

Lemma cut_exact n a : List.length a = n -> cut n a = (a, []).
Proof. intros H. rewrite <- (app_nil_r a) at 1. apply cut_app. exact H. Qed.

Lemma nul_pad_length n s : List.length s <= n -> List.length (nul_pad n s) = n.
Proof. intros H. unfold nul_pad. rewrite app_length, repeat_length. lia. Qed.

Lemma num_field_length w v : 1 <= w -> List.length (num_field w v) = w.
Proof. intros H. unfold num_field. rewrite app_length, oct_fixed_length. cbn [List.length]. lia. Qed.

(* ---------- strings ---------- *)
Lemma cstr_nul_pad n s : no_nul s = true -> cstr (nul_pad n s) = s.
Proof.
  intros H. unfold cstr, nul_pad. destruct (n - List.length s) as [|k]; cbn [repeat].
  - rewrite app_nil_r. apply take_whileb_all. exact H.
  - apply take_whileb_app_stop; [exact H|]. rewrite beq_refl. reflexivity.
Qed.

(* ---------- numbers ---------- *)
Lemma octb_not_sep b : octb b = true -> negb (beq b tnul) && negb (beq b tspace) = true.
Proof. destruct b; cbn; intros H; try reflexivity; discriminate. Qed.

Lemma parse_num_field_num w v : (v < 8 ^ N.of_nat (w - 1))%N -> parse_num_field (num_field w v) = Some v.
Proof.
  intros H. unfold parse_num_field, num_field.
  rewrite take_whileb_app_stop.
  - apply parse_oct_fixed0. exact H.
  - apply (forallb_impl octb); [apply octb_not_sep|apply oct_fixed_octb].
  - rewrite beq_refl. reflexivity.
Qed.

Lemma opt_num_field_length o : List.length (opt_num_field 8 o) = 8.
Proof. destruct o; cbn [opt_num_field]; [apply num_field_length; lia|apply repeat_length]. Qed.

Lemma parse_opt_num_field_opt o : match o with Some v => (v <? 8 ^ 7)%N | None => true end = true ->
  parse_opt_num_field (opt_num_field 8 o) = Some o.
Proof.
  destruct o as [v|]; cbn [opt_num_field]; intros H; unfold parse_opt_num_field.
  - assert (all_zero (num_field 8 v) = false) as Hz.
    { unfold num_field. rewrite all_zero_app. change (8 - 1) with (S 6). rewrite all_zero_oct. reflexivity. }
    rewrite Hz. apply N.ltb_lt in H. rewrite parse_num_field_num by exact H. reflexivity.
  - rewrite all_zero_repeat. reflexivity.
Qed.

(* ---------- header fields ---------- *)
Ltac split_wf H :=
  repeat match type of H with
         | (_ && _ = true) => let H1 := fresh "W" in apply andb_true_iff in H; destruct H as [H H1]
         end.

Theorem fields_roundtrip f data : wf_hfields f = true -> fields_of (member_of f data) = Some f.
Proof.
  intros Hwf. unfold wf_hfields in Hwf. rewrite !andb_true_iff in Hwf.
  destruct Hwf as [[[[[[[[[[[[[[[Hn Hnl] Hk] Hkl] Hu] Hul] Hg] Hgl] Hm] Ht] Hmode] Huid] Hgid] Hmt] Hdmaj] Hdmin].
  apply Nat.leb_le in Hnl, Hkl, Hul, Hgl. apply Nat.eqb_eq in Hm, Ht.
  apply N.ltb_lt in Hmode, Huid, Hgid, Hmt.
  unfold fields_of, member_of. cbn [tm_pre tm_mtime tm_post tm_data].
  rewrite (cut_app 100) by (apply nul_pad_length; exact Hnl).
  rewrite (cut_app 8) by (apply num_field_length; lia).
  rewrite (cut_app 8) by (apply num_field_length; lia).
  rewrite (cut_app 100) by (apply nul_pad_length; exact Hkl).
  rewrite (cut_app 8) by exact Hm.
  rewrite (cut_app 32) by (apply nul_pad_length; exact Hul).
  rewrite (cut_app 32) by (apply nul_pad_length; exact Hgl).
  rewrite (cut_app 8) by apply opt_num_field_length.
  rewrite (cut_app 8) by apply opt_num_field_length.
  rewrite !parse_num_field_num by assumption.
  rewrite !parse_opt_num_field_opt by assumption.
  rewrite !cstr_nul_pad by assumption.
  destruct f; reflexivity.
Qed.

Lemma tmember_eqb_eq a b : tmember_eqb a b = true -> a = b.
Proof.
  unfold tmember_eqb. intros H. rewrite !andb_true_iff in H. destruct H as [[[H1 H2] H3] H4]. apply seqb_eq in H1, H2, H3, H4.
  destruct a, b; cbn in *; subst; reflexivity.
Qed.

Theorem fields_reencode_sound m : fields_reencode m = true ->
  exists f, fields_of m = Some f /\ member_of f (tm_data m) = m.
Proof.
  unfold fields_reencode. destruct (fields_of m) as [f|]; [|discriminate]. intros H. exists f. split; [reflexivity|apply tmember_eqb_eq; exact H].
Qed.

(* ---------- PAX records ---------- *)
Definition no_eq (s : str) : bool := forallb (fun b => negb (beq b x3d)) s.

(* a record whose stated length is its length *)
Definition consistent (r : str * str * nat) : bool :=
  let '(k, v, n) := r in Nat.eqb (List.length (pax_record k v n)) n && no_eq k.

Ltac len := cbn [List.length]; repeat (rewrite app_length; cbn [List.length]).

Definition pax_encode (l : list (str * str * nat)) : str := List.concat (map (fun '(k, v, n) => pax_record k v n) l).

Lemma digitb_tspace : digitb tspace = false. Proof. reflexivity. Qed.

Lemma pax_record_step f k v n rest : consistent (k, v, n) = true ->
  pax_records (S f) (pax_record k v n ++ rest) =
  match pax_records f rest with Some r => Some ((k, v) :: r) | None => None end.
Proof.
  unfold consistent. intros H. apply andb_true_iff in H. destruct H as [Hn Hk]. apply Nat.eqb_eq in Hn.
  set (ds := dec_nat n).
  assert (Hrec : pax_record k v n = ds ++ tspace :: k ++ x3d :: v ++ [x0a]) by reflexivity.
  assert (Hlen : List.length ds + 1 + List.length k + 1 + List.length v + 1 = n).
  { transitivity (List.length (pax_record k v n)); [|exact Hn]. rewrite Hrec. len. lia. }
  cbn [pax_records].
  assert (Hne : pax_record k v n ++ rest <> []).
  { rewrite Hrec. destruct ds; cbn; discriminate. }
  destruct (pax_record k v n ++ rest) as [|b0 s0] eqn:Es; [contradiction|]. rewrite <- Es. clear Hne.
  assert (Htw : take_whileb digitb (pax_record k v n ++ rest) = ds).
  { rewrite Hrec, <- app_assoc. cbn [app]. apply take_whileb_app_stop; [apply dec_nat_digits|apply digitb_tspace]. }
  rewrite Htw. unfold ds at 1. rewrite parse_dec_nat. fold ds.
  assert (Hge : Nat.ltb n (List.length ds + 1 + 2) = false) by (apply Nat.ltb_ge; lia).
  assert (Hfits : Nat.ltb (List.length (pax_record k v n ++ rest)) n = false).
  { apply Nat.ltb_ge. rewrite app_length. lia. }
  rewrite Hge, Hfits. cbn [orb].
  rewrite (firstn_app_exact _ rest n Hn), (skipn_app_exact _ rest n Hn).
  assert (H1 : firstn 1 (skipn (List.length ds) (pax_record k v n)) = [tspace]).
  { rewrite Hrec, skipn_app_exact by reflexivity. reflexivity. }
  rewrite H1, seqb_refl. cbn [negb orb].
  assert (H2 : skipn (n - 1) (pax_record k v n) = [x0a]).
  { rewrite Hrec.
    replace (ds ++ tspace :: k ++ x3d :: v ++ [x0a]) with ((ds ++ tspace :: k ++ x3d :: v) ++ [x0a])
      by (rewrite <- ?app_assoc; cbn [app]; rewrite <- ?app_assoc; cbn [app]; reflexivity).
    apply skipn_app_exact. len. lia. }
  rewrite H2, seqb_refl. cbn [negb].
  assert (H3 : firstn (n - 1 - (List.length ds + 1)) (skipn (List.length ds + 1) (pax_record k v n)) = k ++ x3d :: v).
  { rewrite Hrec.
    replace (ds ++ tspace :: k ++ x3d :: v ++ [x0a]) with ((ds ++ [tspace]) ++ (k ++ x3d :: v) ++ [x0a])
      by (rewrite <- ?app_assoc; cbn [app]; rewrite <- ?app_assoc; cbn [app]; reflexivity).
    rewrite skipn_app_exact by (len; lia).
    apply firstn_app_exact. len. lia. }
  rewrite H3.
  assert (H4 : take_whileb (fun b => negb (beq b x3d)) (k ++ x3d :: v) = k).
  { apply take_whileb_app_stop; [exact Hk|]. rewrite beq_refl. reflexivity. }
  rewrite H4.
  assert (H5 : Nat.eqb (List.length k) (List.length (k ++ x3d :: v)) = false).
  { apply Nat.eqb_neq. len. lia. }
  rewrite H5.
  replace (List.length k + 1) with (List.length (k ++ [x3d])) by (rewrite app_length; reflexivity).
  replace (k ++ x3d :: v) with ((k ++ [x3d]) ++ v) by (rewrite <- app_assoc; reflexivity).
  rewrite skipn_app_exact by reflexivity. reflexivity.
Qed.

Theorem pax_records_roundtrip l : Forall (fun r => consistent r = true) l ->
  forall f, List.length l < f -> pax_records f (pax_encode l) = Some (map fst l).
Proof.
  induction 1 as [|[[k v] n] l Hc _ IH]; intros f Hf.
  - destruct f; [lia|reflexivity].
  - destruct f as [|f]; [lia|]. unfold pax_encode. cbn [map List.concat].
    rewrite (pax_record_step f k v n _ Hc). change (List.concat (map (fun '(k0, v0, n0) => pax_record k0 v0 n0) l)) with (pax_encode l).
    rewrite IH by (cbn [List.length] in Hf; lia). reflexivity.
Qed.

Lemma pax_encode_length l : List.length l <= List.length (pax_encode l).
Proof.
  induction l as [|[[k v] n] l IH]; [apply Nat.le_refl|]. unfold pax_encode. cbn [map List.concat List.length].
  rewrite app_length. change (List.concat (map (fun '(k0, v0, n0) => pax_record k0 v0 n0) l)) with (pax_encode l).
  assert (1 <= List.length (pax_record k v n)).
  { unfold pax_record. rewrite app_length. cbn [List.length]. lia. }
  lia.
Qed.

(* ---------- logical members ---------- *)
Definition plain_type (t : byte) : bool := negb (beq t x78) && negb (beq t x4c) && negb (beq t x4b) && negb (beq t x67).

Theorem logical_plain f data : wf_hfields f = true -> plain_type (hf_type f) = true ->
  logical [member_of f data] [] None None =
  Some [{| lm_name := ustar_name f; lm_type := hf_type f; lm_mode := hf_mode f; lm_uid := hf_uid f; lm_gid := hf_gid f;
           lm_mtime := hf_mtime f; lm_link := hf_link f; lm_uname := hf_uname f; lm_gname := hf_gname f;
           lm_size := List.length data; lm_pax := []; lm_data := data |}].
Proof.
  intros Hwf Ht. unfold plain_type in Ht. rewrite !andb_true_iff in Ht. destruct Ht as [[[Ht W1] W0] W]. apply negb_true_iff in Ht, W, W0, W1.
  cbn [logical]. rewrite (fields_roundtrip f data Hwf). rewrite Ht, W1, W0, W. cbn [assoc_str or_else tm_data member_of logical]. reflexivity.
Qed.

(* a PAX extension member followed by the member it describes: path, linkpath, owner names and time come from the
   records, everything else from the member's own header; the records are kept (apk's checksums live there) *)
Theorem logical_pax fx recs f data : wf_hfields fx = true -> hf_type fx = x78 ->
  Forall (fun r => consistent r = true) recs -> wf_hfields f = true -> plain_type (hf_type f) = true ->
  let pax := map fst recs in
  logical [member_of fx (pax_encode recs); member_of f data] [] None None =
  match (match assoc_str (B_ "mtime") pax with Some v => pax_seconds v | None => Some (hf_mtime f) end) with
  | Some mt =>
      Some [{| lm_name := or_else (assoc_str (B_ "path") pax) (ustar_name f); lm_type := hf_type f; lm_mode := hf_mode f;
               lm_uid := hf_uid f; lm_gid := hf_gid f; lm_mtime := mt;
               lm_link := or_else (assoc_str (B_ "linkpath") pax) (hf_link f);
               lm_uname := or_else (assoc_str (B_ "uname") pax) (hf_uname f);
               lm_gname := or_else (assoc_str (B_ "gname") pax) (hf_gname f);
               lm_size := List.length data; lm_pax := pax; lm_data := data |}]
  | None => None
  end.
Proof.
  intros Hx Htx Hrecs Hwf Ht pax. unfold plain_type in Ht. rewrite !andb_true_iff in Ht. destruct Ht as [[[Ht W1] W0] W]. apply negb_true_iff in Ht, W, W0, W1.
  cbn [logical]. rewrite (fields_roundtrip fx _ Hx). rewrite Htx. cbn [beq]. rewrite beq_refl.
  cbn [tm_data member_of]. rewrite (pax_records_roundtrip recs Hrecs) by (pose proof (pax_encode_length recs); lia).
  cbn [app]. fold pax. cbn [logical]. rewrite (fields_roundtrip f data Hwf). rewrite Ht, W1, W0, W.
  cbn [tm_data member_of or_else]. destruct (assoc_str (B_ "mtime") pax) as [v|]; [destruct (pax_seconds v)|]; reflexivity.
Qed.

(* a GNU long-name member followed by the member it names *)
Theorem logical_gnu_longname fl name f data : wf_hfields fl = true -> hf_type fl = x4c -> no_nul name = true ->
  wf_hfields f = true -> plain_type (hf_type f) = true ->
  logical [member_of fl (name ++ [tnul]); member_of f data] [] None None =
  Some [{| lm_name := name; lm_type := hf_type f; lm_mode := hf_mode f; lm_uid := hf_uid f; lm_gid := hf_gid f;
           lm_mtime := hf_mtime f; lm_link := hf_link f; lm_uname := hf_uname f; lm_gname := hf_gname f;
           lm_size := List.length data; lm_pax := []; lm_data := data |}].
Proof.
  intros Hl Htl Hn Hwf Ht. unfold plain_type in Ht. rewrite !andb_true_iff in Ht. destruct Ht as [[[Ht W1] W0] W]. apply negb_true_iff in Ht, W, W0, W1.
  cbn [logical]. rewrite (fields_roundtrip fl _ Hl). rewrite Htl. cbn [beq]. rewrite beq_refl.
  replace (beq x4c x78) with false by reflexivity.
  cbn [tm_data member_of]. unfold strip_nul, cstr.
  rewrite take_whileb_app_stop by (exact Hn || (rewrite beq_refl; reflexivity)).
  rewrite (fields_roundtrip f data Hwf). rewrite Ht, W1, W0, W. cbn [assoc_str or_else tm_data member_of logical]. reflexivity.
Qed.

(* the per-run check over a whole stream *)
Theorem tar_fields_reencode_sound s : tar_fields_reencode s = true ->
  exists ms rest, tar_read s = Some (ms, rest) /\ Forall (fun m => exists f, fields_of m = Some f /\ member_of f (tm_data m) = m) ms.
Proof.
  unfold tar_fields_reencode. destruct (tar_read s) as [[ms rest]|]; [|discriminate]. intros H. exists ms, rest. split; [reflexivity|].
  apply Forall_forall. intros m Hm. apply fields_reencode_sound. rewrite forallb_forall in H. apply H. exact Hm.
Qed.
