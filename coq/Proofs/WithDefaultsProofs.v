(* nfpm.WithDefaults and Info.parseSemver as translated from nfpm.go on every run (Gen/WithDefaults.v) equal the
   hand-written models: split_version (Model/Version.v) for the version components, dflt for platform and description. *)
From Coq Require Import List String Bool ZArith.
From Coq Require Import Strings.Byte.
From NfpmV Require Import Lib.Bytes Model.Content Model.Meta Model.Version.
From NfpmV Require Import Gen.WithDefaults.
Import ListNotations.
Open Scope list_scope.

Lemma seqb_nil_nonempty (s : str) : seqb s [] = negb (nonempty s).
Proof. destruct s; reflexivity. Qed.

Theorem src_WithDefaults_is_model schema v pre meta plat desc :
  src_WithDefaults schema v pre meta plat desc =
  (let '(v', pre', meta') := split_version schema v pre meta in
   (v', pre', meta', dflt plat (B "linux"), dflt desc (B "no description given"))).
Proof.
  unfold src_WithDefaults, src_parseSemver, split_version, dflt.
  destruct plat as [|pb plat]; destruct desc as [|db desc]; destruct v as [|vb v];
  cbn [seqb nonempty negb]; cbv beta iota zeta; cbn [seqb nonempty negb]; cbv beta iota zeta.
  all: destruct (seqb schema (B "none")); cbv beta iota zeta; try reflexivity.
  all: destruct (seqb schema (B "semver")); cbv beta iota zeta.
  all: match goal with |- context [semver_parse ?x] => destruct (semver_parse x) end; cbv beta iota zeta; try reflexivity.
  all: destruct pre as [|qb pre]; destruct meta as [|mb meta]; cbn [seqb nonempty negb]; cbv beta iota zeta;
       cbn [seqb nonempty negb]; cbv beta iota zeta; reflexivity.
Qed.

Lemma with_defaults_translated : src_parseSemver_translated && src_WithDefaults_translated = true.
Proof. reflexivity. Qed.
