(* C02 / C15: the control text of a deb / ipk reads back as the fields it was written from. *)
From Coq Require Import List NArith Bool Arith Lia String.
From Coq Require Import Strings.Byte.
From NfpmV Require Import Lib.Bytes Model.Container Model.Mtree Model.Deb822.
From NfpmV Require Import Proofs.C10Proofs Proofs.MtreeProofs.
Import ListNotations.
Open Scope list_scope.

(* ---------- lines ---------- *)
Lemma no_nl_split l : no_nl l = true -> forallb (fun b => negb (beq b nl)) l = true.
Proof. intros H. exact H. Qed.

Lemma splitb_lines : forall cs l0 rest, no_nl l0 = true -> Forall (fun c => no_nl c = true) cs ->
  splitb nl (l0 ++ flat_map (fun c => nl :: c) cs ++ nl :: rest) = l0 :: cs ++ splitb nl rest.
Proof.
  induction cs as [|c cs IH]; intros l0 rest Hl Hcs; cbn [flat_map app].
  - apply splitb_app_sep. exact Hl.
  - inversion Hcs as [|? ? Hc Hcs']; subst.
    rewrite <- app_assoc. cbn [app]. rewrite splitb_app_sep by exact Hl. f_equal. apply IH; assumption.
Qed.

Lemma wf_dfield_parts f : wf_dfield f = true ->
  wf_key (df_key f) = true /\ no_nl (df_first f) = true /\ Forall (fun c => is_cont c = true) (df_conts f)
  /\ Forall (fun c => no_nl c = true) (df_conts f).
Proof.
  unfold wf_dfield. intros H. rewrite !andb_true_iff in H. destruct H as [[Hk Hf] Hc]. repeat split; try assumption.
  - apply Forall_forall. intros c Hin. rewrite forallb_forall in Hc. specialize (Hc c Hin). apply andb_true_iff in Hc. apply Hc.
  - apply Forall_forall. intros c Hin. rewrite forallb_forall in Hc. specialize (Hc c Hin). apply andb_true_iff in Hc. apply Hc.
Qed.

Lemma wf_key_no_nl k : wf_key k = true -> no_nl k = true.
Proof.
  unfold wf_key, no_nl. destruct k as [|b k]; [discriminate|]. intros H. rewrite !andb_true_iff in H. destruct H as [_ H].
  revert H. apply forallb_impl. intros x Hx. apply andb_true_iff in Hx. apply Hx.
Qed.

Lemma wf_key_no_colon k : wf_key k = true -> forallb (fun b => negb (beq b colon)) k = true.
Proof.
  unfold wf_key. destruct k as [|b k]; [discriminate|]. intros H. rewrite !andb_true_iff in H. destruct H as [_ H].
  revert H. apply forallb_impl. intros x Hx. apply andb_true_iff in Hx. apply Hx.
Qed.

Lemma head_line_no_nl f : wf_dfield f = true -> no_nl (df_key f ++ colon :: sp :: df_first f) = true.
Proof.
  intros H. destruct (wf_dfield_parts f H) as (Hk & Hf & _ & _). pose proof (wf_key_no_nl _ Hk) as H1.
  unfold no_nl in *. rewrite forallb_app_iff. cbn [forallb]. rewrite H1, Hf. reflexivity.
Qed.

Lemma text_lines : forall fs, Forall (fun f => wf_dfield f = true) fs -> splitb nl (d_write fs) = flat_map df_lines fs ++ [[]].
Proof.
  induction fs as [|f fs IH]; intros Hall; [reflexivity|]. inversion Hall as [|? ? Hf Hfs]; subst.
  unfold d_write. cbn [flat_map]. fold (d_write fs).
  destruct (wf_dfield_parts f Hf) as (_ & _ & _ & Hnl).
  unfold df_value.
  replace ((df_key f ++ colon :: sp :: (df_first f ++ flat_map (fun c => nl :: c) (df_conts f)) ++ [nl]) ++ d_write fs)
    with ((df_key f ++ colon :: sp :: df_first f) ++ flat_map (fun c => nl :: c) (df_conts f) ++ nl :: d_write fs)
    by (rewrite <- ?app_assoc; cbn [app]; rewrite <- ?app_assoc; cbn [app]; reflexivity).
  rewrite splitb_lines by (apply head_line_no_nl; exact Hf) || exact Hnl.
  rewrite (IH Hfs). unfold df_lines at 2. cbn [app]. rewrite <- app_assoc. reflexivity.
Qed.

(* ---------- fields ---------- *)
Lemma is_cont_key_line k rest : wf_key k = true -> is_cont (k ++ rest) = false.
Proof.
  unfold wf_key. destruct k as [|b k]; [discriminate|]. intros H. rewrite !andb_true_iff in H. destruct H as [[Hs Ht] _].
  apply negb_true_iff in Hs, Ht. cbn [app is_cont]. rewrite Hs, Ht. reflexivity.
Qed.

Lemma split_key_line k first : wf_key k = true -> split_key (k ++ colon :: sp :: first) = Some (k, first).
Proof.
  intros Hk. unfold split_key.
  assert (Ht : take_whileb (fun b => negb (beq b colon)) (k ++ colon :: sp :: first) = k).
  { apply take_whileb_app_stop; [apply wf_key_no_colon; exact Hk|]. rewrite beq_refl. reflexivity. }
  cbv zeta. rewrite Ht. destruct k as [|b k'] eqn:E; [discriminate|]. rewrite <- E.
  rewrite (skipn_app_exact k (colon :: sp :: first) (List.length k) eq_refl). rewrite !beq_refl. reflexivity.
Qed.

Lemma d_lines_conts : forall cs k v acc rest, Forall (fun c => is_cont c = true) cs ->
  d_lines (cs ++ rest) ((k, v) :: acc) = d_lines rest ((k, v ++ flat_map (fun c => nl :: c) cs) :: acc).
Proof.
  induction cs as [|c cs IH]; intros k v acc rest Hc; cbn [app flat_map].
  - rewrite app_nil_r. reflexivity.
  - inversion Hc as [|? ? Hc1 Hcs]; subst. cbn [d_lines]. rewrite Hc1. rewrite IH by exact Hcs.
    rewrite <- app_assoc. reflexivity.
Qed.

Definition kv_of (f : dfield) : str * str := (df_key f, df_value f).

Lemma d_lines_fields : forall fs acc rest, Forall (fun f => wf_dfield f = true) fs ->
  d_lines (flat_map df_lines fs ++ rest) acc = d_lines rest (rev (map kv_of fs) ++ acc).
Proof.
  induction fs as [|f fs IH]; intros acc rest Hall; [reflexivity|]. inversion Hall as [|? ? Hf Hfs]; subst.
  destruct (wf_dfield_parts f Hf) as (Hk & _ & Hc & _).
  cbn [flat_map]. unfold df_lines at 1. rewrite <- app_assoc. cbn [app d_lines].
  rewrite (is_cont_key_line _ _ Hk), (split_key_line _ _ Hk).
  rewrite d_lines_conts by exact Hc. rewrite IH by exact Hfs.
  cbn [map rev]. rewrite <- app_assoc. reflexivity.
Qed.

Theorem d_roundtrip fs : Forall (fun f => wf_dfield f = true) fs -> d_read (d_write fs) = Some (map kv_of fs).
Proof.
  intros Hall. unfold d_read. rewrite (text_lines fs Hall). rewrite rev_app_distr. cbn [rev app].
  rewrite rev_involutive. rewrite <- (app_nil_r (flat_map df_lines fs)). rewrite d_lines_fields by exact Hall.
  cbn [d_lines]. rewrite app_nil_r, rev_involutive. reflexivity.
Qed.

(* looking a key up in what was read: the value of the first field of that name *)
Lemma d_get_first k v fs : d_get k ((k, v) :: fs) = Some v.
Proof. cbn [d_get]. rewrite seqb_refl. reflexivity. Qed.
