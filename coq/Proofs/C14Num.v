(* C14: digit runs are compared by their numeric value - by dpkg and by rpm - so versions that differ in
   major.minor.patch order numerically, whatever the number of digits and leading zeros. *)
From Coq Require Import List NArith ZArith Bool Arith Lia String.
From Coq Require Import Strings.Byte.
From NfpmV Require Import Lib.Bytes Model.Path Model.Content Model.Meta Model.Version Model.VerCmp.
From NfpmV Require Import Proofs.C14Proofs.
Import ListNotations.
Open Scope list_scope.

Definition dv (b : byte) : N := (bN b - 48)%N.

(* the value of a string of decimal digits, most significant first *)
Fixpoint val (s : str) : N :=
  match s with
  | [] => 0
  | x :: r => dv x * 10 ^ N.of_nat (List.length r) + val r
  end%N.

Lemma is_digit_range b : is_digit b = true -> (48 <= bN b <= 57)%N.
Proof. unfold is_digit, bN. intros H. apply andb_true_iff in H. destruct H as [H1 H2]. apply N.leb_le in H1, H2. lia. Qed.

Lemma dv_lt10 b : is_digit b = true -> (dv b < 10)%N.
Proof. intros H. pose proof (is_digit_range b H). unfold dv. lia. Qed.

Lemma val_bound s : forallb is_digit s = true -> (val s < 10 ^ N.of_nat (List.length s))%N.
Proof.
  induction s as [|x r IH]; intros H; [cbn; lia|]. cbn [forallb] in H. apply andb_true_iff in H. destruct H as [Hx Hr].
  cbn [val List.length]. specialize (IH Hr). pose proof (dv_lt10 x Hx).
  rewrite Nat2N.inj_succ, N.pow_succ_r'. nia.
Qed.

Lemma dv_compare x y : is_digit x = true -> is_digit y = true -> N.compare (bN x) (bN y) = N.compare (dv x) (dv y).
Proof.
  intros Hx Hy. pose proof (is_digit_range x Hx). pose proof (is_digit_range y Hy). unfold dv.
  destruct (N.compare_spec (bN x) (bN y)); destruct (N.compare_spec (bN x - 48) (bN y - 48)); try reflexivity; lia.
Qed.

(* equal length: lexicographic order of the digits is the order of the values *)
Lemma lex_cmp_val : forall s t, List.length s = List.length t ->
  forallb is_digit s = true -> forallb is_digit t = true -> lex_cmp s t = N.compare (val s) (val t).
Proof.
  induction s as [|x s IH]; intros [|y t] L Hs Ht; try discriminate L; [reflexivity|].
  cbn [forallb] in Hs, Ht. apply andb_true_iff in Hs, Ht. destruct Hs as [Hx Hs], Ht as [Hy Ht].
  cbn [List.length] in L. injection L as L.
  cbn [lex_cmp val]. rewrite (dv_compare x y Hx Hy). rewrite <- L.
  pose proof (val_bound s Hs) as Bs. pose proof (val_bound t Ht) as Bt. rewrite <- L in Bt.
  set (P := (10 ^ N.of_nat (List.length s))%N) in *.
  destruct (N.compare_spec (dv x) (dv y)) as [E|Lt|Gt].
  - rewrite E. rewrite (IH t L Hs Ht).
    destruct (N.compare_spec (val s) (val t)); destruct (N.compare_spec (dv y * P + val s) (dv y * P + val t)); try reflexivity; lia.
  - symmetry. apply N.compare_lt_iff. nia.
  - symmetry. apply N.compare_gt_iff. nia.
Qed.

Definition strip0 (s : str) : str := drop_while (fun d => beq d "0"%byte) s.

Lemma val_strip0 s : val (strip0 s) = val s.
Proof.
  induction s as [|x r IH]; [reflexivity|]. unfold strip0 in *. cbn [drop_while].
  destruct (beq x "0"%byte) eqn:E; [|reflexivity]. apply beq_eq in E. subst x. rewrite IH. cbn [val]. unfold dv. cbn. lia.
Qed.

Lemma strip0_digits s : forallb is_digit s = true -> forallb is_digit (strip0 s) = true.
Proof.
  induction s as [|x r IH]; intros H; [reflexivity|]. unfold strip0 in *. cbn [drop_while].
  cbn [forallb] in H. apply andb_true_iff in H. destruct H as [Hx Hr].
  destruct (beq x "0"%byte); [apply IH; exact Hr|]. cbn [forallb]. rewrite Hx, Hr. reflexivity.
Qed.

Lemma strip0_head s : match strip0 s with x :: _ => beq x "0"%byte = false | [] => True end.
Proof.
  induction s as [|x r IH]; [exact I|]. unfold strip0 in *. cbn [drop_while]. destruct (beq x "0"%byte) eqn:E; [exact IH|exact E].
Qed.

Lemma val_lower s : forallb is_digit s = true -> (match s with x :: _ => beq x "0"%byte = false | [] => True end) ->
  s <> [] -> (10 ^ N.of_nat (List.length s - 1) <= val s)%N.
Proof.
  intros H Hh Hne. destruct s as [|x r]; [contradiction|]. cbn [forallb] in H. apply andb_true_iff in H. destruct H as [Hx _].
  cbn [val List.length]. replace (S (List.length r) - 1) with (List.length r) by lia.
  assert (1 <= dv x)%N.
  { pose proof (is_digit_range x Hx). unfold dv. apply beq_neq in Hh. assert (bN x <> 48%N).
    { intros E. apply Hh. apply bN_inj. rewrite E. reflexivity. } lia. }
  nia.
Qed.

(* dpkg's and rpm's comparison of two digit runs with their leading zeros stripped: the order of the values *)
Theorem cmp_digit_runs_numeric a b : forallb is_digit a = true -> forallb is_digit b = true ->
  cmp_digit_runs (strip0 a) (strip0 b) = N.compare (val a) (val b).
Proof.
  intros Ha Hb. rewrite <- (val_strip0 a), <- (val_strip0 b).
  pose proof (strip0_digits a Ha) as Da. pose proof (strip0_digits b Hb) as Db.
  pose proof (strip0_head a) as Ha0. pose proof (strip0_head b) as Hb0.
  set (s := strip0 a) in *. set (t := strip0 b) in *. unfold cmp_digit_runs.
  destruct (Nat.compare_spec (List.length s) (List.length t)) as [E|L|G].
  - apply lex_cmp_val; assumption.
  - symmetry. apply N.compare_lt_iff. pose proof (val_bound s Da).
    assert (t <> []) by (destruct t; [cbn in L; lia|discriminate]).
    pose proof (val_lower t Db Hb0 H0).
    assert (10 ^ N.of_nat (List.length s) <= 10 ^ N.of_nat (List.length t - 1))%N by (apply N.pow_le_mono_r; lia).
    lia.
  - symmetry. apply N.compare_gt_iff. pose proof (val_bound t Db).
    assert (s <> []) by (destruct s; [cbn in G; lia|discriminate]).
    pose proof (val_lower s Da Ha0 H0).
    assert (10 ^ N.of_nat (List.length t) <= 10 ^ N.of_nat (List.length s - 1))%N by (apply N.pow_le_mono_r; lia).
    lia.
Qed.

(* ---------- dpkg ---------- *)
(* one outer iteration: a common non-digit run, then a digit run on each side (of any length, with any leading zeros) *)
Lemma dpkg_step_num nd d1 d2 Z1 Z2 f :
  all_nondigit nd = true -> forallb is_digit d1 = true -> forallb is_digit d2 = true -> d1 <> [] -> d2 <> [] ->
  nondigit_or_end Z1 -> nondigit_or_end Z2 ->
  verrevcmp (S f) (nd ++ d1 ++ Z1) (nd ++ d2 ++ Z2) =
  match N.compare (val d1) (val d2) with Eq => verrevcmp f Z1 Z2 | c => Some c end.
Proof.
  intros Hnd H1 H2 N1 N2 HZ1 HZ2. cbn [verrevcmp].
  destruct d1 as [|x1 d1]; [contradiction|]. destruct d2 as [|x2 d2]; [contradiction|].
  rewrite nonnil_match by (destruct nd; discriminate).
  set (A1 := (x1 :: d1) ++ Z1). set (B1 := (x2 :: d2) ++ Z2).
  replace (S (List.length (nd ++ A1) + List.length (nd ++ B1)))
    with (List.length nd + S (List.length A1 + List.length (nd ++ B1))) by (rewrite !app_length; lia).
  rewrite nd_common by exact Hnd.
  assert (Hx1 : is_digit x1 = true) by (cbn [forallb] in H1; apply andb_true_iff in H1; tauto).
  assert (Hx2 : is_digit x2 = true) by (cbn [forallb] in H2; apply andb_true_iff in H2; tauto).
  unfold A1, B1. cbn [app]. rewrite nondigits_at_digit by assumption.
  change (x1 :: d1 ++ Z1) with ((x1 :: d1) ++ Z1). change (x2 :: d2 ++ Z2) with ((x2 :: d2) ++ Z2).
  rewrite (digit_run_app (x1 :: d1) Z1 H1 HZ1), (digit_run_app (x2 :: d2) Z2 H2 HZ2).
  change (drop_while (fun b => beq b "0"%byte) (x1 :: d1)) with (strip0 (x1 :: d1)).
  change (drop_while (fun b => beq b "0"%byte) (x2 :: d2)) with (strip0 (x2 :: d2)).
  rewrite (cmp_digit_runs_numeric (x1 :: d1) (x2 :: d2) H1 H2).
  destruct (N.compare (val (x1 :: d1)) (val (x2 :: d2))); reflexivity.
Qed.

Definition dotb : byte := "."%byte.

Lemma dpkg_step_dot d1 d2 Z1 Z2 f :
  forallb is_digit d1 = true -> forallb is_digit d2 = true -> d1 <> [] -> d2 <> [] ->
  nondigit_or_end Z1 -> nondigit_or_end Z2 ->
  verrevcmp (S f) (dotb :: d1 ++ Z1) (dotb :: d2 ++ Z2) =
  match N.compare (val d1) (val d2) with Eq => verrevcmp f Z1 Z2 | c => Some c end.
Proof. intros. apply (dpkg_step_num [dotb] d1 d2 Z1 Z2 f); auto. Qed.

Lemma dpkg_step_last d1 d2 f :
  forallb is_digit d1 = true -> forallb is_digit d2 = true -> d1 <> [] -> d2 <> [] ->
  verrevcmp (S (S f)) (dotb :: d1) (dotb :: d2) = Some (N.compare (val d1) (val d2)).
Proof.
  intros. rewrite <- (app_nil_r d1), <- (app_nil_r d2). rewrite dpkg_step_dot; auto; try exact I.
  rewrite !app_nil_r. destruct (N.compare (val d1) (val d2)); reflexivity.
Qed.

Definition triple_cmp (a b c a' b' c' : N) : comparison :=
  match N.compare a a' with
  | Eq => match N.compare b b' with Eq => N.compare c c' | x => x end
  | x => x
  end.

(* major.minor.patch against major'.minor'.patch': the numeric order of the triples *)
Theorem dpkg_triples_numeric d1 e1 f1 d2 e2 f2 fuel :
  forallb is_digit d1 = true -> forallb is_digit e1 = true -> forallb is_digit f1 = true ->
  forallb is_digit d2 = true -> forallb is_digit e2 = true -> forallb is_digit f2 = true ->
  d1 <> [] -> e1 <> [] -> f1 <> [] -> d2 <> [] -> e2 <> [] -> f2 <> [] -> 4 <= fuel ->
  verrevcmp fuel (d1 ++ dotb :: e1 ++ dotb :: f1) (d2 ++ dotb :: e2 ++ dotb :: f2) =
  Some (triple_cmp (val d1) (val e1) (val f1) (val d2) (val e2) (val f2)).
Proof.
  intros D1 E1 F1 D2 E2 F2 Nd1 Ne1 Nf1 Nd2 Ne2 Nf2 Hf.
  destruct fuel as [|[|[|[|f]]]]; try lia. unfold triple_cmp.
  rewrite (dpkg_step_num [] d1 d2 (dotb :: e1 ++ dotb :: f1) (dotb :: e2 ++ dotb :: f2)); try assumption; try reflexivity.
  destruct (N.compare (val d1) (val d2)); try reflexivity.
  rewrite dpkg_step_dot; try assumption; try reflexivity.
  destruct (N.compare (val e1) (val e2)); try reflexivity.
  apply dpkg_step_last; assumption.
Qed.

(* ---------- rpm ---------- *)
Lemma digit_not_sep x : is_digit x = true -> rpm_sepchar x = false.
Proof. intros H. unfold rpm_sepchar, is_alnum. rewrite H. reflexivity. Qed.

Lemma digit_not_tilde x : is_digit x = true -> beq x "~"%byte = false.
Proof. intros H. destruct (beq x "~"%byte) eqn:E; [|reflexivity]. apply beq_eq in E. subst x. discriminate H. Qed.

Lemma digit_not_caret x : is_digit x = true -> beq x "^"%byte = false.
Proof. intros H. destruct (beq x "^"%byte) eqn:E; [|reflexivity]. apply beq_eq in E. subst x. discriminate H. Qed.

(* one iteration: separators, then a digit run on each side *)
Lemma rpm_step_num s1 s2 d1 d2 Z1 Z2 f :
  forallb rpm_sepchar s1 = true -> forallb rpm_sepchar s2 = true ->
  forallb is_digit d1 = true -> forallb is_digit d2 = true -> d1 <> [] -> d2 <> [] ->
  nondigit_or_end Z1 -> nondigit_or_end Z2 ->
  rpmvercmp (S f) (s1 ++ d1 ++ Z1) (s2 ++ d2 ++ Z2) =
  match N.compare (val d1) (val d2) with Eq => rpmvercmp f Z1 Z2 | c => Some c end.
Proof.
  intros S1 S2 H1 H2 N1 N2 HZ1 HZ2.
  destruct d1 as [|x1 d1]; [contradiction|]. destruct d2 as [|x2 d2]; [contradiction|].
  assert (Hx1 : is_digit x1 = true) by (cbn [forallb] in H1; apply andb_true_iff in H1; tauto).
  assert (Hx2 : is_digit x2 = true) by (cbn [forallb] in H2; apply andb_true_iff in H2; tauto).
  assert (Da : forall s X x, forallb rpm_sepchar s = true -> rpm_sepchar x = false -> drop_while rpm_sepchar (s ++ x :: X) = x :: X).
  { induction s as [|u s IHs]; intros X x Hs Hx; cbn [app drop_while]; [rewrite Hx; reflexivity|].
    cbn [forallb] in Hs. apply andb_true_iff in Hs. destruct Hs as [Hu Hs]. rewrite Hu. apply IHs; assumption. }
  cbn [rpmvercmp]. cbn [app].
  rewrite (Da s1 (d1 ++ Z1) x1 S1 (digit_not_sep x1 Hx1)), (Da s2 (d2 ++ Z2) x2 S2 (digit_not_sep x2 Hx2)).
  rewrite (digit_not_tilde x1 Hx1), (digit_not_tilde x2 Hx2), (digit_not_caret x1 Hx1), (digit_not_caret x2 Hx2). cbn [orb].
  rewrite Hx1.
  change (x1 :: d1 ++ Z1) with ((x1 :: d1) ++ Z1). change (x2 :: d2 ++ Z2) with ((x2 :: d2) ++ Z2).
  rewrite (take_digits_app (x1 :: d1) Z1 H1 HZ1), (take_digits_app (x2 :: d2) Z2 H2 HZ2).
  rewrite !skipn_app_exact.
  change (drop_while (fun d => beq d "0"%byte) (x1 :: d1)) with (strip0 (x1 :: d1)).
  change (drop_while (fun d => beq d "0"%byte) (x2 :: d2)) with (strip0 (x2 :: d2)).
  rewrite (cmp_digit_runs_numeric (x1 :: d1) (x2 :: d2) H1 H2).
  destruct (N.compare (val (x1 :: d1)) (val (x2 :: d2))); reflexivity.
Qed.

Theorem rpm_triples_numeric d1 e1 f1 d2 e2 f2 fuel :
  forallb is_digit d1 = true -> forallb is_digit e1 = true -> forallb is_digit f1 = true ->
  forallb is_digit d2 = true -> forallb is_digit e2 = true -> forallb is_digit f2 = true ->
  d1 <> [] -> e1 <> [] -> f1 <> [] -> d2 <> [] -> e2 <> [] -> f2 <> [] -> 4 <= fuel ->
  rpmvercmp fuel (d1 ++ dotb :: e1 ++ dotb :: f1) (d2 ++ dotb :: e2 ++ dotb :: f2) =
  Some (triple_cmp (val d1) (val e1) (val f1) (val d2) (val e2) (val f2)).
Proof.
  intros D1 E1 F1 D2 E2 F2 Nd1 Ne1 Nf1 Nd2 Ne2 Nf2 Hf.
  destruct fuel as [|[|[|[|f]]]]; try lia. unfold triple_cmp.
  rewrite (rpm_step_num [] [] d1 d2 (dotb :: e1 ++ dotb :: f1) (dotb :: e2 ++ dotb :: f2)); try assumption; try reflexivity.
  destruct (N.compare (val d1) (val d2)); try reflexivity.
  rewrite (rpm_step_num [dotb] [dotb] e1 e2 (dotb :: f1) (dotb :: f2)); try assumption; try reflexivity.
  destruct (N.compare (val e1) (val e2)); try reflexivity.
  rewrite <- (app_nil_r f1), <- (app_nil_r f2).
  rewrite (rpm_step_num [dotb] [dotb] f1 f2 [] []); try assumption; try reflexivity; try exact I.
  rewrite !app_nil_r. destruct (N.compare (val f1) (val f2)); reflexivity.
Qed.

Example triples_example :
  triple_cmp 1 9 0 1 10 0 = Lt /\ val (B "010") = 10%N /\
  verrevcmp 9 (B "1.9.0") (B "1.10.0") = Some Lt /\ rpmvercmp 9 (B "1.9.0") (B "1.10.0") = Some Lt.
Proof. vm_compute. repeat split. Qed.
