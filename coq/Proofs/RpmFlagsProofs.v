(* C08 - the rpm file flags the SOURCES give a content type meet the bit-by-bit specification, for every type string:
   a generic lemma over any table, so that the regenerated table only has to pass a boolean test. *)
From Coq Require Import List NArith ZArith Bool.
From Coq Require Import Strings.Byte.
From NfpmV Require Import Lib.Bytes Model.Path Model.Content Model.Prepare Model.Payload Spec.C05 Spec.C01 Spec.C08.
Import ListNotations.

Fixpoint assoc_n (k : str) (l : list (str * N)) : option N :=
  match l with
  | [] => None
  | (k', v) :: l' => if seqb k' k then Some v else assoc_n k l'
  end.

(* what the switch in rpm.createFilesInsideRPM hands to asRPMFile for a type: the row of its case, else the default branch *)
Definition flags_of (tbl : list (str * N)) (dflt : option N) (t : str) : option N :=
  match assoc_n t tbl with Some v => Some v | None => dflt end.

(* the types the specification says anything about *)
Definition special_types : list str := [TConfig; TConfigNoReplace; TConfigMissingOK; TGhost; TDoc; TLicence; TLicense; TReadme].

Definition table_okb (tbl : list (str * N)) (dflt : option N) : bool :=
  forallb (fun r => flag_spec_okb (fst r) (snd r)) tbl
  && forallb (fun s => match assoc_n s tbl with Some _ => true | None => false end) special_types
  && match dflt with Some 0%N => true | _ => false end.

Lemma assoc_n_row k tbl v : assoc_n k tbl = Some v -> In (k, v) tbl.
Proof.
  induction tbl as [|[k' v'] tbl IH]; cbn [assoc_n]; [discriminate|].
  destruct (seqb k' k) eqn:E.
  - intros H; injection H as <-. apply seqb_eq in E. subst. left; reflexivity.
  - intros H; right; apply IH; exact H.
Qed.

Lemma not_special_spec t : forallb (fun s => negb (seqb t s)) special_types = true -> flag_spec_okb t 0%N = true.
Proof.
  unfold special_types. cbn [forallb]. rewrite !andb_true_iff, !negb_true_iff.
  intros (H1 & H2 & H3 & H4 & H5 & H6 & H7 & H8 & _).
  unfold flag_spec_okb, is_config_typ, typ_in. cbn [existsb N.testbit].
  rewrite H1, H2, H3, H4, H5, H6, H7, H8. reflexivity.
Qed.

Theorem flags_meet_spec tbl dflt : table_okb tbl dflt = true ->
  forall t, exists fl, flags_of tbl dflt t = Some fl /\ flag_spec_okb t fl = true.
Proof.
  unfold table_okb. rewrite !andb_true_iff. intros [[Hrows Hcover] Hd] t.
  unfold flags_of. destruct (assoc_n t tbl) as [v|] eqn:E.
  - exists v. split; [reflexivity|].
    apply assoc_n_row in E. rewrite forallb_forall in Hrows. exact (Hrows _ E).
  - destruct dflt as [[|p]|]; try discriminate. exists 0%N. split; [reflexivity|].
    apply not_special_spec. apply forallb_forall. intros s Hs.
    rewrite forallb_forall in Hcover. specialize (Hcover s Hs).
    apply negb_true_iff. destruct (seqb t s) eqn:Ets; [|reflexivity].
    apply seqb_eq in Ets. subst s. rewrite E in Hcover. discriminate.
Qed.
