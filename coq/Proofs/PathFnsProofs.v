(* The path helpers of files/files.go as translated from the source on every run (Gen/PathFns.v) equal the
   hand-written models of Model/Path.v that content planning (C05) and everything built on it use. *)
From Coq Require Import List String Bool.
From Coq Require Import Strings.Byte.
From NfpmV Require Import Lib.Bytes Model.Path Model.Content Proofs.PathFacts.
From NfpmV Require Import Gen.PathFns.
Import ListNotations.
Open Scope list_scope.

Lemma seqb_nil_is_empty (s : str) : seqb s [] = is_empty s.
Proof. destruct s; reflexivity. Qed.

Lemma src_ToNixPath_is_model s : src_ToNixPath s = to_nix s.
Proof. reflexivity. Qed.

Lemma src_AsRelativePath_is_model s : src_AsRelativePath s = as_rel s.
Proof.
  unfold src_AsRelativePath, as_rel, src_ToNixPath, trim_left. cbv zeta.
  rewrite seqb_nil_is_empty. reflexivity.
Qed.

Lemma src_AsExplicitRelativePath_is_model s : src_AsExplicitRelativePath s = as_explicit_rel s.
Proof. unfold src_AsExplicitRelativePath, as_explicit_rel. rewrite src_AsRelativePath_is_model. reflexivity. Qed.

(* filepath.Join("/", s) then Clean again: the rooted clean of s's components *)
Lemma clean_abs_of cs : Forall good_comp cs -> clean (abs_of cs) = abs_of cs.
Proof.
  intros H. destruct cs as [|c cs'].
  - reflexivity.
  - assert (Hc : comps_abs (abs_of (c :: cs')) = c :: cs') by (apply comps_abs_abs_of; exact H).
    unfold abs_of at 1. cbn [join_abs]. unfold clean. cbn [is_slash beq]. 
    change (abs_of (clean_rooted [] (split (slash :: c ++ join_abs cs')))) with (abs_of (comps_abs (abs_of (c :: cs')))).
    rewrite Hc. reflexivity.
Qed.

Lemma clean_slash_slash s : clean (slash :: slash :: s) = norm_file s.
Proof.
  unfold clean, norm_file. cbn [is_slash beq].
  unfold split. rewrite !split_aux_slash. cbn [rev clean_rooted is_empty orb]. reflexivity.
Qed.

Lemma src_NormalizeAbsoluteFilePath_is_model s : src_NormalizeAbsoluteFilePath s = norm_file s.
Proof.
  unfold src_NormalizeAbsoluteFilePath, src_ToNixPath.
  change (x2f :: x2f :: s) with (slash :: slash :: s). rewrite clean_slash_slash.
  rewrite norm_file_spec. apply clean_abs_of. apply comps_abs_good.
Qed.

Lemma src_NormalizeAbsoluteDirPath_is_model s : src_NormalizeAbsoluteDirPath s = norm_dir s.
Proof.
  unfold src_NormalizeAbsoluteDirPath, norm_dir. cbv zeta.
  rewrite src_NormalizeAbsoluteFilePath_is_model. reflexivity.
Qed.

Lemma path_fns_translated :
  src_ToNixPath_translated && src_AsRelativePath_translated && src_AsExplicitRelativePath_translated
  && src_NormalizeAbsoluteFilePath_translated && src_NormalizeAbsoluteDirPath_translated = true.
Proof. reflexivity. Qed.
