(* C14: (1) the semver parser decomposes its input into the components without losing or duplicating a byte;
   (2) under dpkg's comparison a version whose upstream part continues with "~..." sorts strictly before the
   same upstream part followed by nothing or by "+...", whatever the common prefix is; (3) epochs dominate. *)
From Coq Require Import List NArith ZArith Lia Bool String.
From Coq Require Import Strings.Byte.
From NfpmV Require Import Lib.Bytes Model.Path Model.Content Model.Meta Model.Version Model.VerCmp.
Import ListNotations.
Open Scope list_scope.

(* ---- take_while / skipn ---- *)
Lemma take_skip f s : s = take_while f s ++ skipn (List.length (take_while f s)) s.
Proof. induction s as [|b s IH]; [reflexivity|]. cbn [take_while]. destruct (f b); cbn; [f_equal; exact IH|reflexivity]. Qed.

Lemma take_while_all f s : forallb f (take_while f s) = true.
Proof. induction s as [|b s IH]; [reflexivity|]. cbn [take_while]. destruct (f b) eqn:E; cbn; [rewrite E; exact IH|reflexivity]. Qed.

(* ---- (1) lossless decomposition ---- *)
Definition opt_part (sep : byte) (p : option str) : str := match p with Some x => sep :: x | None => [] end.

Lemma take_num_spec s d r : take_num s = Some (d, r) -> s = d ++ r /\ forallb is_digit d = true /\ d <> [].
Proof.
  unfold take_num. pose proof (take_skip is_digit s) as E. pose proof (take_while_all is_digit s) as A.
  destruct (take_while is_digit s) as [|b t] eqn:T; [discriminate|].
  destruct (beq b "0"%byte && nonempty t); [discriminate|]. intros H. injection H as <- <-.
  repeat split; [exact E|exact A|discriminate].
Qed.

Lemma opt_dot_num_spec s p r : opt_dot_num s = (p, r) -> s = opt_part "."%byte p ++ r /\
  match p with Some d => forallb is_digit d = true /\ d <> [] | None => True end.
Proof.
  unfold opt_dot_num. destruct s as [|b s']; [intros H; injection H as <- <-; auto|].
  destruct (beq b "."%byte) eqn:B.
  - apply beq_eq in B. subst b. destruct (take_num s') as [[d r']|] eqn:T.
    + intros H. injection H as <- <-. destruct (take_num_spec _ _ _ T) as (-> & D & NE). cbn. auto.
    + intros H. injection H as <- <-. auto.
  - intros H. injection H as <- <-. auto.
Qed.

Lemma take_idents_spec ok : forall fuel s p r, take_idents fuel ok s = Some (p, r) -> s = p ++ r /\ p <> [].
Proof.
  induction fuel as [|f IH]; intros s p r H; cbn [take_idents] in H; [discriminate|].
  pose proof (take_skip is_alnum_dash s) as E.
  destruct (take_while is_alnum_dash s) as [|x id] eqn:T; [discriminate|]. cbn [nonempty negb orb] in H.
  destruct (negb (ok (x :: id))); [discriminate|].
  destruct (skipn (List.length (x :: id)) s) as [|b r'] eqn:S.
  - injection H as <- <-. split; [exact E|discriminate].
  - destruct (beq b "."%byte) eqn:B.
    + destruct (take_idents f ok r') as [[more rest]|] eqn:R; [|discriminate]. injection H as <- <-.
      destruct (IH _ _ _ R) as (-> & _). split; [|discriminate]. rewrite E. cbn. rewrite <- !app_assoc. reflexivity.
    + injection H as <- <-. split; [exact E|discriminate].
Qed.

(* every accepted version string is, after the optional "v", exactly
   major [. minor] [. patch] [- prerelease] [+ metadata], with the prerelease and metadata the parser reports *)
Theorem semver_decomposition v sv : semver_parse v = Some sv ->
  exists vpre maj mino pato,
    (vpre = [] \/ vpre = ["v"%byte]) /\ forallb is_digit maj = true /\
    v = vpre ++ maj ++ opt_part "."%byte mino ++ opt_part "."%byte pato
        ++ (if nonempty (sv_pre sv) then "-"%byte :: sv_pre sv else [])
        ++ (if nonempty (sv_meta sv) then "+"%byte :: sv_meta sv else []).
Proof.
  unfold semver_parse. intros H.
  set (s0 := match v with b :: r => if beq b "v"%byte then r else v | [] => v end) in *.
  assert (exists vpre, (vpre = [] \/ vpre = ["v"%byte]) /\ v = vpre ++ s0) as (vpre & Hv & Ev).
  { unfold s0. destruct v as [|b r]; [exists []; auto|]. destruct (beq b "v"%byte) eqn:B.
    - apply beq_eq in B. subst b. exists ["v"%byte]. auto.
    - exists []. auto. }
  destruct (take_num s0) as [[maj s1]|] eqn:T1; [|discriminate].
  destruct (opt_dot_num s1) as [mino s2] eqn:T2. destruct (opt_dot_num s2) as [pato s3] eqn:T3.
  destruct (take_num_spec _ _ _ T1) as (E1 & D1 & _).
  destruct (opt_dot_num_spec _ _ _ T2) as (E2 & _). destruct (opt_dot_num_spec _ _ _ T3) as (E3 & _).
  (* prerelease *)
  assert (exists pre s4,
            (match s3 with
             | b :: r => if beq b "-"%byte then match take_idents (S (List.length r)) pre_ident_ok r with Some (p, rest) => Some (p, rest) | None => None end
                         else Some ([], s3)
             | [] => Some ([], s3) end) = Some (pre, s4) /\
            s3 = (if nonempty pre then "-"%byte :: pre else []) ++ s4 /\
            (match s4 with
             | b :: r => if beq b "+"%byte then match take_idents (S (List.length r)) (fun _ => true) r with Some (m, rest) => Some (m, rest) | None => None end
                         else Some ([], s4)
             | [] => Some ([], s4) end) = Some (sv_meta sv, []) /\ sv_pre sv = pre) as (pre & s4 & P1 & P2 & P3 & P4).
  { destruct (match s3 with [] => Some ([], s3) | b :: r => _ end) as [[pre s4]|] eqn:PR; [|discriminate].
    exists pre, s4. split; [reflexivity|].
    assert (s3 = (if nonempty pre then "-"%byte :: pre else []) ++ s4) as P2.
    { destruct s3 as [|b r]; [injection PR as <- <-; reflexivity|].
      destruct (beq b "-"%byte) eqn:B.
      - apply beq_eq in B. subst b. destruct (take_idents (S (List.length r)) pre_ident_ok r) as [[p rest]|] eqn:TI; [|discriminate].
        injection PR as <- <-. destruct (take_idents_spec _ _ _ _ _ TI) as (-> & NE). destruct p; [contradiction|reflexivity].
      - injection PR as <- <-. reflexivity. }
    split; [exact P2|].
    destruct (match s4 with [] => Some ([], s4) | b :: r => _ end) as [[meta rest]|] eqn:MR; [|discriminate].
    destruct rest; [|discriminate].
    destruct (u64 maj); [|discriminate]. destruct (match mino with Some d => u64 d | None => Some 0%Z end); [|discriminate].
    destruct (match pato with Some d => u64 d | None => Some 0%Z end); [|discriminate].
    injection H as <-. cbn [sv_meta sv_pre]. auto. }
  assert (s4 = (if nonempty (sv_meta sv) then "+"%byte :: sv_meta sv else [])) as E5.
  { destruct s4 as [|b r]; [injection P3 as <-; reflexivity|].
    destruct (beq b "+"%byte) eqn:B.
    - apply beq_eq in B. subst b. destruct (take_idents (S (List.length r)) (fun _ => true) r) as [[m rest]|] eqn:TI; [|discriminate].
      injection P3 as <- ->. destruct (take_idents_spec _ _ _ _ _ TI) as (-> & NE). rewrite app_nil_r. destruct m; [contradiction|reflexivity].
    - injection P3 as _ E. discriminate. }
  exists vpre, maj, mino, pato. split; [exact Hv|]. split; [exact D1|].
  rewrite Ev, E1, E2, E3, P2, E5, P4. rewrite <- ?app_assoc. reflexivity.
Qed.

(* ---- (2) dpkg: "~" sorts before the end of the string and before "+" ---- *)
Definition all_nondigit (s : str) : bool := forallb (fun b => negb (is_digit b)) s.

Lemma nd_common : forall nd X Y fuel, all_nondigit nd = true ->
  dpkg_nondigits (List.length nd + fuel) (nd ++ X) (nd ++ Y) = dpkg_nondigits fuel X Y.
Proof.
  induction nd as [|x nd IH]; intros X Y fuel H; [reflexivity|].
  cbn [all_nondigit forallb] in H. apply andb_true_iff in H as [Hx H].
  cbn [List.length Nat.add app dpkg_nondigits nondigit_head hd_opt tl]. rewrite Hx. cbn [orb].
  rewrite Z.eqb_refl. cbn [negb]. apply IH. exact H.
Qed.

Definition tilde_vs (B : str) : Prop := B = [] \/ exists r, B = "+"%byte :: r.

Lemma nondigits_tilde R B fuel : tilde_vs B ->
  dpkg_nondigits (S fuel) ("~"%byte :: R) B = Some (inl Lt).
Proof.
  intros [->|(r & ->)]; cbn [dpkg_nondigits nondigit_head hd_opt]; reflexivity.
Qed.

Lemma nondigits_at_digit a b fuel x y : is_digit x = true -> is_digit y = true ->
  dpkg_nondigits (S fuel) (x :: a) (y :: b) = Some (inr (x :: a, y :: b)).
Proof. intros Hx Hy. cbn [dpkg_nondigits nondigit_head]. rewrite Hx, Hy. reflexivity. Qed.

Definition nondigit_or_end (s : str) : Prop := match s with b :: _ => is_digit b = false | [] => True end.

Lemma drop_zero_app d Z : forallb is_digit d = true -> nondigit_or_end Z ->
  drop_while (fun b => beq b "0"%byte) (d ++ Z) = drop_while (fun b => beq b "0"%byte) d ++ Z.
Proof.
  induction d as [|x d IH]; intros D HZ; cbn [app drop_while].
  - destruct Z as [|z Z]; [reflexivity|]. cbn [drop_while]. destruct (beq z "0"%byte) eqn:E; [|reflexivity].
    apply beq_eq in E. subst. cbn in HZ. discriminate.
  - cbn [forallb] in D. apply andb_true_iff in D as [_ D]. destruct (beq x "0"%byte); [apply IH; assumption|reflexivity].
Qed.

Lemma take_digits_app d Z : forallb is_digit d = true -> nondigit_or_end Z -> take_while is_digit (d ++ Z) = d.
Proof.
  induction d as [|x d IH]; intros D HZ; cbn [app take_while].
  - destruct Z as [|z Z]; [reflexivity|]. cbn in HZ. cbn [take_while]. rewrite HZ. reflexivity.
  - cbn [forallb] in D. apply andb_true_iff in D as [Dx D]. rewrite Dx. f_equal. apply IH; assumption.
Qed.

Lemma drop_zero_digits d : forallb is_digit d = true -> forallb is_digit (drop_while (fun b => beq b "0"%byte) d) = true.
Proof.
  induction d as [|x d IH]; intros D; [reflexivity|]. cbn [forallb] in D. apply andb_true_iff in D as [Dx D].
  cbn [drop_while]. destruct (beq x "0"%byte); [apply IH; exact D|]. cbn [forallb]. rewrite Dx, D. reflexivity.
Qed.

Lemma skipn_app_exact {A} (l r : list A) : skipn (List.length l) (l ++ r) = r.
Proof. induction l; [reflexivity|]. cbn. assumption. Qed.

Lemma digit_run_app d Z : forallb is_digit d = true -> nondigit_or_end Z ->
  digit_run (d ++ Z) = (drop_while (fun b => beq b "0"%byte) d, Z).
Proof.
  intros D HZ. unfold digit_run. rewrite drop_zero_app by assumption.
  rewrite take_digits_app by (auto using drop_zero_digits). rewrite skipn_app_exact. reflexivity.
Qed.

Lemma cmp_digit_runs_refl d : cmp_digit_runs d d = Eq.
Proof. unfold cmp_digit_runs. rewrite Nat.compare_refl. apply lex_cmp_refl. Qed.

Lemma after_take_while f s : match skipn (List.length (take_while f s)) s with b :: _ => f b = false | [] => True end.
Proof.
  induction s as [|b s IH]; [exact I|]. cbn [take_while]. destruct (f b) eqn:E; cbn; [exact IH|exact E].
Qed.

Lemma nonnil_match (a b : str) (X Y : option comparison) : a <> [] ->
  match a, b with [], [] => X | _, _ => Y end = Y.
Proof. destruct a; [contradiction|reflexivity]. Qed.

(* the last outer iteration: only non-digits are left of the common prefix *)
Lemma outer_last nd R B f : all_nondigit nd = true -> tilde_vs B ->
  verrevcmp (S f) (nd ++ "~"%byte :: R) (nd ++ B) = Some Lt.
Proof.
  intros Hnd TB. cbn [verrevcmp]. rewrite nonnil_match by (destruct nd; discriminate).
  replace (S (List.length (nd ++ "~"%byte :: R) + List.length (nd ++ B)))
    with (List.length nd + S (S (List.length R) + List.length (nd ++ B))) by (rewrite !app_length; cbn [List.length]; lia).
  rewrite nd_common by exact Hnd. rewrite nondigits_tilde by exact TB. reflexivity.
Qed.

(* one outer iteration over a non-digit run followed by a non-empty digit run *)
Lemma outer_step nd x d U2 R B f : all_nondigit nd = true -> forallb is_digit (x :: d) = true ->
  nondigit_or_end U2 -> tilde_vs B ->
  verrevcmp (S f) (nd ++ (x :: d) ++ U2 ++ "~"%byte :: R) (nd ++ (x :: d) ++ U2 ++ B) =
  verrevcmp f (U2 ++ "~"%byte :: R) (U2 ++ B).
Proof.
  intros Hnd Hd HU2 TB. cbn [verrevcmp]. rewrite nonnil_match by (destruct nd; discriminate).
  set (A1 := (x :: d) ++ U2 ++ "~"%byte :: R). set (B1 := (x :: d) ++ U2 ++ B).
  replace (S (List.length (nd ++ A1) + List.length (nd ++ B1)))
    with (List.length nd + S (List.length A1 + List.length (nd ++ B1))) by (rewrite !app_length; lia).
  rewrite nd_common by exact Hnd.
  assert (is_digit x = true) as Hx by (cbn [forallb] in Hd; apply andb_true_iff in Hd; tauto).
  unfold A1, B1. cbn [app]. rewrite nondigits_at_digit by exact Hx.
  assert (nondigit_or_end (U2 ++ "~"%byte :: R)) as Z1 by (destruct U2; [reflexivity|exact HU2]).
  assert (nondigit_or_end (U2 ++ B)) as Z2.
  { destruct U2 as [|u U2']; [|exact HU2]. cbn [app]. destruct TB as [->|(r & ->)]; [exact I|reflexivity]. }
  change (x :: d ++ U2 ++ "~"%byte :: R) with ((x :: d) ++ U2 ++ "~"%byte :: R).
  change (x :: d ++ U2 ++ B) with ((x :: d) ++ U2 ++ B).
  rewrite (digit_run_app (x :: d) _ Hd Z1), (digit_run_app (x :: d) _ Hd Z2). rewrite cmp_digit_runs_refl. reflexivity.
Qed.

(* every string is a non-digit run, possibly followed by a non-empty digit run and a rest that does not start with a digit *)
Lemma decompose U : (all_nondigit U = true) \/
  exists nd x d U2, U = nd ++ (x :: d) ++ U2 /\ all_nondigit nd = true /\ forallb is_digit (x :: d) = true /\ nondigit_or_end U2.
Proof.
  pose proof (take_skip (fun b => negb (is_digit b)) U) as E1.
  pose proof (take_while_all (fun b => negb (is_digit b)) U) as H1.
  pose proof (after_take_while (fun b => negb (is_digit b)) U) as A1.
  destruct (skipn (List.length (take_while (fun b => negb (is_digit b)) U)) U) as [|x U1] eqn:S1.
  - left. rewrite E1, app_nil_r. exact H1.
  - right. apply negb_false_iff in A1.
    pose proof (take_skip is_digit U1) as E2. pose proof (take_while_all is_digit U1) as H2.
    pose proof (after_take_while is_digit U1) as A2.
    exists (take_while (fun b => negb (is_digit b)) U), x, (take_while is_digit U1), (skipn (List.length (take_while is_digit U1)) U1).
    split; [rewrite E1 at 1; cbn [app]; rewrite <- E2; reflexivity|]. split; [exact H1|]. split; [cbn [forallb]; rewrite A1, H2; reflexivity|].
    destruct (skipn (List.length (take_while is_digit U1)) U1); [exact I|exact A2].
Qed.

Theorem verrevcmp_tilde_lt : forall n U R B fuel, List.length U <= n -> n < fuel -> tilde_vs B ->
  verrevcmp fuel (U ++ "~"%byte :: R) (U ++ B) = Some Lt.
Proof.
  induction n as [|n IH]; intros U R B fuel Hn Hf TB.
  - destruct U; [|cbn in Hn; lia]. destruct fuel as [|f]; [lia|]. apply (outer_last [] R B f eq_refl TB).
  - destruct fuel as [|f]; [lia|]. destruct (decompose U) as [Hnd|(nd & x & d & U2 & -> & Hnd & Hd & HU2)].
    + apply outer_last; assumption.
    + rewrite <- !app_assoc. rewrite (outer_step nd x d U2 R B f Hnd Hd HU2 TB).
      apply IH; [|lia|exact TB]. rewrite !app_length in Hn. cbn [List.length] in Hn. lia.
Qed.

(* at the level of whole version strings: same epoch, upstream parts U~R and U / U+..., any revisions *)
Theorem dpkg_pre_lt_release v w e U R B r1 r2 :
  dpkg_parts v = (e, U ++ "~"%byte :: R, r1) -> dpkg_parts w = (e, U ++ B, r2) -> tilde_vs B ->
  dpkg_cmp v w = Some Lt.
Proof.
  intros Pv Pw TB. unfold dpkg_cmp. rewrite Pv, Pw. rewrite Z.compare_refl.
  rewrite (verrevcmp_tilde_lt (List.length U) U R B); [reflexivity|lia| |exact TB].
  rewrite !app_length. cbn [List.length]. lia.
Qed.

(* ---- (3) epochs dominate ---- *)
Theorem dpkg_epoch_dominates v w e1 u1 r1 e2 u2 r2 :
  dpkg_parts v = (e1, u1, r1) -> dpkg_parts w = (e2, u2, r2) -> (e1 < e2)%Z -> dpkg_cmp v w = Some Lt.
Proof.
  intros Pv Pw H. unfold dpkg_cmp. rewrite Pv, Pw. apply Z.compare_lt_iff in H. rewrite H. reflexivity.
Qed.

Theorem rpm_epoch_dominates e1 v1 r1 e2 v2 r2 : (e1 < e2)%Z -> rpm_cmp e1 v1 r1 e2 v2 r2 = Some Lt.
Proof. intros H. unfold rpm_cmp. apply Z.compare_lt_iff in H. rewrite H. reflexivity. Qed.
