(* C03 / C08: md5sums and conffiles read back, line for line, as the lists they were written from. *)
From Coq Require Import List NArith Bool Arith Lia String.
From Coq Require Import Strings.Byte.
From NfpmV Require Import Lib.Bytes Model.Container Model.Mtree Model.DebLists.
From NfpmV Require Import Proofs.C10Proofs Proofs.MtreeProofs.
Import ListNotations.
Open Scope list_scope.

Lemma lines_of_text (ls : list str) : Forall (fun l => line_ok l = true) ls ->
  text_lines (flat_map (fun l => l ++ [nl]) ls) = Some ls.
Proof.
  intros Hall. unfold text_lines.
  assert (Hs : splitb nl (flat_map (fun l => l ++ [nl]) ls) = ls ++ [[]]).
  { induction Hall as [|l ls Hl _ IH]; [reflexivity|]. cbn [flat_map]. rewrite <- app_assoc. cbn [app].
    rewrite splitb_app_sep by exact Hl. rewrite IH. reflexivity. }
  rewrite Hs. rewrite rev_app_distr. change (rev [([] : str)]) with [([] : str)]. cbn [app]. rewrite rev_involutive. reflexivity.
Qed.

Lemma wf_md5_parts p : wf_md5 p = true ->
  fst p <> [] /\ forallb (fun b => negb (beq b sp)) (fst p) = true /\ line_ok (md5_line p) = true.
Proof.
  destruct p as [d n]. unfold wf_md5. cbn [fst snd]. destruct d as [|b d]; [discriminate|]. intros H. apply andb_true_iff in H. destruct H as [Hd Hn].
  repeat split.
  - discriminate.
  - revert Hd. apply forallb_impl. intros x Hx. apply andb_true_iff in Hx. apply Hx.
  - assert (forallb (fun c => negb (beq c nl)) (b :: d) = true) as H1.
    { revert Hd. apply forallb_impl. intros x Hx. apply andb_true_iff in Hx. apply Hx. }
    unfold line_ok, md5_line. cbn [fst snd]. rewrite forallb_app_iff, H1. cbn [forallb]. unfold line_ok in Hn. rewrite Hn. reflexivity.
Qed.

Lemma md5_split_line p : wf_md5 p = true -> md5_split (md5_line p) = Some p.
Proof.
  intros H. destruct (wf_md5_parts p H) as (Hne & Hsp & _). destruct p as [d n]. cbn [fst snd] in *.
  unfold md5_split, md5_line. cbn [fst snd].
  assert (Ht : take_whileb (fun b => negb (beq b sp)) (d ++ sp :: sp :: n) = d).
  { apply take_whileb_app_stop; [exact Hsp|]. rewrite beq_refl. reflexivity. }
  cbv zeta. rewrite Ht. destruct d as [|b d'] eqn:E; [contradiction|]. rewrite <- E.
  rewrite (skipn_app_exact d (sp :: sp :: n) (List.length d) eq_refl). rewrite !beq_refl. reflexivity.
Qed.

Theorem md5sums_roundtrip ps : Forall (fun p => wf_md5 p = true) ps -> md5sums_read (md5sums_text ps) = Some ps.
Proof.
  intros Hall. unfold md5sums_read, md5sums_text.
  assert (Ht : text_lines (flat_map (fun p => md5_line p ++ [nl]) ps) = Some (map md5_line ps)).
  { rewrite <- (lines_of_text (map md5_line ps)).
    - f_equal. clear Hall. induction ps as [|p ps IH]; [reflexivity|]. cbn [map flat_map]. rewrite IH. reflexivity.
    - apply Forall_forall. intros l Hl. apply in_map_iff in Hl. destruct Hl as (p & <- & Hp).
      rewrite Forall_forall in Hall. apply (wf_md5_parts p (Hall p Hp)). }
  rewrite Ht. clear Ht. induction Hall as [|p ps Hp _ IH]; [reflexivity|]. cbn [map map_opt]. rewrite (md5_split_line p Hp), IH. reflexivity.
Qed.

Theorem conffiles_roundtrip ps : Forall (fun p => line_ok p = true /\ nonblank p = true) ps -> conffiles_read (conffiles_text ps) = Some ps.
Proof.
  intros H. unfold conffiles_read, conffiles_text. destruct ps as [|p ps']; [reflexivity|].
  rewrite lines_of_text by (apply Forall_forall; intros l Hl; rewrite Forall_forall in H; apply (H l Hl)).
  cbn [option_map]. f_equal. induction H as [|l ls [_ Hn] _ IH]; [reflexivity|]. cbn [filter]. rewrite Hn, IH. reflexivity.
Qed.
