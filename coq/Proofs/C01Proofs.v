(* C01: the payload each packager writes states exactly what the prepared content list denotes. *)
From Coq Require Import List NArith ZArith Lia Bool Sorting.Permutation.
From Coq Require Import Strings.Byte.
From NfpmV Require Import Lib.Bytes Model.Path Model.Content Model.Prepare Model.Payload Spec.C05 Spec.C01.
From NfpmV Require Import Proofs.PathFacts Proofs.KeyFacts Proofs.RelFacts Proofs.StepInv Proofs.C05Proofs.
Import ListNotations.

(* ---- what is known of one prepared entry ---- *)
Record prepared_entry (f : fmt) (c : content) : Prop := {
  pr_key : exists cs, vkey (c_dst c) cs (is_dir_typ (c_typ c));
  pr_typ : prepared_typ (c_typ c) = true;
  pr_rel : is_relevant (fmt_name f) c = true;
  pr_small : mode_smallb c = true;
  pr_noroot : is_dir_typ (c_typ c) = false -> location c <> []
}.

Lemma prepared_typ_cases t : prepared_typ t = true ->
  In t [TFile; TDir; TImplicitDir; TSymlink; TConfig; TConfigNoReplace; TConfigMissingOK;
        TGhost; TDoc; TLicence; TLicense; TReadme; TDebChangelog].
Proof.
  unfold prepared_typ, typ_in. intros H. apply existsb_exists in H as (x & Hx & E).
  apply seqb_eq in E. subst. exact Hx.
Qed.

Lemma fmt_name_nonempty f : seqb (fmt_name f) [] = false.
Proof. destruct f; reflexivity. Qed.

Lemma relevant_facts f c : is_relevant (fmt_name f) c = true ->
  (negb (seqb (c_pkgr c) []) && negb (seqb (c_pkgr c) (fmt_name f)) = false) /\
  (negb (seqb (fmt_name f) P_rpm) && is_rpm_only_typ (c_typ c) = false) /\
  (negb (seqb (fmt_name f) P_deb) && seqb (c_typ c) TDebChangelog = false).
Proof.
  unfold is_relevant. rewrite fmt_name_nonempty.
  destruct (negb (seqb (c_pkgr c) []) && negb (seqb (c_pkgr c) (fmt_name f))); [discriminate|].
  destruct (negb (seqb (fmt_name f) P_rpm) && is_rpm_only_typ (c_typ c)); [discriminate|].
  destruct (negb (seqb (fmt_name f) P_deb) && seqb (c_typ c) TDebChangelog); [discriminate|]. auto.
Qed.

Lemma nonrpm_name f : f <> FRpm -> seqb (fmt_name f) P_rpm = false.
Proof. destruct f; try reflexivity. contradiction. Qed.
Lemma nondeb_name f : f <> FDeb -> seqb (fmt_name f) P_deb = false.
Proof. destruct f; try reflexivity. contradiction. Qed.

Lemma nonrpm_not_rpm_only f c : f <> FRpm -> is_relevant (fmt_name f) c = true -> is_rpm_only_typ (c_typ c) = false.
Proof.
  intros NR R. destruct (relevant_facts _ _ R) as (_ & R2 & _). rewrite (nonrpm_name f NR) in R2. exact R2.
Qed.

Lemma nondeb_not_changelog f c : f <> FDeb -> is_relevant (fmt_name f) c = true -> seqb (c_typ c) TDebChangelog = false.
Proof.
  intros ND R. destruct (relevant_facts _ _ R) as (_ & _ & R3). rewrite (nondeb_name f ND) in R3. exact R3.
Qed.

Lemma not_ghost_of_not_rpm_only t : is_rpm_only_typ t = false -> seqb t TGhost = false.
Proof.
  intros H. destruct (seqb t TGhost) eqn:E; [|reflexivity]. apply seqb_eq in E. subst. discriminate.
Qed.

Lemma land_small m : N.ltb m 4096 = true -> N.land m 4095 = m.
Proof.
  intros H. apply N.ltb_lt in H. change 4095%N with (N.ones 12). rewrite N.land_ones.
  apply N.mod_small. exact H.
Qed.

Lemma testbit_small m n : N.ltb m 4096 = true -> (12 <= n)%N -> N.testbit m n = false.
Proof.
  intros H Hn. apply N.ltb_lt in H. destruct (N.eq_dec m 0) as [->|NZ]; [apply N.bits_0|].
  apply N.bits_above_log2. apply N.log2_lt_pow2; [lia|].
  eapply N.lt_le_trans; [exact H|]. change 4096%N with (2 ^ 12)%N. apply N.pow_le_mono_r; lia.
Qed.

Lemma deb_mode_small m : N.ltb m 4096 = true -> deb_mode m = m.
Proof.
  intros H. unfold deb_mode. rewrite !(testbit_small m) by (assumption || lia).
  rewrite land_small by exact H. rewrite !N.lor_0_r. reflexivity.
Qed.

Lemma first_time_one t : is_tzero t = true \/ first_time [t] = t.
Proof. cbn. destruct (is_tzero t); auto. Qed.

Lemma zeqb_refl z : Z.eqb z z = true.
Proof. apply Z.eqb_refl. Qed.

(* the location of a prepared entry, from its key *)
Lemma location_of_key c cs : vkey (c_dst c) cs (is_dir_typ (c_typ c)) -> location c = loc_of cs.
Proof.
  intros [G E]. unfold location. rewrite E. destruct (is_dir_typ (c_typ c)); [apply strip_dkey|apply strip_fkey]; exact G.
Qed.

Lemma as_rel_key c cs : vkey (c_dst c) cs (is_dir_typ (c_typ c)) ->
  as_rel (c_dst c) = rel_key cs \/ (cs <> [] /\ as_rel (c_dst c) = rel_key cs ++ [slash]).
Proof.
  intros [G E]. rewrite E. destruct (is_dir_typ (c_typ c)).
  - apply as_rel_dkey. exact G.
  - left. destruct cs as [|x cs]; [reflexivity|]. apply as_rel_fkey; [exact G|discriminate].
Qed.

Lemma logical_tar c cs : vkey (c_dst c) cs (is_dir_typ (c_typ c)) ->
  strip_dir_slash (slash :: as_rel (c_dst c)) = location c.
Proof.
  intros K. rewrite (location_of_key c cs K). apply logical_rel_any; [apply K|]. apply as_rel_key. exact K.
Qed.

Lemma logical_deb c cs : vkey (c_dst c) cs (is_dir_typ (c_typ c)) ->
  logical_path FDeb (as_explicit_rel (c_dst c)) = location c.
Proof. intros K. unfold logical_path, as_explicit_rel. rewrite beq_refl. eapply logical_tar; eauto. Qed.

Lemma logical_ipk c cs : vkey (c_dst c) cs (is_dir_typ (c_typ c)) ->
  logical_path FIpk (as_explicit_rel (c_dst c)) = location c.
Proof. intros K. unfold logical_path, as_explicit_rel. rewrite beq_refl. eapply logical_tar; eauto. Qed.

(* apk applies AsRelativePath twice to file names *)
Lemma as_rel_twice_file c cs : vkey (c_dst c) cs false -> cs <> [] -> as_rel (as_rel (c_dst c)) = as_rel (c_dst c).
Proof.
  intros [G E] NE. rewrite E. cbn iota. rewrite as_rel_fkey by assumption. apply as_rel_rel_key; assumption.
Qed.

Lemma to_nix_key c cs : vkey (c_dst c) cs (is_dir_typ (c_typ c)) -> to_nix (c_dst c) = fkey cs.
Proof. intros [G E]. rewrite E. destruct (is_dir_typ (c_typ c)); [apply to_nix_dkey|apply to_nix_fkey]; exact G. Qed.

(* ---- attribute agreement, entry by entry ---- *)
Definition entry_of (f : fmt) (mt : Z) (c : content) : list pentry :=
  match f with
  | FDeb => deb_entry mt c
  | FRpm => rpm_entry mt c
  | FApk => tarlike_entry true c
  | FArch => tarlike_entry false c
  | FIpk => ipk_entry mt c
  end.

Definition entry_good (f : fmt) (hashes : list (str * str)) (c : content) (e : pentry) : Prop :=
  logical_path f (pe_path e) = location c /\
  ((pe_inpayload e = true /\ in_payload f c = true /\ check_attrs f hashes e (denote_entry c) = []) \/
   (pe_inpayload e = false /\ seqb (c_typ c) TGhost = true)).

Ltac kill_typ H :=
  (* H : In t [13 types]; solve goals by computation in each case *)
  repeat (destruct H as [<-|H]; [try discriminate; try reflexivity|]); try contradiction.

Lemma kind_dir t : is_dir_typ t = true -> kind_of_typ t = KDir.
Proof. unfold kind_of_typ. intros ->. reflexivity. Qed.
Lemma kind_symlink t : is_dir_typ t = false -> seqb t TSymlink = true -> kind_of_typ t = KSymlink.
Proof. unfold kind_of_typ. intros -> ->. reflexivity. Qed.
Lemma kind_file t : is_dir_typ t = false -> seqb t TSymlink = false -> kind_of_typ t = KFile.
Proof. unfold kind_of_typ. intros -> ->. reflexivity. Qed.

Lemma symlink_not_dir t : seqb t TSymlink = true -> is_dir_typ t = false.
Proof. intros H. apply seqb_eq in H. subst. reflexivity. Qed.
Lemma changelog_not_dir_symlink t : seqb t TDebChangelog = true -> is_dir_typ t = false /\ seqb t TSymlink = false /\ seqb t TGhost = false.
Proof. intros H. apply seqb_eq in H. subst. repeat split; reflexivity. Qed.
Lemma ghost_not_dir_symlink t : seqb t TGhost = true -> is_dir_typ t = false /\ seqb t TSymlink = false /\ seqb t TDebChangelog = false.
Proof. intros H. apply seqb_eq in H. subst. repeat split; reflexivity. Qed.
Lemma ghost_rpm_only t : seqb t TGhost = true -> is_rpm_only_typ t = true.
Proof. intros H. apply seqb_eq in H. subst. reflexivity. Qed.

(* attributes of a file-kind entry that carries the prepared values verbatim *)
Lemma attrs_file f hashes c e :
  kind_of_typ (c_typ c) = KFile -> seqb (c_typ c) TDebChangelog = false ->
  pe_kind e = KFile -> pe_mode e = N.land (fi_mode (the_fi c)) 4095 ->
  pe_uname e = fi_owner (the_fi c) -> pe_gname e = fi_group (the_fi c) ->
  (is_tzero (fi_mtime (the_fi c)) = true \/
   pe_mtime e = match f with FRpm => u32 (fi_mtime (the_fi c)) | _ => fi_mtime (the_fi c) end) ->
  pe_data e = DSrc (c_src c) ->
  check_attrs f hashes e (denote_entry c) = [].
Proof.
  intros K NC Ek Em Eu Eg Et Ed. unfold check_attrs, denote_entry. cbn [l_kind l_mode l_owner l_group l_mtime l_data l_link].
  rewrite K, NC, Ek, Em, Eu, Eg, Ed. cbn [pkind_eqb app]. rewrite N.eqb_refl, !seqb_refl. cbn [app data_matches]. rewrite seqb_refl.
  destruct Et as [->| ->]; [reflexivity|]. rewrite zeqb_refl, orb_true_r. reflexivity.
Qed.

Lemma attrs_changelog f hashes c e :
  kind_of_typ (c_typ c) = KFile -> seqb (c_typ c) TDebChangelog = true -> pe_kind e = KFile ->
  check_attrs f hashes e (denote_entry c) = [].
Proof.
  intros K C Ek. unfold check_attrs, denote_entry. cbn [l_kind l_data]. rewrite K, C, Ek. reflexivity.
Qed.

Lemma attrs_dir f hashes c e :
  kind_of_typ (c_typ c) = KDir -> pe_kind e = KDir -> pe_mode e = N.land (fi_mode (the_fi c)) 4095 ->
  pe_uname e = fi_owner (the_fi c) -> pe_gname e = fi_group (the_fi c) ->
  check_attrs f hashes e (denote_entry c) = [].
Proof.
  intros K Ek Em Eu Eg. unfold check_attrs, denote_entry. cbn [l_kind l_mode l_owner l_group].
  rewrite K, Ek, Em, Eu, Eg. cbn [pkind_eqb app]. rewrite N.eqb_refl, !seqb_refl. reflexivity.
Qed.

Lemma attrs_symlink f hashes c e :
  kind_of_typ (c_typ c) = KSymlink -> pe_kind e = KSymlink -> pe_link e = c_src c ->
  check_attrs f hashes e (denote_entry c) = [].
Proof.
  intros K Ek El. unfold check_attrs, denote_entry. cbn [l_kind l_link]. rewrite K, Ek, El. cbn [pkind_eqb app].
  rewrite seqb_refl. reflexivity.
Qed.

Section PerEntry.
Variable hashes : list (str * str).
Variable mt : Z.

Lemma in_payload_nonrpm f c : f <> FRpm -> seqb (c_typ c) TGhost = false -> in_payload f c = true.
Proof. intros NR G. unfold in_payload. rewrite G. destruct f; try reflexivity. contradiction. Qed.

Lemma deb_entry_good c : prepared_entry FDeb c ->
  exists e, deb_entry mt c = [e] /\ entry_good FDeb hashes c e.
Proof.
  intros [(cs & K) T R S NRoot]. unfold mode_smallb in S.
  assert (seqb (c_typ c) TGhost = false) as NG.
  { apply not_ghost_of_not_rpm_only. apply (nonrpm_not_rpm_only FDeb); [discriminate|exact R]. }
  unfold deb_entry, fi_of. rewrite NG.
  destruct (is_dir_typ (c_typ c)) eqn:D; [|destruct (seqb (c_typ c) TSymlink) eqn:Sy; [|destruct (seqb (c_typ c) TDebChangelog) eqn:C]].
  all: eexists; split; [reflexivity|].
  all: split; [cbn [pe_path]; eapply logical_deb; rewrite ?D; eauto|left; split; [reflexivity|split; [apply in_payload_nonrpm; [discriminate|exact NG]|]]].
  - apply attrs_dir; try reflexivity; [apply kind_dir; exact D|]. cbn [pe_mode]. rewrite deb_mode_small, land_small by exact S. reflexivity.
  - apply attrs_symlink; try reflexivity. apply kind_symlink; assumption.
  - apply attrs_changelog; try reflexivity; [apply kind_file; assumption|exact C].
  - apply attrs_file; try reflexivity; [apply kind_file; assumption|exact C| |].
    + cbn [pe_mode]. rewrite deb_mode_small, land_small by exact S. reflexivity.
    + cbn [pe_mtime]. destruct (first_time_one (fi_mtime (the_fi c))); auto.
Qed.


(* a relevant, prepared entry that is neither rpm-only, nor the changelog, nor a directory, nor a symlink
   is a plain or config file *)
Lemma plain_file_typ t : prepared_typ t = true -> is_rpm_only_typ t = false -> seqb t TDebChangelog = false ->
  is_dir_typ t = false -> seqb t TSymlink = false ->
  typ_in t [TFile; TTree; TConfig; TConfigNoReplace; TConfigMissingOK] = true.
Proof.
  intros T. apply prepared_typ_cases in T. cbn [In] in T.
  repeat (destruct T as [<-|T]; [intros; try discriminate; reflexivity|]). contradiction.
Qed.

Lemma ipk_entry_good c : prepared_entry FIpk c ->
  exists e, ipk_entry mt c = [e] /\ entry_good FIpk hashes c e.
Proof.
  intros [(cs & K) T R S NRoot]. unfold mode_smallb in S.
  pose proof (nonrpm_not_rpm_only FIpk c ltac:(discriminate) R) as NR.
  pose proof (nondeb_not_changelog FIpk c ltac:(discriminate) R) as NC.
  pose proof (not_ghost_of_not_rpm_only _ NR) as NG.
  unfold ipk_entry, fi_of.
  destruct (is_dir_typ (c_typ c)) eqn:D; [|destruct (seqb (c_typ c) TSymlink) eqn:Sy;
    [|rewrite (plain_file_typ _ T NR NC D Sy)]].
  all: eexists; split; [reflexivity|].
  all: split; [cbn [pe_path]; eapply logical_ipk; rewrite ?D; eauto|left; split; [reflexivity|split; [apply in_payload_nonrpm; [discriminate|exact NG]|]]].
  - apply attrs_dir; try reflexivity; [apply kind_dir; exact D|]. cbn [pe_mode]. rewrite land_small by exact S. reflexivity.
  - apply attrs_symlink; try reflexivity. apply kind_symlink; assumption.
  - apply attrs_file; try reflexivity; [apply kind_file; assumption|exact NC| |].
    + cbn [pe_mode]. rewrite land_small by exact S. reflexivity.
    + cbn [pe_mtime]. right. reflexivity.
Qed.

Lemma tarlike_entry_good f twice c : (f = FApk \/ f = FArch) -> prepared_entry f c ->
  exists e, tarlike_entry twice c = [e] /\ entry_good f hashes c e.
Proof.
  intros Hf [(cs & K) T R S NRoot]. unfold mode_smallb in S.
  assert (f <> FRpm) as NRf by (destruct Hf; subst; discriminate).
  assert (f <> FDeb) as NDf by (destruct Hf; subst; discriminate).
  pose proof (nonrpm_not_rpm_only f c NRf R) as NR.
  pose proof (nondeb_not_changelog f c NDf R) as NC.
  pose proof (not_ghost_of_not_rpm_only _ NR) as NG.
  assert (forall name, logical_path f name = strip_dir_slash (slash :: name)) as LP by (destruct Hf; subst; reflexivity).
  unfold tarlike_entry, fi_of.
  destruct (is_dir_typ (c_typ c)) eqn:D; [|destruct (seqb (c_typ c) TSymlink) eqn:Sy].
  all: eexists; split; [reflexivity|].
  - split; [cbn [pe_path]; rewrite LP; eapply logical_tar; rewrite ?D; eauto|].
    left; split; [reflexivity|split; [apply in_payload_nonrpm; assumption|]].
    apply attrs_dir; try reflexivity; [apply kind_dir; exact D|]. cbn [pe_mode]. rewrite land_small by exact S. reflexivity.
  - split; [cbn [pe_path]; rewrite LP; eapply logical_tar; rewrite ?D; eauto|].
    left; split; [reflexivity|split; [apply in_payload_nonrpm; assumption|]].
    apply attrs_symlink; try reflexivity. apply kind_symlink; assumption.
  - split.
    + cbn [pe_path]. rewrite LP.
      assert (vkey (c_dst c) cs (is_dir_typ (c_typ c))) as K' by (rewrite D; exact K).
      assert (cs <> []) as NE.
      { intros ->. apply (NRoot eq_refl). rewrite (location_of_key c [] K'). reflexivity. }
      destruct twice; [rewrite (as_rel_twice_file c cs K NE)|]; eapply logical_tar; exact K'.
    + left; split; [reflexivity|split; [apply in_payload_nonrpm; assumption|]].
      apply attrs_file; try reflexivity; [apply kind_file; assumption|exact NC| |].
      * cbn [pe_mode]. rewrite land_small by exact S. reflexivity.
      * cbn [pe_mtime]. right. destruct Hf; subst; reflexivity.
Qed.

Lemma rpm_entry_good c : prepared_entry FRpm c ->
  (rpm_entry mt c = [] /\ in_payload FRpm c = false /\ seqb (c_typ c) TGhost = false) \/
  (exists e, rpm_entry mt c = [e] /\ entry_good FRpm hashes c e).
Proof.
  intros [(cs & K) T R S NRoot]. unfold mode_smallb in S.
  destruct (relevant_facts _ _ R) as (R1 & _ & _). cbn [fmt_name] in R1.
  pose proof (nondeb_not_changelog FRpm c ltac:(discriminate) R) as NC.
  pose proof (to_nix_key c cs K) as Nm. pose proof (location_of_key c cs K) as Loc.
  unfold rpm_entry, fi_of. rewrite R1.
  destruct (seqb (c_typ c) TImplicitDir) eqn:TI.
  { left. apply seqb_eq in TI. unfold in_payload. rewrite TI. repeat split; reflexivity. }
  rewrite Nm. destruct (seqb (fkey cs) [slash]) eqn:Root.
  { left. apply seqb_eq in Root. change [slash] with (fkey []) in Root.
    apply fkey_inj in Root; [|apply K|constructor]. subst cs.
    destruct (is_dir_typ (c_typ c)) eqn:D.
    - assert (seqb (c_typ c) TGhost = false) as NG.
      { destruct (seqb (c_typ c) TGhost) eqn:E; [|reflexivity]. apply seqb_eq in E. rewrite E in D. discriminate. }
      unfold in_payload. rewrite NG, Loc. cbn. rewrite andb_false_r. repeat split; reflexivity.
    - exfalso. apply (NRoot eq_refl). rewrite Loc. reflexivity. }
  assert (cs <> []) as NE by (intros ->; cbn in Root; discriminate).
  assert (strip_dir_slash (fkey cs) = location c) as LP by (rewrite Loc; apply strip_fkey; apply K).
  assert (seqb (location c) [] = false) as LNE.
  { rewrite Loc. destruct cs; [contradiction|reflexivity]. }
  right. destruct (seqb (c_typ c) TDir) eqn:TD.
  { assert (is_dir_typ (c_typ c) = true) as D by (apply seqb_eq in TD; rewrite TD; reflexivity).
    assert (seqb (c_typ c) TGhost = false) as NG by (apply seqb_eq in TD; rewrite TD; reflexivity).
    eexists; split; [reflexivity|]. split; [exact LP|]. left. split; [reflexivity|]. split.
    - unfold in_payload. rewrite NG, TI, LNE. reflexivity.
    - apply attrs_dir; try reflexivity. apply kind_dir; exact D. }
  pose proof (not_dir_typ _ TD TI) as D.
  destruct (seqb (c_typ c) TSymlink) eqn:Sy.
  { assert (seqb (c_typ c) TGhost = false) as NG by (apply seqb_eq in Sy; rewrite Sy; reflexivity).
    eexists; split; [reflexivity|]. split; [exact LP|]. left. split; [reflexivity|]. split.
    - unfold in_payload. rewrite NG, TI, LNE. reflexivity.
    - apply attrs_symlink; try reflexivity. apply kind_symlink; assumption. }
  cbv zeta. destruct (seqb (c_typ c) TGhost) eqn:G.
  { eexists; split; [reflexivity|]. split; [exact LP|]. right. split; [reflexivity|exact G]. }
  eexists; split; [reflexivity|]. split; [exact LP|]. left. split; [reflexivity|]. split.
  - unfold in_payload. rewrite G, TI, LNE. reflexivity.
  - apply attrs_file; try reflexivity; [apply kind_file; assumption|exact NC|]. right. reflexivity.
Qed.

End PerEntry.

(* ---- from entries to the whole payload ---- *)
Definition lp (f : fmt) (e : pentry) : str := logical_path f (pe_path e).

Lemma find_unique {A} (key : A -> str) : forall (l : list A) e k,
  NoDup (map key l) -> In e l -> key e = k -> find (fun x => seqb (key x) k) l = Some e.
Proof.
  induction l as [|x l IH]; intros e k ND Hin Hk; [contradiction|]. cbn [map] in ND. inversion ND as [|? ? Hn ND']; subst.
  cbn [find]. destruct Hin as [->|Hin].
  - rewrite seqb_refl. reflexivity.
  - destruct (seqb (key x) (key e)) eqn:E.
    + apply seqb_eq in E. exfalso. apply Hn. rewrite E. apply in_map. exact Hin.
    + apply IH; auto.
Qed.

Lemma NoDup_filter_map {A} (key : A -> str) (p : A -> bool) : forall l, NoDup (map key l) -> NoDup (map key (filter p l)).
Proof.
  induction l as [|x l IH]; intros ND; [constructor|]. cbn [map] in ND. inversion ND as [|? ? Hn ND']; subst.
  cbn [filter]. destruct (p x); [|apply IH; exact ND']. cbn [map]. constructor; [|apply IH; exact ND'].
  intros H. apply Hn. apply in_map_iff in H as (y & E & Hy). apply filter_In in Hy as [Hy _].
  rewrite <- E. apply in_map. exact Hy.
Qed.

Lemma flat_map_nil {A B} (g : A -> list B) : forall l, (forall x, In x l -> g x = []) -> flat_map g l = [].
Proof.
  induction l as [|x l IH]; intros H; [reflexivity|]. cbn [flat_map]. rewrite (H x (or_introl eq_refl)). apply IH.
  intros y Hy. apply H. right. exact Hy.
Qed.

Lemma check_from_conditions f hashes cs obs :
  NoDup (map (lp f) obs) ->
  (forall e, In e obs -> exists c, In c cs /\ entry_good f hashes c e) ->
  (forall c, In c cs -> in_payload f c = true ->
     exists e, In e obs /\ pe_inpayload e = true /\ lp f e = location c /\ check_attrs f hashes e (denote_entry c) = []) ->
  check_C01 f hashes cs obs = [].
Proof.
  intros ND Sound Complete. unfold check_C01.
  assert (NoDup (map (lp f) (filter pe_inpayload obs))) as ND' by (apply NoDup_filter_map; exact ND).
  assert (nodupb (map (fun e => logical_path f (pe_path e)) (filter pe_inpayload obs)) = true) as ->.
  { apply nodupb_NoDup. exact ND'. }
  assert (forallb (fun p => existsb (fun l => seqb (l_path l) p) (denote f cs))
            (map (fun e => logical_path f (pe_path e)) (filter pe_inpayload obs)) = true) as ->.
  { apply forallb_forall. intros p Hp. apply in_map_iff in Hp as (e & <- & He). apply filter_In in He as [He Hi].
    destruct (Sound e He) as (c & Hc & Lp & [(_ & Hin & _)|(Hf & _)]); [|congruence].
    apply existsb_exists. exists (denote_entry c). split.
    - unfold denote. apply in_map. apply filter_In. auto.
    - cbn [denote_entry l_path]. rewrite Lp. apply seqb_refl. }
  assert (forallb (fun e => pe_inpayload e ||
            existsb (fun c => seqb (c_typ c) TGhost && seqb (location c) (logical_path f (pe_path e))) cs) obs = true) as ->.
  { apply forallb_forall. intros e He. destruct (Sound e He) as (c & Hc & Lp & [(Hi & _)|(_ & G)]).
    - rewrite Hi. reflexivity.
    - apply orb_true_iff. right. apply existsb_exists. exists c. split; [exact Hc|]. rewrite G, Lp, seqb_refl. reflexivity. }
  cbn [app]. apply flat_map_nil. intros l Hl. unfold denote in Hl.
  apply in_map_iff in Hl as (c & <- & Hc). apply filter_In in Hc as [Hc Hin].
  destruct (Complete c Hc Hin) as (e & He & Hi & Lp & At).
  unfold check_entry, find_obs. cbn [denote_entry l_path].
  assert (In e (filter pe_inpayload obs)) as He' by (apply filter_In; auto).
  pose proof (find_unique (fun x => logical_path f (pe_path x)) (filter pe_inpayload obs) e (location c) ND' He' Lp) as F.
  cbv beta in F. rewrite F. exact At.
Qed.

Lemma flat_entries_conditions f hashes cs (g : content -> list pentry) :
  NoDup (map location cs) ->
  (forall c, In c cs ->
     (g c = [] /\ in_payload f c = false /\ seqb (c_typ c) TGhost = false) \/
     (exists e, g c = [e] /\ entry_good f hashes c e)) ->
  NoDup (map (lp f) (flat_map g cs)) /\
  (forall e, In e (flat_map g cs) -> exists c, In c cs /\ entry_good f hashes c e) /\
  (forall c, In c cs -> in_payload f c = true ->
     exists e, In e (flat_map g cs) /\ pe_inpayload e = true /\ lp f e = location c /\
               check_attrs f hashes e (denote_entry c) = []).
Proof.
  induction cs as [|c cs IH]; intros ND Spec.
  - cbn. repeat split; [constructor|intros e []|intros c []].
  - cbn [map] in ND. inversion ND as [|? ? Hn ND']; subst.
    destruct (IH ND' (fun c' H => Spec c' (or_intror H))) as (N & So & Co).
    cbn [flat_map]. destruct (Spec c (or_introl eq_refl)) as [(E & NP & NG)|(e & E & G)]; rewrite E; cbn [app].
    + split; [exact N|]. split.
      * intros e He. destruct (So e He) as (c' & Hc' & G). exists c'. split; [right; exact Hc'|exact G].
      * intros c' [<-|Hc'] Hin; [congruence|]. apply Co; assumption.
    + assert (lp f e = location c) as Le by (apply G).
      split; [|split].
      * cbn [map]. constructor; [|exact N]. intros H. apply in_map_iff in H as (e' & E' & He').
        destruct (So e' He') as (c' & Hc' & G'). apply Hn. unfold lp in *. rewrite <- Le, <- E', (proj1 G').
        apply in_map. exact Hc'.
      * intros e' [<-|He']; [exists c; split; [left; reflexivity|exact G]|].
        destruct (So e' He') as (c' & Hc' & G'). exists c'. split; [right; exact Hc'|exact G'].
      * intros c' [<-|Hc'] Hin.
        -- exists e. split; [left; reflexivity|]. destruct G as (_ & [(Hi & _ & At)|(_ & Gh)]).
           ++ auto.
           ++ exfalso. unfold in_payload in Hin. rewrite Gh in Hin. discriminate.
        -- destruct (Co c' Hc' Hin) as (e' & He' & R'). exists e'. split; [right; exact He'|exact R'].
Qed.

Lemma pe_insert_perm e : forall l, ~ In (pe_path e) (map pe_path l) -> Permutation (pe_insert e l) (e :: l).
Proof.
  induction l as [|x l IH]; intros H; cbn [pe_insert]; [reflexivity|].
  destruct (lex_cmp (pe_path x) (pe_path e)) eqn:C.
  - exfalso. apply lex_cmp_eq in C. apply H. left. exact C.
  - rewrite IH; [apply perm_swap|]. intros H'. apply H. right. exact H'.
  - reflexivity.
Qed.

Lemma rpm_fold_perm : forall l acc, NoDup (map pe_path (l ++ acc)) ->
  Permutation (fold_left (fun a e => pe_insert e a) l acc) (l ++ acc).
Proof.
  induction l as [|x l IH]; intros acc ND; cbn [fold_left app]; [reflexivity|].
  cbn [app map] in ND. inversion ND as [|? ? Hn ND']; subst.
  assert (Permutation (pe_insert x acc) (x :: acc)) as P.
  { apply pe_insert_perm. intros H. apply Hn. rewrite map_app. apply in_or_app. right. exact H. }
  rewrite IH.
  - rewrite P. symmetry. apply Permutation_middle.
  - apply (Permutation_NoDup (l := map pe_path (x :: l ++ acc))); [|exact ND].
    apply Permutation_map. rewrite P. apply Permutation_middle.
Qed.

Lemma rpm_sorted_perm l : NoDup (map pe_path l) -> Permutation (rpm_sorted l) l.
Proof.
  intros ND. unfold rpm_sorted. rewrite rpm_fold_perm; rewrite app_nil_r; [reflexivity|exact ND].
Qed.

Definition all_prepared (f : fmt) (cs : list content) : Prop := forall c, In c cs -> prepared_entry f c.

Theorem payload_meets_denotation f hashes mt cs :
  all_prepared f cs -> NoDup (map location cs) ->
  check_C01 f hashes cs (payload_of f mt cs) = [].
Proof.
  intros AP ND.
  assert (forall g, (forall c, In c cs ->
            (g c = [] /\ in_payload f c = false /\ seqb (c_typ c) TGhost = false) \/
            (exists e, g c = [e] /\ entry_good f hashes c e)) ->
          check_C01 f hashes cs (flat_map g cs) = []) as Flat.
  { intros g Spec. destruct (flat_entries_conditions f hashes cs g ND Spec) as (N & So & Co).
    apply check_from_conditions; assumption. }
  destruct f; cbn [payload_of].
  - apply Flat. intros c Hc. right. apply deb_entry_good. apply AP. exact Hc.
  - (* rpm: sorted by name, one entry per name *)
    assert (forall c, In c cs ->
            (rpm_entry mt c = [] /\ in_payload FRpm c = false /\ seqb (c_typ c) TGhost = false) \/
            (exists e, rpm_entry mt c = [e] /\ entry_good FRpm hashes c e)) as Spec.
    { intros c Hc. apply rpm_entry_good. apply AP. exact Hc. }
    destruct (flat_entries_conditions FRpm hashes cs (rpm_entry mt) ND Spec) as (N & So & Co).
    assert (NoDup (map pe_path (flat_map (rpm_entry mt) cs))) as NP.
    { apply (NoDup_map_inj_in pe_path (lp FRpm)); [|exact N]. intros x y _ _ E. unfold lp. rewrite E. reflexivity. }
    pose proof (rpm_sorted_perm _ NP) as P.
    apply check_from_conditions.
    + apply (Permutation_NoDup (l := map (lp FRpm) (flat_map (rpm_entry mt) cs))); [|exact N].
      apply Permutation_map. symmetry. exact P.
    + intros e He. apply So. apply (Permutation_in _ P). exact He.
    + intros c Hc Hin. destruct (Co c Hc Hin) as (e & He & R). exists e. split; [|exact R].
      apply (Permutation_in _ (Permutation_sym P)). exact He.
  - apply Flat. intros c Hc. right. apply (tarlike_entry_good hashes FApk true); [left; reflexivity|]. apply AP. exact Hc.
  - apply Flat. intros c Hc. right. apply ipk_entry_good. apply AP. exact Hc.
  - apply Flat. intros c Hc. right. apply (tarlike_entry_good hashes FArch false); [right; reflexivity|]. apply AP. exact Hc.
Qed.
