(* C04: in the payload tar every member's parent directory is a member written earlier. *)
From Coq Require Import List NArith ZArith Lia Bool.
From Coq Require Import Strings.Byte.
From NfpmV Require Import Lib.Bytes Model.Path Model.Content Model.Prepare Model.Payload Spec.C05 Spec.C01 Spec.C04.
From NfpmV Require Import Proofs.PathFacts Proofs.KeyFacts Proofs.RelFacts Proofs.StepInv Proofs.PlanFacts Proofs.C05Proofs Proofs.C01Proofs Proofs.C04Proofs.
Import ListNotations.

Lemma join_abs_snoc p x : join_abs (p ++ [x]) = join_abs p ++ slash :: x.
Proof. induction p as [|c p IH]; cbn [app join_abs]; [rewrite app_nil_r; reflexivity|]. rewrite IH, <- app_assoc. reflexivity. Qed.

Lemma upto_skip : forall y r, noslash y -> upto_last_slash_rev (y ++ slash :: r) = slash :: r.
Proof.
  induction y as [|b y IH]; intros r H; cbn [app upto_last_slash_rev].
  - rewrite is_slash_slash. reflexivity.
  - assert (is_slash b = false) as -> by (apply is_slash_false; intros ->; apply H; left; reflexivity).
    apply IH. intros Hin. apply H. right. exact Hin.
Qed.

Lemma upto_none : forall y, noslash y -> upto_last_slash_rev y = [].
Proof.
  induction y as [|b y IH]; intros H; [reflexivity|]. cbn [upto_last_slash_rev].
  assert (is_slash b = false) as -> by (apply is_slash_false; intros ->; apply H; left; reflexivity).
  apply IH. intros Hin. apply H. right. exact Hin.
Qed.

Lemma noslash_rev y : noslash y -> noslash (rev y).
Proof. intros H Hin. apply H. apply in_rev. exact Hin. Qed.

Lemma dir_part_of a x : noslash x -> rev (upto_last_slash_rev (rev (a ++ slash :: x))) = a ++ [slash].
Proof.
  intros H. rewrite rev_app_distr. cbn [rev]. rewrite <- app_assoc. cbn [app].
  rewrite (upto_skip (rev x) (rev a) (noslash_rev x H)). cbn [rev]. rewrite rev_involutive. reflexivity.
Qed.

Lemma strip_good_tail a x : good_comp x -> strip_dir_slash (a ++ x) = a ++ x.
Proof.
  intros (Hne & _ & _ & Hns). destruct (exists_last Hne) as (x' & b & ->).
  rewrite app_assoc. apply strip_dir_slash_noslash. intros ->. apply Hns. apply in_or_app. right. left. reflexivity.
Qed.

(* the name of the directory a member lies in *)
Definition dir_member_name (f : fmt) (p : list str) : str :=
  match f with FDeb | FIpk => dot :: slash :: tname p true | _ => tname p true end.

Lemma rel_key_snoc p x : p <> [] -> rel_key (p ++ [x]) = rel_key p ++ slash :: x.
Proof.
  intros H. destruct p as [|c p]; [contradiction|]. cbn [app]. rewrite !rel_key_cons, join_abs_snoc, app_assoc. reflexivity.
Qed.

Lemma rel_key_single x : rel_key [x] = x.
Proof. rewrite rel_key_cons. cbn [join_abs]. apply app_nil_r. Qed.

Lemma strip_pre_tname pre q d : Forall good_comp q -> q <> [] ->
  strip_dir_slash (pre ++ tname q d) = pre ++ rel_key q.
Proof.
  intros G Hq. unfold tname. destruct d.
  - destruct q as [|c q]; [contradiction|]. rewrite app_assoc. apply strip_dir_slash_snoc.
  - destruct (exists_last Hq) as (p & x & ->). apply Forall_app in G. destruct G as [Gp Gx]. inversion Gx as [|? ? Hx _]; subst.
    destruct p as [|c p].
    + cbn [app]. rewrite rel_key_single. apply strip_good_tail. exact Hx.
    + rewrite (rel_key_snoc (c :: p) x) by discriminate.
      change (rel_key (c :: p) ++ slash :: x) with (rel_key (c :: p) ++ [slash] ++ x). rewrite !app_assoc. apply strip_good_tail. exact Hx.
Qed.

Lemma parent_of_pre_tname pre p x d : Forall good_comp (p ++ [x]) ->
  (pre = [] \/ exists a, pre = a ++ [slash]) ->
  parent_name (pre ++ tname (p ++ [x]) d) = pre ++ tname p true.
Proof.
  intros G Hpre. assert (Hq : p ++ [x] <> []) by (destruct p; discriminate).
  unfold parent_name. rewrite (strip_pre_tname pre (p ++ [x]) d G Hq).
  apply Forall_app in G. destruct G as [Gp Gx]. inversion Gx as [|? ? Hx _]; subst.
  assert (Hns : noslash x) by apply Hx.
  destruct p as [|c p].
  - cbn [app tname]. rewrite rel_key_single, app_nil_r. destruct Hpre as [->|[a ->]].
    + cbn [app]. rewrite (upto_none (rev x) (noslash_rev x Hns)). reflexivity.
    + rewrite <- app_assoc. cbn [app]. apply dir_part_of. exact Hns.
  - rewrite (rel_key_snoc (c :: p) x) by discriminate. rewrite app_assoc. rewrite (dir_part_of _ x Hns).
    unfold tname. rewrite <- app_assoc. reflexivity.
Qed.

Lemma parent_of_member f c p x : Forall good_comp (p ++ [x]) ->
  parent_name (member_name f c (p ++ [x])) = dir_member_name f p.
Proof.
  intros G. destruct f; cbn [member_name dir_member_name].
  - apply (parent_of_pre_tname [dot; slash] p x _ G). right. exists [dot]. reflexivity.
  - apply (parent_of_pre_tname [] p x _ G). left. reflexivity.
  - apply (parent_of_pre_tname [] p x _ G). left. reflexivity.
  - apply (parent_of_pre_tname [dot; slash] p x _ G). right. exists [dot]. reflexivity.
  - apply (parent_of_pre_tname [] p x _ G). left. reflexivity.
Qed.

Lemma parent_of_root_member f c : parent_name (member_name f c []) = [].
Proof. destruct f; cbn [member_name tname]; destruct (is_dir_typ (c_typ c)); reflexivity. Qed.

Lemma dir_member_name_root f : seqb (dir_member_name f []) [] || seqb (dir_member_name f []) [dot; slash] = true.
Proof. destruct f; reflexivity. Qed.

Lemma exists_last_or_nil {A} (q : list A) : q = [] \/ exists p x, q = p ++ [x].
Proof. destruct q as [|a q]; [left; reflexivity|right]. destruct (@exists_last _ (a :: q)) as (p & x & E); [discriminate|]. exists p, x. exact E. Qed.

Definition mn (f : fmt) (cq : content * list str) : str := member_name f (fst cq) (snd cq).

Lemma parents_names f : forall (l seen : list (content * list str)),
  (forall c q, In (c, q) (seen ++ l) -> vkey (c_dst c) q (is_dir_typ (c_typ c))) ->
  parents_beforeb (map fst seen) (map fst l) = true ->
  parents_precedeb (map (mn f) seen) (map (mn f) l) = true.
Proof.
  induction l as [|[c q] l IH]; intros seen K PB; [reflexivity|].
  cbn [map parents_beforeb parents_precedeb fst] in *. apply andb_true_iff in PB. destruct PB as [PB1 PB2].
  apply andb_true_iff. split.
  - assert (Kc : vkey (c_dst c) q (is_dir_typ (c_typ c))) by (apply K; apply in_or_app; right; left; reflexivity).
    set (P := parent_name (mn f (c, q))).
    destruct (exists_last_or_nil q) as [->|(p0 & x & ->)].
    + assert (P = []) as -> by (unfold P, mn; cbn [fst snd]; apply parent_of_root_member). reflexivity.
    + destruct Kc as [G Ek].
      assert (P = dir_member_name f p0) as -> by (unfold P, mn; cbn [fst snd]; apply (parent_of_member f c p0 x G)).
      destruct p0 as [|c0 p0].
      * apply orb_true_iff. left. apply dir_member_name_root.
      * apply orb_true_iff. right.
        (* the immediate parent is among the ancestors the plan has placed earlier *)
        assert (Hanc : In (dkey (c0 :: p0)) (ancestor_dirs (c_dst c))).
        { rewrite (ancestor_dirs_key (c_dst c) ((c0 :: p0) ++ [x])).
          - apply in_map_iff. exists (c0 :: p0). split; [reflexivity|]. apply filter_In. split; [|reflexivity].
            apply prefixes_spec. exists [x]. split; [discriminate|reflexivity].
          - apply (vkey_comps _ _ (is_dir_typ (c_typ c))). split; assumption. }
        rewrite forallb_forall in PB1. specialize (PB1 _ Hanc). apply existsb_exists in PB1. destruct PB1 as (d & Hd & Hd2).
        apply andb_true_iff in Hd2. destruct Hd2 as [Ed Dd]. apply seqb_eq in Ed.
        apply in_map_iff in Hd. destruct Hd as ([d' qd] & Efst & Hin). cbn [fst] in Efst. subst d'.
        assert (Kd : vkey (c_dst d) qd (is_dir_typ (c_typ d))) by (apply K; apply in_or_app; left; exact Hin).
        destruct Kd as [Gd Ekd]. rewrite Dd in Ekd. rewrite Ekd in Ed.
        assert (qd = c0 :: p0).
        { apply dkey_inj; [exact Gd| |exact Ed]. apply Forall_app in G. apply G. }
        subst qd. apply existsb_exists. exists (mn f (d, c0 :: p0)). split; [apply in_map; exact Hin|].
        apply seqb_eq. unfold mn. cbn [fst snd]. destruct f; cbn [member_name dir_member_name]; rewrite Dd; reflexivity.
  - apply (IH ((c, q) :: seen)).
    + intros c' q' H. apply K. cbn [app] in H. destruct H as [H|H].
      * apply in_or_app. right. left. exact H.
      * apply in_app_or in H. apply in_or_app. destruct H as [H|H]; [left; exact H|right; right; exact H].
    + exact PB2.
Qed.

Lemma members_described f mt cs : f <> FRpm -> all_prepared f cs ->
  exists l : list (content * list str),
    map fst l = cs /\ (forall c q, In (c, q) l -> vkey (c_dst c) q (is_dir_typ (c_typ c))) /\
    map fst (members_of (payload_of f mt cs)) = map (mn f) l.
Proof.
  intros NR AP.
  assert (payload_of f mt cs = flat_map (entry_of f mt) cs) as -> by (destruct f; try contradiction; reflexivity).
  induction cs as [|c cs IH].
  - exists []. split; [reflexivity|]. split; [intros c0 q0 []|reflexivity].
  - destruct IH as (l & El & Kl & Ml); [intros c' Hc'; apply AP; right; exact Hc'|].
    destruct (pr_key f c (AP c (or_introl eq_refl))) as (q & K).
    destruct (entry_name f mt c q NR (AP c (or_introl eq_refl)) K) as (e & Ee & Pe & Ke).
    exists ((c, q) :: l). split; [cbn; rewrite El; reflexivity|]. split.
    + intros c' q' [H|H]; [injection H as <- <-; exact K|eapply Kl; eauto].
    + cbn [flat_map]. rewrite Ee. unfold members_of in *. cbn [app map fst]. rewrite Ml, Pe. reflexivity.
Qed.

(* ALL clauses of the name checker hold of the payload model when the plan has its parents first *)
Theorem names_wellformed_all f mt cs : f <> FRpm -> all_prepared f cs -> NoDup (map location cs) ->
  named_root_ok f cs -> parents_beforeb [] cs = true ->
  check_names f (members_of (payload_of f mt cs)) = [].
Proof.
  intros NR AP ND RO PB.
  pose proof (names_wellformed f mt cs NR AP ND RO) as Hall.
  destruct (members_described f mt cs NR AP) as (l & El & Kl & Ml).
  assert (PP : parents_precedeb [] (map fst (members_of (payload_of f mt cs))) = true).
  { rewrite Ml. apply (parents_names f l []); [exact Kl|]. cbn [map]. rewrite El. exact PB. }
  unfold check_names in *. cbv zeta beta in *. rewrite PP in *.
  Local Ltac kill Hall :=
    match goal with
    | |- context [(if ?b then [] else [?c]) ++ _] =>
        destruct b; cbn [app] in *;
        [|exfalso; assert (c = WParents) as X by (apply Hall; left; reflexivity); discriminate X]
    end.
  kill Hall. kill Hall. kill Hall. kill Hall. kill Hall. kill Hall. reflexivity.
Qed.

(* the same for every plan the planning model produces: C05 supplies "parents first" *)
Theorem plan_names_wellformed_all f fs st ces umask mt cs : f <> FRpm ->
  oracle_okb fs st umask mt ces = true -> prep fs st ces umask (fmt_name f) mt = Ok cs -> envelope_C01 cs = true ->
  named_root_ok f cs ->
  check_names f (members_of (payload_of f mt cs)) = [].
Proof.
  intros NR OK H Env RO.
  destruct (plan_entries _ _ _ _ _ _ _ OK H) as (E & NL & _).
  destruct (plan_clauses _ _ _ _ _ _ _ OK H) as (_ & _ & _ & _ & PB & _).
  unfold envelope_C01 in Env. apply andb_true_iff in Env as [E1 E2]. rewrite forallb_forall in E1, E2.
  apply names_wellformed_all; [exact NR| |exact NL|exact RO|exact PB].
  intros c Hc. destruct (E c Hc) as (K & R & T). split; auto.
  intros D. specialize (E2 c Hc). rewrite D in E2. cbn [orb] in E2. apply negb_true_iff in E2.
  intros L. rewrite L in E2. discriminate.
Qed.
