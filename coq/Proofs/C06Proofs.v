(* C06: a well-closed output program that reports success never lost a destination write (the "loud" theorem). *)
From Coq Require Import List Arith Lia Bool.
From Coq Require Import Strings.Byte.
From NfpmV Require Import Lib.Bytes Model.Writers.
Import ListNotations.

Section P.
Variable fault : nat -> bool.
Local Notation dwrite := (Writers.dwrite fault).
Local Notation push := (Writers.push fault).
Local Notation fired := (Writers.fired fault).
Local Notation do_op := (Writers.do_op fault).
Local Notation exec := (Writers.exec fault).
Local Notation Inv := (Writers.Inv fault).

Lemma mono_refl ls : mono ls ls.
Proof. induction ls; constructor; auto. Qed.

Lemma fired_dwrite d d' e p : dwrite d p = (d', e) -> fired d' -> fired d \/ e = true.
Proof.
  unfold Writers.dwrite. intros H [i [Hi Fi]].
  destruct (fault (writes d)) eqn:F; inversion H; subst; cbn in *; auto.
  left. exists i. split; [|exact Fi].
  destruct (Nat.eq_dec i (writes d)) as [->|]; [congruence|lia].
Qed.

Lemma fired_mono_dwrite d d' e p : dwrite d p = (d', e) -> fired d -> fired d'.
Proof.
  unfold Writers.dwrite. intros H [i [Hi Fi]]. exists i. split; [|exact Fi].
  destruct (fault (writes d)); inversion H; subst; cbn; lia.
Qed.

Lemma push_spec : forall ls p force sched d ls' sched' d' e,
  push ls p force sched d = (ls', sched', d', e) ->
  mono ls ls' /\
  (fired d' -> fired d \/ e = true) /\
  (fired d -> fired d') /\
  (e = true -> match ls' with [] => True | l' :: _ => sticky l' end) /\
  (match ls with l :: _ => sticky l -> e = true | [] => True end).
Proof.
  induction ls as [|l below IH]; intros p force sched d ls' sched' d' e H; cbn [push] in H.
  - destruct (dwrite d p) as [d1 e1] eqn:W. inversion H; subst.
    repeat split; auto using mono_refl.
    + apply (fired_dwrite _ _ _ _ W).
    + apply (fired_mono_dwrite _ _ _ _ W).
  - destruct (lerr l) eqn:El.
    + inversion H; subst. repeat split; auto using mono_refl.
    + destruct (force || hd false sched).
      * destruct (push below (pend l ++ p) false (tl sched) d) as [[[b' s''] d1] e1] eqn:P.
        inversion H; subst. destruct (IH _ _ _ _ _ _ _ _ P) as (M & F1 & F2 & T & _).
        split; [|split; [|split; [|split]]].
        -- constructor; [unfold sticky; cbn; congruence|exact M].
        -- exact F1.
        -- exact F2.
        -- intros ->. reflexivity.
        -- unfold sticky. congruence.
      * inversion H; subst. split; [|split; [|split; [|split]]].
        -- constructor; [unfold sticky; cbn; congruence|apply mono_refl].
        -- auto.
        -- auto.
        -- intros; discriminate.
        -- unfold sticky. congruence.
Qed.

Lemma mono_exists a b : mono a b -> Exists sticky a -> Exists sticky b.
Proof. induction 1; intros E; inversion E; subst; auto. Qed.

Lemma mono_length a b : mono a b -> length a = length b.
Proof. induction 1; cbn; auto. Qed.

Lemma do_op_spec o s s' e n : length (ls s) = n -> op_j o <= n -> do_op o s = (s', e) ->
  length (ls s') = n /\
  mono (ls s) (ls s') /\
  (fired (dst s') -> fired (dst s) \/ e = true) /\
  (e = true -> op_j o < n -> Exists sticky (skipn (op_j o) (ls s'))) /\
  (match skipn (op_j o) (ls s) with l :: _ => sticky l -> e = true | [] => True end).
Proof.
  intros Hn Hj H. unfold Writers.do_op in H.
  destruct (match o with OWrite _ p _ => (p, false) | OClose _ t _ => (t, true) end) as [p force].
  destruct (push (skipn (op_j o) (ls s)) p force (sched s) (dst s)) as [[[sub' sc'] d'] e'] eqn:P.
  injection H as <- <-; cbn. destruct (push_spec _ _ _ _ _ _ _ _ _ P) as (M & F1 & _ & T & S).
  assert (Hlen : length sub' = n - op_j o).
  { rewrite <- (mono_length _ _ M), skipn_length. lia. }
  assert (Hsk : skipn (op_j o) (firstn (op_j o) (ls s) ++ sub') = sub').
  { rewrite skipn_app, firstn_length, Nat.min_l by lia.
    rewrite skipn_all2 by (rewrite firstn_length; lia). rewrite Nat.sub_diag. reflexivity. }
  repeat split.
  - rewrite app_length, firstn_length, Hlen. lia.
  - rewrite <- (firstn_skipn (op_j o) (ls s)) at 1. apply Forall2_app; [apply mono_refl|exact M].
  - exact F1.
  - intros He Hlt. rewrite Hsk. specialize (T He). destruct sub'; [cbn in Hlen; lia|]. constructor. exact T.
  - exact S.
Qed.

Lemma Inv0_step o s s' e n : length (ls s) = n -> op_j o <= n -> wf_op n o ->
  do_op o s = (s', e) -> Inv 0 s -> (e && op_checked o = false) -> Inv 0 s'.
Proof.
  intros Hn Hj Hwf H I Hc. destruct (do_op_spec _ _ _ _ _ Hn Hj H) as (_ & M & F1 & T & _).
  unfold Writers.Inv in *. cbn [skipn] in *. intros F. destruct (F1 F) as [Fd|He].
  - apply (mono_exists _ _ M). auto.
  - subst e. cbn in Hc. destruct Hwf as [Hk|Hlt]; [congruence|].
    specialize (T eq_refl Hlt).
    rewrite <- (firstn_skipn (op_j o) (ls s')). apply Exists_app. right. exact T.
Qed.

Lemma exec_body : forall ops s s' n, length (ls s) = n ->
  Forall (fun o => op_j o <= n /\ wf_op n o) ops -> Inv 0 s ->
  exec ops s = (s', false) -> Inv 0 s' /\ length (ls s') = n.
Proof.
  induction ops as [|o ops IH]; intros s s' n Hn Hwf I H; cbn [exec] in H.
  - inversion H; subst; auto.
  - inversion Hwf as [|? ? [Hj Hw] Hwf']; subst.
    destruct (do_op o s) as [s1 e] eqn:D.
    destruct (e && op_checked o) eqn:C; [discriminate|].
    destruct (do_op_spec _ _ _ _ _ eq_refl Hj D) as (L & _).
    apply (IH s1 s' (length (ls s))); [exact L|exact Hwf'| |exact H].
    apply (Inv0_step o s s1 e (length (ls s))); auto.
Qed.

Lemma skipn_S_cons {A} : forall j (l : list A) a rest, skipn j l = a :: rest -> skipn (S j) l = rest.
Proof.
  induction j as [|j IH]; intros l a rest H.
  - cbn in H. subst l. reflexivity.
  - destruct l as [|x l]; [discriminate|]. cbn in H. cbn [skipn]. apply (IH l a rest H).
Qed.

Lemma exec_closes : forall k j s s' tr, length (ls s) = j + k -> Inv j s ->
  exec (closes j k tr) s = (s', false) -> ~ fired (dst s').
Proof.
  induction k as [|k IH]; intros j s s' tr Hn I H; cbn [closes exec] in H.
  - inversion H; subst. intros F. specialize (I F). rewrite skipn_all2 in I by lia. inversion I.
  - destruct (do_op (OClose j (tr j) true) s) as [s1 e] eqn:D.
    assert (Hj : op_j (OClose j (tr j) true) <= length (ls s)) by (cbn; lia).
    destruct (do_op_spec _ _ _ _ (length (ls s)) eq_refl Hj D) as (L & M & F1 & _ & Hst).
    cbn [op_checked op_j] in *. rewrite andb_true_r in H. destruct e; [discriminate|].
    apply (IH (S j) s1 s' tr); [lia| |exact H].
    unfold Writers.Inv in *. intros F. destruct (F1 F) as [Fd|]; [|discriminate].
    specialize (I Fd).
    destruct (skipn j (ls s)) as [|l rest] eqn:Sk; [inversion I|].
    assert (Hrest : skipn (S j) (ls s) = rest).
    { apply (skipn_S_cons _ _ _ _ Sk). }
    apply Exists_cons in I as [Hl|Hr].
    + specialize (Hst Hl). discriminate.
    + assert (M' : mono (skipn (S j) (ls s)) (skipn (S j) (ls s1))).
      { clear - M. revert M. generalize (ls s) (ls s1) (S j). intros la. induction la as [|a la IHl]; intros l1 n M; inversion M; subst.
        - destruct n; cbn; constructor.
        - destruct n; cbn; [constructor; auto|apply IHl; auto]. }
      rewrite Hrest in M'. apply (mono_exists _ _ M' Hr).
Qed.

Theorem loud : forall body tr s s' n, length (ls s) = n ->
  Forall (fun o => op_j o <= n /\ wf_op n o) body -> ~ fired (dst s) ->
  exec (body ++ closes 0 n tr) s = (s', false) -> ~ fired (dst s').
Proof.
  intros body tr s s' n Hn Hwf Hnf H.
  assert (Hsplit : forall ops1 ops2 s0 sf, exec (ops1 ++ ops2) s0 = (sf, false) ->
            exists sm, exec ops1 s0 = (sm, false) /\ exec ops2 sm = (sf, false)).
  { induction ops1 as [|o ops1 IH1]; intros ops2 s0 sf He; cbn [app exec] in *.
    - eauto.
    - destruct (do_op o s0) as [s1 e]. destruct (e && op_checked o); [discriminate|]. apply IH1; exact He. }
  destruct (Hsplit _ _ _ _ H) as (sm & H1 & H2).
  destruct (exec_body body s sm n Hn Hwf) as [I L]; [intros F; contradiction|exact H1|].
  apply (exec_closes n 0 sm s' tr); [cbn; lia|exact I|exact H2].
Qed.

End P.

(* ---------- the packagers' output programs ---------- *)
From NfpmV Require Import Model.OutputProgs.

Lemma fresh_not_fired fault n sched : ~ Writers.fired fault (dst (fresh_stack n sched)).
Proof. intros [i [Hi _]]. cbn in Hi. lia. Qed.

Lemma fresh_length n sched : List.length (ls (fresh_stack n sched)) = n.
Proof. cbn. apply repeat_length. Qed.

(* no layers: every write goes straight to the destination and is checked *)
Lemma flat_program_loud fault (ops : list op) sched s' :
  Forall (fun o => op_j o = 0 /\ op_checked o = true) ops ->
  Writers.exec fault ops (fresh_stack 0 sched) = (s', false) -> ~ Writers.fired fault (dst s').
Proof.
  intros Hall H.
  apply (loud fault ops (fun _ => []) (fresh_stack 0 sched) s' 0 (fresh_length 0 sched)).
  - apply Forall_forall. intros o Hin. rewrite Forall_forall in Hall. destruct (Hall o Hin) as [Hj Hc].
    split; [lia|left; exact Hc].
  - apply fresh_not_fired.
  - cbn [closes]. rewrite app_nil_r. exact H.
Qed.

Lemma deb_member_checked m : Forall (fun o => op_j o = 0 /\ op_checked o = true) (deb_member true m).
Proof.
  unfold deb_member. apply Forall_app. split.
  - repeat constructor.
  - destruct (Nat.odd (List.length (snd m))); repeat constructor.
Qed.

Lemma deb_loud fault members sched s' :
  Writers.exec fault (prog_deb true members) (fresh_stack 0 sched) = (s', false) -> ~ Writers.fired fault (dst s').
Proof.
  apply flat_program_loud. unfold prog_deb. constructor; [split; reflexivity|].
  induction members as [|m r IH]; cbn [flat_map]; [constructor|].
  apply Forall_app. split; [apply deb_member_checked|exact IH].
Qed.

Lemma flat_loud fault parts sched s' :
  Writers.exec fault (prog_flat parts) (fresh_stack 0 sched) = (s', false) -> ~ Writers.fired fault (dst s').
Proof.
  apply flat_program_loud. unfold prog_flat. apply Forall_forall. intros o Hin.
  apply in_map_iff in Hin. destruct Hin as [p [<- _]]. split; reflexivity.
Qed.

Lemma arch_loud fault chunks trailer sched s' :
  Writers.exec fault (prog_arch true chunks trailer) (fresh_stack 2 sched) = (s', false) -> ~ Writers.fired fault (dst s').
Proof.
  intros H.
  apply (loud fault (map (fun c => OWrite 0 c true) chunks) (fun j => match j with 0 => trailer | _ => [] end)
              (fresh_stack 2 sched) s' 2 (fresh_length 2 sched)).
  - apply Forall_forall. intros o Hin. apply in_map_iff in Hin. destruct Hin as [c [<- _]]. cbn. split; [lia|left; reflexivity].
  - apply fresh_not_fired.
  - exact H.
Qed.

Lemma deb_members_count pc members :
  List.length (flat_map (deb_member pc) members) =
  fold_right (fun (o : bool) (acc : nat) => (if o then 3 else 2) + acc) 0 (map (fun m => Nat.odd (List.length (snd m))) members).
Proof.
  induction members as [|m r IH]; [reflexivity|].
  cbn [flat_map map fold_right]. rewrite app_length, IH. f_equal.
  unfold deb_member.
  assert (H : forall (b : bool) (x y z : op), List.length ([x; y] ++ (if b then [z] else [])) = if b then 3 else 2)
    by (intros [|] x y z; reflexivity).
  apply H.
Qed.

Lemma deb_write_count pc members :
  List.length (prog_deb pc members) = deb_dest_writes (map (fun m => Nat.odd (List.length (snd m))) members).
Proof.
  unfold prog_deb, deb_dest_writes. cbn [List.length]. rewrite deb_members_count. reflexivity.
Qed.

(* REFUTED for the code before the fixes: the destination loses a write and the program reports success *)
Lemma arch_unchecked_closes_refuted :
  exists s', Writers.exec first_write_fails (prog_arch false [[x61]%byte] []) (fresh_stack 2 []) = (s', false)
             /\ Writers.fired first_write_fails (dst s').
Proof.
  eexists. split; [vm_compute; reflexivity|]. exists 0. split; [cbn; lia|reflexivity].
Qed.

Lemma deb_unchecked_pad_refuted :
  exists fault s', Writers.exec fault (prog_deb false [([x68]%byte, [x62]%byte)]) (fresh_stack 0 []) = (s', false)
                   /\ Writers.fired fault (dst s').
Proof.
  exists (fun i => Nat.eqb i 3). eexists. split; [vm_compute; reflexivity|]. exists 3. split; [cbn; lia|reflexivity].
Qed.
