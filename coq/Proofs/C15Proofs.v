(* C15: where the command line writes, and which packager it uses. *)
From Coq Require Import List NArith ZArith Bool String.
From Coq Require Import Strings.Byte.
From NfpmV Require Import Lib.Bytes Model.Path Model.Content Model.Meta Model.Cli.
Import ListNotations.

(* a packager given on the command line is the one used: the extension is consulted only without one *)
Theorem flag_wins registered target is_dir flag conv pk path :
  nonempty flag = true -> cli_plan registered target is_dir flag conv = CliOk pk path -> pk = flag.
Proof.
  unfold cli_plan. intros ->. destruct (negb (existsb (seqb flag) registered)); [discriminate|].
  intros H. injection H as <- _. reflexivity.
Qed.

(* the package is written exactly at a requested file, under the conventional name inside a requested
   directory, and under the conventional name in the working directory when nothing is requested *)
Theorem target_exact registered target is_dir flag conv pk path :
  cli_plan registered target is_dir flag conv = CliOk pk path ->
  path = (if negb (nonempty target) then conv else if is_dir then join2 target conv else target).
Proof.
  unfold cli_plan. destruct (if nonempty flag then _ else _) as [p|]; [|discriminate].
  destruct (negb (existsb (seqb p) registered)); [discriminate|]. intros H. injection H as _ <-. reflexivity.
Qed.

Lemma ext_rev_head : forall r acc e0 e, ext_rev acc r = e0 :: e -> e0 = dot.
Proof.
  induction r as [|b r IH]; intros acc e0 e E; cbn [ext_rev] in E; [discriminate|].
  destruct (is_slash b); [discriminate|]. destruct (beq b dot); [injection E as <- _; reflexivity|eapply IH; eauto].
Qed.

(* without a packager the target must be a file with an extension naming a registered packager *)
Theorem inference_needs_extension registered target is_dir conv pk path :
  cli_plan registered target is_dir [] conv = CliOk pk path ->
  is_dir = false /\ ext_of target = dot :: pk /\ existsb (seqb pk) registered = true.
Proof.
  unfold cli_plan. cbn [nonempty]. destruct is_dir; cbn [orb]; [discriminate|].
  destruct (ext_of target) as [|e0 e] eqn:E; cbn [nonempty negb]; [discriminate|].
  destruct (existsb (seqb (tl (e0 :: e))) registered) eqn:R; cbn [negb]; [|discriminate].
  intros H. injection H as <- _. cbn [tl] in *. split; [reflexivity|]. split; [|exact R].
  unfold ext_of in E. rewrite (ext_rev_head _ _ _ _ E). reflexivity.
Qed.

Example cli_witness :
  cli_plan [B "deb"; B "rpm"] (B "out/x.deb") false [] (B "p_1_amd64.deb") = CliOk (B "deb") (B "out/x.deb") /\
  cli_plan [B "deb"; B "rpm"] (B "dist") true (B "rpm") (B "p-1-1.x86_64.rpm") = CliOk (B "rpm") (B "dist/p-1-1.x86_64.rpm") /\
  cli_plan [B "deb"; B "rpm"] [] false (B "rpm") (B "p-1-1.x86_64.rpm") = CliOk (B "rpm") (B "p-1-1.x86_64.rpm") /\
  cli_plan [B "deb"; B "rpm"] (B "dist") true [] (B "x") = CliErr /\
  cli_plan [B "deb"; B "rpm"] (B "x.pkg.tar.zst") false [] (B "x") = CliErr.
Proof. vm_compute. repeat split. Qed.
