(* C04: member names of the payload tar, for every prepared entry: relative, "./"-prefixed for deb/ipk,
   free of "..", directories end in a slash; and unique for plans with distinct locations. *)
From Coq Require Import List NArith ZArith Lia Bool Sorting.Permutation.
From Coq Require Import Strings.Byte.
From NfpmV Require Import Lib.Bytes Model.Path Model.Content Model.Prepare Model.Payload Spec.C05 Spec.C01 Spec.C04.
From NfpmV Require Import Proofs.PathFacts Proofs.KeyFacts Proofs.RelFacts Proofs.StepInv Proofs.C05Proofs Proofs.C01Proofs.
Import ListNotations.

(* the tar name of a key: relative spelling, directories with a trailing slash; the root is "" *)
Definition tname (q : list str) (d : bool) : str :=
  if d then match q with [] => [] | _ => rel_key q ++ [slash] end else rel_key q.

Lemma rel_key_not_dot q : Forall good_comp q -> q <> [] -> seqb (rel_key q) [dot] = false /\ is_empty (rel_key q) = false.
Proof.
  intros G NE. destruct q as [|c q]; [contradiction|]. inversion G as [|? ? Hc Hq]; subst.
  rewrite rel_key_cons. destruct Hc as (H1 & H2 & _ & _). destruct c as [|b c]; [contradiction|]. split; [|reflexivity].
  apply seqb_neq. intros E. cbn [app] in E. injection E as -> E.
  destruct c; cbn [app] in E; [|discriminate]. vm_compute in H2. discriminate.
Qed.

Lemma as_rel_dkey_exact q : Forall good_comp q -> as_rel (dkey q) = tname q true.
Proof.
  intros G. destruct q as [|c q]; [reflexivity|]. assert (c :: q <> []) as NE by discriminate.
  unfold as_rel. rewrite to_nix_dkey, trim_left_fkey by exact G.
  destruct (rel_key_not_dot _ G NE) as [-> ->]. rewrite dkey_suffix. reflexivity.
Qed.

Lemma as_rel_key_exact c q : vkey (c_dst c) q (is_dir_typ (c_typ c)) -> (is_dir_typ (c_typ c) = false -> q <> []) ->
  as_rel (c_dst c) = tname q (is_dir_typ (c_typ c)).
Proof.
  intros [G E] NR. rewrite E. destruct (is_dir_typ (c_typ c)).
  - apply as_rel_dkey_exact. exact G.
  - apply as_rel_fkey; auto.
Qed.

(* ---- properties of one name ---- *)
Lemma tname_relative q d : Forall good_comp q -> is_relative (tname q d) = true.
Proof.
  intros G. unfold tname. destruct q as [|c q]; [destruct d; reflexivity|]. inversion G as [|? ? Hc _]; subst.
  destruct (good_head_noslash c Hc) as (b & r & -> & Hb).
  destruct d; rewrite rel_key_cons; cbn [app is_relative]; rewrite Hb; reflexivity.
Qed.

Lemma existsb_dotdot_good q : Forall good_comp q -> existsb is_dotdot q = false.
Proof.
  induction 1 as [|c q Hc _ IH]; [reflexivity|]. cbn [existsb]. destruct Hc as (_ & _ & -> & _). exact IH.
Qed.

Lemma split_rel_key_slash c q : Forall good_comp (c :: q) -> split (rel_key (c :: q) ++ [slash]) = (c :: q) ++ [[]].
Proof.
  intros G. unfold split. rewrite split_aux_snoc_slash. fold (split (rel_key (c :: q))). rewrite split_rel_key by exact G. reflexivity.
Qed.

Lemma tname_no_dotdot q d : Forall good_comp q -> no_dotdot (tname q d) = true.
Proof.
  intros G. unfold no_dotdot, tname. apply negb_true_iff. destruct q as [|c q]; [destruct d; reflexivity|].
  destruct d.
  - rewrite split_rel_key_slash by exact G. rewrite existsb_app, existsb_dotdot_good by exact G. reflexivity.
  - rewrite split_rel_key by exact G. apply existsb_dotdot_good. exact G.
Qed.

Lemma tname_dir_slash q : has_suffix [slash] (tname q true) = true \/ tname q true = [].
Proof. unfold tname. destruct q; [right; reflexivity|left; apply has_suffix_snoc_slash]. Qed.

Lemma explicit_no_dotdot n : no_dotdot n = true -> is_relative n = true -> no_dotdot (dot :: slash :: n) = true.
Proof.
  unfold no_dotdot, split. intros H _. cbn [split_aux]. 
  assert (is_slash dot = false) as -> by reflexivity. rewrite is_slash_slash. cbn [rev existsb is_dotdot].
  exact H.
Qed.

(* names are injective in the location *)
Lemma tname_location q d : Forall good_comp q -> strip_dir_slash (slash :: tname q d) = loc_of q.
Proof.
  intros G. unfold tname. destruct d; [destruct q as [|c q]; [reflexivity|]|];
    apply logical_rel_any; auto. right. split; [discriminate|reflexivity].
Qed.

(* ---- the names a packager writes ---- *)
Definition member_name (f : fmt) (c : content) (q : list str) : str :=
  match f with
  | FDeb | FIpk => dot :: slash :: tname q (is_dir_typ (c_typ c))
  | _ => tname q (is_dir_typ (c_typ c))
  end.

Lemma member_name_ok f c q : Forall good_comp q ->
  let n := member_name f c q in
  is_relative n = true /\ no_dotdot n = true /\
  (match f with FDeb | FIpk => dot_prefixed n = true | _ => True end) /\
  (is_dir_typ (c_typ c) = true -> has_suffix [slash] n = true \/ n = []).
Proof.
  intros G n. unfold n, member_name.
  pose proof (tname_relative q (is_dir_typ (c_typ c)) G) as R.
  pose proof (tname_no_dotdot q (is_dir_typ (c_typ c)) G) as ND.
  destruct f; repeat split; auto; try (apply explicit_no_dotdot; assumption);
    try (unfold dot_prefixed; cbn [has_prefix]; rewrite !beq_refl; reflexivity);
    intros D; rewrite D.
  - left. destruct (tname_dir_slash q) as [H|H].
    + unfold has_suffix in *. cbn [rev] in *. rewrite <- !app_assoc. 
      destruct (rev (tname q true)) as [|b r] eqn:E; [discriminate|]. cbn [app has_prefix] in *. exact H.
    + rewrite H. reflexivity.
  - apply tname_dir_slash.
  - apply tname_dir_slash.
  - left. destruct (tname_dir_slash q) as [H|H].
    + unfold has_suffix in *. cbn [rev] in *. rewrite <- !app_assoc.
      destruct (rev (tname q true)) as [|b r] eqn:E; [discriminate|]. cbn [app has_prefix] in *. exact H.
    + rewrite H. reflexivity.
  - apply tname_dir_slash.
Qed.

(* ---- every payload entry of deb, ipk, apk, archlinux carries the member name of its key ---- *)
Definition is_dir_kind (k : pkind) : bool := match k with KDir => true | _ => false end.

Lemma entry_name f mt c q : f <> FRpm -> prepared_entry f c -> vkey (c_dst c) q (is_dir_typ (c_typ c)) ->
  exists e, entry_of f mt c = [e] /\ pe_path e = member_name f c q /\ is_dir_kind (pe_kind e) = is_dir_typ (c_typ c).
Proof.
  intros NR P K. pose proof P as [_ T R S NRoot].
  pose proof (nonrpm_not_rpm_only f c NR R) as NRO. pose proof (not_ghost_of_not_rpm_only _ NRO) as NG.
  assert (is_dir_typ (c_typ c) = false -> q <> []) as NRq.
  { intros D ->. apply (NRoot D). rewrite (location_of_key c [] K). reflexivity. }
  pose proof (as_rel_key_exact c q K NRq) as AR.
  destruct f; try contradiction; cbn [entry_of member_name].
  - unfold deb_entry. rewrite NG.
    destruct (is_dir_typ (c_typ c)) eqn:D; [|destruct (seqb (c_typ c) TSymlink); [|destruct (seqb (c_typ c) TDebChangelog)]].
    all: eexists; (split; [reflexivity|]); cbn [pe_path pe_kind is_dir_kind]; unfold as_explicit_rel.
    all: rewrite AR; auto.
  - unfold tarlike_entry.
    destruct (is_dir_typ (c_typ c)) eqn:D; [|destruct (seqb (c_typ c) TSymlink)].
    all: eexists; (split; [reflexivity|]); cbn [pe_path pe_kind is_dir_kind].
    1,2: rewrite AR; auto.
    split; [|reflexivity]. rewrite AR. unfold tname. apply as_rel_rel_key; [apply K|apply NRq; reflexivity].
  - pose proof (nondeb_not_changelog FIpk c ltac:(discriminate) R) as NC.
    unfold ipk_entry.
    destruct (is_dir_typ (c_typ c)) eqn:D; [|destruct (seqb (c_typ c) TSymlink) eqn:Sy; [|rewrite (plain_file_typ _ T NRO NC D Sy)]].
    all: eexists; (split; [reflexivity|]); cbn [pe_path pe_kind is_dir_kind]; unfold as_explicit_rel.
    all: rewrite AR; auto.
  - unfold tarlike_entry.
    destruct (is_dir_typ (c_typ c)) eqn:D; [|destruct (seqb (c_typ c) TSymlink)].
    all: eexists; (split; [reflexivity|]); cbn [pe_path pe_kind is_dir_kind].
    all: rewrite AR; auto.
Qed.

Lemma member_name_inj f c1 q1 c2 q2 : Forall good_comp q1 -> Forall good_comp q2 ->
  member_name f c1 q1 = member_name f c2 q2 -> q1 = q2.
Proof.
  intros G1 G2 E.
  assert (tname q1 (is_dir_typ (c_typ c1)) = tname q2 (is_dir_typ (c_typ c2))) as E'.
  { destruct f; cbn [member_name] in E; try exact E; injection E as E; exact E. }
  apply (f_equal (fun n => strip_dir_slash (slash :: n))) in E'. rewrite !tname_location in E' by assumption.
  apply join_abs_inj; assumption.
Qed.

Definition members_of (l : list pentry) : list (str * bool) := map (fun e => (pe_path e, is_dir_kind (pe_kind e))) l.

(* apk and archlinux name the root directory "": a plan that contains it gets a member without a name *)
Definition named_root_ok (f : fmt) (cs : list content) : Prop :=
  match f with FApk | FArch => forall c, In c cs -> location c <> [] | _ => True end.

Lemma member_name_nonempty f c q : Forall good_comp q ->
  (match f with FApk | FArch | FRpm => q <> [] | _ => True end) -> member_name f c q <> [].
Proof.
  intros G H. destruct f; cbn [member_name]; try discriminate; unfold tname;
    destruct (is_dir_typ (c_typ c)); destruct q as [|x q]; try contradiction; try (destruct (rel_key (x :: q)); discriminate);
    destruct (rel_key_not_dot (x :: q) G ltac:(discriminate)) as [_ E]; destruct (rel_key (x :: q)); discriminate.
Qed.

(* every clause of the name checker except "parents precede children" holds of the payload model *)
Theorem names_wellformed f mt cs : f <> FRpm -> all_prepared f cs -> NoDup (map location cs) -> named_root_ok f cs ->
  forall cl, In cl (check_names f (members_of (payload_of f mt cs))) -> cl = WParents.
Proof.
  intros NR AP ND RO.
  assert (payload_of f mt cs = flat_map (entry_of f mt) cs) as -> by (destruct f; try contradiction; reflexivity).
  (* describe the member list: one member per entry, named after its key *)
  assert (exists l : list (content * list str),
            map fst l = cs /\ (forall c q, In (c, q) l -> vkey (c_dst c) q (is_dir_typ (c_typ c))) /\
            members_of (flat_map (entry_of f mt) cs) = map (fun '(c, q) => (member_name f c q, is_dir_typ (c_typ c))) l) as (l & El & Kl & Ml).
  { clear ND RO. induction cs as [|c cs IH].
    - exists []. split; [reflexivity|]. split; [intros c0 q0 []|reflexivity].
    - destruct IH as (l & El & Kl & Ml); [intros c' Hc'; apply AP; right; exact Hc'|].
      destruct (pr_key f c (AP c (or_introl eq_refl))) as (q & K).
      destruct (entry_name f mt c q NR (AP c (or_introl eq_refl)) K) as (e & Ee & Pe & Ke).
      exists ((c, q) :: l). split; [cbn; rewrite El; reflexivity|]. split.
      + intros c' q' [H|H]; [injection H as <- <-; exact K|eapply Kl; eauto].
      + cbn [flat_map]. rewrite Ee. unfold members_of in *. cbn [app map]. rewrite Ml, Pe, Ke. reflexivity. }
  rewrite Ml. unfold check_names.
  assert (forall c q, In (c, q) l -> Forall good_comp q) as Gl by (intros c q H; apply (Kl c q H)).
  set (names := map fst (map (fun '(c, q) => (member_name f c q, is_dir_typ (c_typ c))) l)).
  assert (names = map (fun '(c, q) => member_name f c q) l) as En.
  { unfold names. rewrite map_map. apply map_ext. intros [c q]. reflexivity. }
  assert (nodupb names = true) as ->.
  { apply nodupb_NoDup. rewrite En.
    assert (NoDup (map (fun cq : content * list str => location (fst cq)) l)) as NDl.
    { rewrite <- (map_map fst location), El. exact ND. }
    clear - NDl Kl Gl. induction l as [|[c q] l IH]; [constructor|]. cbn [map] in *. inversion NDl as [|? ? Hn NDl']; subst.
    constructor.
    - intros H. apply in_map_iff in H as ([c' q'] & E & H'). apply Hn. apply in_map_iff. exists (c', q'). split; [|exact H'].
      cbn [fst]. rewrite (location_of_key c q (Kl c q (or_introl eq_refl))), (location_of_key c' q' (Kl c' q' (or_intror H'))).
      f_equal. symmetry. eapply member_name_inj; [eapply Gl; left; reflexivity|eapply Gl; right; exact H'|]. symmetry. exact E.
    - apply IH; first [exact NDl' | (intros c' q' H; apply (Kl c' q'); right; exact H) | (intros c' q' H; apply (Gl c' q'); right; exact H)]. }
  assert (forall c q, In (c, q) l -> is_relative (member_name f c q) = true /\ no_dotdot (member_name f c q) = true /\
            (match f with FDeb | FIpk => dot_prefixed (member_name f c q) = true | _ => True end) /\
            (is_dir_typ (c_typ c) = true -> has_suffix [slash] (member_name f c q) = true \/ member_name f c q = [])) as OK.
  { intros c q H. apply member_name_ok. eapply Gl; eauto. }
  assert (forallb is_relative names = true) as ->.
  { rewrite En. apply forallb_forall. intros n Hn. apply in_map_iff in Hn as ([c q] & <- & H). apply (OK c q H). }
  assert ((match f with FDeb | FIpk => forallb dot_prefixed names | _ => true end) = true) as ->.
  { rewrite En. destruct f; try reflexivity; apply forallb_forall; intros n Hn; apply in_map_iff in Hn as ([c q] & <- & H); apply (OK c q H). }
  assert (forallb no_dotdot names = true) as ->.
  { rewrite En. apply forallb_forall. intros n Hn. apply in_map_iff in Hn as ([c q] & <- & H). apply (OK c q H). }
  assert (forallb (fun '(n, d) => negb d || has_suffix [slash] n || seqb n [])
            (map (fun '(c, q) => (member_name f c q, is_dir_typ (c_typ c))) l) = true) as ->.
  { apply forallb_forall. intros [n d] Hn. apply in_map_iff in Hn as ([c q] & E & H). injection E as <- <-.
    destruct (is_dir_typ (c_typ c)) eqn:D; [|reflexivity]. cbn [negb orb].
    destruct (proj2 (proj2 (proj2 (OK c q H))) D) as [-> | ->]; [reflexivity|]. rewrite orb_true_r. reflexivity. }
  assert (negb (existsb (fun n => seqb n []) names) = true) as ->.
  { apply negb_true_iff. destruct (existsb (fun n => seqb n []) names) eqn:Ex; [|reflexivity]. exfalso.
    apply existsb_exists in Ex as (n & Hn & En0). apply seqb_eq in En0. subst n. rewrite En in Hn.
    apply in_map_iff in Hn as ([c q] & E0 & H).
    apply (member_name_nonempty f c q (Gl c q H)); [|exact E0].
    assert (Hc : In c cs) by (rewrite <- El; apply (in_map fst _ _ H)).
    destruct f; try exact I; try contradiction; intros ->; apply (RO c Hc); rewrite (location_of_key c [] (Kl c [] H)); reflexivity. }
  cbn [app]. intros cl Hcl. destruct (parents_precedeb [] names); [destruct Hcl|]. destruct Hcl as [<-|[]]. reflexivity.
Qed.
