(* C01 for plans produced by the planning model. *)
From Coq Require Import List NArith ZArith Lia Bool.
From Coq Require Import Strings.Byte.
From NfpmV Require Import Lib.Bytes Model.Path Model.Content Model.Prepare Model.Payload Spec.C05 Spec.C01.
From NfpmV Require Import Proofs.KeyFacts Proofs.C01Proofs Proofs.PlanFacts.
Import ListNotations.

Theorem payload_fidelity f hashes fs st ces umask mt cs :
  oracle_okb fs st umask mt ces = true ->
  prep fs st ces umask (fmt_name f) mt = Ok cs ->
  envelope_C01 cs = true ->
  check_C01 f hashes cs (payload_of f mt cs) = [].
Proof.
  intros OK H Env. destruct (plan_entries _ _ _ _ _ _ _ OK H) as (E & NL & _).
  unfold envelope_C01 in Env. apply andb_true_iff in Env as [E1 E2].
  rewrite forallb_forall in E1, E2.
  apply payload_meets_denotation; [|exact NL].
  intros c Hc. destruct (E c Hc) as (K & R & T). split; auto.
  intros D. specialize (E2 c Hc). rewrite D in E2. cbn [orb] in E2. apply negb_true_iff in E2.
  intros L. rewrite L in E2. discriminate.
Qed.

Theorem denote_format_independent f cs :
  denote f cs = map denote_entry (filter (in_payload f) cs) /\
  (forall c, in_payload f c = true -> in_payload FDeb c = true).
Proof.
  split; [reflexivity|]. intros c H. unfold in_payload in *. apply andb_true_iff in H as [H _]. rewrite H. reflexivity.
Qed.
