(* C14, rpm: for EVERY common prefix U - whatever characters it is made of - U~R sorts strictly before U and before
   U+metadata under rpmvercmp: a prerelease build before the release. *)
From Coq Require Import List NArith ZArith Bool Arith Lia.
From Coq Require Import Strings.Byte.
From NfpmV Require Import Lib.Bytes Model.Path Model.Content Model.Meta Model.Version Model.VerCmp.
From NfpmV Require Import Proofs.C14Proofs.
Import ListNotations.
Open Scope list_scope.

Local Notation tilde := ("~"%byte).

Lemma drop_while_app_stop f : forall U x R, f x = false -> drop_while f (U ++ x :: R) = drop_while f U ++ x :: R.
Proof.
  induction U as [|u U IH]; intros x R Hx; cbn [app drop_while].
  - rewrite Hx. reflexivity.
  - destruct (f u); [apply IH; exact Hx|reflexivity].
Qed.

Lemma take_while_app_stop f : forall U x R, f x = false -> take_while f (U ++ x :: R) = take_while f U.
Proof.
  induction U as [|u U IH]; intros x R Hx; cbn [app take_while].
  - rewrite Hx. reflexivity.
  - destruct (f u); [f_equal; apply IH; exact Hx|reflexivity].
Qed.

Lemma take_while_app_end f : forall U B, (match B with [] => true | y :: _ => negb (f y) end) = true ->
  take_while f (U ++ B) = take_while f U.
Proof.
  intros U B H. destruct B as [|y B]; [rewrite app_nil_r; reflexivity|]. apply take_while_app_stop. apply negb_true_iff. exact H.
Qed.

Lemma take_while_length_le f : forall U, List.length (take_while f U) <= List.length U.
Proof. induction U as [|u U IH]; cbn [take_while List.length]; [lia|]. destruct (f u); cbn [List.length]; lia. Qed.

Lemma skipn_app_le {A} : forall n (U V : list A), n <= List.length U -> skipn n (U ++ V) = skipn n U ++ V.
Proof.
  induction n as [|n IH]; intros U V H; [reflexivity|]. destruct U as [|u U]; [cbn in H; lia|].
  cbn [app skipn]. apply IH. cbn [List.length] in H. lia.
Qed.

Lemma drop_while_length_le f : forall U, List.length (drop_while f U) <= List.length U.
Proof. induction U as [|u U IH]; cbn [drop_while List.length]; [lia|]. destruct (f u); cbn [List.length]; lia. Qed.

(* what may follow the common prefix in the release's version: nothing, or a separator (the "+" of the metadata)
   after which no "~" comes first *)
Definition release_tail (B : str) : Prop :=
  (match B with [] => true | y :: _ => negb (is_alnum y) && negb (beq y tilde) end) = true /\
  (match drop_while rpm_sepchar B with [] => true | y :: _ => negb (beq y tilde) end) = true.

Lemma tilde_not_sep : rpm_sepchar tilde = false. Proof. reflexivity. Qed.
Lemma tilde_not_digit : is_digit tilde = false. Proof. reflexivity. Qed.
Lemma tilde_not_alpha : is_alpha tilde = false. Proof. reflexivity. Qed.

(* the prefix is used up: "~R" against the release's tail *)
Lemma rpm_tail_step f R B : release_tail B -> rpmvercmp (S f) (tilde :: R) B = Some Lt.
Proof.
  intros [_ HB]. cbn [rpmvercmp]. cbn [drop_while]. rewrite tilde_not_sep.
  destruct (drop_while rpm_sepchar B) as [|y B'] eqn:E.
  - reflexivity.
  - apply negb_true_iff in HB. assert (beq tilde tilde = true) as -> by reflexivity. rewrite HB. reflexivity.
Qed.

Theorem rpmvercmp_tilde_lt : forall n U R B fuel, List.length U <= n -> n < fuel -> release_tail B ->
  rpmvercmp fuel (U ++ tilde :: R) (U ++ B) = Some Lt.
Proof.
  induction n as [|n IH]; intros U R B fuel Hn Hf TB.
  - destruct U; [|cbn in Hn; lia]. destruct fuel as [|f]; [lia|]. apply rpm_tail_step. exact TB.
  - destruct fuel as [|f]; [lia|].
    destruct (drop_while rpm_sepchar U) as [|x U'] eqn:EU.
    + (* only separators left of the prefix *)
      cbn [rpmvercmp]. rewrite (drop_while_app_stop rpm_sepchar U tilde R tilde_not_sep), EU. cbn [app].
      assert (Hb : drop_while rpm_sepchar (U ++ B) = drop_while rpm_sepchar B).
      { clear - EU. induction U as [|u U IHU]; [reflexivity|]. cbn [app drop_while] in *. destruct (rpm_sepchar u); [apply IHU; exact EU|discriminate EU]. }
      rewrite Hb. destruct TB as [_ HB]. destruct (drop_while rpm_sepchar B) as [|y B']; [reflexivity|].
      apply negb_true_iff in HB. assert (beq tilde tilde = true) as -> by reflexivity. rewrite HB. reflexivity.
    + assert (Hx : rpm_sepchar x = false).
      { clear - EU. induction U as [|u U IHU]; [discriminate EU|]. cbn [drop_while] in EU. destruct (rpm_sepchar u) eqn:Eu; [apply IHU; exact EU|]. injection EU as <- _. exact Eu. }
      assert (HlenU' : List.length U' < List.length U).
      { pose proof (drop_while_length_le rpm_sepchar U) as L. rewrite EU in L. cbn [List.length] in L. lia. }
      assert (Ha : drop_while rpm_sepchar (U ++ tilde :: R) = x :: U' ++ tilde :: R)
        by (rewrite (drop_while_app_stop rpm_sepchar U tilde R tilde_not_sep), EU; reflexivity).
      assert (Hb : drop_while rpm_sepchar (U ++ B) = x :: U' ++ B).
      { clear - EU. revert EU. induction U as [|u U IHU]; intros EU; [discriminate EU|]. cbn [app drop_while] in *.
        destruct (rpm_sepchar u); [apply IHU; exact EU|]. injection EU as -> ->. reflexivity. }
      cbn [rpmvercmp]. rewrite Ha, Hb.
      destruct (beq x tilde) eqn:Et.
      * (* a tilde inside the prefix: both sides have it *)
        cbn [orb negb tl]. apply IH; [lia|lia|exact TB].
      * cbn [orb]. destruct (beq x "^"%byte) eqn:Ec.
        -- cbn [orb negb tl]. apply IH; [lia|lia|exact TB].
        -- cbn [orb].
           assert (Hal : is_alnum x = true).
           { unfold rpm_sepchar in Hx. rewrite Et, Ec in Hx. cbn [negb andb] in Hx. rewrite !andb_true_r in Hx. apply negb_false_iff in Hx. exact Hx. }
           set (cls := if is_digit x then is_digit else is_alpha).
           assert (Hclsx : cls x = true).
           { unfold cls. destruct (is_digit x) eqn:Ed; [exact Ed|]. unfold is_alnum in Hal. rewrite Ed in Hal. exact Hal. }
           assert (Hclst : cls tilde = false) by (unfold cls; destruct (is_digit x); reflexivity).
           assert (HclsB : (match B with [] => true | y :: _ => negb (cls y) end) = true).
           { destruct TB as [HB _]. destruct B as [|y B']; [reflexivity|]. apply andb_true_iff in HB. destruct HB as [HB _].
             apply negb_true_iff in HB. apply negb_true_iff. unfold is_alnum in HB. apply orb_false_iff in HB. destruct HB as [H1 H2].
             unfold cls. destruct (is_digit x); assumption. }
           set (s := take_while cls (x :: U')).
           assert (Hsa : take_while cls (x :: U' ++ tilde :: R) = s)
             by (change (x :: U' ++ tilde :: R) with ((x :: U') ++ tilde :: R); apply take_while_app_stop; exact Hclst).
           assert (Hsb : take_while cls (x :: U' ++ B) = s)
             by (change (x :: U' ++ B) with ((x :: U') ++ B); apply take_while_app_end; exact HclsB).
           fold cls. rewrite Hsa, Hsb.
           assert (Hs : exists s', s = x :: s') by (unfold s; cbn [take_while]; rewrite Hclsx; eexists; reflexivity).
           destruct Hs as [s' Es]. rewrite Es.
           assert (Hc : (if is_digit x
                         then cmp_digit_runs (drop_while (fun d => beq d "0"%byte) (x :: s')) (drop_while (fun d => beq d "0"%byte) (x :: s'))
                         else lex_cmp (x :: s') (x :: s')) = Eq)
             by (destruct (is_digit x); [apply cmp_digit_runs_refl|apply lex_cmp_refl]).
           rewrite Hc.
           assert (Hls : List.length (x :: s') <= List.length (x :: U')) by (rewrite <- Es; apply take_while_length_le).
           change (x :: U' ++ tilde :: R) with ((x :: U') ++ tilde :: R). change (x :: U' ++ B) with ((x :: U') ++ B).
           rewrite !skipn_app_le by exact Hls.
           apply IH; [|lia|exact TB].
           rewrite skipn_length. cbn [List.length] in *. lia.
Qed.

Corollary rpm_pre_lt_release e U R B r1 r2 : release_tail B ->
  rpm_cmp e (U ++ tilde :: R) r1 e (U ++ B) r2 = Some Lt.
Proof.
  intros TB. unfold rpm_cmp. rewrite Z.compare_refl.
  rewrite (rpmvercmp_tilde_lt (List.length U) U R B); [reflexivity|lia| |exact TB].
  rewrite !app_length. cbn [List.length]. lia.
Qed.

Lemma release_tail_nil : release_tail []. Proof. split; reflexivity. Qed.
Lemma release_tail_plus m : (match drop_while rpm_sepchar m with [] => true | y :: _ => negb (beq y tilde) end) = true ->
  release_tail ("+"%byte :: m).
Proof. intros H. split; [reflexivity|]. cbn [drop_while]. assert (rpm_sepchar "+"%byte = true) as -> by reflexivity. exact H. Qed.
