(* Byte strings as [list byte]; Go's string comparison is bytewise lexicographic. *)
From Coq Require Import List NArith Lia Bool.
From Coq Require Import Strings.Byte.
Import ListNotations.

Definition str := list byte.

Definition beq (a b : byte) : bool := Byte.eqb a b.

Lemma beq_refl a : beq a a = true.
Proof. unfold beq. apply Byte.byte_dec_lb. reflexivity. Qed.

Lemma beq_eq a b : beq a b = true <-> a = b.
Proof.
  unfold beq. split.
  - apply Byte.byte_dec_bl.
  - apply Byte.byte_dec_lb.
Qed.

Lemma beq_neq a b : beq a b = false <-> a <> b.
Proof.
  split.
  - intros H E. subst. rewrite beq_refl in H. discriminate.
  - intros H. destruct (beq a b) eqn:E; [|reflexivity]. apply beq_eq in E. contradiction.
Qed.

Fixpoint seqb (a b : str) : bool :=
  match a, b with
  | [], [] => true
  | x :: a', y :: b' => beq x y && seqb a' b'
  | _, _ => false
  end.

Lemma seqb_eq a b : seqb a b = true <-> a = b.
Proof.
  revert b. induction a as [|x a IH]; intros [|y b]; cbn; try (split; congruence).
  rewrite andb_true_iff, beq_eq, IH. split.
  - intros [-> ->]. reflexivity.
  - intros H. injection H as -> ->. auto.
Qed.

Lemma seqb_refl a : seqb a a = true.
Proof. apply seqb_eq. reflexivity. Qed.

Lemma seqb_neq a b : seqb a b = false <-> a <> b.
Proof.
  split.
  - intros H E. subst. rewrite seqb_refl in H. discriminate.
  - intros H. destruct (seqb a b) eqn:E; [|reflexivity]. apply seqb_eq in E. contradiction.
Qed.

Definition bN (b : byte) : N := Byte.to_N b.

Lemma bN_inj a b : bN a = bN b -> a = b.
Proof.
  unfold bN. intros H.
  assert (Some a = Some b) as E.
  { rewrite <- (Byte.of_to_N a), <- (Byte.of_to_N b), H. reflexivity. }
  congruence.
Qed.

(* bytewise lexicographic comparison: Go's < on strings *)
Fixpoint lex_cmp (a b : str) : comparison :=
  match a, b with
  | [], [] => Eq
  | [], _ :: _ => Lt
  | _ :: _, [] => Gt
  | x :: a', y :: b' =>
      match N.compare (bN x) (bN y) with
      | Eq => lex_cmp a' b'
      | c => c
      end
  end.

Definition lex_ltb (a b : str) : bool := match lex_cmp a b with Lt => true | _ => false end.
Definition lex_lt (a b : str) : Prop := lex_cmp a b = Lt.

Lemma lex_cmp_eq a b : lex_cmp a b = Eq <-> a = b.
Proof.
  revert b. induction a as [|x a IH]; intros [|y b]; cbn; try (split; congruence).
  destruct (N.compare (bN x) (bN y)) eqn:C.
  - apply N.compare_eq in C. apply bN_inj in C. subst. rewrite IH. split; congruence.
  - split; [discriminate|]. intros H; injection H as -> ->. rewrite N.compare_refl in C. discriminate.
  - split; [discriminate|]. intros H; injection H as -> ->. rewrite N.compare_refl in C. discriminate.
Qed.

Lemma lex_cmp_refl a : lex_cmp a a = Eq.
Proof. apply lex_cmp_eq. reflexivity. Qed.

Lemma lex_cmp_antisym a b : lex_cmp b a = CompOpp (lex_cmp a b).
Proof.
  revert b. induction a as [|x a IH]; intros [|y b]; cbn; try reflexivity.
  rewrite (N.compare_antisym (bN x) (bN y)).
  destruct (N.compare (bN x) (bN y)); cbn; auto.
Qed.

Lemma lex_lt_trans a b c : lex_lt a b -> lex_lt b c -> lex_lt a c.
Proof.
  unfold lex_lt. revert b c. induction a as [|x a IH]; intros [|y b] [|z c]; cbn; try congruence.
  destruct (N.compare (bN x) (bN y)) eqn:C1; try discriminate.
  - apply N.compare_eq in C1. rewrite C1.
    destruct (N.compare (bN y) (bN z)) eqn:C2; try discriminate; auto.
    intros H1 H2. eapply IH; eauto.
  - intros _. destruct (N.compare (bN y) (bN z)) eqn:C2; try discriminate.
    + apply N.compare_eq in C2. rewrite <- C2, C1. reflexivity.
    + intros _. rewrite N.compare_lt_iff in *. assert (bN x < bN z)%N as H by lia.
      apply N.compare_lt_iff in H. rewrite H. reflexivity.
Qed.

Lemma lex_lt_irrefl a : ~ lex_lt a a.
Proof. unfold lex_lt. rewrite lex_cmp_refl. discriminate. Qed.

Lemma lex_total a b : lex_lt a b \/ a = b \/ lex_lt b a.
Proof.
  unfold lex_lt. rewrite (lex_cmp_antisym a b). destruct (lex_cmp a b) eqn:C; cbn; auto.
  apply lex_cmp_eq in C. auto.
Qed.

Lemma lex_ltb_lt a b : lex_ltb a b = true <-> lex_lt a b.
Proof. unfold lex_ltb, lex_lt. destruct (lex_cmp a b); split; congruence. Qed.

(* a proper extension sorts after its prefix *)
Lemma prefix_lex_lt p s : s <> [] -> lex_lt p (p ++ s).
Proof.
  unfold lex_lt. induction p as [|x p IH]; intros Hs; cbn.
  - destruct s; [contradiction|reflexivity].
  - rewrite N.compare_refl. auto.
Qed.

(* string helpers *)
Fixpoint has_prefix (p s : str) : bool :=
  match p, s with
  | [], _ => true
  | x :: p', y :: s' => beq x y && has_prefix p' s'
  | _ :: _, [] => false
  end.

Lemma has_prefix_app p s : has_prefix p s = true <-> exists r, s = p ++ r.
Proof.
  revert s. induction p as [|x p IH]; intros s; cbn.
  - split; eauto.
  - destruct s as [|y s].
    + split; [discriminate|]. intros [r H]. discriminate.
    + rewrite andb_true_iff, beq_eq, IH. split.
      * intros [-> [r ->]]. eauto.
      * intros [r H]. injection H as -> ->. eauto.
Qed.

Definition has_suffix (p s : str) : bool := has_prefix (rev p) (rev s).

Definition last_byte (s : str) : option byte :=
  match rev s with [] => None | b :: _ => Some b end.

Fixpoint drop_while (f : byte -> bool) (s : str) : str :=
  match s with
  | [] => []
  | b :: s' => if f b then drop_while f s' else s
  end.

Definition trim_left (f : byte -> bool) (s : str) : str := drop_while f s.
Definition trim_right (f : byte -> bool) (s : str) : str := rev (drop_while f (rev s)).
Definition trim_both (f : byte -> bool) (s : str) : str := trim_right f (trim_left f s).

Fixpoint concat_sep (sep : str) (l : list str) : str :=
  match l with
  | [] => []
  | [x] => x
  | x :: l' => x ++ sep ++ concat_sep sep l'
  end.
