(* C08 - config-file and special-file typing. *)
From Coq Require Import List NArith ZArith Bool.
From Coq Require Import Strings.Byte.
From NfpmV Require Import Lib.Bytes Model.Path Model.Content Model.Prepare Model.Payload Spec.C05 Spec.C01.
Import ListNotations.

(* deb.conffiles / ipk.conffiles: NormalizeAbsoluteFilePath of every config entry, in plan order *)
Definition conffiles_model (cs : list content) : list str :=
  map (fun c => norm_file (c_dst c)) (filter (fun c => is_config_typ (c_typ c)) cs).

(* arch.createPkginfo: one backup line per config entry, relative path *)
Definition backups_model (cs : list content) : list str :=
  map (fun c => as_rel (c_dst c)) (filter (fun c => is_config_typ (c_typ c)) cs).

(* what the rpm file flags must say about a declared type, bit by bit
   (1 config, 2 doc, 8 missingok, 16 noreplace, 64 ghost, 128 licence, 256 readme; nothing else) *)
Definition flag_spec_okb (t : str) (flags : N) : bool :=
  Bool.eqb (N.testbit flags 0) (is_config_typ t) &&
  Bool.eqb (N.testbit flags 1) (seqb t TDoc) &&
  Bool.eqb (N.testbit flags 3) (seqb t TConfigMissingOK) &&
  Bool.eqb (N.testbit flags 4) (seqb t TConfigNoReplace) &&
  Bool.eqb (N.testbit flags 6) (seqb t TGhost) &&
  Bool.eqb (N.testbit flags 7) (seqb t TLicence || seqb t TLicense) &&
  Bool.eqb (N.testbit flags 8) (seqb t TReadme) &&
  negb (N.testbit flags 2) && negb (N.testbit flags 5) && N.ltb flags 512.

Inductive c08_clause := QConffiles | QBackups | QRpmFlags | QGhostPayload | QGhostMode | QSpecialElsewhere | QNoConffilesMember.

Fixpoint strs_eqb (a b : list str) : bool :=
  match a, b with
  | [], [] => true
  | x :: a', y :: b' => seqb x y && strs_eqb a' b'
  | _, _ => false
  end.

Definition find_content (cs : list content) (loc : str) : option content :=
  find (fun c => seqb (location c) loc) cs.

(* [conf]: the conffiles member (deb, ipk) or the backup lines (archlinux); [payload]: decoded payload *)
Definition check_C08 (f : fmt) (cs : list content) (has_conf : bool) (conf : list str) (payload : list pentry) : list c08_clause :=
  let fail (b : bool) (c : c08_clause) := if b then [] else [c] in
  match f with
  | FDeb | FIpk =>
      fail has_conf QNoConffilesMember ++ fail (strs_eqb conf (conffiles_model cs)) QConffiles
      ++ fail (forallb (fun e => N.eqb (pe_flags e) 0) payload) QSpecialElsewhere
  | FArch => fail (strs_eqb conf (backups_model cs)) QBackups
  | FApk => []
  | FRpm =>
      flat_map (fun e =>
        match find_content cs (logical_path FRpm (pe_path e)) with
        | None => [QRpmFlags]
        | Some c =>
            fail (flag_spec_okb (c_typ c) (pe_flags e)) QRpmFlags
            ++ fail (Bool.eqb (pe_inpayload e) (negb (seqb (c_typ c) TGhost))) QGhostPayload
            ++ fail (negb (seqb (c_typ c) TGhost) || negb (N.eqb (fi_mode (the_fi c)) 0) || N.eqb (pe_mode e) 420) QGhostMode
        end) payload
  end.
