(* C02 - metadata fidelity: what the parsed control metadata of a package must state, field by field. *)
From Coq Require Import List NArith ZArith Bool String.
From Coq Require Import Strings.Byte.
From NfpmV Require Import Lib.Bytes Model.Path Model.Content Model.Payload Model.Meta.
Import ListNotations.
Open Scope string_scope.
Open Scope list_scope.

Inductive c02_clause := MField (k : str) | MAbsent (k : str) | MVersion | MArch | MSynopsis | MDescription | MRelation (k : str) | MDuplicate.

Definition c02_clause_text (c : c02_clause) : str :=
  match c with
  | MField k => B "field:" ++ k | MAbsent k => B "absent:" ++ k | MVersion => B "version" | MArch => B "arch"
  | MSynopsis => B "synopsis" | MDescription => B "description" | MRelation k => B "relation:" ++ k | MDuplicate => B "duplicate-key"
  end.

Definition values_of (obs : list (str * str)) (k : string) : list str :=
  map snd (filter (fun kv => seqb (fst kv) (B k)) obs).

Definition one (obs : list (str * str)) (k : string) : option str :=
  match values_of obs k with [v] => Some v | _ => None end.

Definition req (obs : list (str * str)) (k : string) (v : str) : list c02_clause :=
  match one obs k with Some v' => if seqb v v' then [] else [MField (B k)] | None => [MField (B k)] end.

(* an optional field: present with the value iff the value is non-empty *)
Definition opt (obs : list (str * str)) (k : string) (v : str) : list c02_clause :=
  if nonempty v then req obs k v else match values_of obs k with [] => [] | _ => [MAbsent (B k)] end.

Fixpoint strs_eqb (a b : list str) : bool :=
  match a, b with
  | [], [] => true
  | x :: a', y :: b' => seqb x y && strs_eqb a' b'
  | _, _ => false
  end.

(* a relation list rendered as one comma-separated field (deb, ipk) *)
Definition rel_field (obs : list (str * str)) (k : string) (l : list str) : list c02_clause :=
  match l with
  | [] => match values_of obs k with [] => [] | _ => [MAbsent (B k)] end
  | _ => match one obs k with Some v => if seqb v (tjoin l) then [] else [MRelation (B k)] | None => [MRelation (B k)] end
  end.

(* a relation list rendered as repeated keys (apk, archlinux) *)
Definition rel_lines (obs : list (str * str)) (k : string) (l : list str) : list c02_clause :=
  if strs_eqb (values_of obs k) l then [] else [MRelation (B k)].

(* the documented translation of a GOARCH value, when the documentation lists it *)
Definition documented_arch (doc : list (str * list (str * str))) (format : str) (arch : str) : option str :=
  match lookup format doc with Some t => lookup arch t | None => None end.

Definition expected_arch (doc : list (str * list (str * str))) (code : list (str * str)) (format override arch : str) : str :=
  if nonempty override then override
  else match documented_arch doc format arch with
       | Some a => a
       | None => match lookup arch code with Some a => a | None => arch end
       end.

(* first line of the description as every format must show it *)
Definition synopsis (i : minfo) : str := trim_space (first_line (trim_space (gs i "description"))).

(* Debian unfolding of a multi-line field value: continuation lines lose one leading space, "." is a blank line *)
Definition deb_unfold (v : str) : list str :=
  match split_lines_aux [] v with
  | [] => []
  | first :: rest => first :: map (fun l => let l' := match l with b :: r => if beq b x20 then r else l | [] => l end in
                                            if seqb l' (B ".") then [] else l') rest
  end.
Definition description_lines (i : minfo) : list str :=
  map trim_space (map drop_cr (split_lines_aux [] (trim_space (gs i "description")))).

(* the version string with every configured component, archlinux syntax *)
Definition arch_version_spec (i : minfo) : str :=
  (if nonempty (gs i "epoch") then
     match parse_uint 18446744073709551616 (gs i "epoch") with Some e => dec e ++ B ":" | None => [] end
   else [])
  ++ gs i "version" ++ replace_byte "-"%byte "_"%byte (gs i "prerelease") ++ B "-" ++ dec (arch_pkgrel i).

Definition arch_prerelease_dropped (i : minfo) : bool :=
  nonempty (gs i "prerelease") &&
  (negb (nonempty (gs i "epoch")) || match parse_uint 18446744073709551616 (gs i "epoch") with Some _ => false | None => true end).

Fixpoint nodup_keys (seen : list str) (ks : list str) (multi : list string) : bool :=
  match ks with
  | [] => true
  | k :: r => (existsb (fun m => seqb k (B m)) multi || negb (existsb (seqb k) seen)) && nodup_keys (k :: seen) r multi
  end.

Fixpoint is_infix (fuel : nat) (p s : str) : bool :=
  match fuel with
  | O => false
  | S n => has_prefix p s || match s with [] => false | _ :: r => is_infix n p r end
  end.

Fixpoint times_ok (obs exp : list str) : bool :=
  match obs, exp with
  | [], [] => true
  | o :: obs', e :: exp' => (negb (nonempty e) || seqb o e) && times_ok obs' exp'
  | _, _ => false
  end.

Fixpoint notes_ok (obs exp : list str) : bool :=
  match obs, exp with
  | [], [] => true
  | o :: obs', e :: exp' => is_infix (S (List.length o)) e o && notes_ok obs' exp'
  | _, _ => false
  end.

Definition check_C02 (f : fmt) (code : list (str * str)) (doc : list (str * list (str * str))) (i : minfo)
           (obs : list (str * str)) : list c02_clause :=
  let fail (b : bool) (c : c02_clause) := if b then [] else [c] in
  match f with
  | FDeb =>
      req obs "Package" (gs i "name")
      ++ (match one obs "Version" with Some v => fail (seqb v (deb_version i)) MVersion | None => [MVersion] end)
      ++ (match one obs "Architecture" with
          | Some v => fail (seqb v ((if seqb (gs i "platform") (B "linux") then [] else gs i "platform" ++ B "-")
                                     ++ expected_arch doc code (B "deb") (gs i "deb.arch") (gs i "arch"))) MArch
          | None => [MArch] end)
      ++ req obs "Section" (gs i "section")
      ++ req obs "Priority" (dflt (gs i "priority") (B "optional"))
      ++ opt obs "License" (gs i "license")
      ++ req obs "Maintainer" (deb_maintainer i)
      ++ opt obs "Homepage" (gs i "homepage")
      ++ rel_field obs "Replaces" (gl i "replaces") ++ rel_field obs "Provides" (non_empty_items (gl i "provides"))
      ++ rel_field obs "Pre-Depends" (gl i "deb.predepends") ++ rel_field obs "Depends" (gl i "depends")
      ++ rel_field obs "Recommends" (gl i "recommends") ++ rel_field obs "Suggests" (gl i "suggests")
      ++ rel_field obs "Conflicts" (gl i "conflicts") ++ rel_field obs "Breaks" (gl i "deb.breaks")
      ++ (match one obs "Description" with
          | Some v => fail (seqb (first_line v) (synopsis i)) MSynopsis ++ fail (strs_eqb (deb_unfold v) (description_lines i)) MDescription
          | None => [MSynopsis] end)
      ++ flat_map (fun '(k, v) => if nonempty v then (match values_of obs "" with _ =>
                     match map snd (filter (fun kv => seqb (fst kv) k) obs) with [v'] => fail (seqb v v') (MField k) | _ => [MField k] end end)
                   else match filter (fun kv => seqb (fst kv) k) obs with [] => [] | _ => [MAbsent k] end) (gf i "deb.fields")
      (* the triggers member (handed over by the harness under the pseudo key "#triggers"): present iff a trigger is
         configured, and then exactly the configured names under their directives *)
      ++ opt obs "#triggers" (deb_triggers i)
      ++ fail (nodup_keys [] (map fst obs) []) MDuplicate
  | FIpk =>
      req obs "Package" (gs i "name")
      ++ (match one obs "Version" with Some v => fail (seqb v (deb_version i)) MVersion | None => [MVersion] end)
      ++ (match one obs "Architecture" with
          | Some v => fail (seqb v (expected_arch doc code (B "ipk") (gs i "ipk.arch") (gs i "arch"))) MArch | None => [MArch] end)
      ++ opt obs "Section" (gs i "section")
      ++ req obs "Priority" (dflt (gs i "priority") (B "optional"))
      ++ opt obs "License" (gs i "license") ++ req obs "Maintainer" (ipk_maintainer i)
      ++ opt obs "Homepage" (gs i "homepage") ++ opt obs "Vendor" (gs i "vendor") ++ opt obs "ABIVersion" (gs i "ipk.abi_version")
      ++ rel_field obs "Replaces" (gl i "replaces") ++ rel_field obs "Provides" (non_empty_items (gl i "provides"))
      ++ rel_field obs "Pre-Depends" (gl i "ipk.predepends") ++ rel_field obs "Depends" (gl i "depends")
      ++ rel_field obs "Recommends" (gl i "recommends") ++ rel_field obs "Suggests" (gl i "suggests")
      ++ rel_field obs "Conflicts" (gl i "conflicts") ++ rel_field obs "Tags" (gl i "ipk.tags")
      ++ (match gl i "ipk.alternatives" with
          | [] => match values_of obs "Alternatives" with [] => [] | _ => [MAbsent (B "Alternatives")] end
          | l => req obs "Alternatives" (join_with (B ", ") l) end)
      ++ (if Z.eqb (gn i "ipk.essential") 1 then req obs "Essential" (B "yes") else match values_of obs "Essential" with [] => [] | _ => [MAbsent (B "Essential")] end)
      ++ (if Z.eqb (gn i "ipk.auto_installed") 1 then req obs "Auto-Installed" (B "yes") else match values_of obs "Auto-Installed" with [] => [] | _ => [MAbsent (B "Auto-Installed")] end)
      ++ (match one obs "Description" with
          | Some v => fail (seqb (first_line v) (synopsis i)) MSynopsis ++ fail (strs_eqb (deb_unfold v) (description_lines i)) MDescription
          | None => [MSynopsis] end)
      (* custom fields, except the names ipk reserves for its own fields: present with the configured value iff non-empty *)
      ++ flat_map (fun '(k, v) => if nonempty v then
                     match map snd (filter (fun kv => seqb (fst kv) k) obs) with [v'] => fail (seqb v v') (MField k) | _ => [MField k] end
                   else match filter (fun kv => seqb (fst kv) k) obs with [] => [] | _ => [MAbsent k] end) (ipk_fields (gf i "ipk.fields"))
      ++ fail (nodup_keys [] (map fst obs) []) MDuplicate
  | FApk =>
      req obs "pkgname" (gs i "name")
      ++ (match one obs "pkgver" with Some v => fail (seqb v (apk_version i)) MVersion | None => [MVersion] end)
      ++ (match one obs "arch" with
          | Some v => fail (seqb v (expected_arch doc code (B "apk") (gs i "apk.arch") (gs i "arch"))) MArch | None => [MArch] end)
      ++ opt obs "url" (gs i "homepage") ++ opt obs "maintainer" (gs i "maintainer") ++ opt obs "license" (gs i "license")
      ++ rel_lines obs "replaces" (gl i "replaces") ++ rel_lines obs "provides" (gl i "provides") ++ rel_lines obs "depend" (gl i "depends")
      ++ (match one obs "pkgdesc" with
          | Some v => fail (seqb (trim_space (first_line v)) (synopsis i) || negb (nonempty (synopsis i))) MSynopsis
          | None => [MSynopsis] end)
      ++ fail (nodup_keys [] (map fst obs) ["replaces"; "provides"; "depend"]) MDuplicate
  | FArch =>
      req obs "pkgname" (gs i "name")
      ++ (match one obs "pkgver" with Some v => fail (seqb v (arch_version_spec i)) MVersion | None => [MVersion] end)
      ++ (match one obs "arch" with
          | Some v => fail (seqb v (expected_arch doc code (B "archlinux") (gs i "archlinux.arch") (gs i "arch"))) MArch | None => [MArch] end)
      ++ opt obs "url" (gs i "homepage") ++ opt obs "license" (gs i "license")
      ++ req obs "pkgbase" (dflt (gs i "archlinux.pkgbase") (gs i "name"))
      ++ req obs "packager" (dflt (gs i "archlinux.packager") (B "Unknown Packager"))
      ++ rel_lines obs "replaces" (filter nonempty (gl i "replaces")) ++ rel_lines obs "conflict" (filter nonempty (gl i "conflicts"))
      ++ rel_lines obs "provides" (filter nonempty (gl i "provides")) ++ rel_lines obs "depend" (filter nonempty (gl i "depends"))
      ++ (match one obs "pkgdesc" with
          | Some v => fail (has_prefix (first_line (gs i "description")) v) MSynopsis ++ fail (negb (existsb (fun b => beq b x0a) v)) MDescription
          | None => fail (negb (nonempty (gs i "description"))) MSynopsis end)
      ++ fail (nodup_keys [] (map fst obs) ["replaces"; "conflict"; "provides"; "depend"; "backup"]) MDuplicate
  | FRpm =>
      req obs "Name" (gs i "name")
      ++ (match one obs "Version", one obs "Release" with
          | Some v, Some r => fail (seqb v (rpm_version i) && seqb r (dflt (gs i "release") (B "1"))) MVersion
          | _, _ => [MVersion] end)
      ++ (if nonempty (gs i "epoch") then
            match parse_uint 4294967295 (gs i "epoch") with
            | Some e => (match one obs "Epoch" with Some v => fail (seqb v (dec e)) MVersion | None => [MVersion] end)
            | None => [] end
          else match values_of obs "Epoch" with [] => [] | _ => [MVersion] end)
      ++ (match one obs "Arch" with
          | Some v => fail (seqb v (expected_arch doc code (B "rpm") (gs i "rpm.arch") (gs i "arch"))) MArch | None => [MArch] end)
      ++ req obs "OS" (gs i "platform")
      ++ opt obs "Vendor" (gs i "vendor") ++ opt obs "URL" (gs i "homepage") ++ req obs "License" (gs i "license")
      ++ opt obs "Packager" (dflt (gs i "rpm.packager") (gs i "maintainer")) ++ opt obs "Group" (gs i "rpm.group")
      ++ req obs "BuildHost" (gs i "rpm.buildhost")
      ++ rel_lines obs "Prefixes" (gl i "rpm.prefixes")
      (* changelog entries: one per configured entry, in order, titled "<packager> - <version>", dated as configured
         (an entry without a date is not judged on its time), its text carrying the entry's first note *)
      ++ fail (strs_eqb (values_of obs "ChangelogName") (gl i "changelog.titles")) (MField (B "changelog-names"))
      ++ fail (times_ok (values_of obs "ChangelogTime") (gl i "changelog.times")) (MField (B "changelog-times"))
      ++ fail (notes_ok (values_of obs "ChangelogText") (gl i "changelog.first_notes")) (MField (B "changelog-text"))
      ++ (match one obs "Summary" with
          | Some v => fail (seqb v (dflt (gs i "rpm.summary") (first_line (gs i "description")))) MSynopsis
          | None => [MSynopsis] end)
      ++ req obs "Description" (gs i "description")
      ++ (match rpm_provides i with
          | Some rs => if strs_eqb (values_of obs "Provides") (map show_rel rs) then [] else [MRelation (B "Provides")]
          | None => [MRelation (B "Provides")] end)
      ++ flat_map (fun '(tag, l) =>
            match rpm_relations [] l with
            | Some rs => if strs_eqb (values_of obs tag) (map show_rel rs) then [] else [MRelation (B tag)]
            | None => [MRelation (B tag)]
            end)
          [("Requires", gl i "depends"); ("Recommends", gl i "recommends");
           ("Obsoletes", gl i "replaces"); ("Suggests", gl i "suggests"); ("Conflicts", gl i "conflicts")]
  end.
