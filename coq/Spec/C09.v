(* C09 - maintainer scripts: which slot each lifecycle event lands in, per format. *)
From Coq Require Import List NArith ZArith Bool String.
From Coq Require Import Strings.Byte.
From NfpmV Require Import Lib.Bytes Model.Path Model.Content Model.Payload.
Import ListNotations.
Open Scope string_scope.

(* generic event (the configuration key) -> slot name in the package *)
Definition slots (f : fmt) : list (str * str) :=
  match f with
  | FDeb => [(B "preinstall", B "preinst"); (B "postinstall", B "postinst"); (B "preremove", B "prerm");
             (B "postremove", B "postrm"); (B "deb.rules", B "rules"); (B "deb.templates", B "templates");
             (B "deb.config", B "config")]
  | FIpk => [(B "preinstall", B "preinst"); (B "postinstall", B "postinst"); (B "preremove", B "prerm");
             (B "postremove", B "postrm")]
  | FRpm => [(B "preinstall", B "prein"); (B "postinstall", B "postin"); (B "preremove", B "preun");
             (B "postremove", B "postun"); (B "rpm.pretrans", B "pretrans"); (B "rpm.posttrans", B "posttrans");
             (B "rpm.verify", B "verify")]
  | FApk => [(B "preinstall", B ".pre-install"); (B "postinstall", B ".post-install");
             (B "preremove", B ".pre-deinstall"); (B "postremove", B ".post-deinstall");
             (B "apk.preupgrade", B ".pre-upgrade"); (B "apk.postupgrade", B ".post-upgrade")]
  | FArch => [(B "preinstall", B "pre_install"); (B "postinstall", B "post_install");
              (B "preremove", B "pre_remove"); (B "postremove", B "post_remove");
              (B "archlinux.preupgrade", B "pre_upgrade"); (B "archlinux.postupgrade", B "post_upgrade")]
  end.

Fixpoint assoc (k : str) (l : list (str * str)) : option str :=
  match l with
  | [] => None
  | (k', v) :: l' => if seqb k' k then Some v else assoc k l'
  end.

(* the slots that must be populated, with their bytes: exactly the configured events of this format *)
Definition expected_scripts (f : fmt) (configured : list (str * str)) : list (str * str) :=
  flat_map (fun '(g, slot) => match assoc g configured with Some b => [(slot, b)] | None => [] end) (slots f).

(* insertion sort of (slot, bytes) by slot name - the order of maps.Keys *)
Fixpoint ins_slot (e : str * str) (l : list (str * str)) : list (str * str) :=
  match l with
  | [] => [e]
  | x :: l' => if lex_ltb (fst x) (fst e) then x :: ins_slot e l' else e :: l
  end.
Definition sort_slots (l : list (str * str)) : list (str * str) := fold_right ins_slot [] l.

(* arch.writeScripts *)
Definition render_install (scripts : list (str * str)) : str :=
  flat_map (fun '(slot, b) => B "function " ++ slot ++ B "() {" ++ [x0a] ++ b ++ [x0a] ++ B "}" ++ [x0a; x0a])%list
           (sort_slots scripts).

(* rpm stores scriptlets as NUL-terminated strings and rpmpack omits empty ones *)
Fixpoint until_nul (s : str) : str :=
  match s with
  | [] => []
  | b :: s' => if beq b x00 then [] else b :: until_nul s'
  end.
Definition rpm_scripts_model (configured : list (str * str)) : list (str * str) :=
  filter (fun '(_, b) => match b with [] => false | _ => true end)
         (map (fun '(s, b) => (s, until_nul b)) (expected_scripts FRpm configured)).

Definition model_scripts (f : fmt) (configured : list (str * str)) : list (str * str) :=
  match f with FRpm => rpm_scripts_model configured | _ => expected_scripts f configured end.

Inductive c09_clause := SExact | SInstall | SMode.

Fixpoint pairs_eqb (a b : list (str * str)) : bool :=
  match a, b with
  | [], [] => true
  | (k, v) :: a', (k', v') :: b' => seqb k k' && seqb v v' && pairs_eqb a' b'
  | _, _ => false
  end.

Definition script_mode_ok (f : fmt) (slot : str) (mode : N) : bool :=
  match f with
  | FDeb => N.eqb mode (if seqb slot (B "templates") then 420 else 493)
  | FIpk => N.eqb mode 493
  | FApk => N.eqb mode 493
  | _ => true
  end.

(* [obs]: observed slots with bytes (for archlinux: none - the .INSTALL member is given instead) *)
Definition check_C09 (f : fmt) (configured : list (str * str)) (obs : list (str * str)) (modes : list (str * N))
           (install : option str) : list c09_clause :=
  let fail (b : bool) (c : c09_clause) := if b then [] else [c] in
  let want := expected_scripts f configured in
  match f with
  | FArch =>
      fail (match install, want with
            | None, [] => true
            | Some i, _ :: _ => seqb i (render_install want)
            | _, _ => false
            end) SInstall
  | _ =>
      fail (pairs_eqb (sort_slots obs) (sort_slots want)) SExact
      ++ fail (forallb (fun '(s, m) => script_mode_ok f s m) modes) SMode
  end.
