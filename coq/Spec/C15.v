(* C15 - the conventional file name states the metadata inside the package; the CLI writes where asked. *)
From Coq Require Import List NArith ZArith Bool String.
From Coq Require Import Strings.Byte.
From NfpmV Require Import Lib.Bytes Model.Path Model.Content Model.Payload Model.Meta Model.Version Model.VerCmp Model.Cli Spec.C02.
Import ListNotations.
Open Scope string_scope.
Open Scope list_scope.

Definition strip_epoch (v : str) : str :=
  match split_first ":"%byte v with Some (_, r) => r | None => v end.

(* arch.validPkgName: keep [A-Za-z0-9._+-], then drop leading '-' and '.' *)
Definition valid_pkg_char (b : byte) : bool :=
  is_alnum_dash b || beq b "."%byte || beq b "_"%byte || beq b "+"%byte.
Definition valid_pkg_name (s : str) : str :=
  drop_while (fun b => beq b "-"%byte || beq b "."%byte) (filter valid_pkg_char s).

Definition field1 (obs : list (str * str)) (k : string) : str := match one obs k with Some v => v | None => [] end.

(* the name the package's own metadata dictates *)
Definition expected_filename (f : fmt) (obs : list (str * str)) : str :=
  match f with
  | FDeb => field1 obs "Package" ++ B "_" ++ strip_epoch (field1 obs "Version") ++ B "_" ++ field1 obs "Architecture" ++ B ".deb"
  | FIpk => field1 obs "Package" ++ B "_" ++ strip_epoch (field1 obs "Version") ++ B "_" ++ field1 obs "Architecture" ++ B ".ipk"
  | FRpm => field1 obs "Name" ++ B "-" ++ field1 obs "Version" ++ B "-" ++ field1 obs "Release" ++ B "." ++ field1 obs "Arch" ++ B ".rpm"
  | FApk => field1 obs "pkgname" ++ B "_" ++ field1 obs "pkgver" ++ B "_" ++ field1 obs "arch" ++ B ".apk"
  | FArch => valid_pkg_name (field1 obs "pkgname" ++ B "-" ++ strip_epoch (field1 obs "pkgver") ++ B "-" ++ field1 obs "arch" ++ B ".pkg.tar.zst")
  end.

Definition conventional_ext (f : fmt) : str :=
  match f with FDeb => B ".deb" | FIpk => B ".ipk" | FRpm => B ".rpm" | FApk => B ".apk" | FArch => B ".pkg.tar.zst" end.

Inductive c15_clause := NName | NExt | NEffect | NCliExit | NCliFiles | NCliFormat.

Definition check_filename (f : fmt) (obs : list (str * str)) (filename : str) (package_unchanged name_stable : bool) : list c15_clause :=
  let fail (b : bool) (c : c15_clause) := if b then [] else [c] in
  fail (seqb filename (expected_filename f obs)) NName
  ++ fail (has_suffix (conventional_ext f) filename) NExt
  ++ fail (package_unchanged && name_stable) NEffect.

(* the command line: exit status, the files found afterwards (path relative to the working directory,
   format recognised from the magic bytes) *)
Definition check_cli (plan : cli_result) (exit_code : Z) (files : list (str * str)) : list c15_clause :=
  let fail (b : bool) (c : c15_clause) := if b then [] else [c] in
  match plan with
  | CliErr => fail (negb (Z.eqb exit_code 0)) NCliExit ++ fail (match files with [] => true | _ => false end) NCliFiles
  | CliOk pk path =>
      fail (Z.eqb exit_code 0) NCliExit
      ++ match files with
         | [(p, magic)] => fail (seqb p (clean path)) NCliFiles ++ fail (seqb magic pk) NCliFormat
         | _ => [NCliFiles]
         end
  end.
