(* C06: which faults must make a packaging fail, the command's clean-up as a state machine, and the checker over
   what the harness observed. *)
From Coq Require Import List NArith ZArith Bool Arith String.
From Coq Require Import Strings.Byte.
From NfpmV Require Import Lib.Bytes Model.Path Model.Content Model.Prepare Model.Writers Model.OutputProgs.
Import ListNotations.
Open Scope list_scope.

(* ---------- file references ---------- *)
Inductive refkind :=
  | RContent (packager typ : str)     (* the src of a content entry *)
  | RScriptTop                        (* scripts.* *)
  | RScriptOf (f : str)               (* <f>.scripts.* *)
  | RChangelog
  | RKeyOf (f : str).                 (* <f>.signature.key_file *)

(* the formats that read the referenced file: for those, an unreadable file must fail the packaging *)
Definition ref_used (k : refkind) (f : str) : bool :=
  match k with
  | RContent pk typ => is_relevant f {| c_src := []; c_dst := []; c_typ := typ; c_pkgr := pk; c_fi := None |}
  | RScriptTop => true
  | RScriptOf g => seqb g f
  | RChangelog => seqb f P_deb || seqb f P_rpm
  | RKeyOf g => seqb g f
  end.

(* ---------- invalid settings: class -> the formats that must reject it ---------- *)
Definition c06_formats : list str := [P_deb; P_rpm; P_apk; P_ipk; P_arch].

Definition must_reject (class : str) : list str :=
  if seqb class (B "name-empty") then c06_formats
  else if seqb class (B "deb-compression") then [P_deb]
  else if seqb class (B "rpm-compression") then [P_rpm]
  else if seqb class (B "deb-signature-type") then [P_deb]
  else if seqb class (B "deb-signature-type-callback") then [P_deb]
  else if seqb class (B "archlinux-pkgname") then [P_arch]
  else if seqb class (B "archlinux-platform") then [P_arch]
  else if seqb class (B "archlinux-pkgname-non-ascii") then [P_arch]
  else if seqb class (B "archlinux-pkgname-fullwidth") then [P_arch]
  else if seqb class (B "apk-key-format") then [P_apk]
  else if seqb class (B "pgp-key-format") then [P_deb; P_rpm]
  else if seqb class (B "changelog-malformed") then [P_deb; P_rpm]
  else if seqb class (B "signing-callback-fails") then [P_deb; P_rpm; P_apk]
  else if seqb class (B "rpm-epoch-out-of-range") then [P_rpm]
  else if seqb class (B "pgp-key-empty") then [P_deb; P_rpm]
  else if seqb class (B "apk-key-empty") then [P_apk]
  else if seqb class (B "pgp-key-id-not-in-key-file") then [P_deb; P_rpm]
  else if seqb class (B "apk-signature-without-key-name-and-maintainer") then [P_apk]
  else if seqb class (B "apk-signature-callback-without-key-name-and-maintainer") then [P_apk]
  else if seqb class (B "tree-holds-a-socket") then c06_formats
  else if seqb class (B "override-block-script-missing") then c06_formats
  else if seqb class (B "config-source-missing") then c06_formats
  else if seqb class (B "config-noreplace-source-missing") then c06_formats
  else if seqb class (B "config-missingok-source-missing") then c06_formats
  else if seqb class (B "config-missingok-pattern-without-match") then c06_formats
  else if seqb class (B "unknown-packager") then [B "nosuchformat"]
  else [].

(* ---------- the command: internal/cmd.doPackage after the packager has been chosen ---------- *)
Inductive target_state :=
  | TAbsent
  | TFile (complete : bool)     (* a regular file at the target path; complete = holds a whole package *)
  | TLink.                      (* a symbolic link at the target path (to a device, say) *)

(* os.Create(target); pkg.Package(info, f) - on error os.Remove(target); f.Close() *)
Definition do_package (pre : target_state) (create_ok package_ok close_ok : bool) : bool * target_state :=
  if negb create_ok then (false, pre)
  else
    let opened := match pre with TLink => TLink | _ => TFile false end in
    if negb package_ok then (false, TAbsent)
    else if close_ok then (true, match opened with TLink => TLink | _ => TFile true end)
    else (false, opened).

(* ---------- observations and the checker ---------- *)
Inductive c06_clause :=
  | WSilent (k : nat) (mode : str)          (* the writer failed at write k and Package returned nil *)
  | WCount                                  (* the model's number of destination writes differs (deb) *)
  | RSilent (f : str)                       (* an unreadable file the format reads, and Package returned nil *)
  | ISilent (class f : str)                 (* an invalid setting accepted *)
  | CExit (name : str) | CTargetLeft (name : str) | CCauseMissing (name : str) | CNoPackage (name : str).

Record wobs := { w_format : str; w_writes : nat; w_odd : list bool; w_faults : list (nat * str * bool * bool) }.

Definition check_write (o : wobs) : list c06_clause :=
  flat_map (fun '(k, mode, hit, errnil) => if hit && errnil then [WSilent k mode] else []) (w_faults o)
  ++ (if seqb (w_format o) P_deb && negb (Nat.eqb (w_writes o) (deb_dest_writes (w_odd o))) then [WCount] else []).

Definition check_ref (k : refkind) (f : str) (errnil : bool) : list c06_clause :=
  if ref_used k f && errnil then [RSilent f] else [].

Definition check_invalid (class f : str) (errnil : bool) : list c06_clause :=
  if existsb (seqb f) (must_reject class) && errnil then [ISilent class f] else [].

(* the command-line cases: what the run must show, from the machine *)
Definition check_cli_run (name : str) (exit_ok target_exists cause_printed : bool) : list c06_clause :=
  if seqb name (B "ok") then
    (* create, package and close succeed on an absent target *)
    let '(ok, post) := do_package TAbsent true true true in
    (if Bool.eqb exit_ok ok then [] else [CExit name]) ++ (if target_exists then [] else [CNoPackage name])
  else
    let pre := if seqb name (B "missing-source-existing-target") then TFile true
               else if seqb name (B "device-full") then TLink else TAbsent in
    let '(ok, post) := do_package pre true false true in
    (if Bool.eqb exit_ok ok then [] else [CExit name])
    ++ (match post with TAbsent => if target_exists then [CTargetLeft name] else [] | _ => [] end)
    ++ (if seqb name (B "device-full") || cause_printed then [] else [CCauseMissing name]).
