(* C01 - payload fidelity: the declarative meaning of a prepared content list, and the checker that a
   decoded payload states exactly that. *)
From Coq Require Import List NArith ZArith Bool.
From Coq Require Import Strings.Byte.
From NfpmV Require Import Lib.Bytes Model.Path Model.Content Model.Prepare Model.Payload Spec.C05.
Import ListNotations.

(* one logical entry of the installed tree *)
Record lentry := {
  l_path : str;          (* absolute location, no trailing slash; the root is "" *)
  l_kind : pkind;
  l_mode : N;
  l_owner : str;
  l_group : str;
  l_mtime : Z;
  l_data : pdata;
  l_link : str;
  l_typ : str            (* the declared type, for the rpm flag and config clauses *)
}.

Definition kind_of_typ (t : str) : pkind :=
  if is_dir_typ t then KDir else if seqb t TSymlink then KSymlink else KFile.

(* what one prepared entry denotes: its declared or defaulted attributes, verbatim *)
Definition denote_entry (c : content) : lentry :=
  let f := the_fi c in
  {| l_path := location c; l_kind := kind_of_typ (c_typ c);
     l_mode := N.land (fi_mode f) 4095; l_owner := fi_owner f; l_group := fi_group f;
     l_mtime := fi_mtime f;
     l_data := if seqb (c_typ c) TDebChangelog then DChangelog else DSrc (c_src c);
     l_link := c_src c; l_typ := c_typ c |}.

(* which prepared entries a format's payload carries: never ghosts; rpm records neither implied
   directories nor the root directory *)
Definition in_payload (f : fmt) (c : content) : bool :=
  negb (seqb (c_typ c) TGhost) &&
  match f with
  | FRpm => negb (seqb (c_typ c) TImplicitDir) && negb (seqb (location c) [])
  | _ => true
  end.

Definition denote (f : fmt) (cs : list content) : list lentry :=
  map denote_entry (filter (in_payload f) cs).

(* the location a stored archive name refers to *)
Definition logical_path (f : fmt) (name : str) : str :=
  match f with
  | FDeb | FIpk => strip_dir_slash (match name with b :: rest => if beq b dot then rest else name | [] => name end)
  | FApk | FArch => strip_dir_slash (slash :: name)
  | FRpm => strip_dir_slash name
  end.

Definition pkind_eqb (a b : pkind) : bool :=
  match a, b with KFile, KFile | KDir, KDir | KSymlink, KSymlink => true | _, _ => false end.

Fixpoint lookup_hash (t : list (str * str)) (p : str) : option str :=
  match t with
  | [] => None
  | (k, v) :: t' => if seqb k p then Some v else lookup_hash t' p
  end.

Definition data_matches (hashes : list (str * str)) (want got : pdata) : bool :=
  match want, got with
  | DChangelog, _ => true
  | DSrc p, DHash h => match lookup_hash hashes p with Some h' => seqb h h' | None => false end
  | DSrc p, DSrc q => seqb p q
  | DNone, _ => true
  | _, _ => false
  end.

Inductive c01_clause :=
  | PPathsExact | PPathsUnique | PKind | PMode | POwner | PGroup | PMtime | PData | PLink | PGhostPayload.

Definition find_obs (f : fmt) (obs : list pentry) (path : str) : option pentry :=
  find (fun e => seqb (logical_path f (pe_path e)) path) obs.

Definition check_attrs (f : fmt) (hashes : list (str * str)) (e : pentry) (l : lentry) : list c01_clause :=
  let fail (b : bool) (c : c01_clause) := if b then [] else [c] in
  fail (pkind_eqb (pe_kind e) (l_kind l)) PKind
  ++ match l_kind l with
     | KFile =>
         if match l_data l with DChangelog => true | _ => false end then [] else
         fail (N.eqb (pe_mode e) (l_mode l)) PMode ++ fail (seqb (pe_uname e) (l_owner l)) POwner
         ++ fail (seqb (pe_gname e) (l_group l)) PGroup
         ++ fail (is_tzero (l_mtime l) || Z.eqb (pe_mtime e) (match f with FRpm => u32 (l_mtime l) | _ => l_mtime l end)) PMtime
         ++ fail (data_matches hashes (l_data l) (pe_data e)) PData
     | KDir =>
         fail (N.eqb (pe_mode e) (l_mode l)) PMode ++ fail (seqb (pe_uname e) (l_owner l)) POwner
         ++ fail (seqb (pe_gname e) (l_group l)) PGroup
     | KSymlink => fail (seqb (pe_link e) (l_link l)) PLink
     end.

Definition check_entry (f : fmt) (hashes : list (str * str)) (obs : list pentry) (l : lentry) : list c01_clause :=
  match find_obs f obs (l_path l) with
  | None => [PPathsExact]
  | Some e => check_attrs f hashes e l
  end.

Definition check_C01 (f : fmt) (hashes : list (str * str)) (cs : list content) (obs : list pentry) : list c01_clause :=
  let want := denote f cs in
  let in_payload_obs := filter pe_inpayload obs in
  let paths := map (fun e => logical_path f (pe_path e)) in_payload_obs in
  let fail (b : bool) (c : c01_clause) := if b then [] else [c] in
  fail (nodupb paths) PPathsUnique
  ++ fail (forallb (fun p => existsb (fun l => seqb (l_path l) p) want) paths) PPathsExact
  ++ fail (forallb (fun e => pe_inpayload e ||
                     existsb (fun c => seqb (c_typ c) TGhost && seqb (location c) (logical_path f (pe_path e))) cs) obs) PGhostPayload
  ++ flat_map (check_entry f hashes in_payload_obs) want.

(* the types a prepared entry can have *)
Definition prepared_typ (t : str) : bool :=
  typ_in t [TFile; TDir; TImplicitDir; TSymlink; TConfig; TConfigNoReplace; TConfigMissingOK;
            TGhost; TDoc; TLicence; TLicense; TReadme; TDebChangelog].

(* the envelope of the payload theorem: modes are permission + special bits *)
Definition mode_smallb (c : content) : bool := N.ltb (fi_mode (the_fi c)) 4096.

Definition envelope_C01 (cs : list content) : bool :=
  forallb mode_smallb cs && forallb (fun c => is_dir_typ (c_typ c) || negb (seqb (location c) [])) cs.

Definition holds_C01 f hashes cs obs : bool := match check_C01 f hashes cs obs with [] => true | _ => false end.
