(* C07: what repeated builds and the decoded timestamps of a package must show, and the audited list of the places
   where the packaging code can see anything that differs between two runs. *)
From Coq Require Import List NArith ZArith Bool String.
From Coq Require Import Strings.Byte.
From NfpmV Require Import Lib.Bytes Model.Content.
Import ListNotations.
Open Scope list_scope.

(* a gzip header without a time: 0 (compress/gzip) or the zero time.Time's seconds truncated to 32 bits (pgzip) *)
Definition gzip_no_time (v : Z) : bool := Z.eqb v 0 || Z.eqb v (Z.modulo tzero (2 ^ 32)).

Definition is_gzip_header (where_ : str) : bool := has_prefix (B "gzip-header:") where_.

Inductive c07_clause :=
  | NotReproducible (f which : str)       (* a rebuild differs: again | other-process | absolute-sources | later *)
  | BuildFailed (f : str)
  | ForeignStamp (f where_ : str) (v : Z).  (* a stored time that is none of the allowed ones *)

Record c07_build := {
  b_format : str; b_first : str; b_again : str; b_child : str; b_abs : str; b_late : str }.

Definition is_pkg (s : str) : bool := has_prefix (B "pkg:") s.

Definition check_build (b : c07_build) : list c07_clause :=
  if negb (is_pkg (b_first b)) then []      (* the configuration cannot be packaged for this format: nothing to compare *)
  else
    (if seqb (b_again b) (b_first b) then [] else [NotReproducible (b_format b) (B "again-in-process")])
    ++ (if seqb (b_child b) (b_first b) then [] else [NotReproducible (b_format b) (B "other-process-timezone-gomaxprocs")])
    ++ (if seqb (b_abs b) (b_first b) then [] else [NotReproducible (b_format b) (B "absolute-source-paths")])
    ++ (if seqb (b_late b) (B "-") || seqb (b_late b) (b_first b) then [] else [NotReproducible (b_format b) (B "a-second-later")]).

Definition check_stamp (allowed : list Z) (f where_ : str) (v : Z) : list c07_clause :=
  if is_gzip_header where_ then (if gzip_no_time v || existsb (Z.eqb v) allowed then [] else [ForeignStamp f where_ v])
  else if existsb (Z.eqb v) allowed then [] else [ForeignStamp f where_ v].

(* ---------- the audited sites ---------- *)
(* Every place the translator finds (coq/Gen/NondetSites.v) must be listed here with the reason it cannot reach
   the bytes of a package built with mtime and build host fixed and no signing. *)
Definition audited_sites : list (str * str * str) := [
  (* the planned contents are sorted before use (C05: clause_sorted; C07: sorted_plan_unique) *)
  (B "files/files.go", B "PrepareForPackager", B "range contentMap");
  (* globbed matches are inserted into the destination map, which is sorted afterwards; a collision is an error
     whatever the order *)
  (B "files/files.go", B "addGlobbedFiles", B "range globbed");
  (* SOURCE_DATE_EPOCH is the documented way to fix the mtime: part of the premise *)
  (B "internal/modtime/mtime.go", B "FromEnv", B "os.Getenv");
  (* the single clock gate: reached only when every time given to it is zero, i.e. when no mtime is configured *)
  (B "internal/modtime/mtime.go", B "Get", B "time.Now");
  (* signing is outside the premise (PKCS#1 v1.5 ignores the random source anyway) *)
  (B "internal/sign/rsa.go", B "RSASignSHA1Digest", B "crypto/rand.Reader");
  (* deletes entries; the result is a set, rendered through text/template's sorted map range *)
  (B "ipk/ipk.go", B "stripDisallowedFields", B "range info.IPK.Fields");
  (* validation and expansion visit every entry; what they compute per entry does not depend on the others *)
  (B "nfpm.go", B "*Config.Validate", B "range c.Overrides");
  (B "nfpm.go", B "*Config.expandEnvVars", B "range c.Deb.Fields");
  (B "nfpm.go", B "*Config.expandEnvVars", B "range c.IPK.Fields");
  (B "nfpm.go", B "*Config.expandEnvVars", B "range c.Overrides");
  (B "nfpm.go", B "ParseWithEnvMapping", B "range config.Overrides");
  (* the registry: Enumerate's result is not used for packaging; Validate only reports the first error *)
  (B "nfpm.go", B "Enumerate", B "range packagers");
  (B "nfpm.go", B "Validate", B "range packagers");
  (* the environment is the documented input of ${VAR} expansion: part of the configuration *)
  (B "nfpm.go", B "Parse", B "os.Getenv");
  (B "nfpm.go", B "ParseFile", B "os.Getenv");
  (* used only when rpm.buildhost is empty: the premise fixes it *)
  (B "rpm/rpm.go", B "buildRPMMeta", B "os.Hostname")
].

Definition site_eqb (a b : str * str * str) : bool :=
  let '(a1, a2, a3) := a in let '(b1, b2, b3) := b in seqb a1 b1 && seqb a2 b2 && seqb a3 b3.

Definition unaudited (sites : list (str * str * str)) : list (str * str * str) :=
  filter (fun s => negb (existsb (site_eqb s) audited_sites)) sites.
