(* C05 as a boolean checker over (input, oracle, outcome of planning).
   The checker is what the correspondence driver evaluates on the implementation's observations;
   Proofs/C05Proofs.v relates it to the model. *)
From Coq Require Import List NArith ZArith Bool.
From Coq Require Import Strings.Byte.
From NfpmV Require Import Lib.Bytes Model.Path Model.Content Model.Prepare.
Import ListNotations.

(* ---- shape of one destination ---- *)
Definition good_compb (c : str) : bool :=
  negb (is_empty c) && negb (is_dot c) && negb (is_dotdot c) && negb (existsb is_slash c).

(* absolute and lexically clean: "/" or "/c1/c2/.../cn" with good components *)
Definition abs_cleanb (s : str) : bool :=
  match s with
  | b :: rest => is_slash b && (is_empty rest || forallb good_compb (split rest))
  | [] => false
  end.

(* a destination in the plan: clean absolute path; directories carry exactly one trailing slash *)
Definition dst_shapeb (c : content) : bool :=
  if is_dir_typ (c_typ c) then
    has_suffix [slash] (c_dst c) &&
    (seqb (c_dst c) [slash] || abs_cleanb (strip_dir_slash (c_dst c)))
  else abs_cleanb (c_dst c).
(* the root directory was spelled "//" before the fix of NormalizeAbsoluteDirPath; kept as its own clause *)
Definition double_rootb (c : content) : bool := seqb (c_dst c) [slash; slash].

(* ---- uniqueness and order ---- *)
Fixpoint nodupb (l : list str) : bool :=
  match l with
  | [] => true
  | x :: l' => negb (existsb (seqb x) l') && nodupb l'
  end.

Fixpoint sortedb (l : list content) : bool :=
  match l with
  | [] => true
  | x :: l' => match l' with
               | [] => true
               | y :: _ => content_ltb x y && sortedb l'
               end
  end.

(* the location an entry occupies on the target file system *)
Definition location (c : content) : str := strip_dir_slash (c_dst c).

(* ---- ancestors: [ancestor_dirs] is in Model/Path.v ---- *)
Fixpoint parents_beforeb (seen : list content) (l : list content) : bool :=
  match l with
  | [] => true
  | c :: l' =>
      forallb (fun a => existsb (fun d => seqb (c_dst d) a && is_dir_typ (c_typ d)) seen) (ancestor_dirs (c_dst c))
      && parents_beforeb (c :: seen) l'
  end.

(* no entry lies beneath a non-directory *)
Definition beneath_nondirb (cs : list content) : bool :=
  existsb (fun c =>
    existsb (fun a => existsb (fun d => negb (is_dir_typ (c_typ d)) && seqb (c_dst d ++ [slash]) a) cs)
            (ancestor_dirs (c_dst c))) cs.

(* ---- what the input asks to be placed ---- *)
Record placement := { p_dst : str; p_typ : str; p_src : option str }.

Definition single_typ (t : str) : bool :=
  typ_in t [TDir; TGhost; TSymlink; TDoc; TLicence; TLicense; TReadme; TDebChangelog].
Definition file_like_typ (t : str) : bool :=
  typ_in t [TConfig; TConfigNoReplace; TConfigMissingOK; TFile; TNone].
Definition known_typ (t : str) : bool :=
  single_typ t || file_like_typ t || seqb t TTree || seqb t TImplicitDir.

Definition glob_placements (c : content) (g : gans) : list placement :=
  match g with
  | GErr _ => []
  | GOk pattern ms use_lcp =>
      match glob_pairs (glob_prefix pattern ms use_lcp) (c_dst c) (dedup_src ms) with
      | Err _ => []
      | Ok pairs =>
          map (fun '(m, d) =>
                 match gm_readlink m with
                 | Some t => {| p_dst := norm_file d; p_typ := TSymlink; p_src := Some t |}
                 | None => {| p_dst := norm_file d;
                              p_typ := if seqb (c_typ c) TNone then TFile else c_typ c;
                              p_src := Some (to_nix (gm_src m)) |}
                 end) pairs
      end
  end.

Definition tree_placements (fs_paths : list str) (c : content) (w : wans) : list placement :=
  match w with
  | WErr _ =>
      if negb (seqb (c_dst c) [slash]) && negb (seqb (c_dst c) [])
      then [{| p_dst := norm_dir (c_dst c); p_typ := TDir; p_src := None |}] else []
  | WOk items =>
      flat_map (fun it =>
        match tree_item fs_paths [] 0%N 0%Z c it with
        | Err _ => []
        | Ok cc => [{| p_dst := c_dst cc; p_typ := c_typ cc; p_src := None |}]
        end) items
  end.

Definition entry_placements (fs_paths : list str) (packager : str) (ce : content * eoracle) : list placement :=
  let '(c, eo) := ce in
  if negb (is_relevant packager c) then []
  else if seqb (c_typ c) TDir then [{| p_dst := norm_dir (c_dst c); p_typ := TDir; p_src := None |}]
  else if single_typ (c_typ c) then [{| p_dst := norm_file (c_dst c); p_typ := c_typ c; p_src := None |}]
  else if seqb (c_typ c) TTree then tree_placements fs_paths c (eo_walk eo)
  else if file_like_typ (c_typ c) then glob_placements c (eo_glob eo)
  else [].

Definition p_location (p : placement) : str := strip_dir_slash (p_dst p).

(* a placement is honoured by the plan: same destination, and the same kind of thing *)
Definition placedb (cs : list content) (p : placement) : bool :=
  existsb (fun c =>
    seqb (c_dst c) (p_dst p) &&
    (seqb (c_typ c) (p_typ p) || (is_dir_typ (c_typ c) && is_dir_typ (p_typ p))) &&
    match p_src p with Some s => seqb (c_src c) s | None => true end) cs.

(* placements that cannot coexist: two claim one location, or one lies beneath a non-directory.
   Within one entry only glob matches can clash (a walk visits distinct paths). *)
Definition p_nondir (p : placement) : bool := negb (is_dir_typ (p_typ p)).
Definition p_conflict (p q : placement) : bool :=
  seqb (p_location p) (p_location q)
  || (p_nondir p && existsb (seqb (p_location p ++ [slash])) (ancestor_dirs (p_dst q)))
  || (p_nondir q && existsb (seqb (p_location q ++ [slash])) (ancestor_dirs (p_dst p))).

Fixpoint clash_across (seen : list placement) (groups : list (list placement)) : bool :=
  match groups with
  | [] => false
  | g :: rest =>
      existsb (fun p => existsb (p_conflict p) seen) g
      || negb (nodupb (map p_dst g))
      || clash_across (g ++ seen) rest
  end.

Definition has_input_error (packager : str) (ces : list (content * eoracle)) (want : err -> bool) : bool :=
  existsb (fun '(c, eo) =>
    is_relevant packager c &&
    ((file_like_typ (c_typ c) &&
        match eo_glob eo with
        | GErr e => want e
        | GOk pat ms u => match ms with
                          | [] => want EGlobNoMatch
                          | _ => match glob_pairs (glob_prefix pat ms u) (c_dst c) (dedup_src ms) with
                                 | Err e => want e | Ok _ => false end
                          end
        end)
     || (seqb (c_typ c) TTree && match eo_walk eo with WErr e => want e | WOk _ => false end)
     || (negb (known_typ (c_typ c)) && want EInvalidType))) ces.

(* ---- the envelope: what is assumed of filepath.WalkDir's answers ----
   every visited item lies below the tree's destination and a directory is visited before its contents *)
Fixpoint walk_closedb (fs_paths : list str) (st : stats) (umask : N) (mt : Z) (tree : content)
         (seen : list str) (ws : list witem) : bool :=
  match ws with
  | [] => true
  | w :: ws' =>
      match tree_item fs_paths st umask mt tree w with
      | Err _ => true
      | Ok c =>
          forallb (fun a => existsb (seqb a) seen) (ancestor_dirs (c_dst c))
          && walk_closedb fs_paths st umask mt tree (if is_dir_typ (c_typ c) then c_dst c :: seen else seen) ws'
      end
  end.

Definition oracle_okb (fs_paths : list str) (st : stats) (umask : N) (mt : Z) (ces : list (content * eoracle)) : bool :=
  forallb (fun ce : content * eoracle =>
    let '(c, eo) := ce in
    if seqb (c_typ c) TTree then
      match eo_walk eo with
      | WOk ws => walk_closedb fs_paths st umask mt c (ancestor_dirs (c_dst c)) ws
      | WErr _ => true
      end
    else true) ces.

Inductive clause :=
  | CUnique | CSorted | CShape | CDoubleRoot | CParents | CLocationUnique | CBeneathNonDir
  | CRelevant | CPlaced | CCollisionSound | CErrorSound | CUnstable.

Definition err_eqb (a b : err) : bool :=
  match a, b with
  | ECollision, ECollision | ENotExist, ENotExist | EGlobNoMatch, EGlobNoMatch | EGlobOther, EGlobOther
  | EInvalidType, EInvalidType | EWalk, EWalk | ERel, ERel | EFuel, EFuel => true
  | _, _ => false
  end.

Definition check_C05 (fs_paths : list str) (packager : str) (ces : list (content * eoracle))
           (r : result (list content)) : list clause :=
  let groups := map (entry_placements fs_paths packager) ces in
  let fail (b : bool) (c : clause) := if b then [] else [c] in
  match r with
  | Ok cs =>
      fail (nodupb (map c_dst cs)) CUnique
      ++ fail (sortedb cs) CSorted
      ++ fail (forallb dst_shapeb cs) CShape
      ++ fail (negb (existsb double_rootb cs)) CDoubleRoot
      ++ fail (parents_beforeb [] cs) CParents
      ++ fail (nodupb (map location cs)) CLocationUnique
      ++ fail (negb (beneath_nondirb cs)) CBeneathNonDir
      ++ fail (forallb (is_relevant packager) cs) CRelevant
      ++ fail (forallb (placedb cs) (concat groups)) CPlaced
  | Err ECollision => fail (clash_across [] groups) CCollisionSound
  | Err e => fail (has_input_error packager ces (fun e' => err_eqb e e' || (err_eqb e EGlobOther && err_eqb e' ERel))) CErrorSound
  end.

Definition holds_C05 fs_paths packager ces r : bool :=
  match check_C05 fs_paths packager ces r with [] => true | _ => false end.
