(* C13: what a run of Config.Get / Config.Validate must show. The expected effective settings are the model's
   [config_get]; the theorems of Proofs/C13Proofs.v say what that function is, leaf by leaf. *)
From Coq Require Import List NArith ZArith Bool String.
From Coq Require Import Strings.Byte.
From NfpmV Require Import Lib.Bytes Model.Content Model.Meta Model.Merge.
Import ListNotations.
Open Scope list_scope.

Fixpoint value_eqb (a b : value) {struct a} : bool :=
  match a, b with
  | VStr x, VStr y => seqb x y
  | VNum x, VNum y => Z.eqb x y
  | VBool x, VBool y => Bool.eqb x y
  | VOpaque x, VOpaque y => seqb x y
  | VPtr None, VPtr None => true
  | VPtr (Some x), VPtr (Some y) => value_eqb x y
  | VSlice l, VSlice m =>
      (fix go (l m : list value) : bool :=
         match l, m with
         | [], [] => true
         | x :: l', y :: m' => value_eqb x y && go l' m'
         | _, _ => false
         end) l m
  | VMap l, VMap m =>
      (* a Go map has no order: equal as sets of key/value pairs (keys are unique on both sides) *)
      Nat.eqb (List.length l) (List.length m) &&
      (fix go (l : list (str * value)) : bool :=
         match l with
         | [] => true
         | (k, x) :: l' => (match vlookup k m with Some y => value_eqb x y | None => false end) && go l'
         end) l
  | VStruct l, VStruct m =>
      (fix go (l m : list (str * value)) : bool :=
         match l, m with
         | [], [] => true
         | (k, x) :: l', (k', y) :: m' => seqb k k' && value_eqb x y && go l' m'
         | _, _ => false
         end) l m
  | _, _ => false
  end.

(* THE PROPERTY's reading of an override block: like the model's [merge], except that an entry of a custom-field map
   the block sets to the EMPTY value does not count as set - the base's value stays (the code replaces it: C13-K1) *)
Fixpoint spec_merge (fuel : nat) (dst src : value) : value :=
  match fuel with
  | O => dst
  | S n =>
      match dst, src with
      | VStruct fd, VStruct fs =>
          VStruct (map (fun '(k, d) => match vlookup k fs with Some s => (k, spec_merge n d s) | None => (k, d) end) fd)
      | VMap md, VMap ms =>
          VMap (fold_left (fun acc '(k, s) =>
                             match vlookup k acc with
                             | Some d => match d, s with
                                         | VStruct _, VStruct _ | VPtr _, VPtr _ | VMap _, VMap _ => assoc_set k (spec_merge n d s) acc
                                         | _, _ => if is_empty_value s then acc else assoc_set k s acc
                                         end
                             | None => assoc_set k s acc
                             end) ms md)
      | VPtr (Some d), VPtr (Some s) => VPtr (Some (spec_merge n d s))
      | VPtr None, VPtr (Some s) => VPtr (Some s)
      | _, _ => if is_empty_value src then dst else src
      end
  end.

Definition spec_get (base : value) (overrides : list (str * value)) (format : str) : value :=
  match vlookup format overrides with
  | None => base
  | Some ov =>
      match spec_merge 40 base ov with
      | VStruct fs => VStruct (map (fun '(k, v) => if seqb k (B "Contents") then (k, filter_contents format v) else (k, v)) fs)
      | v => v
      end
  end.

Inductive c13_clause :=
  | OEffective (f : str)        (* Get(f) differs from the base with exactly the non-empty settings of f's block replaced *)
  | OUnknownAccepted (f : str). (* a block for an unregistered format passed validation *)

Record c13_case := {
  k_base : value;
  k_blocks : list (str * value);
  k_gets : list (str * value);
  k_validate_ok : bool;
  k_registered : list str }.

Definition check_C13 (c : c13_case) : list c13_clause :=
  flat_map (fun '(f, v) => if value_eqb v (spec_get (k_base c) (k_blocks c) f) then [] else [OEffective f]) (k_gets c)
  ++ flat_map (fun '(f, _) => if negb (existsb (seqb f) (k_registered c)) && k_validate_ok c then [OUnknownAccepted f] else [])
       (k_blocks c).
