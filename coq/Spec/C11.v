(* C11: a small parsed configuration in the heap model, used as the non-vacuity witness of the history theorem and
   as the witness that the code before the two isolation fixes leaked. *)
From Coq Require Import List NArith ZArith Bool Arith String.
From Coq Require Import Strings.Byte.
From NfpmV Require Import Lib.Bytes Model.Content Model.History Model.Sharing.
Import ListNotations.
Open Scope list_scope.

Definition sig_block (l : nat) : hval :=
  HT [(B "PackageSignature", HT [(B "KeyFile", HS []); (B "KeyID", HR KPtr l); (B "KeyPassphrase", HS [])])].

Definition ex_overridables (contents fields : hval) (keyid : nat) (umask : str) : hval :=
  HT [(B "Depends", HS []); (B "Contents", contents); (B "Umask", HS umask);
      (B "Deb", HT [(B "Arch", HS []); (B "Signature", sig_block keyid); (B "Fields", fields)]);
      (B "IPK", HT [(B "Fields", HS [])])].

Definition ex_heap : heap :=
  [ (* 0 *) [(pointee, HT [(B "Owner", HS (B "bob")); (B "Group", HS []); (B "Mode", HS []); (B "MTime", HS []); (B "Size", HS [])])];
    (* 1 *) [(pointee, HT [(B "Source", HS []); (B "Destination", HS (B "/var/lib/app")); (B "Type", HS (B "dir"));
                          (B "Packager", HS []); (B "FileInfo", HR KPtr 0); (B "Expand", HS [])])];
    (* 2 *) [(B "0", HR KPtr 1)];
    (* 3 *) [(B "Bugs", HS (B "https://example.com"))];
    (* 4 *) [(pointee, HS (B "basekey"))];
    (* 5 *) [(pointee, ex_overridables (HS []) (HS []) 7 (B "23"))];
    (* 6 *) [(B "deb", HR KPtr 5)];
    (* 7 *) [(pointee, HS (B "overkey"))] ].

Definition ex_root : hval :=
  HT [(B "Info", HT [(B "Name", HS (B "foo")); (B "Arch", HS (B "amd64")); (B "Platform", HS []); (B "Version", HS (B "1.0.0"));
                     (B "Release", HS []); (B "Prerelease", HS []); (B "VersionMetadata", HS []); (B "Description", HS []);
                     (B "MTime", HS []); (B "Changelog", HS []);
                     (B "Overridables", ex_overridables (HR KSlice 2) (HR KMap 3) 4 (B "2"))]);
      (B "Overrides", HR KMap 6)].

Definition heap_eqb_den (root : hval) (h h' : heap) : bool :=
  match den 12 h root, den 12 h' root with
  | a, b => (fix eq (a b : dtree) (fuel : nat) : bool :=
               match fuel with O => false | S n =>
               match a, b with
               | DS x, DS y => seqb x y
               | DT l, DT m | DC l, DC m =>
                   (fix go (l m : list (str * dtree)) : bool :=
                      match l, m with
                      | [], [] => true
                      | (k, x) :: l', (k', y) :: m' => seqb k k' && eq x y n && go l' m'
                      | _, _ => false
                      end) l m
               | DBot, DBot => true
               | _, _ => false
               end end) a b 40
  end.
