(* C14 - version handling: the split under the default schema, and the ordering the package managers see. *)
From Coq Require Import List NArith ZArith Bool String.
From Coq Require Import Strings.Byte.
From NfpmV Require Import Lib.Bytes Model.Path Model.Content Model.Meta Model.Version Model.VerCmp.
Import ListNotations.
Open Scope string_scope.
Open Scope list_scope.

Inductive c14_clause := VSplit | VVerbatim | VExplicitWins | VNumbers | VPreBeforeRelease | VEpochDominates | VNumericOrder | VOracle.

Definition digits_dots (s : str) : bool := forallb (fun b => is_digit b || beq b "."%byte) s.

(* what the property demands of the split, stated on the observation alone *)
Definition check_split (schema v pre meta : str) (ov opre ometa : str) : list c14_clause :=
  let fail (b : bool) (c : c14_clause) := if b then [] else [c] in
  let v0 := if nonempty v then v else B "v0.0.0-rc0" in
  let parsed := if seqb schema (B "none") then None else semver_parse v0 in
  match parsed with
  | None => fail (seqb ov v0 && seqb opre pre && seqb ometa meta) VVerbatim
  | Some sv =>
      fail (seqb ov (dec (sv_major sv) ++ B "." ++ dec (sv_minor sv) ++ B "." ++ dec (sv_patch sv))) VNumbers
      ++ fail (if nonempty pre then seqb opre pre else seqb opre (sv_pre sv)) VExplicitWins
      ++ fail (if nonempty meta then seqb ometa meta else seqb ometa (sv_meta sv)) VExplicitWins
  end.

Definition is_lt (c : option comparison) : bool := match c with Some Lt => true | _ => false end.

(* deb / ipk: a = prerelease build, b = release, c = the prerelease build with a higher epoch, d = a higher patch level *)
Definition check_order_dpkg (a b c d : str) : list c14_clause :=
  let fail (x : bool) (cl : c14_clause) := if x then [] else [cl] in
  fail (is_lt (dpkg_cmp a b)) VPreBeforeRelease
  ++ fail (is_lt (dpkg_cmp b c) && is_lt (dpkg_cmp a c)) VEpochDominates
  ++ fail (is_lt (dpkg_cmp b d)) VNumericOrder.

Definition rpm_lt (x y : Z * str * str) : bool :=
  let '(e1, v1, r1) := x in let '(e2, v2, r2) := y in is_lt (rpm_cmp e1 v1 r1 e2 v2 r2).

Definition check_order_rpm (a b c d : Z * str * str) : list c14_clause :=
  let fail (x : bool) (cl : c14_clause) := if x then [] else [cl] in
  fail (rpm_lt a b) VPreBeforeRelease
  ++ fail (rpm_lt b c && rpm_lt a c) VEpochDominates
  ++ fail (rpm_lt b d) VNumericOrder.
