(* C03 - digests and sizes stored in a package match the payload shipped. The digests themselves are
   recomputed by the harness from decoded bytes; this checker decides which stored value must equal
   which recomputed one, and the structure of deb's md5sums and the size estimates. *)
From Coq Require Import List NArith ZArith Bool String.
From Coq Require Import Strings.Byte.
From NfpmV Require Import Lib.Bytes Model.Path Model.Content Model.Payload Spec.C05.
Import ListNotations.

Record fileobs := { fo_name : str; fo_isfile : bool; fo_size : Z; fo_md5 : str }.

(* deb md5sums: one line per regular payload file, in payload order: (md5 hex, member name) *)
Definition md5sums_model (payload : list fileobs) : list (str * str) :=
  map (fun e => (fo_md5 e, fo_name e)) (filter fo_isfile payload).

Definition installed_kib (payload : list fileobs) : Z :=
  Z.div (fold_right (fun e acc => (if fo_isfile e then fo_size e else 0) + acc) 0 payload)%Z 1024.

Inductive c03_clause := DDigest | DSize | DMd5sums | DInstalledSize | DMtree.

Fixpoint pairs_eqb (a b : list (str * str)) : bool :=
  match a, b with
  | [], [] => true
  | (k, v) :: a', (k', v') :: b' => seqb k k' && seqb v v' && pairs_eqb a' b'
  | _, _ => false
  end.

(* [digests]: (stored, recomputed) pairs; [sizes]: likewise; [installed]: the Installed-Size field if present *)
Definition check_C03 (f : fmt) (payload : list fileobs) (md5sums : list (str * str)) (has_md5sums : bool)
           (installed : option Z) (digests : list (str * str)) (sizes : list (Z * Z)) (mtree_ok : bool) : list c03_clause :=
  let fail (b : bool) (c : c03_clause) := if b then [] else [c] in
  fail (forallb (fun '(s, r) => seqb s r && negb (seqb s [])) digests) DDigest
  ++ fail (forallb (fun '(s, r) => Z.eqb s r) sizes) DSize
  ++ match f with
     | FDeb =>
         fail (has_md5sums && pairs_eqb md5sums (md5sums_model payload)) DMd5sums
         ++ fail (match installed with Some v => Z.eqb v (installed_kib payload) | None => false end) DInstalledSize
     | FIpk =>
         fail (match installed with
               | Some v => Z.eqb v (installed_kib payload) && negb (Z.eqb v 0)
               | None => Z.eqb (installed_kib payload) 0
               end) DInstalledSize
     | FArch => fail mtree_ok DMtree
     | _ => []
     end.
