(* C10: where the signature of each format lives, what it must be called, and the checker over what the harness
   extracted from signed packages and verified with two OpenPGP implementations and crypto/rsa. *)
From Coq Require Import List NArith ZArith Bool String.
From Coq Require Import Strings.Byte.
From NfpmV Require Import Lib.Bytes Model.Content.
Import ListNotations.
Open Scope list_scope.

Definition emptyb (s : str) : bool := match s with [] => true | _ => false end.

(* deb: the effective signature type. debsign knows origin, maint and archive (default origin); dpkg-sig takes any
   role (default builder) *)
Definition deb_effective_type (method typ : str) : option str :=
  if seqb method (B "dpkg-sig") then Some (if emptyb typ then B "builder" else typ)
  else
    let t := if emptyb typ then B "origin" else typ in
    if existsb (seqb t) [B "origin"; B "maint"; B "archive"] then Some t else None.

Definition deb_sig_member (method typ : str) : option str :=
  option_map (fun t => B "_gpg" ++ t) (deb_effective_type method typ).

(* apk: .SIGN.RSA.<key name>.rsa.pub; the key name defaults to the maintainer's mail address *)
Fixpoint after_last_lt (s acc : str) (seen : bool) : str :=
  match s with
  | [] => if seen then acc else []
  | b :: r => if beq b "<"%byte then after_last_lt r r true else after_last_lt r acc seen
  end.

Fixpoint until_gt (s : str) : str :=
  match s with
  | [] => []
  | b :: r => if beq b ">"%byte then [] else b :: until_gt r
  end.

Definition mail_address (maintainer : str) : str :=
  if existsb (fun b => beq b "<"%byte) maintainer then until_gt (after_last_lt maintainer [] false) else maintainer.

Definition apk_sig_member (keyname maintainer : str) : str :=
  let k := if emptyb keyname then mail_address maintainer else keyname in
  B ".SIGN.RSA." ++ (if has_suffix (B ".rsa.pub") k then k else k ++ B ".rsa.pub").

Inductive c10_clause :=
  | SUnexpectedError            (* signing was configured correctly and the packaging failed *)
  | SSilentSuccess              (* the signer failed or the type is invalid, and a package was reported *)
  | SErrorNotASigningFailure    (* errors.As(err, *ErrSigningFailure) is false *)
  | SErrorHidesCause            (* errors.Is(err, the signer's error) is false *)
  | SMemberName (got : str)     (* the signature is not where / not called what the verifier expects *)
  | SMissing (what : str)       (* a required signature is absent *)
  | SVerify (what who : str)    (* a signature does not verify over the bytes the verifier uses *)
  | SManifest (member : str)    (* dpkg-sig: no manifest line matches the stored member *)
  | SRole (got : str)
  | SCallbackBytes.             (* the callback was handed other bytes than the verifier checks *)

Record c10_obs := {
  o_format : str; o_expect : str; o_cb_fails : bool;
  o_ok : bool; o_as_signing : bool; o_wraps : bool;
  o_method : str; o_type : str; o_last : str; o_nmembers : nat;
  o_keyname : str; o_maintainer : str; o_first : str;
  o_sigs : list str;
  o_verify : list (str * bool * option bool);      (* name, go-crypto / crypto-rsa, gpg *)
  o_manifest : list (str * bool);
  o_role : option str;
  o_callback : option bool }.

Definition check_error (o : c10_obs) : list c10_clause :=
  (if o_as_signing o then [] else [SErrorNotASigningFailure])
  ++ (if o_cb_fails o && negb (o_wraps o) then [SErrorHidesCause] else []).

Definition check_verify (o : c10_obs) : list c10_clause :=
  flat_map (fun (v : str * bool * option bool) => let '(n, g, p) := v in (if g then [] else [SVerify n (B "go")])
                              ++ (match p with Some false => [SVerify n (B "gpg")] | _ => [] end)) (o_verify o).

Definition check_signed (o : c10_obs) : list c10_clause :=
  check_verify o
  ++ (match o_callback o with Some false => [SCallbackBytes] | _ => [] end)
  ++ (if seqb (o_format o) P_deb then
        (match deb_sig_member (o_method o) (o_type o) with
         | Some n => (if seqb (o_last o) n && Nat.eqb (o_nmembers o) 4 then [] else [SMemberName (o_last o)])
                     ++ (if existsb (seqb n) (map (fun v => fst (fst v)) (o_verify o)) then [] else [SMissing n])
         | None => [SSilentSuccess]
         end)
        ++ flat_map (fun (v : str * bool) => if snd v then [] else [SManifest (fst v)]) (o_manifest o)
        ++ (match o_role o, deb_effective_type (o_method o) (o_type o) with
            | Some r, Some t => if seqb r t then [] else [SRole r]
            | _, _ => []
            end)
      else if seqb (o_format o) P_rpm then
        flat_map (fun n => if existsb (seqb n) (map (fun v => fst (fst v)) (o_verify o)) then [] else [SMissing n])
                 [B "rsa(header)"; B "pgp(header+payload)"]
      else if seqb (o_format o) P_apk then
        let n := apk_sig_member (o_keyname o) (o_maintainer o) in
        (if seqb (o_first o) n then [] else [SMemberName (o_first o)])
        ++ (if existsb (seqb n) (map (fun v => fst (fst v)) (o_verify o)) then [] else [SMissing n])
      else []).

Definition check_C10 (o : c10_obs) : list c10_clause :=
  if seqb (o_expect o) (B "ok") then (if o_ok o then check_signed o else [SUnexpectedError])
  else if seqb (o_expect o) (B "signing-error") then (if o_ok o then [SSilentSuccess] else check_error o)
  else (* either: a key kind the method cannot use must at least fail as a signing failure *)
    (if o_ok o then check_signed o else check_error o).
