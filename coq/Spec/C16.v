(* C16 / C17 - strict parsing, environment expansion, and the JSON schema as a validator of documents. *)
From Coq Require Import List NArith ZArith Bool String.
From Coq Require Import Strings.Byte.
From NfpmV Require Import Lib.Bytes Model.Content Model.Meta Model.TypeTree Model.Expand Spec.C05.
Import ListNotations.
Open Scope string_scope.
Open Scope list_scope.

(* strict decoding also refuses a key given twice in one mapping *)
Fixpoint doc_keys_unique (fuel : nat) (d : doc) : bool :=
  match fuel with
  | O => true
  | S n =>
      match d with
      | DScalar _ => true
      | DSeq l => forallb (doc_keys_unique n) l
      | DMap kvs => nodupb (map fst kvs) && forallb (fun kv => doc_keys_unique n (snd kv)) kvs
      end
  end.

Definition strict_accepts (t : ty) (d : doc) : bool := accepts 40 t d && doc_keys_unique 40 d.

(* ---- the schema as a validator (keys, required, enum) ---- *)
Inductive sviol := SUnknownKey (k : str) | SRequired (k : str) | SEnum (v : str) | SShape.

Definition jstrs (j : json) : list str := match j with JArr l => flat_map (fun x => match x with JStr s => [s] | _ => [] end) l | _ => [] end.

Fixpoint validates (fuel : nat) (defs : list (str * json)) (node : json) (d : doc) : list sviol :=
  match fuel with
  | O => [SShape]
  | S n =>
      let o := jobj node in
      match jget "$ref" o with
      | Some (JStr r) =>
          match find (fun kv => seqb (fst kv) (ref_name r)) defs with
          | Some (_, def) => validates n defs def d
          | None => [SShape]
          end
      | _ =>
          match d with
          | DMap kvs =>
              let props := match jget "properties" o with Some (JObj p) => p | _ => [] end in
              let addl := jget "additionalProperties" o in
              flat_map (fun kv =>
                match find (fun p => seqb (fst p) (fst kv)) props with
                | Some (_, sub) => validates n defs sub (snd kv)
                | None => match addl with
                          | Some (JBool false) => [SUnknownKey (fst kv)]
                          | Some (JObj ap) => validates n defs (JObj ap) (snd kv)
                          | _ => []
                          end
                end) kvs
              ++ flat_map (fun k => if existsb (fun kv => seqb (fst kv) k) kvs then [] else [SRequired k])
                          (match jget "required" o with Some r => jstrs r | None => [] end)
          | DSeq l => match jget "items" o with Some it => flat_map (validates n defs it) l | None => [] end
          | DScalar s =>
              match jget "enum" o with
              | Some e => if existsb (seqb s) (jstrs e) then [] else [SEnum s]
              | None => []
              end
          end
      end
  end.

Definition schema_validates (s : json) (d : doc) : list sviol :=
  validates 40 (match jget "$defs" (jobj s) with Some (JObj defs) => defs | _ => [] end) s d.

Definition is_unknown_key (v : sviol) : bool := match v with SUnknownKey _ => true | _ => false end.
