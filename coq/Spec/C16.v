(* C16 / C17 - strict parsing, environment expansion, and the JSON schema as a validator of documents. *)
From Coq Require Import List NArith ZArith Bool String.
From Coq Require Import Strings.Byte.
From NfpmV Require Import Lib.Bytes Model.Content Model.Meta Model.TypeTree Model.Expand Spec.C05.
Import ListNotations.
Open Scope string_scope.
Open Scope list_scope.

(* strict decoding also refuses a key given twice in one mapping *)
Fixpoint doc_keys_unique (fuel : nat) (d : doc) : bool :=
  match fuel with
  | O => true
  | S n =>
      match d with
      | DScalar _ => true
      | DSeq l => forallb (doc_keys_unique n) l
      | DMap kvs => nodupb (map fst kvs) && forallb (fun kv => doc_keys_unique n (snd kv)) kvs
      end
  end.

Definition strict_accepts (t : ty) (d : doc) : bool := accepts 40 t d && doc_keys_unique 40 d.

(* ---- the schema as a validator (keys, required, enum) ---- *)
Inductive sviol := SUnknownKey (k : str) | SRequired (k : str) | SEnum (v : str) | SShape | SNot | SConst (v : str).

Definition jstrs (j : json) : list str := match j with JArr l => flat_map (fun x => match x with JStr s => [s] | _ => [] end) l | _ => [] end.

Definition jarr (j : json) : list json := match j with JArr l => l | _ => [] end.
Definition nilb {A} (l : list A) : bool := match l with [] => true | _ => false end.

(* [properties], [additionalProperties], [required], [items], [enum] as before; and the combinators: [not],
   [if]/[then]/[else], [allOf], [anyOf] / [oneOf] (read as "some branch validates"), [const] *)
Fixpoint validates (fuel : nat) (defs : list (str * json)) (node : json) (d : doc) : list sviol :=
  match fuel with
  | O => [SShape]
  | S n =>
      let o := jobj node in
      match jget "$ref" o with
      | Some (JStr r) =>
          match find (fun kv => seqb (fst kv) (ref_name r)) defs with
          | Some (_, def) => validates n defs def d
          | None => [SShape]
          end
      | _ =>
          (match d with
           | DMap kvs =>
               let props := match jget "properties" o with Some (JObj p) => p | _ => [] end in
               let addl := jget "additionalProperties" o in
               flat_map (fun kv =>
                 match find (fun p => seqb (fst p) (fst kv)) props with
                 | Some (_, sub) => validates n defs sub (snd kv)
                 | None => match addl with
                           | Some (JBool false) => [SUnknownKey (fst kv)]
                           | Some (JObj ap) => validates n defs (JObj ap) (snd kv)
                           | _ => []
                           end
                 end) kvs
               ++ flat_map (fun k => if existsb (fun kv => seqb (fst kv) k) kvs then [] else [SRequired k])
                           (match jget "required" o with Some r => jstrs r | None => [] end)
           | DSeq l => match jget "items" o with Some it => flat_map (validates n defs it) l | None => [] end
           | DScalar s =>
               (match jget "enum" o with
                | Some e => if existsb (seqb s) (jstrs e) then [] else [SEnum s]
                | None => []
                end)
               ++ (match jget "const" o with
                   | Some (JStr c) => if seqb s c then [] else [SConst s]
                   | _ => []
                   end)
           end)
          ++ (match jget "not" o with
              | Some sub => if nilb (validates n defs sub d) then [SNot] else []
              | None => []
              end)
          ++ (match jget "if" o with
              | Some c =>
                  if nilb (validates n defs c d)
                  then match jget "then" o with Some t => validates n defs t d | None => [] end
                  else match jget "else" o with Some e => validates n defs e d | None => [] end
              | None => []
              end)
          ++ flat_map (fun sub => validates n defs sub d) (match jget "allOf" o with Some a => jarr a | None => [] end)
          ++ (match jget "anyOf" o with
              | Some a => if existsb (fun sub => nilb (validates n defs sub d)) (jarr a) then [] else [SShape]
              | None => []
              end)
          ++ (match jget "oneOf" o with
              | Some a => if existsb (fun sub => nilb (validates n defs sub d)) (jarr a) then [] else [SShape]
              | None => []
              end)
      end
  end.

Definition schema_validates (s : json) (d : doc) : list sviol :=
  validates 40 (match jget "$defs" (jobj s) with Some (JObj defs) => defs | _ => [] end) s d.

Definition is_unknown_key (v : sviol) : bool := match v with SUnknownKey _ => true | _ => false end.

(* ---- which JSON-schema keywords the emitted schema uses ----
   The validator above understands $ref/$defs, properties, additionalProperties, required, enum, items, const and
   the combinators not, if/then/else, allOf, anyOf, oneOf; the annotation keywords carry no constraint. Any other
   keyword (pattern, minLength, dependentRequired ...) would be a constraint the validator does not see. *)
Fixpoint schema_keywords (fuel : nat) (j : json) : list str :=
  match fuel with
  | O => []
  | S n =>
      match j with
      | JObj ms =>
          flat_map (fun kv =>
            let k := fst kv in
            if seqb k (B "properties") || seqb k (B "$defs") || seqb k (B "definitions") || seqb k (B "patternProperties") then
              k :: match snd kv with JObj subs => flat_map (fun s => schema_keywords n (snd s)) subs | _ => [] end
            else if seqb k (B "enum") || seqb k (B "required") || seqb k (B "examples") || seqb k (B "default") || seqb k (B "type") then [k]
            else k :: match snd kv with
                      | JObj _ => schema_keywords n (snd kv)
                      | JArr l => flat_map (schema_keywords n) l
                      | _ => []
                      end) ms
      | _ => []
      end
  end.

Definition understood_keywords : list str :=
  [B "$schema"; B "$id"; B "$ref"; B "$defs"; B "properties"; B "additionalProperties"; B "required"; B "enum"; B "items";
   B "type"; B "format"; B "title"; B "description"; B "default"; B "examples"; B "$comment";
   B "not"; B "if"; B "then"; B "else"; B "allOf"; B "anyOf"; B "oneOf"; B "const"].

Definition foreign_keywords (schema : json) : list str :=
  filter (fun k => negb (existsb (seqb k) understood_keywords)) (schema_keywords 40 schema).
