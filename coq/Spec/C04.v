(* C04 - well-formed archives: member names of every tar, and the container-level facts established by
   the independent decoders. *)
From Coq Require Import List NArith ZArith Bool String.
From Coq Require Import Strings.Byte.
From NfpmV Require Import Lib.Bytes Model.Path Model.Content Model.Payload Spec.C05.
Import ListNotations.

Definition no_dotdot (name : str) : bool := negb (existsb is_dotdot (split name)).

Definition is_relative (name : str) : bool := match name with b :: _ => negb (is_slash b) | [] => true end.

Definition dot_prefixed (name : str) : bool := has_prefix [dot; slash] name.

(* the directory part of a member name: everything up to and including the last slash before the base
   name ("a/b/c" -> "a/b/", "a/b/" -> "a/", "a" -> "") *)
Definition parent_name (name : str) : str :=
  let n := strip_dir_slash name in
  rev (upto_last_slash_rev (rev n)).

(* every member's parent directory appears earlier (the top level and "./" need no entry) *)
Fixpoint parents_precedeb (seen : list str) (names : list str) : bool :=
  match names with
  | [] => true
  | n :: rest =>
      let p := parent_name n in
      (seqb p [] || seqb p [dot; slash] || existsb (seqb p) seen) && parents_precedeb (n :: seen) rest
  end.

Inductive c04_clause := WUnique | WRelative | WDotPrefix | WNoDotDot | WDirSlash | WParents | WStruct | WOrder | WEmptyName.

(* [names]: tar member names in archive order with whether the member is a directory *)
Definition check_names (f : fmt) (members : list (str * bool)) : list c04_clause :=
  let fail (b : bool) (c : c04_clause) := if b then [] else [c] in
  let names := map fst members in
  fail (nodupb names) WUnique
  ++ fail (forallb is_relative names) WRelative
  ++ fail (match f with FDeb | FIpk => forallb dot_prefixed names | _ => true end) WDotPrefix
  ++ fail (forallb no_dotdot names) WNoDotDot
  ++ fail (forallb (fun '(n, d) => negb d || has_suffix [slash] n || seqb n []) members) WDirSlash
  ++ fail (negb (existsb (fun n => seqb n []) names)) WEmptyName
  ++ fail (parents_precedeb [] names) WParents.

Definition check_C04 (f : fmt) (members : list (str * bool)) (struct_ok : bool) (order_ok : bool) : list c04_clause :=
  let fail (b : bool) (c : c04_clause) := if b then [] else [c] in
  (match f with FRpm => [] | _ => check_names f members end)
  ++ fail struct_ok WStruct ++ fail order_ok WOrder.
