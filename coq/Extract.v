(* All extraction directives in one place. Run by [coqc] from ocaml/extracted/.
   ExtrOcamlBasic: bool, option, unit, list, prod, sumbool -> OCaml's own types.
   ExtrOcamlNativeString: [byte] -> OCaml [char] (256 constructors, listed in the stock file),
   [string] -> OCaml [string]. N/Z/positive/nat stay Coq's inductive types. *)
From Coq Require Import Extraction ExtrOcamlBasic ExtrOcamlNativeString.
From NfpmV Require Import Lib.Bytes Model.Path Model.Content Model.Prepare Model.Payload Model.Meta Model.Version Model.VerCmp Model.Cli Model.TypeTree Model.Expand Model.Merge Model.Writers Model.OutputProgs Model.Cpio Model.Tar Model.RpmFile Model.Container Model.Mtree Model.TarFields Model.Deb822 Model.DebLists Model.Pkginfo Proofs.PkginfoProofs Proofs.Deb822Proofs Proofs.ControlFields Spec.C06 Spec.C07 Spec.C10 Model.History Model.Conc Model.Sharing Proofs.C12Proofs Spec.C13 Spec.C16 Spec.C14 Spec.C15 Spec.C05 Spec.C01 Spec.C08 Spec.C09 Spec.C03 Spec.C04 Spec.C02.
From NfpmV Require Import Gen.ArchTables Gen.TypeTree Gen.Schema.
From NfpmV Require Import Gen.FsPaths.
Extraction Language OCaml.
(* Coq's List.rev is the quadratic [rev l ++ [x]]; the models reverse 70 KB strings. OCaml's List.rev computes the
   same function (rev_alt in the standard library). This is the only hand-written Extract Constant. *)
Extract Constant List.rev => "List.rev".
Extraction "model.ml"
  norm_file norm_dir as_rel as_explicit_rel to_nix ancestor_dirs
  prep check_C05 holds_C05 oracle_okb owned_paths
  payload_of check_C01 holds_C01 envelope_C01 lookup_hash tzero fi_empty
  check_C08 conffiles_model backups_model check_C09 model_scripts expected_scripts render_install sort_slots
  check_C03 arch_mtree mtree_reencodes mtree_read mtree_text check_C04 check_names cpio_reencodes cpio_read tar_reencodes_full tar_reencodes_cut tar_raw_list tar_logical tar_fields_reencode rpm_reencodes ar_reencodes
  md5sums_text md5sums_read conffiles_text conffiles_read p_read arch_info_fields wf_pfield d_read control_single_lines deb_fields kv_of deb_control ipk_control apk_pkginfo arch_pkginfo rpm_meta check_C02 c02_clause_text arch_prerelease_dropped
  arch_deb arch_rpm arch_apk arch_ipk arch_archlinux arch_doc gs
  split_version semver_parse dpkg_cmp rpm_cmp check_split check_order_dpkg check_order_rpm
  cli_plan check_cli check_filename expected_filename model_filename
  strict_accepts schema_validates is_unknown_key doc_keys_unique config_ty schema_emitted
  config_get merge vget check_C13 value_eqb spec_get
  check_write check_ref check_invalid check_cli_run deb_dest_writes ref_used must_reject do_package
  check_build check_stamp check_C10 deb_sig_member apk_sig_member
  model_private get_aliases model_run all_ops solo_private t_init script_of run_sched
  expand_kind expand_list expand_scalar default_scalar passphrase os_expand.
