(* All extraction directives in one place. Run by [coqc] from ocaml/extracted/.
   ExtrOcamlBasic: bool, option, unit, list, prod, sumbool -> OCaml's own types.
   ExtrOcamlNativeString: [byte] -> OCaml [char] (256 constructors, listed in the stock file),
   [string] -> OCaml [string]. N/Z/positive/nat stay Coq's inductive types. *)
From Coq Require Import Extraction ExtrOcamlBasic ExtrOcamlNativeString.
From NfpmV Require Import Lib.Bytes Model.Path Model.Content Model.Prepare Model.Payload Spec.C05 Spec.C01 Spec.C08 Spec.C09 Spec.C03 Spec.C04.
From NfpmV Require Import Gen.FsPaths.
Extraction Language OCaml.
Extraction "model.ml"
  norm_file norm_dir as_rel as_explicit_rel to_nix ancestor_dirs
  prep check_C05 holds_C05 oracle_okb owned_paths
  payload_of check_C01 holds_C01 envelope_C01 lookup_hash tzero fi_empty
  check_C08 conffiles_model backups_model check_C09 model_scripts expected_scripts render_install sort_slots
  check_C03 check_C04 check_names.
