(* Writer stacks over a destination that fails (C06). A destination write either goes through or - when the fault
   predicate fires at its index - is lost and reports an error. Above the destination sit layers (tar, gzip, zstd,
   ar ...) that buffer: a write to a layer may or may not reach the layer below (an arbitrary flush schedule - how
   a compressor decides is not modelled), a Close always flushes. Every layer has Go's sticky error: after a
   failed write below it, it reports an error on every later operation. A packager's output stage is a program of
   writes and closes, each marked with whether the code checks the returned error. *)
From Coq Require Import List Arith Lia Bool.
From Coq Require Import Strings.Byte.
From NfpmV Require Import Lib.Bytes.
Import ListNotations.

Record dest := { writes : nat; got : str }.
Record layer := { pend : str; lerr : bool }.

Section W.
Variable fault : nat -> bool.

Definition dwrite (d : dest) (p : str) : dest * bool :=
  if fault (writes d) then ({| writes := S (writes d); got := got d |}, true)
  else ({| writes := S (writes d); got := got d ++ p |}, false).

Fixpoint push (ls : list layer) (p : str) (force : bool) (sched : list bool) (d : dest)
  : list layer * list bool * dest * bool :=
  match ls with
  | [] => let '(d', e) := dwrite d p in ([], sched, d', e)
  | l :: below =>
      if lerr l then (ls, sched, d, true)
      else
        let buf := pend l ++ p in
        if force || hd false sched then
          let '(below', sched'', d', e) := push below buf false (tl sched) d in
          ({| pend := []; lerr := e |} :: below', sched'', d', e)
        else ({| pend := buf; lerr := false |} :: below, tl sched, d, false)
  end.

Definition fired (d : dest) : Prop := exists i, i < writes d /\ fault i = true.
End W.

Definition sticky (l : layer) : Prop := lerr l = true.
Definition mono (ls ls' : list layer) : Prop := Forall2 (fun l l' => sticky l -> sticky l') ls ls'.

(* programs: an op addresses the sub-stack starting at layer j (j = number of layers means the bare destination) *)
Inductive op := OWrite (j : nat) (p : str) (checked : bool) | OClose (j : nat) (trailer : str) (checked : bool).
Definition op_j o := match o with OWrite j _ _ | OClose j _ _ => j end.
Definition op_checked o := match o with OWrite _ _ c | OClose _ _ c => c end.

Record st := { ls : list layer; sched : list bool; dst : dest }.

Section X.
Variable fault : nat -> bool.

Definition do_op (o : op) (s : st) : st * bool :=
  let j := op_j o in
  let '(p, force) := match o with OWrite _ p _ => (p, false) | OClose _ t _ => (t, true) end in
  let '(sub', sched', d', e) := push fault (skipn j (ls s)) p force (sched s) (dst s) in
  ({| ls := firstn j (ls s) ++ sub'; sched := sched'; dst := d' |}, e).

(* the program stops at the first error it checks and reports failure; an unchecked error is dropped *)
Fixpoint exec (ops : list op) (s : st) : st * bool :=
  match ops with
  | [] => (s, false)
  | o :: ops' => let '(s', e) := do_op o s in
                 if e && op_checked o then (s', true) else exec ops' s'
  end.

Definition Inv (j : nat) (s : st) : Prop := fired fault (dst s) -> Exists sticky (skipn j (ls s)).
End X.

Definition wf_op (n : nat) (o : op) : Prop := op_checked o = true \/ op_j o < n.

(* closing every layer, top down, each close checked *)
Fixpoint closes (j n : nat) (tr : nat -> str) : list op :=
  match n with 0 => [] | S n' => OClose j (tr j) true :: closes (S j) n' tr end.

Definition fresh_stack (n : nat) (sched : list bool) : st :=
  {| ls := repeat {| pend := []; lerr := false |} n; sched := sched; dst := {| writes := 0; got := [] |} |}.
