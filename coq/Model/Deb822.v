(* The control file of a deb / ipk as text (C02, C15): "Key: value" lines, a value continued on lines that begin
   with a blank (deb-control(5) / RFC 822 style), and the reader a package manager applies to it.  The writer side
   is what the control templates of deb/deb.go and ipk/ipk.go produce (Model/Meta.v: field, opt_field, ...); here
   the same text is produced from a LIST of fields, which is what a reader recovers. *)
From Coq Require Import List NArith Bool Arith Lia String.
From Coq Require Import Strings.Byte.
From NfpmV Require Import Lib.Bytes Model.Container Model.Mtree.
Import ListNotations.
Open Scope list_scope.

Definition colon : byte := x3a.
Definition tab : byte := x09.

(* a field: key, first line of the value, continuation lines as stored (each begins with a blank) *)
Record dfield := { df_key : str; df_first : str; df_conts : list str }.

Definition df_value (f : dfield) : str := df_first f ++ flat_map (fun c => nl :: c) (df_conts f).

Definition df_lines (f : dfield) : list str := (df_key f ++ colon :: sp :: df_first f) :: df_conts f.

Definition d_write (fs : list dfield) : str := flat_map (fun f => df_key f ++ colon :: sp :: df_value f ++ [nl]) fs.

(* ---------- reading ---------- *)
Definition is_cont (l : str) : bool := match l with b :: _ => beq b sp || beq b tab | [] => false end.

Definition split_key (l : str) : option (str * str) :=
  let k := take_whileb (fun b => negb (beq b colon)) l in
  match k, skipn (List.length k) l with
  | [], _ => None
  | _, c :: s :: v => if beq c colon && beq s sp then Some (k, v) else if beq c colon then Some (k, s :: v) else None
  | _, [c] => if beq c colon then Some (k, []) else None
  | _, [] => None
  end.

(* fields in reverse order of appearance while reading; a field is (key, value) with continuation lines joined by
   newlines, each as stored *)
Fixpoint d_lines (ls : list str) (acc : list (str * str)) : option (list (str * str)) :=
  match ls with
  | [] => Some (rev acc)
  | l :: r =>
      if is_cont l then
        match acc with
        | (k, v) :: acc' => d_lines r ((k, v ++ nl :: l) :: acc')
        | [] => None
        end
      else
        match split_key l with
        | Some (k, v) => d_lines r ((k, v) :: acc)
        | None => None
        end
  end.

(* the text must end with a newline *)
Definition d_read (s : str) : option (list (str * str)) :=
  match rev (splitb nl s) with
  | [] :: ls' => d_lines (rev ls') []
  | _ => None
  end.

Fixpoint d_get (k : str) (fs : list (str * str)) : option str :=
  match fs with
  | [] => None
  | (k', v) :: r => if seqb k k' then Some v else d_get k r
  end.

(* ---------- well-formed fields ---------- *)
Definition no_nl (s : str) : bool := forallb (fun b => negb (beq b nl)) s.

Definition wf_key (k : str) : bool :=
  match k with
  | [] => false
  | b :: _ => negb (beq b sp) && negb (beq b tab) && forallb (fun c => negb (beq c colon) && negb (beq c nl)) k
  end.

Definition wf_dfield (f : dfield) : bool :=
  wf_key (df_key f) && no_nl (df_first f) && forallb (fun c => is_cont c && no_nl c) (df_conts f).
