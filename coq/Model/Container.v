(* The ar container of a .deb as blakesmith/ar writes it and as dpkg / the harness's decoder read it back, and the
   bytes a debsign verifier checks (C10). The 32 header bytes holding mtime, uid, gid and mode are a parameter. *)
From Coq Require Import List NArith ZArith Bool Arith Lia String.
From Coq Require Import Strings.Byte Strings.Ascii Numbers.DecimalString Numbers.DecimalN Numbers.DecimalPos.
From NfpmV Require Import Lib.Bytes.
Import ListNotations.
Open Scope list_scope.

Definition sp : byte := x20.
Definition digitb (b : byte) : bool := let n := Byte.to_N b in (48 <=? n)%N && (n <=? 57)%N.

Fixpoint take_whileb (f : byte -> bool) (s : str) : str :=
  match s with
  | [] => []
  | b :: r => if f b then b :: take_whileb f r else []
  end.

Definition dec_nat (n : nat) : str := list_byte_of_string (NilZero.string_of_uint (N.to_uint (N.of_nat n))).
Definition parse_dec (s : str) : option nat :=
  option_map (fun d => N.to_nat (N.of_uint d)) (NilZero.uint_of_string (string_of_list_byte s)).

Definition pad_right (n : nat) (s : str) : str := s ++ repeat sp (n - List.length s).

Record member := { m_name : str; m_rest : str; m_body : str }.   (* m_rest: the 32 bytes mtime/uid/gid/mode *)

Definition ar_magic : str := [x21; x3c; x61; x72; x63; x68; x3e; x0a]%byte.
Definition hdr_end : str := [x60; x0a]%byte.

Definition enc_member (m : member) : str :=
  pad_right 16 (m_name m) ++ m_rest m ++ pad_right 10 (dec_nat (List.length (m_body m))) ++ hdr_end
  ++ m_body m ++ (if Nat.odd (List.length (m_body m)) then [x0a]%byte else []).

Definition ar_encode (ms : list member) : str := ar_magic ++ List.concat (map enc_member ms).

(* reading back: name up to the first blank of the 16 name bytes, size from the digits of bytes 48..57 *)
Fixpoint ar_members (fuel : nat) (s : str) : option (list (str * str)) :=
  match fuel with
  | O => None
  | S f =>
      match s with
      | [] => Some []
      | _ =>
          let h := firstn 60 s in
          let name := take_whileb (fun b => negb (beq b sp)) (firstn 16 h) in
          match parse_dec (take_whileb digitb (firstn 10 (skipn 48 h))) with
          | None => None
          | Some size =>
              let after := skipn 60 s in
              match ar_members f (skipn (size + (if Nat.odd size then 1 else 0)) after) with
              | Some r => Some ((name, firstn size after) :: r)
              | None => None
              end
          end
      end
  end.

Definition ar_decode (s : str) : option (list (str * str)) :=
  if seqb (firstn 8 s) ar_magic then ar_members (S (List.length s)) (skipn 8 s) else None.

(* the same walk keeping every header byte, for the per-run check that a real .deb IS [ar_encode] of its members *)
Fixpoint ar_members_full (fuel : nat) (s : str) : option (list member) :=
  match fuel with
  | O => None
  | S f =>
      match s with
      | [] => Some []
      | _ =>
          let h := firstn 60 s in
          let name := take_whileb (fun b => negb (beq b sp)) (firstn 16 h) in
          match parse_dec (take_whileb digitb (firstn 10 (skipn 48 h))) with
          | None => None
          | Some size =>
              let after := skipn 60 s in
              match ar_members_full f (skipn (size + (if Nat.odd size then 1 else 0)) after) with
              | Some r => Some ({| m_name := name; m_rest := firstn 32 (skipn 16 h); m_body := firstn size after |} :: r)
              | None => None
              end
          end
      end
  end.

Definition ar_reencodes (s : str) : bool :=
  seqb (firstn 8 s) ar_magic &&
  match ar_members_full (S (List.length s)) (skipn 8 s) with
  | Some ms => seqb (ar_encode ms) s
  | None => false
  end.

(* debsign / dpkg --verify: the first three members' contents, concatenated as stored *)
Definition debsign_input (ms : list (str * str)) : str := List.concat (map snd (firstn 3 ms)).

Definition wf_member (m : member) : Prop :=
  m_name m <> [] /\ List.length (m_name m) <= 16 /\ forallb (fun b => negb (beq b sp)) (m_name m) = true /\
  List.length (m_rest m) = 32 /\ List.length (dec_nat (List.length (m_body m))) <= 10.
