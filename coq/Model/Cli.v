(* internal/cmd.doPackage: which packager is used and where the package is written. *)
From Coq Require Import List NArith ZArith Bool String.
From Coq Require Import Strings.Byte.
From NfpmV Require Import Lib.Bytes Model.Path Model.Content Model.Meta.
Import ListNotations.
Open Scope list_scope.

(* filepath.Ext: the suffix beginning at the final dot of the final path element *)
Fixpoint ext_rev (acc : str) (r : str) : str :=
  match r with
  | [] => []
  | b :: r' => if is_slash b then [] else if beq b dot then dot :: acc else ext_rev (b :: acc) r'
  end.
Definition ext_of (p : str) : str := ext_rev [] (rev p).

Inductive cli_result := CliErr | CliOk (packager : str) (path : str).

(* [conv]: the conventional file name of the package for the packager given by the flag *)
Definition cli_plan (registered : list str) (target : str) (is_dir : bool) (flag : str) (conv : str) : cli_result :=
  let pk :=
    if nonempty flag then Some flag
    else let e := ext_of target in
         if is_dir || negb (nonempty e) then None else Some (tl e) in
  match pk with
  | None => CliErr
  | Some p =>
      if negb (existsb (seqb p) registered) then CliErr
      else CliOk p (if negb (nonempty target) then conv
                    else if is_dir then join2 target conv
                    else target)
  end.
