(* nfpm.WithDefaults' version handling: Masterminds/semver NewVersion (the anchored regular expression, as a
   deterministic recursive-descent parser, and the uint64 range check) and Info.parseSemver. *)
From Coq Require Import List NArith ZArith Bool String.
From Coq Require Import Strings.Byte.
From NfpmV Require Import Lib.Bytes Model.Path Model.Content Model.Meta.
Import ListNotations.
Open Scope string_scope.
Open Scope list_scope.

Definition is_digit (b : byte) : bool := let n := Byte.to_N b in (48 <=? n)%N && (n <=? 57)%N.
Definition is_alnum_dash (b : byte) : bool :=
  let n := Byte.to_N b in
  is_digit b || ((65 <=? n)%N && (n <=? 90)%N) || ((97 <=? n)%N && (n <=? 122)%N) || beq b "-"%byte.

(* NUM = 0 | [1-9][0-9]*  : the maximal digit run must not have a leading zero (unless it is "0") *)
Definition take_num (s : str) : option (str * str) :=
  let d := take_while is_digit s in
  match d with
  | [] => None
  | b :: r => if beq b "0"%byte && nonempty r then None else Some (d, skipn (List.length d) s)
  end.

(* (?:\.(NUM))? : taken iff a '.' followed by a NUM is there *)
Definition opt_dot_num (s : str) : option str * str :=
  match s with
  | b :: s' => if beq b "."%byte then match take_num s' with Some (d, r) => (Some d, r) | None => (None, s) end else (None, s)
  | [] => (None, s)
  end.

(* identifiers separated by '.', each a non-empty maximal run of [0-9A-Za-z-] accepted by [ok] *)
Fixpoint take_idents (fuel : nat) (ok : str -> bool) (s : str) : option (str * str) :=
  match fuel with
  | O => None
  | S f =>
      let id := take_while is_alnum_dash s in
      if negb (nonempty id) || negb (ok id) then None
      else
        let r := skipn (List.length id) s in
        match r with
        | b :: r' => if beq b "."%byte then
                       match take_idents f ok r' with Some (more, rest) => Some (id ++ [b] ++ more, rest) | None => None end
                     else Some (id, r)
        | [] => Some (id, [])
        end
  end.

Definition pre_ident_ok (id : str) : bool :=
  if forallb is_digit id then match id with b :: r => negb (beq b "0"%byte && nonempty r) | [] => false end else true.

Record semver := { sv_major : Z; sv_minor : Z; sv_patch : Z; sv_pre : str; sv_meta : str }.

Definition u64 (d : str) : option Z := parse_uint 18446744073709551616 d.

Definition semver_parse (v : str) : option semver :=
  let s0 := match v with b :: r => if beq b "v"%byte then r else v | [] => v end in
  match take_num s0 with
  | None => None
  | Some (maj, s1) =>
      let '(mino, s2) := opt_dot_num s1 in
      let '(pato, s3) := opt_dot_num s2 in
      let pre_res :=
        match s3 with
        | b :: r => if beq b "-"%byte then
                      match take_idents (S (List.length r)) pre_ident_ok r with Some (p, rest) => Some (p, rest) | None => None end
                    else Some ([], s3)
        | [] => Some ([], s3)
        end in
      match pre_res with
      | None => None
      | Some (pre, s4) =>
          let meta_res :=
            match s4 with
            | b :: r => if beq b "+"%byte then
                          match take_idents (S (List.length r)) (fun _ => true) r with Some (m, rest) => Some (m, rest) | None => None end
                        else Some ([], s4)
            | [] => Some ([], s4)
            end in
          match meta_res with
          | Some (meta, []) =>
              match u64 maj, (match mino with Some d => u64 d | None => Some 0%Z end),
                    (match pato with Some d => u64 d | None => Some 0%Z end) with
              | Some a, Some b, Some c => Some {| sv_major := a; sv_minor := b; sv_patch := c; sv_pre := pre; sv_meta := meta |}
              | _, _, _ => None
              end
          | _ => None
          end
      end
  end.

(* Info.parseSemver under WithDefaults: (version, prerelease, metadata) after defaults *)
Definition split_version (schema version pre meta : str) : str * str * str :=
  let version := if nonempty version then version else B "v0.0.0-rc0" in
  if seqb schema (B "none") then (version, pre, meta)
  else match semver_parse version with
       | None => (version, pre, meta)
       | Some v =>
           (dec (sv_major v) ++ B "." ++ dec (sv_minor v) ++ B "." ++ dec (sv_patch v),
            (if nonempty pre then pre else sv_pre v),
            (if nonempty meta then meta else sv_meta v))
       end.
