(* The tar container at block level, as archive/tar's Writer lays it out for every header format nfpm uses
   (USTAR, PAX, GNU - extension members 'x', 'g', 'L', 'K' are members like any other here) and as every tar
   reader walks it (C04): 512-byte header blocks whose size field is 11 octal digits and a NUL, whose checksum
   field is 6 octal digits, a NUL and a blank over the block with that field read as blanks; bodies padded to
   512; two zero blocks at the end - or none, for apk's "cut" segments.  The remaining header bytes (name,
   mode, owner ids, mtime, typeflag, link name, magic, owner names, device numbers, prefix) are carried raw. *)
From Coq Require Import List NArith Bool Arith Lia.
From Coq Require Import Strings.Byte.
From NfpmV Require Import Lib.Bytes.
Import ListNotations.
Open Scope list_scope.

Definition tnul : byte := x00.
Definition tspace : byte := x20.

(* ---------- octal fields ---------- *)
Definition oct_digit (d : N) : byte :=
  match d with
  | 0 => x30 | 1 => x31 | 2 => x32 | 3 => x33 | 4 => x34 | 5 => x35 | 6 => x36 | _ => x37
  end%N.
Definition oct_val (b : byte) : option N :=
  match b with
  | x30 => Some 0 | x31 => Some 1 | x32 => Some 2 | x33 => Some 3
  | x34 => Some 4 | x35 => Some 5 | x36 => Some 6 | x37 => Some 7 | _ => None
  end%N.

(* k digits, most significant first *)
Fixpoint oct_fixed (k : nat) (n : N) : str :=
  match k with
  | O => []
  | S k' => oct_fixed k' (n / 8) ++ [oct_digit (n mod 8)]
  end.

Fixpoint parse_oct_acc (acc : N) (s : str) : option N :=
  match s with
  | [] => Some acc
  | c :: r => match oct_val c with Some d => parse_oct_acc (acc * 8 + d) r | None => None end
  end.
Definition parse_oct (s : str) : option N := parse_oct_acc 0 s.

Fixpoint sum_bytes (s : str) : N := match s with [] => 0 | b :: r => bN b + sum_bytes r end%N.

Definition all_zero (s : str) : bool := forallb (fun b => beq b tnul) s.

Definition pad512 (n : nat) : nat := (512 - n mod 512) mod 512.

(* ---------- members ---------- *)
Record tmember := {
  tm_pre : str;      (* name mode uid gid: 124 bytes *)
  tm_mtime : str;    (* 12 bytes *)
  tm_post : str;     (* typeflag .. end of block: 356 bytes *)
  tm_data : str
}.

Definition size_field (m : tmember) : str := oct_fixed 11 (N.of_nat (List.length (tm_data m))) ++ [tnul].
Definition header_sum (m : tmember) : N :=
  (sum_bytes (tm_pre m) + sum_bytes (size_field m) + sum_bytes (tm_mtime m) + 256 + sum_bytes (tm_post m))%N.
Definition chk_field (m : tmember) : str := oct_fixed 6 (header_sum m) ++ [tnul; tspace].

Definition theader (m : tmember) : str := tm_pre m ++ size_field m ++ tm_mtime m ++ chk_field m ++ tm_post m.
Definition enc_member (m : tmember) : str := theader m ++ tm_data m ++ repeat tnul (pad512 (List.length (tm_data m))).

(* a segment without the end-of-archive marker (apk: signature and control segments), and a complete archive *)
Definition tar_cut (ms : list tmember) : str := List.concat (map enc_member ms).
Definition tar_full (ms : list tmember) : str := tar_cut ms ++ repeat tnul 1024.

(* ---------- reading ---------- *)
(* the members up to the first zero block or the end of the input, and what is left from there *)
Fixpoint tar_members (fuel : nat) (s : str) : option (list tmember * str) :=
  match fuel with
  | O => None
  | S f =>
      let h := firstn 512 s in
      if Nat.ltb (List.length h) 512 then match s with [] => Some ([], []) | _ => None end
      else if all_zero h then Some ([], s)
      else
        match parse_oct (firstn 11 (skipn 124 h)), parse_oct (firstn 6 (skipn 148 h)) with
        | Some size, Some chk =>
            let sz := N.to_nat size in
            let body := skipn 512 s in
            if negb (N.eqb chk (sum_bytes (firstn 148 h) + 256 + sum_bytes (skipn 156 h)))
               || negb (seqb (firstn 1 (skipn 135 h)) [tnul])
               || negb (seqb (firstn 2 (skipn 154 h)) [tnul; tspace])
               || Nat.ltb (List.length body) (sz + pad512 sz)
               || negb (all_zero (firstn (pad512 sz) (skipn sz body))) then None
            else
              match tar_members f (skipn (sz + pad512 sz) body) with
              | Some (r, rest) =>
                  Some ({| tm_pre := firstn 124 h; tm_mtime := firstn 12 (skipn 136 h); tm_post := skipn 156 h;
                           tm_data := firstn sz body |} :: r, rest)
              | None => None
              end
        | _, _ => None
        end
  end.

Definition tar_read (s : str) : option (list tmember * str) := tar_members (S (List.length s)) s.

Definition wf_tmember (m : tmember) : Prop :=
  List.length (tm_pre m) = 124 /\ List.length (tm_mtime m) = 12 /\ List.length (tm_post m) = 356 /\
  (N.of_nat (List.length (tm_data m)) < 8 ^ 11)%N.

(* the per-run checks on the bytes of a real tar: they parse, and writing the parsed members with the model's
   writer gives the same bytes back *)
Definition tar_reencodes_full (s : str) : bool :=
  match tar_read s with
  | Some (ms, rest) => seqb rest (repeat tnul 1024) && seqb (tar_full ms) s
  | None => false
  end.
Definition tar_reencodes_cut (s : str) : bool :=
  match tar_read s with
  | Some (ms, rest) => seqb rest [] && seqb (tar_cut ms) s
  | None => false
  end.

(* observables for the comparison with the harness's raw block scan: typeflag, size *)
Definition tar_raw_list (s : str) : option (list (byte * nat)) :=
  option_map (fun p => map (fun m => (nth 0 (tm_post m) tnul, List.length (tm_data m))) (fst p)) (tar_read s).
