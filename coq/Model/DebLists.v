(* Two line-oriented control members of a deb / ipk as text: md5sums ("<hex digest>  <name>" per regular payload file,
   C03) and conffiles (one absolute path per line, C08), with the readers dpkg applies. *)
From Coq Require Import List NArith Bool Arith Lia String.
From Coq Require Import Strings.Byte.
From NfpmV Require Import Lib.Bytes Model.Container Model.Mtree.
Import ListNotations.
Open Scope list_scope.

Definition md5_line (p : str * str) : str := fst p ++ sp :: sp :: snd p.
Definition md5sums_text (ps : list (str * str)) : str := flat_map (fun p => md5_line p ++ [nl]) ps.

Definition md5_split (l : str) : option (str * str) :=
  let d := take_whileb (fun b => negb (beq b sp)) l in
  match d with
  | [] => None
  | _ => match skipn (List.length d) l with
         | a :: b :: name => if beq a sp && beq b sp then Some (d, name) else None
         | _ => None
         end
  end.

Fixpoint map_opt {A B} (f : A -> option B) (l : list A) : option (list B) :=
  match l with
  | [] => Some []
  | x :: r => match f x, map_opt f r with Some y, Some ys => Some (y :: ys) | _, _ => None end
  end.

(* the lines of a text that ends with a newline (or is empty) *)
Definition text_lines (s : str) : option (list str) :=
  match rev (splitb nl s) with [] :: ls' => Some (rev ls') | _ => None end.

Definition md5sums_read (s : str) : option (list (str * str)) :=
  match text_lines s with Some ls => map_opt md5_split ls | None => None end.

(* strings.Join(paths, "\n") + "\n": one path per line - and a single blank line when there is none; a reader skips
   blank lines *)
Definition conffiles_text (ps : list str) : str :=
  match ps with [] => [nl] | _ => flat_map (fun p => p ++ [nl]) ps end.
Definition nonblank (l : str) : bool := match l with [] => false | _ => true end.
Definition conffiles_read (s : str) : option (list str) := option_map (filter nonblank) (text_lines s).

Definition line_ok (s : str) : bool := forallb (fun b => negb (beq b nl)) s.
Definition wf_md5 (p : str * str) : bool :=
  match fst p with [] => false | _ => forallb (fun b => negb (beq b sp) && negb (beq b nl)) (fst p) end && line_ok (snd p).
