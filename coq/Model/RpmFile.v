(* The layout of an rpm file as rpmpack writes it and as rpm / the harness's parser read it (C04): 96-byte lead,
   signature header section, zero padding to a multiple of 8, header section, payload.  A header section is the
   8-byte magic, the number of index entries and the store size as 32-bit big-endian numbers, 16 bytes per index
   entry (tag, type, offset, count - four 32-bit big-endian numbers) and the store. *)
From Coq Require Import List NArith Bool Arith Lia.
From Coq Require Import Strings.Byte.
From NfpmV Require Import Lib.Bytes.
Import ListNotations.
Open Scope list_scope.

Definition rnul : byte := x00.

Definition byte_of_N (n : N) : byte := match Byte.of_N (n mod 256) with Some b => b | None => x00 end.

Definition be32 (n : N) : str :=
  [byte_of_N (n / 16777216); byte_of_N (n / 65536); byte_of_N (n / 256); byte_of_N n].
Definition rd32 (s : str) : N :=
  match s with
  | a :: b :: c :: d :: _ => bN a * 16777216 + bN b * 65536 + bN c * 256 + bN d
  | _ => 0
  end%N.

Definition lead_magic : str := [xed; xab; xee; xdb]%byte.
Definition section_magic : str := [x8e; xad; xe8; x01; x00; x00; x00; x00]%byte.

Record ientry := { ie_tag : N; ie_type : N; ie_off : N; ie_cnt : N }.
Record rsection := { rs_index : list ientry; rs_store : str }.
Record rpmfile := { rf_lead : str; rf_sig : rsection; rf_hdr : rsection; rf_payload : str }.

Definition enc_ientry (e : ientry) : str := be32 (ie_tag e) ++ be32 (ie_type e) ++ be32 (ie_off e) ++ be32 (ie_cnt e).
Definition enc_section (x : rsection) : str :=
  section_magic ++ be32 (N.of_nat (List.length (rs_index x))) ++ be32 (N.of_nat (List.length (rs_store x)))
  ++ List.concat (map enc_ientry (rs_index x)) ++ rs_store x.

Definition pad8 (n : nat) : nat := (8 - n mod 8) mod 8.

Definition rpm_encode (f : rpmfile) : str :=
  rf_lead f ++ enc_section (rf_sig f) ++ repeat rnul (pad8 (List.length (rs_store (rf_sig f))))
  ++ enc_section (rf_hdr f) ++ rf_payload f.

(* ---------- reading ---------- *)
Fixpoint rd_index (n : nat) (s : str) : list ientry :=
  match n with
  | O => []
  | S n' => {| ie_tag := rd32 s; ie_type := rd32 (skipn 4 s); ie_off := rd32 (skipn 8 s); ie_cnt := rd32 (skipn 12 s) |}
            :: rd_index n' (skipn 16 s)
  end.

(* a section at the head of [s], and what follows it *)
Definition rd_section (s : str) : option (rsection * str) :=
  if negb (seqb (firstn 8 s) section_magic) then None
  else
    let n := N.to_nat (rd32 (skipn 8 s)) in
    let hs := N.to_nat (rd32 (skipn 12 s)) in
    let body := skipn 16 s in
    if Nat.ltb (List.length body) (16 * n + hs) then None
    else Some ({| rs_index := rd_index n body; rs_store := firstn hs (skipn (16 * n) body) |}, skipn (16 * n + hs) body).

Definition rpm_decode (s : str) : option rpmfile :=
  if negb (seqb (firstn 4 s) lead_magic) || Nat.ltb (List.length s) 96 then None
  else
    match rd_section (skipn 96 s) with
    | None => None
    | Some (sg, r1) =>
        let p := pad8 (List.length (rs_store sg)) in
        if Nat.ltb (List.length r1) p || negb (forallb (fun b => beq b rnul) (firstn p r1)) then None
        else
          match rd_section (skipn p r1) with
          | None => None
          | Some (hd, r2) => Some {| rf_lead := firstn 96 s; rf_sig := sg; rf_hdr := hd; rf_payload := r2 |}
          end
    end.

Definition u32 (n : N) : Prop := (n < 4294967296)%N.
Definition wf_ientry (e : ientry) : Prop := u32 (ie_tag e) /\ u32 (ie_type e) /\ u32 (ie_off e) /\ u32 (ie_cnt e).
Definition wf_section (x : rsection) : Prop :=
  Forall wf_ientry (rs_index x) /\ u32 (N.of_nat (List.length (rs_index x))) /\ u32 (N.of_nat (List.length (rs_store x))).
Definition wf_rpmfile (f : rpmfile) : Prop :=
  List.length (rf_lead f) = 96 /\ firstn 4 (rf_lead f) = lead_magic /\ wf_section (rf_sig f) /\ wf_section (rf_hdr f).

(* where the header section starts: always a multiple of 8 *)
Definition hdr_offset (f : rpmfile) : nat :=
  96 + List.length (enc_section (rf_sig f)) + pad8 (List.length (rs_store (rf_sig f))).

(* the per-run check on the bytes of a real rpm *)
Definition rpm_reencodes (s : str) : bool :=
  match rpm_decode s with
  | Some f => seqb (rpm_encode f) s && Nat.eqb (hdr_offset f mod 8) 0
  | None => false
  end.
