(* mergo.Merge(dst, src, WithOverride) as nfpm.Config.Get uses it, on value trees, and Config.Get itself. *)
From Coq Require Import List NArith ZArith Bool String.
From Coq Require Import Strings.Byte.
From NfpmV Require Import Lib.Bytes Model.Content Model.Meta.
Import ListNotations.
Open Scope list_scope.

Inductive value :=
  | VStr (s : str)
  | VNum (z : Z)
  | VBool (b : bool)
  | VOpaque (s : str)                       (* time.Time and other structs mergo treats as a whole: printed form *)
  | VPtr (v : option value)
  | VSlice (l : list value)
  | VMap (m : list (str * value))
  | VStruct (fs : list (str * value)).

(* mergo's isEmptyValue *)
Definition is_empty_value (v : value) : bool :=
  match v with
  | VStr s => negb (nonempty s)
  | VNum z => Z.eqb z 0
  | VBool b => negb b
  | VOpaque s => negb (nonempty s)          (* the zero time prints as "" in the harness's projection *)
  | VPtr None => true
  | VPtr (Some _) => false
  | VSlice l => match l with [] => true | _ => false end
  | VMap m => match m with [] => true | _ => false end
  | VStruct _ => false
  end.

Fixpoint assoc_set (k : str) (v : value) (m : list (str * value)) : list (str * value) :=
  match m with
  | [] => [(k, v)]
  | (k', v') :: m' => if seqb k' k then (k, v) :: m' else (k', v') :: assoc_set k v m'
  end.

Fixpoint vlookup (k : str) (m : list (str * value)) : option value :=
  match m with
  | [] => None
  | (k', v) :: m' => if seqb k' k then Some v else vlookup k m'
  end.

(* deepMerge with overwrite: structs field by field; maps key by key (struct-valued entries merged, others
   replaced by the source entry - also by an empty one: mergo's map case does not ask isEmptyValue); slices, scalars and opaque values replaced wholesale when the
   source is non-empty; pointers merged through the pointee *)
Fixpoint merge (fuel : nat) (dst src : value) : value :=
  match fuel with
  | O => dst
  | S n =>
      match dst, src with
      | VStruct fd, VStruct fs =>
          VStruct (map (fun '(k, d) => match vlookup k fs with Some s => (k, merge n d s) | None => (k, d) end) fd)
      | VMap md, VMap ms =>
          VMap (fold_left (fun acc '(k, s) =>
                             match vlookup k acc with
                             | Some d => match d, s with
                                         | VStruct _, VStruct _ | VPtr _, VPtr _ | VMap _, VMap _ => assoc_set k (merge n d s) acc
                                         | _, _ => assoc_set k s acc          (* SetMapIndex: even an empty value *)
                                         end
                             | None => assoc_set k s acc
                             end) ms md)
      | VPtr (Some d), VPtr (Some s) => VPtr (Some (merge n d s))
      | VPtr None, VPtr (Some s) => VPtr (Some s)
      | _, _ => if is_empty_value src then dst else src
      end
  end.

(* the value of a field path through structs (and through pointers) *)
Fixpoint vget_f (fuel : nat) (v : value) (p : list str) : option value :=
  match fuel with
  | O => None
  | S n =>
      match p with
      | [] => Some v
      | k :: rest => match v with
                     | VStruct fs => match vlookup k fs with Some x => vget_f n x rest | None => None end
                     | VPtr (Some x) => vget_f n x p
                     | _ => None
                     end
      end
  end.
Definition vget (v : value) (p : list str) : option value := vget_f 64 v p.

(* the content filter of Config.Get: entries of the (merged) contents addressed to the format or to all *)
Definition content_packager (c : value) : str :=
  match vget c [B "Packager"] with Some (VStr s) => s | _ => [] end.

Definition filter_contents (format : str) (contents : value) : value :=
  match contents with
  | VSlice l => VSlice (filter (fun c => let p := content_packager c in seqb p format || negb (nonempty p)) l)
  | v => v
  end.

(* Config.Get(format): the base Overridables, merged with the format's override block if there is one, and
   with the contents filtered only in that case *)
Definition config_get (base : value) (overrides : list (str * value)) (format : str) : value :=
  match vlookup format overrides with
  | None => base
  | Some ov =>
      match merge 40 base ov with
      | VStruct fs => VStruct (map (fun '(k, v) => if seqb k (B "Contents") then (k, filter_contents format v) else (k, v)) fs)
      | v => v
      end
  end.
