(* Model of files.PrepareForPackager and internal/glob.Glob's destination mapping.
   Definitions only. *)
From Coq Require Import List NArith ZArith Bool.
From Coq Require Import Strings.Byte.
From NfpmV Require Import Lib.Bytes Model.Path Model.Content.
Import ListNotations.

(* ---------- the destination map: association list, insertion replaces ---------- *)
Definition cmap := list (str * content).

Fixpoint m_get (m : cmap) (k : str) : option content :=
  match m with
  | [] => None
  | (k', v) :: m' => if seqb k' k then Some v else m_get m' k
  end.

Fixpoint m_set (m : cmap) (k : str) (v : content) : cmap :=
  match m with
  | [] => [(k, v)]
  | (k', v') :: m' => if seqb k' k then (k, v) :: m' else (k', v') :: m_set m' k v
  end.

(* files.occupant: the entry at this location under either spelling of the key *)
Definition occupant (m : cmap) (k : str) : option content :=
  match m_get m k with
  | Some c => Some c
  | None =>
      if seqb k [slash] then None
      else if has_suffix [slash] k then m_get m (strip_dir_slash k)
      else m_get m (k ++ [slash])
  end.

(* files.unixMode: permission bits plus setuid/setgid/sticky of a Go fs.FileMode as 04000/02000/01000 *)
Definition unix_mode (m : N) : N :=
  N.lor (N.land m 511)
    (N.lor (if N.testbit m 23 then 2048 else 0)
       (N.lor (if N.testbit m 22 then 1024 else 0) (if N.testbit m 20 then 512 else 0)))%N.

(* ---------- Content.WithFileInfoDefaults ---------- *)
Definition with_defaults (st : stats) (umask : N) (mt : Z) (c : content) : content :=
  let typ := if seqb (c_typ c) TNone then TFile else c_typ c in
  let f := the_fi c in
  let owner := if seqb (fi_owner f) [] then s_root else fi_owner f in
  let group := if seqb (fi_group f) [] then s_root else fi_group f in
  let isd := is_dir_typ typ in
  let mode1 := if isd && N.eqb (fi_mode f) 0 then 493%N (* 0o755 *) else fi_mode f in
  let mtime1 := if is_tzero (fi_mtime f) then mt else fi_mtime f in
  let complete := negb (is_tzero mtime1) && negb (N.eqb mode1 0) && (negb (Z.eqb (fi_size f) 0) || isd) in
  let '(mtime2, mode2, size2) :=
    if negb (seqb (c_src c) []) && negb complete then
      match stat_of st (c_src c) with
      | Some s =>
          (if is_tzero mtime1 then st_mtime s else mtime1,
           if N.eqb mode1 0 then N.ldiff (unix_mode (st_mode s)) umask else mode1,
           st_size s)
      | None => (mtime1, mode1, fi_size f)
      end
    else (mtime1, mode1, fi_size f) in
  let mtime3 := if is_tzero mtime2 then mt else mtime2 in
  {| c_src := c_src c; c_dst := c_dst c; c_typ := typ; c_pkgr := c_pkgr c;
     c_fi := Some {| fi_owner := owner; fi_group := group; fi_mode := mode2;
                     fi_mtime := mtime3; fi_size := size2 |} |}.

(* ---------- isRelevantForPackager ---------- *)
Definition is_relevant (packager : str) (c : content) : bool :=
  if seqb packager [] then true
  else if negb (seqb (c_pkgr c) []) && negb (seqb (c_pkgr c) packager) then false
  else if negb (seqb packager P_rpm) && is_rpm_only_typ (c_typ c) then false
  else if negb (seqb packager P_deb) && seqb (c_typ c) TDebChangelog then false
  else true.

(* ---------- addParents ---------- *)
Definition implicit_dir (parent : str) (mt : Z) : content :=
  {| c_src := []; c_dst := parent; c_typ := TImplicitDir; c_pkgr := [];
     c_fi := Some {| fi_owner := s_root; fi_group := s_root; fi_mode := 493%N;
                     fi_mtime := mt; fi_size := 0%Z |} |}.

Fixpoint add_parent_list (m : cmap) (ps : list str) (mt : Z) : result cmap :=
  match ps with
  | [] => Ok m
  | parent :: ps' =>
      match occupant m parent with
      | Some c => if is_dir_typ (c_typ c) then add_parent_list m ps' mt else Err ECollision
      | None => add_parent_list (m_set m parent (implicit_dir parent mt)) ps' mt
      end
  end.

Definition add_parents (m : cmap) (path : str) (mt : Z) : result cmap :=
  add_parent_list m (ancestor_dirs path) mt.

(* ---------- glob.Glob destination mapping ---------- *)
Fixpoint strlcp (a b : str) : str :=
  match a, b with
  | x :: a', y :: b' => if beq x y then x :: strlcp a' b' else []
  | _, _ => []
  end.

Definition longest_common_prefix (l : list str) : str :=
  match l with
  | [] => []
  | x :: _ => fold_left strlcp l x
  end.

(* the Go map keyed by source: a later duplicate source replaces an earlier one *)
Fixpoint dedup_src (ms : list gmatch) : list gmatch :=
  match ms with
  | [] => []
  | m :: ms' => if existsb (fun m' => seqb (gm_src m') (gm_src m)) ms' then dedup_src ms' else m :: dedup_src ms'
  end.

Definition glob_prefix (pattern : str) (ms : list gmatch) (use_lcp : bool) : str :=
  if use_lcp then dir_of (longest_common_prefix (map gm_src ms)) else pattern.

Definition glob_dst (prefix dst src : str) : result str :=
  if has_suffix [slash] dst then Ok (join2 dst (base_of src))
  else match rel_path prefix src with
       | None => Err ERel
       | Some r => Ok (join2 dst r)
       end.

Fixpoint glob_pairs (prefix dst : str) (ms : list gmatch) : result (list (gmatch * str)) :=
  match ms with
  | [] => Ok []
  | m :: ms' =>
      if gm_isdir m then glob_pairs prefix dst ms'
      else match glob_dst prefix dst (gm_src m) with
           | Err e => Err e
           | Ok d => match glob_pairs prefix dst ms' with
                     | Err e => Err e
                     | Ok r => Ok ((m, d) :: r)
                     end
           end
  end.

(* ---------- addGlobbedFiles ---------- *)
Definition globbed_file (st : stats) (umask : N) (mt : Z) (orig : content) (m : gmatch) (dst : str) : content :=
  let fi := match c_fi orig with
            | Some f => Some {| fi_owner := fi_owner f; fi_group := fi_group f; fi_mode := fi_mode f;
                                fi_mtime := fi_mtime f; fi_size := 0%Z |}
            | None => None
            end in
  let nf := with_defaults st umask mt
              {| c_src := to_nix (gm_src m); c_dst := norm_file dst; c_typ := c_typ orig;
                 c_pkgr := c_pkgr orig; c_fi := fi |} in
  match gm_readlink m with
  | Some target => {| c_src := target; c_dst := c_dst nf; c_typ := TSymlink; c_pkgr := c_pkgr nf; c_fi := c_fi nf |}
  | None => nf
  end.

Fixpoint add_globbed (st : stats) (umask : N) (mt : Z) (orig : content) (all : cmap)
         (pairs : list (gmatch * str)) : result cmap :=
  match pairs with
  | [] => Ok all
  | (m, d) :: rest =>
      let dst := norm_file d in
      match occupant all dst with
      | Some _ => Err ECollision
      | None =>
          match add_parents all dst mt with
          | Err e => Err e
          | Ok all1 => add_globbed st umask mt orig (m_set all1 dst (globbed_file st umask mt orig m dst)) rest
          end
      end
  end.

(* ---------- addTree ---------- *)
Definition owned_by_fs (fs_paths : list str) (p : str) : bool := existsb (seqb (to_nix p)) fs_paths.

Definition witem_path (w : witem) : str :=
  match w with WDir p _ _ | WLink p _ | WFile p _ => p end.

Definition tree_item (fs_paths : list str) (st : stats) (umask : N) (mt : Z) (tree : content) (w : witem)
  : result content :=
  match rel_path (c_src tree) (witem_path w) with
  | None => Err ERel
  | Some relp =>
      let destination := join2 (c_dst tree) relp in
      let tf := c_fi tree in
      let '(owner, group) :=
        match tf with
        | Some f => if negb (owned_by_fs fs_paths (c_dst tree)) then (fi_owner f, fi_group f) else ([], [])
        | None => ([], [])
        end in
      let '(typ, src, dst, mode, mtime) :=
        match w with
        | WDir _ md mtm =>
            let d := norm_dir destination in
            ((if owned_by_fs fs_paths d then TImplicitDir else TDir), [], d, N.ldiff (unix_mode md) umask, mtm)
        | WLink _ target => (TSymlink, target, norm_file destination, 0%N, tzero)
        | WFile p dt => (TFile, p, norm_file destination, N.ldiff dt umask, tzero)
        end in
      let mode' :=
        match tf with
        | Some f => if negb (N.eqb (fi_mode f) 0) && negb (seqb typ TSymlink) then fi_mode f else mode
        | None => mode
        end in
      Ok (with_defaults st umask mt
            {| c_src := src; c_dst := dst; c_typ := typ; c_pkgr := [];
               c_fi := Some {| fi_owner := owner; fi_group := group; fi_mode := mode';
                               fi_mtime := mtime; fi_size := 0%Z |} |})
  end.

Fixpoint add_tree_items (fs_paths : list str) (st : stats) (umask : N) (mt : Z) (tree : content)
         (all : cmap) (ws : list witem) : result cmap :=
  match ws with
  | [] => Ok all
  | w :: ws' =>
      match tree_item fs_paths st umask mt tree w with
      | Err e => Err e
      | Ok c =>
          let blocked := match occupant all (c_dst c) with
                         | Some p => negb (seqb (c_typ p) TImplicitDir) || negb (is_dir_typ (c_typ c))
                         | None => false
                         end in
          if blocked then Err ECollision
          else add_tree_items fs_paths st umask mt tree (m_set all (c_dst c) c) ws'
      end
  end.

Definition add_tree (fs_paths : list str) (st : stats) (umask : N) (mt : Z) (tree : content) (wa : wans)
           (all : cmap) : result cmap :=
  let occupied :=
    if negb (seqb (c_dst tree) [slash]) && negb (seqb (c_dst tree) []) then
      match occupant all (norm_dir (c_dst tree)) with
      | Some p => negb (seqb (c_typ p) TImplicitDir)
      | None => false
      end
    else false in
  if occupied then Err ECollision
  else match add_parents all (c_dst tree) mt with
       | Err e => Err e
       | Ok all1 =>
           match wa with
           | WErr e => Err e
           | WOk ws => add_tree_items fs_paths st umask mt tree all1 ws
           end
       end.

(* ---------- the main loop ---------- *)
Definition set_src_dst (c : content) (src dst : str) : content :=
  {| c_src := src; c_dst := dst; c_typ := c_typ c; c_pkgr := c_pkgr c; c_fi := c_fi c |}.

Definition step (fs_paths : list str) (st : stats) (umask : N) (packager : str) (mt : Z)
           (m : cmap) (ce : content * eoracle) : result cmap :=
  let '(c, eo) := ce in
  if negb (is_relevant packager c) then Ok m
  else
  let t := c_typ c in
  if seqb t TDir then
    let occupied := match occupant m (norm_dir (c_dst c)) with
                    | Some p => negb (seqb (c_typ p) TImplicitDir)
                    | None => false end in
    if occupied then Err ECollision
    else match add_parents m (c_dst c) mt with
         | Err e => Err e
         | Ok m1 =>
             let cc := with_defaults st umask mt c in
             let cc' := set_src_dst cc (to_nix (c_src cc)) (norm_dir (c_dst cc)) in
             Ok (m_set m1 (c_dst cc') cc')
         end
  else if seqb t TImplicitDir then Ok m
  else if typ_in t [TGhost; TSymlink; TDoc; TLicence; TLicense; TReadme; TDebChangelog] then
    match occupant m (norm_file (c_dst c)) with
    | Some _ => Err ECollision
    | None =>
        match add_parents m (c_dst c) mt with
        | Err e => Err e
        | Ok m1 =>
            let cc := with_defaults st umask mt c in
            let cc' := set_src_dst cc (to_nix (c_src cc)) (norm_file (c_dst cc)) in
            Ok (m_set m1 (c_dst cc') cc')
        end
    end
  else if seqb t TTree then add_tree fs_paths st umask mt c (eo_walk eo) m
  else if typ_in t [TConfig; TConfigNoReplace; TConfigMissingOK; TFile; TNone] then
    match eo_glob eo with
    | GErr e => Err e
    | GOk pattern ms use_lcp =>
        match ms with
        | [] => Err EGlobNoMatch
        | _ =>
          let ms' := dedup_src ms in
          match glob_pairs (glob_prefix pattern ms use_lcp) (c_dst c) ms' with
          | Err e => Err e
          | Ok pairs => add_globbed st umask mt c m pairs
          end
        end
    end
  else Err EInvalidType.

Fixpoint steps (fs_paths : list str) (st : stats) (umask : N) (packager : str) (mt : Z)
         (m : cmap) (ces : list (content * eoracle)) : result cmap :=
  match ces with
  | [] => Ok m
  | ce :: rest =>
      match step fs_paths st umask packager mt m ce with
      | Err e => Err e
      | Ok m' => steps fs_paths st umask packager mt m' rest
      end
  end.

(* Contents.Less *)
Definition content_ltb (a b : content) : bool :=
  if negb (seqb (c_dst a) (c_dst b)) then lex_ltb (c_dst a) (c_dst b)
  else if negb (seqb (c_typ a) (c_typ b)) then lex_ltb (c_typ a) (c_typ b)
  else lex_ltb (c_pkgr a) (c_pkgr b).

Fixpoint insert_sorted (c : content) (l : list content) : list content :=
  match l with
  | [] => [c]
  | x :: l' => if content_ltb x c then x :: insert_sorted c l' else c :: l
  end.

Definition sort_contents (l : list content) : list content := fold_right insert_sorted [] l.

Definition prep (fs_paths : list str) (st : stats) (ces : list (content * eoracle))
           (umask : N) (packager : str) (mt : Z) : result (list content) :=
  match steps fs_paths st umask packager mt [] ces with
  | Err e => Err e
  | Ok m => Ok (sort_contents (map snd m))
  end.
