(* A heap model of a parsed configuration and of the per-format copies Config.Get hands out, for C11 / C12.
   Struct values are held inline and copied by assignment; pointers, slices and maps are references to heap
   cells, and copying a struct copies the references, not the cells - which is how one packaging could change
   what another sees. Writes are addressed by paths from the root they go through; whether a write lands in a
   cell the parsed configuration can reach is COMPUTED from the heap (a cell allocated during the operation is
   private, an older one is shared), never declared. *)
From Coq Require Import List NArith ZArith Bool Arith Lia String.
From Coq Require Import Strings.Byte.
From NfpmV Require Import Lib.Bytes.
Import ListNotations.
Open Scope list_scope.

Inductive rkind := KPtr | KSlice | KMap.

Inductive hval :=
  | HS (s : str)                       (* scalar, rendered; [] for the zero value and for nil *)
  | HT (fs : list (str * hval))        (* struct held inline *)
  | HR (k : rkind) (l : nat).          (* pointer / slice / map: reference to a cell *)

Definition cell := list (str * hval).  (* pointee under "", elements under their index, entries under their key *)
Definition heap := list cell.          (* location = position; allocation appends *)

Fixpoint hlookup (k : str) (fs : list (str * hval)) : option hval :=
  match fs with
  | [] => None
  | (k', v) :: r => if seqb k' k then Some v else hlookup k r
  end.

Fixpoint hset (k : str) (v : hval) (fs : list (str * hval)) : list (str * hval) :=
  match fs with
  | [] => []
  | (k', v') :: r => if seqb k' k then (k', v) :: r else (k', v') :: hset k v r
  end.

Fixpoint upd (l : nat) (c : cell) (h : heap) : heap :=
  match h, l with
  | [], _ => []
  | _ :: r, O => c :: r
  | x :: r, S l' => x :: upd l' c r
  end.

(* assignment of x to the place reached from v by path p: through inline structs the enclosing value is rebuilt,
   through a reference the cell is updated in the heap *)
Fixpoint set_path (h : heap) (v : hval) (p : list str) (x : hval) : option (heap * hval) :=
  match p with
  | [] => Some (h, x)
  | k :: rest =>
      match v with
      | HS _ => None
      | HT fs =>
          match hlookup k fs with
          | None => None
          | Some y => match set_path h y rest x with
                      | Some (h', y') => Some (h', HT (hset k y' fs))
                      | None => None
                      end
          end
      | HR rk l =>
          match nth_error h l with
          | None => None
          | Some c =>
              match hlookup k c with
              | None => match rest with                      (* a new element / entry of the cell *)
                        | [] => Some (upd l (c ++ [(k, x)]) h, HR rk l)
                        | _ => None
                        end
              | Some y => match set_path h y rest x with
                          | Some (h', y') => match nth_error h' l with
                                             | Some c' => Some (upd l (hset k y' c') h', HR rk l)
                                             | None => None
                                             end
                          | None => None
                          end
              end
          end
      end
  end.

(* the place exists and every reference crossed on the way to it was allocated at or after [n] *)
Fixpoint private_path (n : nat) (h : heap) (v : hval) (p : list str) : bool :=
  match p with
  | [] => true
  | k :: rest =>
      match v with
      | HS _ => false
      | HT fs => match hlookup k fs with Some y => private_path n h y rest | None => false end
      | HR _ l => (n <=? l) && match nth_error h l with
                             | Some c => match hlookup k c with
                                         | Some y => private_path n h y rest
                                         | None => match rest with [] => true | _ => false end
                                         end
                             | None => false
                             end
      end
  end.

(* reading *)
Fixpoint get_path (h : heap) (v : hval) (p : list str) : option hval :=
  match p with
  | [] => Some v
  | k :: rest =>
      match v with
      | HS _ => None
      | HT fs => match hlookup k fs with Some y => get_path h y rest | None => None end
      | HR _ l => match nth_error h l with
                | Some c => match hlookup k c with Some y => get_path h y rest | None => None end
                | None => None
                end
      end
  end.

Inductive wr :=
  | WSet (p : list str) (x : hval)        (* p := x *)
  | WAlloc (rk : rkind) (p : list str) (c : cell)    (* p := reference to a new cell holding c *)
  | WCopy (p : list str).                 (* p := reference to a new cell holding a copy of the cell p refers to *)

Definition exec_wr (hv : heap * hval) (w : wr) : option (heap * hval) :=
  let '(h, v) := hv in
  match w with
  | WSet p x => set_path h v p x
  | WAlloc rk p c => set_path (h ++ [c]) v p (HR rk (List.length h))
  | WCopy p => match get_path h v p with
               | Some (HR rk l) => match nth_error h l with
                                | Some c => set_path (h ++ [c]) v p (HR rk (List.length h))
                                | None => None
                                end
               | _ => None
               end
  end.

Definition wr_path (w : wr) : list str := match w with WSet p _ | WAlloc _ p _ | WCopy p => p end.

(* a script is a list of steps, each computing its write from the state the earlier ones left (a packager reads
   what it has prepared so far) *)
Definition script := list (heap -> hval -> list wr).

(* a write whose place does not exist changes nothing and counts as not private *)
Definition exec_wr_total (hv : heap * hval) (w : wr) : heap * hval :=
  match exec_wr hv w with Some hv' => hv' | None => hv end.

Fixpoint exec_wrs (n : nat) (hv : heap * hval) (ws : list wr) : (heap * hval) * bool :=
  match ws with
  | [] => (hv, true)
  | w :: r =>
      let priv := private_path n (fst hv) (snd hv) (wr_path w) in
      let '(res, ok) := exec_wrs n (exec_wr_total hv w) r in (res, priv && ok)
  end.

Fixpoint exec_script (n : nat) (hv : heap * hval) (s : script) : (heap * hval) * bool :=
  match s with
  | [] => (hv, true)
  | f :: r =>
      let '(hv', ok) := exec_wrs n hv (f (fst hv) (snd hv)) in
      let '(res, ok') := exec_script n hv' r in (res, ok && ok')
  end.

(* ---------- denotation: what a reader sees from a root ---------- *)
Inductive dtree :=
  | DS (s : str)
  | DT (fs : list (str * dtree))
  | DC (es : list (str * dtree))
  | DBot.

Fixpoint den (fuel : nat) (h : heap) (v : hval) : dtree :=
  match fuel with
  | O => DBot
  | S n =>
      match v with
      | HS s => DS s
      | HT fs => DT (map (fun kv => (fst kv, den n h (snd kv))) fs)
      | HR _ l => match nth_error h l with
                | Some c => DC (map (fun kv => (fst kv, den n h (snd kv))) c)
                | None => DBot
                end
      end
  end.

(* ---------- operations on one parsed configuration ---------- *)
(* An operation copies the root (struct assignment: the references are copied, not the cells), runs its script on
   the copy and renders its output from what the copy then denotes. Cells allocated by the operation cannot be
   reached from the configuration (its cells are older and are only changed by a non-private write), so they are
   dropped when the operation ends: the heap that persists is the first [n] cells. *)
Section Machine.
  Variable op : Type.
  Variable script_of : op -> script.
  Variable output : Type.
  Variable render : op -> heap -> hval -> output.

  Definition run_op (root : hval) (h : heap) (o : op) : heap * (output * bool) :=
    let n := List.length h in
    let '(res, ok) := exec_script n (h, root) (script_of o) in
    (firstn n (fst res), (render o (fst res) (snd res), ok)).

  Fixpoint run_history (root : hval) (h : heap) (ops : list op) : heap * list (output * bool) :=
    match ops with
    | [] => (h, [])
    | o :: r => let '(h', out) := run_op root h o in
                let '(h'', outs) := run_history root h' r in
                (h'', out :: outs)
    end.

  Definition fresh_output (root : hval) (h : heap) (o : op) : output := fst (snd (run_op root h o)).
End Machine.
