(* The fields of a tar header block (C04, C01): what archive/tar's Writer puts where, for the three header formats
   nfpm's packagers produce (USTAR, PAX, GNU), and how a reader gets the logical members back - names and link
   targets longer than the 100-byte fields or outside ASCII travel in extension members that precede the member
   they describe (PAX 'x' records, GNU 'L' / 'K').  Builds on the block-level model (Model/Tar.v), which carries
   the bytes of these fields raw.

     0 name 100 | 100 mode 8 | 108 uid 8 | 116 gid 8 | 124 size 12 | 136 mtime 12 | 148 chksum 8 | 156 typeflag 1
     157 linkname 100 | 257 magic+version 8 | 265 uname 32 | 297 gname 32 | 329 devmajor 8 | 337 devminor 8
     345 prefix 155 + 12 (ustar) / atime, ctime, ... (gnu): carried raw

   Numeric fields are octal digits, zero-padded to the width less one, and a NUL (archive/tar.formatOctal). *)
From Coq Require Import List NArith Bool Arith Lia String.
From Coq Require Import Strings.Byte.
From NfpmV Require Import Lib.Bytes Model.Container Model.Tar Model.Mtree.
Import ListNotations.
Open Scope list_scope.

(* ---------- fixed-width fields ---------- *)
Definition nul_pad (n : nat) (s : str) : str := s ++ repeat tnul (n - List.length s).
Definition cstr (s : str) : str := take_whileb (fun b => negb (beq b tnul)) s.
Definition num_field (w : nat) (v : N) : str := oct_fixed (w - 1) v ++ [tnul].
(* octal digits up to the first NUL or blank (readers accept either terminator); empty field = 0 *)
Definition parse_num_field (s : str) : option N :=
  parse_oct (take_whileb (fun b => negb (beq b tnul) && negb (beq b tspace)) s).

(* a numeric field that may be left blank (all NUL): the device numbers of extension members *)
Definition opt_num_field (w : nat) (o : option N) : str := match o with Some v => num_field w v | None => repeat tnul w end.
Definition parse_opt_num_field (s : str) : option (option N) :=
  if all_zero s then Some None else option_map Some (parse_num_field s).

Record hfields := {
  hf_name : str; hf_mode : N; hf_uid : N; hf_gid : N; hf_mtime : N; hf_type : byte; hf_link : str;
  hf_magic : str;       (* 8 bytes: "ustar\000" (USTAR, PAX) or "ustar  \0" (GNU) *)
  hf_uname : str; hf_gname : str; hf_devmajor : option N; hf_devminor : option N;
  hf_tail : str         (* 167 bytes *)
}.

(* the block-level member that carries these fields and this body *)
Definition member_of (f : hfields) (data : str) : tmember :=
  {| tm_pre := nul_pad 100 (hf_name f) ++ num_field 8 (hf_mode f) ++ num_field 8 (hf_uid f) ++ num_field 8 (hf_gid f);
     tm_mtime := num_field 12 (hf_mtime f);
     tm_post := hf_type f :: nul_pad 100 (hf_link f) ++ hf_magic f ++ nul_pad 32 (hf_uname f) ++ nul_pad 32 (hf_gname f)
                ++ opt_num_field 8 (hf_devmajor f) ++ opt_num_field 8 (hf_devminor f) ++ hf_tail f;
     tm_data := data |}.

(* reading: cut the block into its fields, left to right *)
Definition cut (n : nat) (s : str) : str * str := (firstn n s, skipn n s).

Definition fields_of (m : tmember) : option hfields :=
  let '(name, r1) := cut 100 (tm_pre m) in
  let '(mode, r2) := cut 8 r1 in
  let '(uid, gid) := cut 8 r2 in
  match tm_post m with
  | [] => None
  | t :: p =>
      let '(link, q1) := cut 100 p in
      let '(magic, q2) := cut 8 q1 in
      let '(uname, q3) := cut 32 q2 in
      let '(gname, q4) := cut 32 q3 in
      let '(dmaj, q5) := cut 8 q4 in
      let '(dmin, tail) := cut 8 q5 in
      match parse_num_field mode, parse_num_field uid, parse_num_field gid, parse_num_field (tm_mtime m),
            parse_opt_num_field dmaj, parse_opt_num_field dmin with
      | Some mode', Some uid', Some gid', Some mtime', Some dmaj', Some dmin' =>
          Some {| hf_name := cstr name; hf_mode := mode'; hf_uid := uid'; hf_gid := gid'; hf_mtime := mtime';
                  hf_type := t; hf_link := cstr link; hf_magic := magic;
                  hf_uname := cstr uname; hf_gname := cstr gname;
                  hf_devmajor := dmaj'; hf_devminor := dmin'; hf_tail := tail |}
      | _, _, _, _, _, _ => None
      end
  end.

Definition no_nul (s : str) : bool := forallb (fun b => negb (beq b tnul)) s.

Definition wf_hfields (f : hfields) : bool :=
  no_nul (hf_name f) && Nat.leb (List.length (hf_name f)) 100
  && no_nul (hf_link f) && Nat.leb (List.length (hf_link f)) 100
  && no_nul (hf_uname f) && Nat.leb (List.length (hf_uname f)) 32
  && no_nul (hf_gname f) && Nat.leb (List.length (hf_gname f)) 32
  && Nat.eqb (List.length (hf_magic f)) 8 && Nat.eqb (List.length (hf_tail f)) 167
  && (hf_mode f <? 8 ^ 7)%N && (hf_uid f <? 8 ^ 7)%N && (hf_gid f <? 8 ^ 7)%N && (hf_mtime f <? 8 ^ 11)%N
  && match hf_devmajor f with Some v => (v <? 8 ^ 7)%N | None => true end
  && match hf_devminor f with Some v => (v <? 8 ^ 7)%N | None => true end.

(* the per-run check on one member of a real tar: its fields parse, and the writer puts the same bytes back *)
Definition tmember_eqb (a b : tmember) : bool :=
  seqb (tm_pre a) (tm_pre b) && seqb (tm_mtime a) (tm_mtime b) && seqb (tm_post a) (tm_post b) && seqb (tm_data a) (tm_data b).

Definition fields_reencode (m : tmember) : bool :=
  match fields_of m with
  | Some f => tmember_eqb (member_of f (tm_data m)) m
  | None => false
  end.

(* ---------- extension members ---------- *)
(* PAX records: "<length> <key>=<value>\n", the decimal length counting the whole record *)
Fixpoint pax_records (fuel : nat) (s : str) : option (list (str * str)) :=
  match fuel with
  | O => None
  | S f =>
      match s with
      | [] => Some []
      | _ =>
          let ds := take_whileb digitb s in
          match parse_dec ds with
          | None => None
          | Some n =>
              let hd := List.length ds + 1 in
              if Nat.ltb n (hd + 2) || Nat.ltb (List.length s) n then None
              else
                let rec_ := firstn n s in
                if negb (seqb (firstn 1 (skipn (List.length ds) rec_)) [tspace]) || negb (seqb (skipn (n - 1) rec_) [x0a]) then None
                else
                  let kv := firstn (n - 1 - hd) (skipn hd rec_) in
                  let k := take_whileb (fun b => negb (beq b x3d)) kv in
                  if Nat.eqb (List.length k) (List.length kv) then None
                  else
                    match pax_records f (skipn n s) with
                    | Some r => Some ((k, skipn (List.length k + 1) kv) :: r)
                    | None => None
                    end
          end
      end
  end.

Definition pax_record (k v : str) (n : nat) : str := dec_nat n ++ tspace :: k ++ x3d :: v ++ [x0a].

Fixpoint assoc_str (k : str) (l : list (str * str)) : option str :=
  match l with
  | [] => None
  | (k', v) :: r => if seqb k k' then Some v else assoc_str k r
  end.

(* a logical member: what a reader hands to its caller *)
Record lmember := {
  lm_name : str; lm_type : byte; lm_mode : N; lm_uid : N; lm_gid : N; lm_mtime : N; lm_link : str;
  lm_uname : str; lm_gname : str; lm_size : nat; lm_pax : list (str * str); lm_data : str
}.

Definition B_ (s : string) : str := list_byte_of_string s.
Definition is_ustar_magic (m : str) : bool := seqb (firstn 6 m) (B_ "ustar" ++ [tnul]).

(* seconds of a PAX time value "123" or "123.456" *)
Definition pax_seconds (v : str) : option N := parse_decN (take_whileb digitb v).

Definition or_else {A} (o : option A) (d : A) : A := match o with Some x => x | None => d end.

(* the name of a plain ustar member: prefix/name when the prefix field (first 155 bytes of the tail) is used *)
Definition ustar_name (f : hfields) : str :=
  let prefix := cstr (firstn 155 (hf_tail f)) in
  if is_ustar_magic (hf_magic f) && negb (seqb prefix []) then prefix ++ x2f :: hf_name f else hf_name f.

Definition strip_nul (s : str) : str := cstr s.

(* walk the members: 'x' (PAX records), 'L' / 'K' (GNU long name / link) describe the member after them *)
Fixpoint logical (ms : list tmember) (pax : list (str * str)) (lname llink : option str) : option (list lmember) :=
  match ms with
  | [] => match pax, lname, llink with [], None, None => Some [] | _, _, _ => None end   (* a dangling extension member *)
  | m :: rest =>
      match fields_of m with
      | None => None
      | Some f =>
          let t := hf_type f in
          if beq t x78 then   (* 'x' *)
            match pax_records (S (List.length (tm_data m))) (tm_data m) with
            | Some recs => logical rest (pax ++ recs) lname llink
            | None => None
            end
          else if beq t x4c then logical rest pax (Some (strip_nul (tm_data m))) llink      (* 'L' *)
          else if beq t x4b then logical rest pax lname (Some (strip_nul (tm_data m)))      (* 'K' *)
          else if beq t x67 then None                                                          (* 'g': nfpm writes none *)
          else
            let name := or_else (assoc_str (B_ "path") pax) (or_else lname (ustar_name f)) in
            let link := or_else (assoc_str (B_ "linkpath") pax) (or_else llink (hf_link f)) in
            let uname := or_else (assoc_str (B_ "uname") pax) (hf_uname f) in
            let gname := or_else (assoc_str (B_ "gname") pax) (hf_gname f) in
            let mtime := match assoc_str (B_ "mtime") pax with
                         | Some v => pax_seconds v
                         | None => Some (hf_mtime f)
                         end in
            match mtime, logical rest [] None None with
            | Some mt, Some r =>
                Some ({| lm_name := name; lm_type := t; lm_mode := hf_mode f; lm_uid := hf_uid f; lm_gid := hf_gid f;
                         lm_mtime := mt; lm_link := link; lm_uname := uname; lm_gname := gname;
                         lm_size := List.length (tm_data m); lm_pax := pax; lm_data := tm_data m |} :: r)
            | _, _ => None
            end
      end
  end.

(* a tar stream to its logical members, through the block-level reader *)
Definition tar_logical (s : str) : option (list lmember) :=
  match tar_read s with
  | Some (ms, _) => logical ms [] None None
  | None => None
  end.

(* every block of a stream also passes the field-level re-encoding *)
Definition tar_fields_reencode (s : str) : bool :=
  match tar_read s with
  | Some (ms, _) => forallb fields_reencode ms
  | None => false
  end.
