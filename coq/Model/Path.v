(* Lexical path functions of Go's path/filepath (Unix) as used by nFPM, and nFPM's own
   normalisation helpers from files/files.go. Definitions only; proofs are in Proofs/PathFacts.v *)
From Coq Require Import List NArith Bool.
From Coq Require Import Strings.Byte.
From NfpmV Require Import Lib.Bytes.
Import ListNotations.

Definition slash : byte := "/"%byte.
Definition dot : byte := "."%byte.
Definition is_slash (b : byte) : bool := beq b slash.

(* split on '/': components, possibly empty; [split s] is never [] *)
Fixpoint split_aux (acc : str) (s : str) : list str :=
  match s with
  | [] => [rev acc]
  | b :: s' => if is_slash b then rev acc :: split_aux [] s' else split_aux (b :: acc) s'
  end.
Definition split (s : str) : list str := split_aux [] s.

Definition is_dot (c : str) : bool := match c with [d] => beq d dot | _ => false end.
Definition is_dotdot (c : str) : bool :=
  match c with [d1; d2] => beq d1 dot && beq d2 dot | _ => false end.
Definition is_empty (c : str) : bool := match c with [] => true | _ => false end.
Definition dotdot : str := [dot; dot].

(* rooted clean: stack of components, reversed; ".." at the root is dropped *)
Fixpoint clean_rooted (stack : list str) (cs : list str) : list str :=
  match cs with
  | [] => rev stack
  | c :: cs' =>
      if is_empty c || is_dot c then clean_rooted stack cs'
      else if is_dotdot c then clean_rooted (tl stack) cs'
      else clean_rooted (c :: stack) cs'
  end.

(* non-rooted clean: ".." pops a real component, otherwise it is kept *)
Fixpoint clean_rel (stack : list str) (cs : list str) : list str :=
  match cs with
  | [] => rev stack
  | c :: cs' =>
      if is_empty c || is_dot c then clean_rel stack cs'
      else if is_dotdot c then
        match stack with
        | top :: rest => if is_dotdot top then clean_rel (c :: stack) cs' else clean_rel rest cs'
        | [] => clean_rel [c] cs'
        end
      else clean_rel (c :: stack) cs'
  end.

Fixpoint join_abs (cs : list str) : str :=
  match cs with
  | [] => []
  | c :: cs' => slash :: c ++ join_abs cs'
  end.

Definition join_rel (cs : list str) : str := concat_sep [slash] cs.

Definition abs_of (cs : list str) : str := match cs with [] => [slash] | _ => join_abs cs end.
Definition rel_of (cs : list str) : str := match cs with [] => [dot] | _ => join_rel cs end.

(* filepath.Clean *)
Definition clean (s : str) : str :=
  match s with
  | [] => [dot]
  | b :: _ => if is_slash b then abs_of (clean_rooted [] (split s))
              else rel_of (clean_rel [] (split s))
  end.

(* components of a cleaned path *)
Definition comps_abs (s : str) : list str := clean_rooted [] (split s).

(* files.ToNixPath: filepath.ToSlash(filepath.Clean(p)); ToSlash is the identity on Unix *)
Definition to_nix (s : str) : str := clean s.

(* files.NormalizeAbsoluteFilePath: ToNixPath(filepath.Join("/", src)); Join drops empty
   elements and cleans "/" + "/" + src, which is a rooted clean of src's components *)
Definition norm_file (s : str) : str := abs_of (clean_rooted [] (split s)).

(* files.NormalizeAbsoluteDirPath *)
Definition norm_dir (s : str) : str :=
  let n := norm_file (trim_right is_slash s) in
  if seqb n [slash] then n else n ++ [slash].

(* strings.TrimSuffix(s, "/") *)
Definition strip_dir_slash (s : str) : str :=
  match rev s with
  | b :: r => if is_slash b then rev r else s
  | [] => s
  end.

(* files.AsRelativePath *)
Definition as_rel (s : str) : str :=
  let c := trim_left is_slash (to_nix s) in
  if negb (is_empty c) && negb (seqb c [dot]) && has_suffix [slash] s then c ++ [slash] else c.

(* files.AsExplicitRelativePath *)
Definition as_explicit_rel (s : str) : str := dot :: slash :: as_rel s.

(* filepath.Dir: everything up to and including the last slash, cleaned *)
Fixpoint upto_last_slash_rev (r : str) : str :=
  match r with
  | [] => []
  | b :: r' => if is_slash b then r else upto_last_slash_rev r'
  end.
Definition dir_of (s : str) : str := clean (rev (upto_last_slash_rev (rev s))).

(* filepath.Base *)
Fixpoint take_until_slash (r : str) : str :=
  match r with
  | [] => []
  | b :: r' => if is_slash b then [] else b :: take_until_slash r'
  end.
Definition base_of (s : str) : str :=
  match s with
  | [] => [dot]
  | _ =>
    let t := trim_right is_slash s in
    match t with
    | [] => [slash]
    | _ => rev (take_until_slash (rev t))
    end
  end.

(* filepath.Join of two elements *)
Definition join2 (a b : str) : str :=
  match a, b with
  | [], [] => []
  | [], _ => clean b
  | _, [] => clean a
  | _, _ => clean (a ++ [slash] ++ b)
  end.

(* files.sortedParents followed by NormalizeAbsoluteDirPath in addParents: the keys of the ancestor
   directories of the normalized destination, outermost first (the root itself is not listed).
   Since sortedParents normalizes its argument first, repeated filepath.Dir yields exactly the proper
   non-empty prefixes of the cleaned component list; this component-level model is validated against
   the implementation on every destination spelling over {/ . a} up to the length bound. *)
Fixpoint prefixes {A} (l : list A) : list (list A) :=
  match l with
  | [] => []
  | x :: l' => [] :: map (cons x) (prefixes l')
  end.
Definition nonnil {A} (l : list A) : bool := match l with [] => false | _ => true end.
Definition ancestor_dirs (dst : str) : list str :=
  map (fun cs => join_abs cs ++ [slash]) (filter nonnil (prefixes (comps_abs dst))).

(* filepath.Rel on cleaned inputs of the same rootedness, component-wise *)
Fixpoint strip_common (a b : list str) : list str * list str :=
  match a, b with
  | x :: a', y :: b' => if seqb x y then strip_common a' b' else (a, b)
  | _, _ => (a, b)
  end.

Definition path_comps (s : str) : list str :=
  (* components of an already cleaned path *)
  if seqb s [dot] then [] else filter (fun c => negb (is_empty c)) (split s).

Definition is_rooted (s : str) : bool := match s with b :: _ => is_slash b | [] => false end.

Definition rel_path (base targ : str) : option str :=
  let b := clean base in
  let t := clean targ in
  if seqb b t then Some [dot]
  else if negb (Bool.eqb (is_rooted b) (is_rooted t)) then None
  else
    let '(b', t') := strip_common (path_comps b) (path_comps t) in
    if existsb is_dotdot b' then None
    else Some (rel_of (map (fun _ => dotdot) b' ++ t')).
