(* The in-place writers of nfpm.Config.Get, nfpm.WithDefaults, files.PrepareForPackager and the five packagers,
   transcribed as write scripts over the heap model of History.v. MODELLED, not verified: the transcription is by
   hand from nfpm.go, files/files.go, deb/deb.go, rpm/rpm.go, apk/apk.go, arch/arch.go, ipk/ipk.go (the writers
   the property's anchors list). What ties it to the code is the correspondence check: which cells of a Get result
   alias the parsed configuration (by address), and whether each operation left the configuration unchanged. *)
From Coq Require Import List NArith ZArith Bool Arith String.
From Coq Require Import Strings.Byte.
From NfpmV Require Import Lib.Bytes Model.Content Model.History.
Import ListNotations.
Open Scope list_scope.

Definition nonempty (s : str) : bool := match s with [] => false | _ => true end.

Definition p_info : list str := [B "Info"].
Definition p_ov : list str := [B "Info"; B "Overridables"].
Definition p_contents : list str := p_ov ++ [B "Contents"].
Definition pointee : str := [].

Definition cell_of (h : heap) (v : option hval) : cell :=
  match v with
  | Some (HR _ l) => match nth_error h l with Some c => c | None => [] end
  | _ => []
  end.

(* reference fields reachable through inline structs only: the references a struct copy duplicates *)
Fixpoint inline_refs (fuel : nat) (v : hval) (p : list str) : list (list str * rkind * nat) :=
  match fuel with
  | O => []
  | S n =>
      match v with
      | HS _ => []
      | HR k l => [(p, k, l)]
      | HT fs => flat_map (fun kv => inline_refs n (snd kv) (p ++ [fst kv])) fs
      end
  end.

(* ---- Config.Get, first half: mergo.Merge of c.Info into a new Info. Maps are rebuilt entry by entry, slices
   are assigned (shared backing array), pointers are assigned and then - since the fix - the key ids cloned. ---- *)
Definition s_get_copy (clone_ptrs : bool) (h : heap) (v : hval) : list wr :=
  match get_path h v p_info with
  | Some info =>
      flat_map (fun '(p, k, _) =>
                  match k with
                  | KMap => [WCopy p]
                  | KPtr => if clone_ptrs then [WCopy p] else []
                  | KSlice => []
                  end) (inline_refs 16 info p_info)
  | None => []
  end.

(* ---- Config.Get, second half: mergo.Merge of the format's override block into info.Overridables ---- *)
Fixpoint merge_cells (dst src : cell) : cell :=
  match src with
  | [] => dst
  | (k, x) :: r => merge_cells (match hlookup k dst with Some _ => hset k x dst | None => dst ++ [(k, x)] end) r
  end.

Fixpoint merge_writes (fuel : nat) (h : heap) (root blk : hval) (p : list str) : list wr :=
  match fuel with
  | O => []
  | S n =>
      match blk with
      | HS s => if nonempty s then [WSet p (HS s)] else []
      | HT fs => flat_map (fun kv => merge_writes n h root (snd kv) (p ++ [fst kv])) fs
      | HR KSlice l => match nth_error h l with Some (_ :: _) => [WSet p (HR KSlice l)] | _ => [] end
      | HR KMap l =>
          match nth_error h l with
          | Some ((_ :: _) as src) =>
              match get_path h root p with
              | Some (HR _ _) => map (fun kx => WSet (p ++ [fst kx]) (snd kx)) src    (* SetMapIndex on the copy's map *)
              | _ => [WAlloc KMap p src]                                                (* MakeMap *)
              end
          | _ => []
          end
      | HR KPtr l =>
          match nth_error h l with
          | Some [(_, HS s)] =>
              match get_path h root p with
              | Some (HR _ _) => if nonempty s then [WSet (p ++ [pointee]) (HS s)] else []   (* through the copy's pointer *)
              | _ => [WSet p (HR KPtr l)]
              end
          | _ => []
          end
      end
  end.

Definition block_of (h : heap) (v : hval) (f : str) : option hval :=
  match get_path h v [B "Overrides"; f; pointee] with
  | Some (HT fs) => Some (HT fs)
  | _ => None
  end.

Definition content_field (h : heap) (e : hval) (k : str) : str :=
  match get_path h e [pointee; k] with Some (HS s) => s | _ => [] end.

Definition s_get_override (f : str) (h : heap) (v : hval) : list wr :=
  match block_of h v f with
  | None => []
  | Some blk => merge_writes 16 h v blk p_ov
  end.

(* the contents filter runs on the merged contents, only when there is a block; it builds a new slice *)
Definition s_get_filter (f : str) (h : heap) (v : hval) : list wr :=
  match block_of h v f with
  | None => []
  | Some _ =>
      let c := cell_of h (get_path h v p_contents) in
      match filter (fun kv => let pk := content_field h (snd kv) (B "Packager") in seqb pk f || negb (nonempty pk)) c with
      | [] => [WSet p_contents (HS [])]                      (* nothing kept: a nil slice *)
      | kept => [WAlloc KSlice p_contents kept]
      end
  end.

(* ---- nfpm.WithDefaults: scalar fields of the copy ---- *)
Definition s_defaults (h : heap) (v : hval) : list wr :=
  map (fun p => WSet p (HS (B "default")))
      [p_info ++ [B "Platform"]; p_info ++ [B "Description"]; p_info ++ [B "Version"]; p_info ++ [B "Release"];
       p_info ++ [B "Prerelease"]; p_info ++ [B "VersionMetadata"]; p_ov ++ [B "Umask"]; p_info ++ [B "MTime"]].

(* ---- ensureValidArch ---- *)
Definition s_arch (h : heap) (v : hval) : list wr := [WSet (p_info ++ [B "Arch"]) (HS (B "translated"))].

(* ---- deb.withChangelogIfRequested: append to info.Contents (modelled as a new slice; the capacity slack of
   the shared backing array is not modelled) ---- *)
Definition s_deb_changelog (h : heap) (v : hval) : list wr :=
  match get_path h v (p_info ++ [B "Changelog"]) with
  | Some (HS (_ :: _)) =>
      [WAlloc KSlice p_contents (cell_of h (get_path h v p_contents) ++ [(B "changelog", HS [])])]
  | _ => []
  end.

(* ---- files.PrepareForPackager: a new slice of new Content values; WithFileInfoDefaults gives each its own
   ContentFileInfo (since the fix: a copy of the configured one) and writes owner, group, mode and mtime into it.
   Glob and tree expansion (more entries than configured) is not modelled. ---- *)
Definition fileinfo_default : cell :=
  [(pointee, HT [(B "Owner", HS []); (B "Group", HS []); (B "Mode", HS []); (B "MTime", HS []); (B "Size", HS [])])].

Definition s_prepare_alloc (h : heap) (v : hval) : list wr :=
  [WAlloc KSlice p_contents (cell_of h (get_path h v p_contents))].

Definition s_prepare_entries (copy_fileinfo : bool) (h : heap) (v : hval) : list wr :=
  flat_map (fun kv =>
              let pe := p_contents ++ [fst kv] in
              let pfi := pe ++ [pointee; B "FileInfo"] in
              match snd kv with
              | HR _ _ =>
                  WCopy pe ::
                  (match get_path h v pfi with
                   | Some (HR _ _) => if copy_fileinfo then [WCopy pfi] else []
                   | _ => [WAlloc KPtr pfi fileinfo_default]
                   end) ++
                  map (fun k => WSet (pfi ++ [pointee; k]) (HS (B "default"))) [B "Owner"; B "Group"; B "Mode"; B "MTime"]
              | _ => []
              end) (cell_of h (get_path h v p_contents)).

(* ---- format-specific writers on the prepared contents and on the copy ---- *)
Definition s_rewrite_destinations (h : heap) (v : hval) : list wr :=
  flat_map (fun kv => match snd kv with
                      | HR _ _ => [WSet (p_contents ++ [fst kv; pointee; B "Destination"]) (HS (B "relative"))]
                      | _ => []
                      end) (cell_of h (get_path h v p_contents)).

Definition s_ipk_strip_fields (h : heap) (v : hval) : list wr :=
  let p := p_ov ++ [B "IPK"; B "Fields"] in
  map (fun kv => WSet (p ++ [fst kv]) (HS [])) (cell_of h (get_path h v p)).

Definition P_apk := B "apk".
Definition P_ipk := B "ipk". Definition P_arch := B "archlinux".
Definition all_formats : list str := [P_deb; P_rpm; P_apk; P_ipk; P_arch].

Inductive hop := OpValidate | OpName (f : str) | OpPackage (f : str).

(* [fixed] selects the scripts of the repaired code (true) or of the code before the two isolation fixes *)
Definition s_get (fixed : bool) (f : str) : script := [s_get_copy fixed; s_get_override f; s_get_filter f].
Definition s_prepare (fixed : bool) : script := [s_prepare_alloc; s_prepare_entries fixed].

Definition script_of (fixed : bool) (o : hop) : script :=
  match o with
  | OpValidate => flat_map (fun _ => s_prepare fixed) all_formats       (* on the configuration itself, results dropped *)
  | OpName f => s_get fixed f ++ [s_defaults; s_arch]
  | OpPackage f =>
      s_get fixed f ++ [s_defaults; s_arch]
      ++ (if seqb f P_deb then [s_deb_changelog] else [])
      ++ s_prepare fixed
      ++ (if seqb f P_apk || seqb f P_arch then [s_rewrite_destinations] else [])
      ++ (if seqb f P_ipk then [s_ipk_strip_fields] else [])
  end.

(* which references of a Get result still point into the parsed configuration *)
Definition get_aliases (fixed : bool) (f : str) (root : hval) (h : heap) : list (list str * bool) :=
  let n := List.length h in
  let '((h', v'), _) := exec_script n (h, root) (s_get fixed f) in
  match get_path h' v' p_info with
  | Some info => map (fun '(p, _, l) => (p, l <? n)) (inline_refs 16 info p_info)
  | None => []
  end.

Definition all_ops : list hop := OpValidate :: map OpName all_formats ++ map OpPackage all_formats.

Definition render_den (o : hop) (h : heap) (v : hval) : dtree := den 12 h v.

Definition model_run (fixed : bool) (root : hval) (h : heap) (ops : list hop) : heap * list (dtree * bool) :=
  run_history hop (script_of fixed) dtree render_den root h ops.

Definition model_private (fixed : bool) (root : hval) (h : heap) (o : hop) : bool :=
  snd (snd (run_op hop (script_of fixed) dtree render_den root h o)).
