(* Interleaved execution of operations on one parsed configuration, over the heap model of History.v (C12).
   The heap a thread sees is the configuration's cells (the first [n], shared by all threads) followed by the cells
   the thread itself allocated (its own arena: nothing another thread can reach, since it is only published by a
   write into a shared cell, which is exactly what is being tracked). One step of a thread performs one write, or
   computes the writes of its next script step from what it sees. Sequentially consistent interleaving. *)
From Coq Require Import List NArith ZArith Bool Arith Lia.
From Coq Require Import Strings.Byte.
From NfpmV Require Import Lib.Bytes Model.History.
Import ListNotations.
Open Scope list_scope.

Record tstate := {
  t_local : heap;            (* cells allocated by this thread *)
  t_root : hval;             (* its copy of the root *)
  t_pend : list wr;          (* writes of the current script step still to perform *)
  t_rest : script;           (* script steps not yet started *)
  t_ok : bool                (* every write so far was private *)
}.

Definition t_init (root : hval) (s : script) : tstate :=
  {| t_local := []; t_root := root; t_pend := []; t_rest := s; t_ok := true |}.

Definition t_done (t : tstate) : bool :=
  match t_pend t, t_rest t with [], [] => true | _, _ => false end.

(* one step of one thread against the shared cells; a finished thread does nothing *)
Definition t_step (n : nat) (shared : heap) (t : tstate) : heap * tstate :=
  match t_pend t with
  | w :: r =>
      let h := shared ++ t_local t in
      let priv := private_path n h (t_root t) (wr_path w) in
      let hv := exec_wr_total (h, t_root t) w in
      (firstn n (fst hv),
       {| t_local := skipn n (fst hv); t_root := snd hv; t_pend := r; t_rest := t_rest t; t_ok := t_ok t && priv |})
  | [] =>
      match t_rest t with
      | f :: r' =>
          (shared, {| t_local := t_local t; t_root := t_root t; t_pend := f (shared ++ t_local t) (t_root t);
                      t_rest := r'; t_ok := t_ok t |})
      | [] => (shared, t)
      end
  end.

Fixpoint set_nth {A} (i : nat) (x : A) (l : list A) : list A :=
  match l, i with
  | [], _ => []
  | _ :: r, O => x :: r
  | y :: r, S i' => y :: set_nth i' x r
  end.

(* a schedule names, step by step, the thread that moves *)
Fixpoint run_sched (n : nat) (shared : heap) (ts : list tstate) (sched : list nat) : heap * list tstate :=
  match sched with
  | [] => (shared, ts)
  | i :: r =>
      match nth_error ts i with
      | Some t => let '(shared', t') := t_step n shared t in run_sched n shared' (set_nth i t' ts) r
      | None => run_sched n shared ts r
      end
  end.

(* a thread running alone: k steps against shared cells that stay as they are *)
Fixpoint solo (n : nat) (shared : heap) (t : tstate) (k : nat) : tstate :=
  match k with
  | O => t
  | S k' => solo n shared (snd (t_step n shared t)) k'
  end.

Definition count_of (i : nat) (sched : list nat) : nat := List.length (filter (Nat.eqb i) sched).
