(* The reflected type tree of nfpm.Config (regenerated into Gen/TypeTree.v), YAML documents, strict decoding
   with KnownFields(true), JSON terms and the key structure of a JSON schema. *)
From Coq Require Import List NArith ZArith Bool String.
From Coq Require Import Strings.Byte.
From NfpmV Require Import Lib.Bytes Model.Content.
Import ListNotations.
Open Scope list_scope.

Inductive ty :=
  | TyScalar (kind : str)
  | TyPtr (t : ty)
  | TySlice (t : ty)
  | TyMap (t : ty)
  | TyStruct (fs : list fieldd)
with fieldd :=
  | Field (goname yaml json : str) (yinline jinline yomit skip : bool) (enum : list str) (t : ty).

Inductive json :=
  | JNull | JBool (b : bool) | JNum (s : str) | JStr (s : str)
  | JArr (l : list json) | JObj (l : list (str * json)).

(* a YAML document, as far as key structure goes *)
Inductive doc :=
  | DScalar (s : str)
  | DSeq (l : list doc)
  | DMap (kvs : list (str * doc)).

Definition f_yaml (f : fieldd) : str := match f with Field _ y _ _ _ _ _ _ _ => y end.
Definition f_json (f : fieldd) : str := match f with Field _ _ j _ _ _ _ _ _ => j end.
Definition f_go (f : fieldd) : str := match f with Field g _ _ _ _ _ _ _ _ => g end.
Definition f_yinline (f : fieldd) : bool := match f with Field _ _ _ i _ _ _ _ _ => i end.
Definition f_jinline (f : fieldd) : bool := match f with Field _ _ _ _ i _ _ _ _ => i end.
Definition f_skip (f : fieldd) : bool := match f with Field _ _ _ _ _ _ s _ _ => s end.
Definition f_enum (f : fieldd) : list str := match f with Field _ _ _ _ _ _ _ e _ => e end.
Definition f_ty (f : fieldd) : ty := match f with Field _ _ _ _ _ _ _ _ t => t end.

(* the fields a mapping node may use at a struct: inline structs are flattened (yaml.v3 ",inline") *)
Fixpoint flat_fields (fuel : nat) (fs : list fieldd) : list fieldd :=
  match fuel with
  | O => []
  | S n =>
      flat_map (fun f =>
        if f_skip f then []
        else if f_yinline f then match f_ty f with TyStruct fs' => flat_fields n fs' | _ => [] end
        else [f]) fs
  end.

Definition lookup_field (fs : list fieldd) (k : str) : option fieldd := find (fun f => seqb (f_yaml f) k) fs.

(* strict decoding, key structure only: every key of every mapping node must be a known field of the struct
   at that position; map-typed values accept any key; sequences decode element-wise *)
Fixpoint accepts (fuel : nat) (t : ty) (d : doc) : bool :=
  match fuel with
  | O => false
  | S n =>
      match t, d with
      | TyPtr t', _ => accepts n t' d
      | TyStruct fs, DMap kvs =>
          let ff := flat_fields 8 fs in
          forallb (fun kv => match lookup_field ff (fst kv) with Some f => accepts n (f_ty f) (snd kv) | None => false end) kvs
      | TyMap t', DMap kvs => forallb (fun kv => accepts n t' (snd kv)) kvs
      | TySlice t', DSeq l => forallb (accepts n t') l
      | TyScalar _, DScalar _ => true
      | TyScalar _, _ => false
      | _, DScalar _ => true        (* null / empty scalars decode into zero values *)
      | _, _ => false
      end
  end.

(* all key paths of the type tree: a path is the list of yaml keys from the root; "[]" steps into a
   sequence element, "*" into a map value *)
Fixpoint ty_paths (fuel : nat) (t : ty) : list (list str) :=
  match fuel with
  | O => []
  | S n =>
      match t with
      | TyScalar _ => []
      | TyPtr t' => ty_paths n t'
      | TySlice t' => map (cons (B "[]")) (ty_paths n t')
      | TyMap t' => [B "*"] :: map (cons (B "*")) (ty_paths n t')
      | TyStruct fs =>
          flat_map (fun f => [f_yaml f] :: map (cons (f_yaml f)) (ty_paths n (f_ty f))) (flat_fields 8 fs)
      end
  end.

(* the same walk with the json names *)
Fixpoint flat_fields_json (fuel : nat) (fs : list fieldd) : list fieldd :=
  match fuel with
  | O => []
  | S n =>
      flat_map (fun f =>
        if seqb (f_json f) (B "-") then []
        else if f_jinline f then match f_ty f with TyStruct fs' => flat_fields_json n fs' | _ => [] end
        else [f]) fs
  end.

Fixpoint ty_paths_json (fuel : nat) (t : ty) : list (list str) :=
  match fuel with
  | O => []
  | S n =>
      match t with
      | TyScalar _ => []
      | TyPtr t' => ty_paths_json n t'
      | TySlice t' => map (cons (B "[]")) (ty_paths_json n t')
      | TyMap t' => [B "*"] :: map (cons (B "*")) (ty_paths_json n t')
      | TyStruct fs =>
          flat_map (fun f => [f_json f] :: map (cons (f_json f)) (ty_paths_json n (f_ty f))) (flat_fields_json 8 fs)
      end
  end.

(* ---- JSON schema key structure ---- *)
Fixpoint jget (k : string) (l : list (str * json)) : option json :=
  match l with
  | [] => None
  | (k', v) :: l' => if seqb k' (B k) then Some v else jget k l'
  end.

Definition jobj (j : json) : list (str * json) := match j with JObj l => l | _ => [] end.

(* "#/$defs/Name" -> Name *)
Definition ref_name (r : str) : str := skipn 8 r.

(* key paths a schema node allows, resolving $ref against the $defs table *)
Fixpoint schema_paths (fuel : nat) (defs : list (str * json)) (node : json) : list (list str) :=
  match fuel with
  | O => []
  | S n =>
      let o := jobj node in
      match jget "$ref" o with
      | Some (JStr r) =>
          match find (fun kv => seqb (fst kv) (ref_name r)) defs with
          | Some (_, d) => schema_paths n defs d
          | None => []
          end
      | _ =>
          (match jget "properties" o with
           | Some (JObj props) => flat_map (fun kv => [fst kv] :: map (cons (fst kv)) (schema_paths n defs (snd kv))) props
           | _ => []
           end)
          ++ (match jget "items" o with Some it => map (cons (B "[]")) (schema_paths n defs it) | None => [] end)
          ++ (match jget "additionalProperties" o with
              | Some (JObj ap) => [B "*"] :: map (cons (B "*")) (schema_paths n defs (JObj ap))
              | _ => []
              end)
      end
  end.

Definition schema_root_paths (s : json) : list (list str) :=
  let o := jobj s in
  schema_paths 12 (match jget "$defs" o with Some (JObj d) => d | _ => [] end) s.

(* the enum a schema declares at a key path *)
Fixpoint schema_node_at (fuel : nat) (defs : list (str * json)) (node : json) (path : list str) : option json :=
  match fuel with
  | O => None
  | S n =>
      let o := jobj node in
      match jget "$ref" o with
      | Some (JStr r) =>
          match find (fun kv => seqb (fst kv) (ref_name r)) defs with
          | Some (_, d) => schema_node_at n defs d path
          | None => None
          end
      | _ =>
          match path with
          | [] => Some node
          | k :: rest =>
              if seqb k (B "[]") then match jget "items" o with Some it => schema_node_at n defs it rest | None => None end
              else if seqb k (B "*") then match jget "additionalProperties" o with Some ap => schema_node_at n defs ap rest | None => None end
              else match jget "properties" o with
                   | Some (JObj props) => match find (fun kv => seqb (fst kv) k) props with
                                          | Some (_, v) => schema_node_at n defs v rest | None => None end
                   | _ => None
                   end
          end
      end
  end.

Definition schema_enum_at (s : json) (path : list str) : option (list str) :=
  let o := jobj s in
  match schema_node_at 24 (match jget "$defs" o with Some (JObj d) => d | _ => [] end) s path with
  | Some node => match jget "enum" (jobj node) with
                 | Some (JArr l) => Some (flat_map (fun j => match j with JStr x => [x] | _ => [] end) l)
                 | _ => None
                 end
  | None => None
  end.

Fixpoint path_eqb (a b : list str) : bool :=
  match a, b with
  | [], [] => true
  | x :: a', y :: b' => seqb x y && path_eqb a' b'
  | _, _ => false
  end.
Definition path_in (p : list str) (l : list (list str)) : bool := existsb (path_eqb p) l.
Definition paths_subset (a b : list (list str)) : bool := forallb (fun p => path_in p b) a.
