(* Version comparison as the package managers do it: dpkg's verrevcmp / version compare, and rpmvercmp.
   Structural recursion on explicit fuel (length a + length b + 1 is always enough); fuel exhaustion is None. *)
From Coq Require Import List NArith ZArith Bool String.
From Coq Require Import Strings.Byte.
From NfpmV Require Import Lib.Bytes Model.Path Model.Content Model.Meta Model.Version.
Import ListNotations.
Open Scope list_scope.

Definition is_alpha (b : byte) : bool :=
  let n := Byte.to_N b in ((65 <=? n)%N && (n <=? 90)%N) || ((97 <=? n)%N && (n <=? 122)%N).

(* dpkg: order of one character; the end of the string orders like a digit (0) *)
Definition dorder (c : option byte) : Z :=
  match c with
  | None => 0
  | Some b => if is_digit b then 0 else if is_alpha b then Z.of_N (Byte.to_N b)
              else if beq b "~"%byte then (-1) else Z.of_N (Byte.to_N b) + 256
  end%Z.

Definition hd_opt (s : str) : option byte := match s with b :: _ => Some b | [] => None end.
Definition nondigit_head (s : str) : bool := match s with b :: _ => negb (is_digit b) | [] => false end.

Definition sign (z : Z) : comparison := if (z <? 0)%Z then Lt else if (0 <? z)%Z then Gt else Eq.

(* the inner loop over the non-digit parts: stops with a verdict or with both strings at a digit / end *)
Fixpoint dpkg_nondigits (fuel : nat) (a b : str) : option (comparison + (str * str)) :=
  match fuel with
  | O => None
  | S f =>
      if nondigit_head a || nondigit_head b then
        let ac := dorder (hd_opt a) in let bc := dorder (hd_opt b) in
        if negb (Z.eqb ac bc) then Some (inl (sign (ac - bc)%Z))
        else dpkg_nondigits f (tl a) (tl b)
      else Some (inr (a, b))
  end.

(* the digit runs: leading zeros skipped, then longer run wins, then first difference *)
Definition digit_run (s : str) : str * str :=
  let z := drop_while (fun b => beq b "0"%byte) s in
  let d := take_while is_digit z in (d, skipn (List.length d) z).

Definition cmp_digit_runs (da db : str) : comparison :=
  match Nat.compare (List.length da) (List.length db) with
  | Eq => lex_cmp da db
  | c => c
  end.

Fixpoint verrevcmp (fuel : nat) (a b : str) : option comparison :=
  match fuel with
  | O => None
  | S f =>
      match a, b with
      | [], [] => Some Eq
      | _, _ =>
          match dpkg_nondigits (S (List.length a + List.length b)) a b with
          | None => None
          | Some (inl c) => Some c
          | Some (inr (a1, b1)) =>
              let '(da, ra) := digit_run a1 in
              let '(db, rb) := digit_run b1 in
              match cmp_digit_runs da db with
              | Eq => match a1, b1 with [], [] => Some Eq | _, _ => verrevcmp f ra rb end
              | c => Some c
              end
          end
      end
  end.

(* split "epoch:upstream-revision" as dpkg does: epoch before the first ':', revision after the last '-' *)
Fixpoint split_first (c : byte) (s : str) : option (str * str) :=
  match s with
  | [] => None
  | b :: r => if beq b c then Some ([], r) else match split_first c r with Some (x, y) => Some (b :: x, y) | None => None end
  end.
Definition split_last (c : byte) (s : str) : option (str * str) :=
  match split_first c (rev s) with Some (y, x) => Some (rev x, rev y) | None => None end.

Definition dpkg_parts (v : str) : Z * str * str :=
  let '(epoch, rest) := match split_first ":"%byte v with
                        | Some (e, r) => (match parse_digits 0 e with Some n => n | None => 0%Z end, r)
                        | None => (0%Z, v) end in
  match split_last "-"%byte rest with
  | Some (u, r) => (epoch, u, r)
  | None => (epoch, rest, [])
  end.

Definition dpkg_cmp (v w : str) : option comparison :=
  let '(e1, u1, r1) := dpkg_parts v in
  let '(e2, u2, r2) := dpkg_parts w in
  match Z.compare e1 e2 with
  | Eq => match verrevcmp (S (List.length u1 + List.length u2)) u1 u2 with
          | Some Eq => verrevcmp (S (List.length r1 + List.length r2)) r1 r2
          | x => x
          end
  | c => Some c
  end.

(* ---- rpmvercmp ---- *)
Definition is_alnum (b : byte) : bool := is_digit b || is_alpha b.
Definition rpm_sepchar (b : byte) : bool := negb (is_alnum b) && negb (beq b "~"%byte) && negb (beq b "^"%byte).

Fixpoint rpmvercmp (fuel : nat) (a b : str) : option comparison :=
  match fuel with
  | O => None
  | S f =>
      let a := drop_while rpm_sepchar a in
      let b := drop_while rpm_sepchar b in
      match a, b with
      | [], [] => Some Eq
      | _, _ =>
          let ta := match a with x :: _ => beq x "~"%byte | [] => false end in
          let tb := match b with x :: _ => beq x "~"%byte | [] => false end in
          if ta || tb then
            if negb ta then Some Gt else if negb tb then Some Lt else rpmvercmp f (tl a) (tl b)
          else
          let ca := match a with x :: _ => beq x "^"%byte | [] => false end in
          let cb := match b with x :: _ => beq x "^"%byte | [] => false end in
          if ca || cb then
            match a, b with
            | [], _ => Some Lt
            | _, [] => Some Gt
            | _, _ => if negb ca then Some Gt else if negb cb then Some Lt else rpmvercmp f (tl a) (tl b)
            end
          else
          match a, b with
          | [], _ => Some Lt
          | _, [] => Some Gt
          | x :: _, _ =>
              let isnum := is_digit x in
              let cls := if isnum then is_digit else is_alpha in
              let sa := take_while cls a in let sb := take_while cls b in
              let ra := skipn (List.length sa) a in let rb := skipn (List.length sb) b in
              match sb with
              | [] => Some (if isnum then Gt else Lt)
              | _ =>
                  let c := if isnum then
                             cmp_digit_runs (drop_while (fun d => beq d "0"%byte) sa) (drop_while (fun d => beq d "0"%byte) sb)
                           else lex_cmp sa sb in
                  match c with
                  | Eq => rpmvercmp f ra rb
                  | c => Some c
                  end
              end
          end
      end
  end.

Definition rpm_cmp (e1 : Z) (v1 r1 : str) (e2 : Z) (v2 r2 : str) : option comparison :=
  match Z.compare e1 e2 with
  | Eq => match rpmvercmp (S (List.length v1 + List.length v2)) v1 v2 with
          | Some Eq => rpmvercmp (S (List.length r1 + List.length r2)) r1 r2
          | x => x
          end
  | c => Some c
  end.
