(* The .PKGINFO member of an archlinux (and apk) package as text (C02): "key = value" lines, '#' comment lines, a key
   may repeat (one line per list item), and the reader makepkg's consumers apply to it. *)
From Coq Require Import List NArith Bool Arith Lia String.
From Coq Require Import Strings.Byte.
From NfpmV Require Import Lib.Bytes Model.Container Model.Mtree.
Import ListNotations.
Open Scope list_scope.

Definition sep3 : str := [sp; x3d; sp].   (* " = " *)

Definition p_line (kv : str * str) : str := fst kv ++ sep3 ++ snd kv.
Definition p_write (fs : list (str * str)) : str := flat_map (fun kv => p_line kv ++ [nl]) fs.

(* a line: the key is what precedes the first blank, which must begin " = " *)
Definition p_split (l : str) : option (str * str) :=
  let k := take_whileb (fun b => negb (beq b sp)) l in
  match k with
  | [] => None
  | _ => match skipn (List.length k) l with
         | a :: b :: c :: v => if beq a sp && beq b x3d && beq c sp then Some (k, v) else None
         | _ => None
         end
  end.

Definition is_comment (l : str) : bool := match l with b :: _ => beq b x23 | [] => false end.

Fixpoint p_lines (ls : list str) : option (list (str * str)) :=
  match ls with
  | [] => Some []
  | l :: r =>
      if is_comment l then p_lines r
      else match p_split l, p_lines r with
           | Some kv, Some rest => Some (kv :: rest)
           | _, _ => None
           end
  end.

Definition p_read (s : str) : option (list (str * str)) :=
  match rev (splitb nl s) with
  | [] :: ls' => p_lines (rev ls')
  | _ => None
  end.

Fixpoint p_all (k : str) (fs : list (str * str)) : list str :=
  match fs with
  | [] => []
  | (k', v) :: r => if seqb k k' then v :: p_all k r else p_all k r
  end.

Definition p_no_nl (s : str) : bool := forallb (fun b => negb (beq b nl)) s.
Definition wf_pkey (k : str) : bool :=
  match k with
  | [] => false
  | b :: _ => negb (beq b x23) && forallb (fun c => negb (beq c sp) && negb (beq c nl)) k
  end.
Definition wf_pfield (kv : str * str) : bool := wf_pkey (fst kv) && p_no_nl (snd kv).
