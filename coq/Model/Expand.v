(* os.Expand / getShellName, and which configuration fields nfpm.Config.expandEnvVars substitutes. *)
From Coq Require Import List NArith ZArith Bool String.
From Coq Require Import Strings.Byte.
From NfpmV Require Import Lib.Bytes Model.Path Model.Content Model.Meta.
Import ListNotations.
Open Scope string_scope.
Open Scope list_scope.

Definition dollar : byte := "$"%byte.

Definition is_special_var (b : byte) : bool :=
  match b with
  | "*"%byte | "#"%byte | "$"%byte | "@"%byte | "!"%byte | "?"%byte | "-"%byte => true
  | _ => let n := Byte.to_N b in (48 <=? n)%N && (n <=? 57)%N
  end.

Definition is_alnum_us (b : byte) : bool :=
  let n := Byte.to_N b in
  beq b "_"%byte || ((48 <=? n)%N && (n <=? 57)%N) || ((65 <=? n)%N && (n <=? 90)%N) || ((97 <=? n)%N && (n <=? 122)%N).

Fixpoint index_of (c : byte) (s : str) : option nat :=
  match s with
  | [] => None
  | b :: r => if beq b c then Some 0 else match index_of c r with Some i => Some (S i) | None => None end
  end.

(* getShellName on the text after a '$' (non-empty): the variable name and the number of bytes consumed *)
Definition shell_name (s : str) : str * nat :=
  match s with
  | [] => ([], 0)
  | b0 :: r =>
      if beq b0 "{"%byte then
        match r with
        | b1 :: b2 :: _ => if is_special_var b1 && beq b2 "}"%byte then ([b1], 3)
                           else match index_of "}"%byte r with
                                | Some 0 => ([], 2)
                                | Some i => (firstn i r, S (S i))
                                | None => ([], 1)
                                end
        | _ => match index_of "}"%byte r with
               | Some 0 => ([], 2)
               | Some i => (firstn i r, S (S i))
               | None => ([], 1)
               end
        end
      else if is_special_var b0 then ([b0], 1)
      else let n := take_while is_alnum_us s in (n, List.length n)
  end.

(* os.Expand *)
Fixpoint expand (fuel : nat) (m : str -> str) (s : str) : str :=
  match fuel with
  | O => s
  | S f =>
      match s with
      | [] => []
      | b :: r =>
          if beq b dollar && nonempty r then
            let '(name, w) := shell_name r in
            (match name with
             | [] => if Nat.ltb 0 w then [] else [dollar]
             | _ => m name
             end) ++ expand f m (skipn w r)
          else b :: expand f m r
      end
  end.
Definition os_expand (m : str -> str) (s : str) : str := expand (S (List.length s)) m s.

Definition env_of (env : list (str * str)) : str -> str := fun k => match lookup k env with Some v => v | None => [] end.

(* expandEnvVarsStringSlice: every item expanded and trimmed, empty results dropped, order kept *)
Definition expand_list (env : list (str * str)) (items : list str) : list str :=
  filter nonempty (map (fun s => trim_space (os_expand (env_of env) s)) items).

(* how a configuration path is treated; paths use "[]" for sequence items and "*" for map keys *)
Inductive ekind := EScalar | EList | EContent | EKeyID | EPass (fmt : str) | ENone.

Fixpoint path_is (p : list str) (pat : list string) : bool :=
  match p, pat with
  | [], [] => true
  | x :: p', y :: pat' => (seqb x (B y) || seqb (B y) (B "*")) && path_is p' pat'
  | _, _ => false
  end.

Definition expand_kind (p : list str) : ekind :=
  let any (pats : list (list string)) := existsb (path_is p) pats in
  if any [["release"]; ["version"]; ["prerelease"]; ["platform"]; ["arch"]; ["name"]; ["homepage"]; ["maintainer"];
          ["vendor"]; ["description"]; ["deb"; "signature"; "key_file"]; ["rpm"; "signature"; "key_file"];
          ["apk"; "signature"; "key_file"]; ["rpm"; "packager"]; ["deb"; "fields"; "*"]; ["ipk"; "fields"; "*"]] then EScalar
  else if any [["deb"; "signature"; "key_id"]; ["rpm"; "signature"; "key_id"]; ["apk"; "signature"; "key_id"]] then EKeyID
  else if any [["conflicts"]; ["depends"]; ["replaces"]; ["recommends"]; ["provides"]; ["suggests"];
               ["deb"; "predepends"]; ["ipk"; "predepends"];
               ["overrides"; "*"; "conflicts"]; ["overrides"; "*"; "depends"]; ["overrides"; "*"; "replaces"];
               ["overrides"; "*"; "recommends"]; ["overrides"; "*"; "provides"]; ["overrides"; "*"; "suggests"]] then EList
  else if any [["contents"; "[]"; "src"]; ["contents"; "[]"; "dst"];
               ["overrides"; "*"; "contents"; "[]"; "src"]; ["overrides"; "*"; "contents"; "[]"; "dst"]] then EContent
  else if path_is p ["deb"; "signature"; "-KeyPassphrase"] then EPass (B "DEB")
  else if path_is p ["rpm"; "signature"; "-KeyPassphrase"] then EPass (B "RPM")
  else if path_is p ["apk"; "signature"; "-KeyPassphrase"] then EPass (B "APK")
  else ENone.

(* the signing passphrase of a format: NFPM_<FORMAT>_PASSPHRASE, else NFPM_PASSPHRASE *)
Definition passphrase (env : list (str * str)) (fmt : str) : str :=
  let specific := env_of env (B "NFPM_" ++ fmt ++ B "_PASSPHRASE") in
  if nonempty specific then specific else env_of env (B "NFPM_PASSPHRASE").

(* a scalar at a path: [opted_in] is the content entry's expand flag *)
Definition expand_scalar (env : list (str * str)) (p : list str) (opted_in : bool) (raw : str) : str :=
  match expand_kind p with
  | EScalar | EKeyID => os_expand (env_of env) raw
  | EContent => if opted_in then trim_space (os_expand (env_of env) raw) else raw
  | EPass f => passphrase env f
  | EList | ENone => raw
  end.

(* WithDefaults on the scalars the expansion cases look at *)
Definition default_scalar (p : list str) (v : str) : str :=
  if path_is p ["platform"] then dflt v (B "linux")
  else if path_is p ["description"] then dflt v (B "no description given")
  else v.
