(* The archlinux .MTREE member as arch.createMtree / MtreeEntry.WriteTo write it and as a reader of the mtree(5)
   format reads it back (C03): a "#mtree" line, then one line per entry,

     ./<path> time=<seconds>.0 mode=<octal> type=dir
     ./<path> time=<seconds>.0 mode=<octal> type=link link=<target>
     ./<path> time=<seconds>.0 mode=<octal> size=<bytes> type=file md5digest=<hex> sha256digest=<hex>

   words separated by one blank, lines ended by a newline.  A path or link target may hold any byte: what would end
   a word (blanks, control characters) and the escape character itself are written as \ooo (three octal digits),
   which is what mtree(5) readers (libarchive, pacman) undo.  The digests are carried as the hex text the line
   holds; that they are the digests of the shipped bytes is recomputed by the harness (hash functions are not
   modelled). *)
From Coq Require Import List NArith Bool Arith Lia String.
From Coq Require Import Strings.Byte Strings.Ascii Numbers.DecimalString Numbers.DecimalN Numbers.DecimalPos.
From NfpmV Require Import Lib.Bytes Model.Container Model.Tar.
Import ListNotations.
Open Scope list_scope.

Definition nl : byte := x0a.
Definition bsl : byte := x5c.
Definition eqs : byte := x3d.

(* ---------- numbers ---------- *)
Definition decN (n : N) : str := list_byte_of_string (NilZero.string_of_uint (N.to_uint n)).
Definition parse_decN (s : str) : option N :=
  match s with
  | [] => None
  | _ => if forallb digitb s then option_map N.of_uint (NilZero.uint_of_string (string_of_list_byte s)) else None
  end.

(* %o: octal without leading zeros ("0" for zero); 22 digits hold any 64-bit value *)
Definition is_zero_digit (b : byte) : bool := beq b x30.
Definition octN (n : N) : str :=
  match drop_while is_zero_digit (oct_fixed 22 n) with
  | [] => [x30]
  | s => s
  end.
Definition parse_octN (s : str) : option N := match s with [] => None | _ => parse_oct s end.

(* ---------- quoting ---------- *)
Definition needs_quote (b : byte) : bool :=
  let n := Byte.to_N b in (n <=? 32)%N || (n =? 92)%N || (n =? 127)%N.

Definition quote_byte (b : byte) : str :=
  if needs_quote b then bsl :: oct_fixed 3 (Byte.to_N b) else [b].

Definition mquote (s : str) : str := flat_map quote_byte s.

(* undo: a backslash followed by three octal digits (value below 256) is that byte; any other backslash is malformed *)
Fixpoint unquote (s : str) : option str :=
  match s with
  | [] => Some []
  | b :: r =>
      if beq b bsl then
        match r with
        | d1 :: d2 :: d3 :: r' =>
            match parse_oct [d1; d2; d3] with
            | Some v => match Byte.of_N v with
                        | Some c => option_map (cons c) (unquote r')
                        | None => None
                        end
            | None => None
            end
        | _ => None
        end
      else option_map (cons b) (unquote r)
  end.

(* ---------- entries ---------- *)
Inductive mkind := MDir | MLink | MFile.

Record mentry := {
  me_path : str;     (* relative name as stored in the tar, raw bytes *)
  me_kind : mkind;
  me_time : N;
  me_mode : N;
  me_size : N;       (* MFile only, 0 otherwise *)
  me_md5 : str;      (* MFile only: hex text *)
  me_sha256 : str;   (* MFile only: hex text *)
  me_link : str      (* MLink only: raw bytes *)
}.

Definition kw (k : string) (v : str) : str := list_byte_of_string k ++ [eqs] ++ v.

Definition mwords (e : mentry) : list str :=
  [ [x2e; x2f]%byte ++ mquote (me_path e);
    kw "time" (decN (me_time e) ++ [x2e; x30]%byte);
    kw "mode" (octN (me_mode e)) ]
  ++ match me_kind e with
     | MDir => [kw "type" (list_byte_of_string "dir")]
     | MLink => [kw "type" (list_byte_of_string "link"); kw "link" (mquote (me_link e))]
     | MFile => [kw "size" (decN (me_size e)); kw "type" (list_byte_of_string "file");
                 kw "md5digest" (me_md5 e); kw "sha256digest" (me_sha256 e)]
     end.

Fixpoint join_sp (ws : list str) : str :=
  match ws with
  | [] => []
  | [w] => w
  | w :: ws' => w ++ sp :: join_sp ws'
  end.

Definition mline (e : mentry) : str := join_sp (mwords e) ++ [nl].

Definition mtree_header : str := list_byte_of_string "#mtree" ++ [nl].

Definition mtree_text (es : list mentry) : str := mtree_header ++ List.concat (map mline es).

(* ---------- reading ---------- *)
(* the words of a line / the lines of a text: maximal runs between separators (the piece after the last separator
   included, empty when the text ends with one) *)
Fixpoint splitb (d : byte) (s : str) : list str :=
  match s with
  | [] => [[]]
  | b :: r =>
      if beq b d then [] :: splitb d r
      else match splitb d r with
           | w :: ws => (b :: w) :: ws
           | [] => [[b]]
           end
  end.

Fixpoint strip_prefix (p s : str) : option str :=
  match p, s with
  | [], _ => Some s
  | x :: p', y :: s' => if beq x y then strip_prefix p' s' else None
  | _ :: _, [] => None
  end.

Definition kv_val (k : string) (w : str) : option str := strip_prefix (list_byte_of_string k ++ [eqs]) w.

Definition parse_time (v : str) : option N :=
  let ds := take_whileb digitb v in
  if seqb (skipn (List.length ds) v) [x2e; x30]%byte then parse_decN ds else None.

(* the keywords in the order the writer puts them; any other word (an unknown keyword, a piece of a name that was
   split at a blank) makes the line unreadable *)
Definition parse_words (ws : list str) : option mentry :=
  match ws with
  | p :: t :: m :: rest =>
      match strip_prefix [x2e; x2f]%byte p with
      | None => None
      | Some qp =>
          match unquote qp, option_map parse_time (kv_val "time" t), option_map parse_octN (kv_val "mode" m) with
          | Some path, Some (Some time), Some (Some mode) =>
              match rest with
              | [ty] =>
                  if seqb ty (kw "type" (list_byte_of_string "dir")) then
                    Some {| me_path := path; me_kind := MDir; me_time := time; me_mode := mode; me_size := 0;
                            me_md5 := []; me_sha256 := []; me_link := [] |}
                  else None
              | [ty; l] =>
                  if seqb ty (kw "type" (list_byte_of_string "link")) then
                    match option_map unquote (kv_val "link" l) with
                    | Some (Some target) =>
                        Some {| me_path := path; me_kind := MLink; me_time := time; me_mode := mode; me_size := 0;
                                me_md5 := []; me_sha256 := []; me_link := target |}
                    | _ => None
                    end
                  else None
              | [sz; ty; d1; d2] =>
                  if seqb ty (kw "type" (list_byte_of_string "file")) then
                    match option_map parse_decN (kv_val "size" sz), kv_val "md5digest" d1, kv_val "sha256digest" d2 with
                    | Some (Some size), Some md5, Some sha =>
                        Some {| me_path := path; me_kind := MFile; me_time := time; me_mode := mode; me_size := size;
                                me_md5 := md5; me_sha256 := sha; me_link := [] |}
                    | _, _, _ => None
                    end
                  else None
              | _ => None
              end
          | _, _, _ => None
          end
      end
  | _ => None
  end.

Fixpoint parse_lines (ls : list str) : option (list mentry) :=
  match ls with
  | [] => None                       (* the text did not end with a newline *)
  | [last] => if seqb last [] then Some [] else None
  | l :: ls' =>
      match parse_words (splitb sp l), parse_lines ls' with
      | Some e, Some es => Some (e :: es)
      | _, _ => None
      end
  end.

Definition mtree_read (s : str) : option (list mentry) :=
  match strip_prefix mtree_header s with
  | Some body => parse_lines (splitb nl body)
  | None => None
  end.

(* a digest word is hex text: no blank, no newline; entries of a kind carry nothing in the fields of the other kinds *)
Definition plain (s : str) : bool := forallb (fun b => negb (needs_quote b)) s.

Definition wf_mentry (e : mentry) : bool :=
  (me_mode e <? 8 ^ 22)%N
  && match me_kind e with
     | MDir => (me_size e =? 0)%N && seqb (me_md5 e) [] && seqb (me_sha256 e) [] && seqb (me_link e) []
     | MLink => (me_size e =? 0)%N && seqb (me_md5 e) [] && seqb (me_sha256 e) []
     | MFile => plain (me_md5 e) && plain (me_sha256 e) && seqb (me_link e) []
     end.

(* the per-run check on a real .MTREE: the model reader accepts it and the model writer gives the same bytes back *)
Definition mtree_reencodes (s : str) : bool :=
  match mtree_read s with
  | Some es => seqb (mtree_text es) s
  | None => false
  end.

(* ---------- what the archive ships, and the .MTREE that describes it ---------- *)
Inductive skind := SFile | SDir | SLink.
Record shipped := {
  sh_path : str; sh_kind : skind; sh_mode : N; sh_time : N; sh_size : N;
  sh_md5 : str; sh_sha256 : str; sh_link : str
}.

(* arch.createFilesInTar: a directory and a regular file state the mode of their tar header; a symbolic link always
   0777 (its tar header carries none); size and digests only for regular files *)
Definition mentry_of (s : shipped) : mentry :=
  match sh_kind s with
  | SDir => {| me_path := sh_path s; me_kind := MDir; me_time := sh_time s; me_mode := sh_mode s; me_size := 0;
               me_md5 := []; me_sha256 := []; me_link := [] |}
  | SLink => {| me_path := sh_path s; me_kind := MLink; me_time := sh_time s; me_mode := 511; me_size := 0;
                me_md5 := []; me_sha256 := []; me_link := sh_link s |}
  | SFile => {| me_path := sh_path s; me_kind := MFile; me_time := sh_time s; me_mode := sh_mode s; me_size := sh_size s;
                me_md5 := sh_md5 s; me_sha256 := sh_sha256 s; me_link := [] |}
  end.

(* createPackage: .PKGINFO first, then the payload members in archive order *)
Definition arch_mtree (pkginfo : shipped) (payload : list shipped) : str :=
  mtree_text (map mentry_of (pkginfo :: payload)).

Definition wf_shipped (s : shipped) : bool :=
  (sh_mode s <? 8 ^ 22)%N && match sh_kind s with SFile => plain (sh_md5 s) && plain (sh_sha256 s) | _ => true end.
