(* What each packager writes into the payload for a prepared content list.
   Transcribes deb.createFilesInsideDataTar/tarHeader, rpm.createFilesInsideRPM + rpmpack.writeFile,
   apk.createFilesInsideTarGz/copyToTarAndDigest, arch.createFilesInTar, ipk.populateDataTar/writeFile. *)
From Coq Require Import List NArith ZArith Bool.
From Coq Require Import Strings.Byte.
From NfpmV Require Import Lib.Bytes Model.Path Model.Content Model.Prepare.
Import ListNotations.

Inductive fmt := FDeb | FRpm | FApk | FIpk | FArch.

Definition fmt_name (f : fmt) : str :=
  match f with FDeb => P_deb | FRpm => P_rpm | FApk => P_apk | FIpk => P_ipk | FArch => P_arch end.

Inductive pkind := KFile | KDir | KSymlink.
Inductive pdata := DNone | DSrc (path : str) | DChangelog | DHash (sha256 : str).

Record pentry := {
  pe_path : str;        (* name as stored in the archive *)
  pe_kind : pkind;
  pe_mode : N;          (* permission and special bits as a reader sees them *)
  pe_uname : str;
  pe_gname : str;
  pe_mtime : Z;         (* [tzero]: taken from the clock at build time *)
  pe_data : pdata;
  pe_link : str;
  pe_flags : N;         (* rpm file flags *)
  pe_inpayload : bool   (* rpm: false for ghost entries *)
}.

(* modtime.Get: the first non-zero time, else the clock (represented by tzero) *)
Fixpoint first_time (ts : list Z) : Z :=
  match ts with
  | [] => tzero
  | t :: ts' => if is_tzero t then first_time ts' else t
  end.

Definition fi_of (c : content) : finfo := the_fi c.

(* ---- deb ---- *)
Definition deb_mode (fm : N) : N :=
  N.lor (N.land fm 4095)
    (N.lor (if N.testbit fm 23 then 2048 else 0)
       (N.lor (if N.testbit fm 22 then 1024 else 0) (if N.testbit fm 20 then 512 else 0)))%N.

Definition deb_entry (mt : Z) (c : content) : list pentry :=
  let f := fi_of c in
  let t := c_typ c in
  if seqb t TGhost then []
  else if is_dir_typ t then
    [{| pe_path := as_explicit_rel (c_dst c); pe_kind := KDir; pe_mode := deb_mode (fi_mode f);
        pe_uname := fi_owner f; pe_gname := fi_group f; pe_mtime := first_time [mt; fi_mtime f];
        pe_data := DNone; pe_link := []; pe_flags := 0%N; pe_inpayload := true |}]
  else if seqb t TSymlink then
    [{| pe_path := as_explicit_rel (c_dst c); pe_kind := KSymlink; pe_mode := deb_mode (fi_mode f);
        pe_uname := fi_owner f; pe_gname := fi_group f; pe_mtime := first_time [mt; fi_mtime f];
        pe_data := DNone; pe_link := c_src c; pe_flags := 0%N; pe_inpayload := true |}]
  else if seqb t TDebChangelog then
    [{| pe_path := as_explicit_rel (c_dst c); pe_kind := KFile; pe_mode := 420%N;
        pe_uname := []; pe_gname := []; pe_mtime := first_time [mt];
        pe_data := DChangelog; pe_link := []; pe_flags := 0%N; pe_inpayload := true |}]
  else
    [{| pe_path := as_explicit_rel (c_dst c); pe_kind := KFile; pe_mode := deb_mode (fi_mode f);
        pe_uname := fi_owner f; pe_gname := fi_group f; pe_mtime := first_time [fi_mtime f];
        pe_data := DSrc (c_src c); pe_link := []; pe_flags := 0%N; pe_inpayload := true |}].

(* ---- rpm ---- *)
Definition rpm_flags (t : str) : N :=
  if seqb t TConfig then 1
  else if seqb t TConfigNoReplace then 17       (* ConfigFile | NoReplaceFile *)
  else if seqb t TConfigMissingOK then 9        (* ConfigFile | MissingOkFile *)
  else if seqb t TGhost then 64
  else if seqb t TDoc then 2
  else if seqb t TLicence || seqb t TLicense then 128
  else if seqb t TReadme then 256
  else 0.

Definition u32 (z : Z) : Z := Z.modulo z 4294967296.

Definition rpm_entry (mt : Z) (c : content) : list pentry :=
  let f := fi_of c in
  let t := c_typ c in
  if negb (seqb (c_pkgr c) []) && negb (seqb (c_pkgr c) P_rpm) then []
  else if seqb t TImplicitDir then []
  else
    let name := to_nix (c_dst c) in
    if seqb name [slash] then []
    else if seqb t TDir then
      [{| pe_path := name; pe_kind := KDir; pe_mode := N.land (fi_mode f) 4095;
          pe_uname := fi_owner f; pe_gname := fi_group f;
          pe_mtime := (let m := first_time [mt] in if is_tzero m then tzero else u32 m);
          pe_data := DNone; pe_link := []; pe_flags := 0%N; pe_inpayload := true |}]
    else if seqb t TSymlink then
      [{| pe_path := name; pe_kind := KSymlink; pe_mode := 0%N;
          pe_uname := fi_owner f; pe_gname := fi_group f; pe_mtime := u32 (fi_mtime f);
          pe_data := DNone; pe_link := c_src c; pe_flags := 0%N; pe_inpayload := true |}]
    else
      let ghost := seqb t TGhost in
      let mode := if ghost && N.eqb (fi_mode f) 0 then 420%N else fi_mode f in
      [{| pe_path := name; pe_kind := KFile; pe_mode := N.land mode 4095;
          pe_uname := fi_owner f; pe_gname := fi_group f; pe_mtime := u32 (fi_mtime f);
          pe_data := DSrc (c_src c); pe_link := []; pe_flags := rpm_flags t; pe_inpayload := negb ghost |}].

(* rpmpack keeps one file per name (the last added) and writes them sorted by name *)
Fixpoint pe_insert (e : pentry) (l : list pentry) : list pentry :=
  match l with
  | [] => [e]
  | x :: l' =>
      match lex_cmp (pe_path x) (pe_path e) with
      | Lt => x :: pe_insert e l'
      | Eq => e :: l'
      | Gt => e :: l
      end
  end.
Definition rpm_sorted (l : list pentry) : list pentry := fold_left (fun acc e => pe_insert e acc) l [].

(* ---- apk / archlinux ---- *)
Definition tarlike_entry (rel_twice : bool) (c : content) : list pentry :=
  let f := fi_of c in
  let t := c_typ c in
  let name := as_rel (c_dst c) in
  if is_dir_typ t then
    [{| pe_path := name; pe_kind := KDir; pe_mode := fi_mode f;
        pe_uname := fi_owner f; pe_gname := fi_group f; pe_mtime := fi_mtime f;
        pe_data := DNone; pe_link := []; pe_flags := 0%N; pe_inpayload := true |}]
  else if seqb t TSymlink then
    [{| pe_path := name; pe_kind := KSymlink; pe_mode := 0%N;
        pe_uname := []; pe_gname := []; pe_mtime := fi_mtime f;
        pe_data := DNone; pe_link := c_src c; pe_flags := 0%N; pe_inpayload := true |}]
  else
    [{| pe_path := if rel_twice then as_rel name else name; pe_kind := KFile; pe_mode := fi_mode f;
        pe_uname := fi_owner f; pe_gname := fi_group f;
        pe_mtime := fi_mtime f;
        pe_data := DSrc (c_src c); pe_link := []; pe_flags := 0%N; pe_inpayload := true |}].

(* ---- ipk ---- *)
Definition ipk_entry (mt : Z) (c : content) : list pentry :=
  let f := fi_of c in
  let t := c_typ c in
  let name := as_explicit_rel (c_dst c) in
  if is_dir_typ t then
    [{| pe_path := name; pe_kind := KDir; pe_mode := fi_mode f;
        pe_uname := fi_owner f; pe_gname := fi_group f; pe_mtime := first_time [mt];
        pe_data := DNone; pe_link := []; pe_flags := 0%N; pe_inpayload := true |}]
  else if seqb t TSymlink then
    [{| pe_path := name; pe_kind := KSymlink; pe_mode := 0%N;
        pe_uname := []; pe_gname := []; pe_mtime := first_time [mt];
        pe_data := DNone; pe_link := c_src c; pe_flags := 0%N; pe_inpayload := true |}]
  else if typ_in t [TFile; TTree; TConfig; TConfigNoReplace; TConfigMissingOK] then
    [{| pe_path := name; pe_kind := KFile; pe_mode := fi_mode f;
        pe_uname := fi_owner f; pe_gname := fi_group f; pe_mtime := fi_mtime f;
        pe_data := DSrc (c_src c); pe_link := []; pe_flags := 0%N; pe_inpayload := true |}]
  else [].

Definition payload_of (f : fmt) (mt : Z) (cs : list content) : list pentry :=
  match f with
  | FDeb => flat_map (deb_entry mt) cs
  | FRpm => rpm_sorted (flat_map (rpm_entry mt) cs)
  | FApk => flat_map (tarlike_entry true) cs
  | FArch => flat_map (tarlike_entry false) cs
  | FIpk => flat_map (ipk_entry mt) cs
  end.
