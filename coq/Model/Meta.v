(* Control metadata as each packager renders it, from the effective settings.
   Transcribes deb.controlTemplate (+ join / multiline / nonEmpty), ipk.controlTemplate, apk.controlTemplate
   and pkgver, arch.createPkginfo / writeKVPairs, rpm.buildRPMMeta / formatVersion / toRelation
   (rpmpack.NewRelation), and the per-packager architecture translation and defaults. *)
From Coq Require Import List NArith ZArith Bool String.
From Coq Require Import Strings.Byte Numbers.DecimalString.
From NfpmV Require Import Lib.Bytes Model.Path Model.Content Model.Payload.
Import ListNotations.
Open Scope string_scope.
Open Scope list_scope.

(* ---- effective settings, as association lists keyed by configuration path ---- *)
Record minfo := {
  mi_s : list (str * str);                 (* scalar fields *)
  mi_l : list (str * list str);            (* list fields *)
  mi_f : list (str * list (str * str));    (* custom-field maps, sorted by key *)
  mi_n : list (str * Z)                    (* numbers *)
}.

Fixpoint lookup {A} (k : str) (l : list (str * A)) : option A :=
  match l with
  | [] => None
  | (k', v) :: l' => if seqb k' k then Some v else lookup k l'
  end.

Definition gs (i : minfo) (k : string) : str := match lookup (B k) (mi_s i) with Some v => v | None => [] end.
Definition gl (i : minfo) (k : string) : list str := match lookup (B k) (mi_l i) with Some v => v | None => [] end.
Definition gf (i : minfo) (k : string) : list (str * str) := match lookup (B k) (mi_f i) with Some v => v | None => [] end.
Definition gn (i : minfo) (k : string) : Z := match lookup (B k) (mi_n i) with Some v => v | None => 0%Z end.

Definition nonempty (s : str) : bool := match s with [] => false | _ => true end.
Definition dflt (s d : str) : str := if nonempty s then s else d.

Definition dec (z : Z) : str :=
  match z with
  | Z0 => B "0"
  | Zpos p => B (NilZero.string_of_uint (Pos.to_uint p))
  | Zneg p => B "-" ++ B (NilZero.string_of_uint (Pos.to_uint p))
  end.

(* ---- architecture ---- *)
Definition translate_arch (table : list (str * str)) (override arch : str) : str :=
  if nonempty override then override
  else match lookup arch table with Some a => a | None => arch end.

(* ---- white space (ASCII; the envelope excludes other Unicode spaces) ---- *)
Definition is_space (b : byte) : bool :=
  match b with
  | x09 | x0a | x0b | x0c | x0d | x20 => true
  | _ => false
  end.
Definition trim_space (s : str) : str := trim_both is_space s.

(* strings.Trim(s, " ") *)
Definition is_sp (b : byte) : bool := match b with x20 => true | _ => false end.

Fixpoint join_with (sep : str) (l : list str) : str :=
  match l with
  | [] => []
  | [x] => x
  | x :: l' => x ++ sep ++ join_with sep l'
  end.

(* template func "join" *)
Definition tjoin (l : list str) : str := trim_both is_sp (join_with (B ", ") l).

(* template func "nonEmpty" *)
Definition non_empty_items (l : list str) : list str :=
  filter nonempty (map trim_space l).

(* bufio.Scanner with ScanLines over a string: split at "\n", drop one trailing "\r" per line, no final
   empty token *)
Fixpoint split_lines_aux (acc : str) (s : str) : list str :=
  match s with
  | [] => match acc with [] => [] | _ => [rev acc] end
  | b :: s' => if beq b x0a then rev acc :: split_lines_aux [] s' else split_lines_aux (b :: acc) s'
  end.
Definition drop_cr (l : str) : str :=
  match rev l with
  | b :: r => if beq b x0d then rev r else l
  | [] => l
  end.
(* a line that does not fit bufio.Scanner's 64 KiB buffer ends the scan: it and everything after it is lost *)
Definition scanner_limit : N := 65536.
Fixpoint until_too_long (ls : list str) : list str :=
  match ls with
  | [] => []
  | l :: r => if N.leb scanner_limit (N.of_nat (List.length l)) then [] else l :: until_too_long r
  end.
Definition scan_lines (s : str) : list str := map drop_cr (until_too_long (split_lines_aux [] s)).

(* template func "multiline" of deb and ipk *)
Definition multiline (s : str) : str :=
  match scan_lines (trim_space s) with
  | [] => []
  | first :: rest =>
      trim_space first ++
      flat_map (fun l => let t := trim_space l in x0a :: x20 :: (if nonempty t then t else B ".")) rest
  end.

(* ---- versions ---- *)
Fixpoint replace_byte (a b : byte) (s : str) : str :=
  match s with
  | [] => []
  | c :: s' => (if beq c a then b else c) :: replace_byte a b s'
  end.

Definition deb_version (i : minfo) : str :=
  (if nonempty (gs i "epoch") then gs i "epoch" ++ B ":" else [])
  ++ gs i "version"
  ++ (if nonempty (gs i "prerelease") then B "~" ++ gs i "prerelease" else [])
  ++ (if nonempty (gs i "version_metadata") then B "+" ++ gs i "version_metadata" else [])
  ++ (if nonempty (gs i "release") then B "-" ++ gs i "release" else []).

Definition rpm_version (i : minfo) : str :=
  gs i "version"
  ++ (if nonempty (gs i "prerelease") then B "~" ++ replace_byte "-"%byte "_"%byte (gs i "prerelease") else [])
  ++ (if nonempty (gs i "version_metadata") then B "+" ++ gs i "version_metadata" else []).

Definition apk_version (i : minfo) : str :=
  let rel := gs i "release" in
  let meta := gs i "version_metadata" in
  gs i "version"
  ++ (if nonempty (gs i "prerelease") then B "_" ++ gs i "prerelease" else [])
  ++ (if nonempty rel then B "-" ++ (if has_prefix (B "r") rel then rel else B "r" ++ rel) else [])
  ++ (if nonempty meta then
        B "-" ++ (if has_prefix (B "p") meta || has_prefix (B "cvs") meta || has_prefix (B "svn") meta
                     || has_prefix (B "git") meta || has_prefix (B "hg") meta then meta else B "p" ++ meta)
      else []).

(* strconv.Atoi / ParseUint on decimal digits; [None] on anything else (or beyond the given bound) *)
Definition digit_val (b : byte) : option Z :=
  let n := Z.of_N (Byte.to_N b) in
  if (48 <=? n)%Z && (n <=? 57)%Z then Some (n - 48)%Z else None.
Fixpoint parse_digits (acc : Z) (s : str) : option Z :=
  match s with
  | [] => Some acc
  | b :: s' => match digit_val b with Some d => parse_digits (acc * 10 + d) s' | None => None end
  end.
Definition parse_uint (bound : Z) (s : str) : option Z :=
  match s with
  | [] => None
  | _ => match parse_digits 0 s with Some v => if (v <? bound)%Z then Some v else None | None => None end
  end.
Definition atoi (s : str) : option Z :=
  match s with
  | b :: s' =>
      if beq b "-"%byte then match parse_uint 9223372036854775809 s' with Some v => Some (- v)%Z | None => None end
      else if beq b "+"%byte then parse_uint 9223372036854775808 s'
      else parse_uint 9223372036854775808 s
  | [] => None
  end.

Definition arch_pkgrel (i : minfo) : Z := match atoi (gs i "release") with Some v => v | None => 1%Z end.

Definition arch_version (i : minfo) : str :=
  let base := gs i "version" ++ B "-" ++ dec (arch_pkgrel i) in
  if nonempty (gs i "epoch") then
    match parse_uint 18446744073709551616 (gs i "epoch") with
    | Some e => dec e ++ B ":" ++ gs i "version" ++ replace_byte "-"%byte "_"%byte (gs i "prerelease")
                ++ B "-" ++ dec (arch_pkgrel i)
    | None => base
    end
  else base.

(* ---- deb control ---- *)
Definition field (k : string) (v : str) : str := B k ++ B ": " ++ v ++ [x0a].
Definition opt_field (k : string) (v : str) : str := if nonempty v then field k v else [].
Definition opt_list (k : string) (l : list str) : str := match l with [] => [] | _ => field k (tjoin l) end.
Definition custom_fields (l : list (str * str)) : str :=
  flat_map (fun '(k, v) => if nonempty v then k ++ B ": " ++ v ++ [x0a] else []) l.

Definition deb_maintainer (i : minfo) : str := dflt (gs i "maintainer") (B "Unset Maintainer <unset@localhost>").
Definition ipk_maintainer (i : minfo) : str :=
  if nonempty (trim_space (gs i "maintainer")) then gs i "maintainer" else B "Unset Maintainer <unset@localhost>".

Definition strip_last_nl (s : str) : str :=
  match rev s with b :: r => if beq b x0a then rev r else s | [] => s end.

(* the deb `triggers` control member: one line per configured name, directive by directive in deb-triggers(5) order *)
Definition deb_triggers (i : minfo) : str :=
  flat_map (fun '(d, k) => flat_map (fun n => d ++ B " " ++ n ++ [x0a]) (gl i k))
    [(B "interest", "deb.triggers.interest"); (B "interest-await", "deb.triggers.interest_await");
     (B "interest-noawait", "deb.triggers.interest_noawait"); (B "activate", "deb.triggers.activate");
     (B "activate-await", "deb.triggers.activate_await"); (B "activate-noawait", "deb.triggers.activate_noawait")]%string.

Definition deb_control (archtab : list (str * str)) (i : minfo) (installed_kib : Z) : str :=
  let arch := translate_arch archtab (gs i "deb.arch") (gs i "arch") in
  (
  field "Package" (gs i "name")
  ++ field "Version" (deb_version i)
  ++ field "Section" (gs i "section")
  ++ field "Priority" (dflt (gs i "priority") (B "optional"))
  ++ field "Architecture" ((if seqb (gs i "platform") (B "linux") then [] else gs i "platform" ++ B "-") ++ arch)
  ++ opt_field "License" (gs i "license")
  ++ field "Maintainer" (deb_maintainer i)
  ++ field "Installed-Size" (dec installed_kib)
  ++ opt_list "Replaces" (gl i "replaces")
  ++ opt_list "Provides" (non_empty_items (gl i "provides"))
  ++ opt_list "Pre-Depends" (gl i "deb.predepends")
  ++ opt_list "Depends" (gl i "depends")
  ++ opt_list "Recommends" (gl i "recommends")
  ++ opt_list "Suggests" (gl i "suggests")
  ++ opt_list "Conflicts" (gl i "conflicts")
  ++ opt_list "Breaks" (gl i "deb.breaks")
  ++ opt_field "Homepage" (gs i "homepage")
  ++ field "Description" (multiline (gs i "description"))
  ++ custom_fields (gf i "deb.fields")).

(* ---- ipk control ---- *)
Definition ipk_disallowed : list string :=
  ["abiversion"; "alternatives"; "architecture"; "auto-installed"; "conffiles"; "conflicts"; "depends"; "description";
   "essential"; "filename"; "homepage"; "installed-size"; "installed-time"; "license"; "maintainer"; "md5sum";
   "package"; "pre-depends"; "priority"; "provides"; "recommends"; "replaces"; "section"; "sha256sum"; "size";
   "status"; "suggests"; "tags"; "vendor"; "version"].

Definition lower_byte (b : byte) : byte :=
  let n := Byte.to_N b in
  if (65 <=? n)%N && (n <=? 90)%N then match Byte.of_N (n + 32) with Some c => c | None => b end else b.
Definition lower (s : str) : str := map lower_byte s.

Definition ipk_fields (l : list (str * str)) : list (str * str) :=
  filter (fun '(k, _) => negb (existsb (fun d => seqb (lower k) (B d)) ipk_disallowed)) l.

Definition ipk_control (archtab : list (str * str)) (i : minfo) (installed_kib : Z) : str :=
  let arch := translate_arch archtab (gs i "ipk.arch") (gs i "arch") in
  (
  field "Architecture" arch
  ++ field "Description" (multiline (gs i "description"))
  ++ field "Maintainer" (ipk_maintainer i)
  ++ field "Package" (gs i "name")
  ++ field "Priority" (dflt (gs i "priority") (B "optional"))
  ++ field "Version" (deb_version i)
  ++ opt_field "ABIVersion" (gs i "ipk.abi_version")
  ++ (match gl i "ipk.alternatives" with [] => [] | l => field "Alternatives" (join_with (B ", ") l) end)
  ++ (if Z.eqb (gn i "ipk.auto_installed") 1 then field "Auto-Installed" (B "yes") else [])
  ++ opt_list "Conflicts" (gl i "conflicts")
  ++ opt_list "Depends" (gl i "depends")
  ++ (if Z.eqb (gn i "ipk.essential") 1 then field "Essential" (B "yes") else [])
  ++ opt_field "Homepage" (gs i "homepage")
  ++ opt_field "License" (gs i "license")
  ++ (if Z.eqb installed_kib 0 then [] else field "Installed-Size" (dec installed_kib))
  ++ opt_list "Pre-Depends" (gl i "ipk.predepends")
  ++ opt_list "Provides" (non_empty_items (gl i "provides"))
  ++ opt_list "Recommends" (gl i "recommends")
  ++ opt_list "Replaces" (gl i "replaces")
  ++ opt_field "Section" (gs i "section")
  ++ opt_list "Suggests" (gl i "suggests")
  ++ opt_list "Tags" (gl i "ipk.tags")
  ++ opt_field "Vendor" (gs i "vendor")
  ++ custom_fields (ipk_fields (gf i "ipk.fields"))).

(* ---- apk .PKGINFO ---- *)
Definition kv (k : string) (v : str) : str := B k ++ B " = " ++ v ++ [x0a].

Fixpoint replace_nl (s : str) (by_ : str) : str :=
  match s with
  | [] => []
  | b :: s' => (if beq b x0a then by_ else [b]) ++ replace_nl s' by_
  end.
Definition is_sp_nl (b : byte) : bool := match b with x20 | x0a => true | _ => false end.
Definition apk_multiline (s : str) : str := trim_both is_sp_nl (replace_nl s (x0a :: B "  ")).

Definition apk_pkginfo (archtab : list (str * str)) (i : minfo) (size : Z) (datahash : str) : str :=
  let arch := translate_arch archtab (gs i "apk.arch") (gs i "arch") in
  kv "pkgname" (gs i "name")
  ++ kv "pkgver" (apk_version i)
  ++ kv "arch" arch
  ++ kv "size" (dec size)
  ++ kv "pkgdesc" (apk_multiline (gs i "description"))
  ++ (if nonempty (gs i "homepage") then kv "url" (gs i "homepage") else [])
  ++ (if nonempty (gs i "maintainer") then kv "maintainer" (gs i "maintainer") else [])
  ++ flat_map (kv "replaces") (gl i "replaces")
  ++ flat_map (kv "provides") (gl i "provides")
  ++ flat_map (kv "depend") (gl i "depends")
  ++ (if nonempty (gs i "license") then kv "license" (gs i "license") else [])
  ++ kv "datahash" datahash.

(* ---- archlinux .PKGINFO ---- *)
Definition okv (k : string) (v : str) : str := if nonempty v then kv k v else [].

Definition arch_pkginfo (archtab : list (str * str)) (i : minfo) (size : Z) (builddate : Z) (backups : list str) : str :=
  let arch := translate_arch archtab (gs i "archlinux.arch") (gs i "arch") in
  B "# Generated by nfpm" ++ [x0a]
  (* writeKVPairs: keys in sorted order, empty values skipped *)
  ++ okv "arch" arch
  ++ okv "builddate" (dec builddate)
  ++ okv "license" (gs i "license")
  ++ okv "packager" (dflt (gs i "archlinux.packager") (B "Unknown Packager"))
  ++ okv "pkgbase" (dflt (gs i "archlinux.pkgbase") (gs i "name"))
  ++ okv "pkgdesc" (replace_nl (gs i "description") (B " "))
  ++ okv "pkgname" (gs i "name")
  ++ okv "pkgver" (arch_version i)
  ++ okv "size" (dec size)
  ++ okv "url" (gs i "homepage")
  ++ flat_map (okv "replaces") (gl i "replaces")
  ++ flat_map (okv "conflict") (gl i "conflicts")
  ++ flat_map (okv "provides") (gl i "provides")
  ++ flat_map (okv "depend") (gl i "depends")
  ++ flat_map (okv "backup") backups.

(* ---- rpm ---- *)
Definition rel_sep (b : byte) : bool :=
  match b with "="%byte | "<"%byte | ">"%byte | x09 | x0a | x0c | x0d | x20 => true | _ => false end.
Definition rel_ws (b : byte) : bool := match b with x09 | x0a | x0c | x0d | x20 => true | _ => false end.
Definition rel_op (b : byte) : bool := match b with "="%byte | "<"%byte | ">"%byte => true | _ => false end.

Fixpoint take_while (f : byte -> bool) (s : str) : str :=
  match s with b :: s' => if f b then b :: take_while f s' else [] | [] => [] end.
Definition until_nl (s : str) : str := take_while (fun b => negb (beq b x0a)) s.

(* rpmpack.NewRelation: (name, sense flags, version), or None for an unknown operator *)
Definition rpm_relation (s : str) : option (str * Z * str) :=
  if has_prefix (B "(") s && has_suffix (B ")") s then Some (s, 0%Z, [])
  else
    let name := take_while (fun b => negb (rel_sep b)) s in
    let r1 := drop_while rel_ws (skipn (List.length name) s) in
    let op := take_while rel_op r1 in
    let r2 := drop_while rel_ws (skipn (List.length op) r1) in
    let version := until_nl r2 in
    let sense :=
      if seqb op [] then Some 0%Z else if seqb op (B "<") then Some 2%Z else if seqb op (B ">") then Some 4%Z
      else if seqb op (B "=") then Some 8%Z else if seqb op (B "<=") then Some 10%Z
      else if seqb op (B ">=") then Some 12%Z else None in
    match sense with Some f => Some (name, f, version) | None => None end.

Definition rel_eqb (a b : str * Z * str) : bool :=
  let '(n1, f1, v1) := a in let '(n2, f2, v2) := b in seqb n1 n2 && Z.eqb f1 f2 && seqb v1 v2.

(* toRelation: parse every item, keep the first of equal relations; None if any item fails *)
Fixpoint rpm_relations (acc : list (str * Z * str)) (l : list str) : option (list (str * Z * str)) :=
  match l with
  | [] => Some (rev acc)
  | s :: l' =>
      match rpm_relation s with
      | None => None
      | Some r => rpm_relations (if existsb (rel_eqb r) acc then acc else r :: acc) l'
      end
  end.

(* rpmpack.NewRPM: a package provides itself (name = version-release), appended unless already listed *)
Definition rpm_provides (i : minfo) : option (list (str * Z * str)) :=
  match rpm_relations [] (gl i "provides") with
  | None => None
  | Some rs =>
      let self := (gs i "name", 8%Z, rpm_version i ++ B "-" ++ dflt (gs i "release") (B "1")) in
      Some (if existsb (rel_eqb self) rs then rs else rs ++ [self])
  end.

Definition first_line (s : str) : str := take_while (fun b => negb (beq b x0a)) s.

(* the tags of the rpm header that carry configuration, as (tag name, value) in a fixed order; relations
   as "name|flags|version" *)
Definition show_rel (r : str * Z * str) : str := let '(n, f, v) := r in n ++ B "|" ++ dec f ++ B "|" ++ v.

Definition rpm_meta (archtab : list (str * str)) (i : minfo) : option (list (str * str)) :=
  let arch := translate_arch archtab (gs i "rpm.arch") (gs i "arch") in
  let rels (tag : string) (l : list str) : option (list (str * str)) :=
    match rpm_relations [] l with Some rs => Some (map (fun r => (B tag, show_rel r)) rs) | None => None end in
  let epoch_ok := if nonempty (gs i "epoch") then match parse_uint 4294967296 (gs i "epoch") with Some _ => true | None => false end else true in
  match (match rpm_provides i with Some rs => Some (map (fun r => (B "Provides", show_rel r)) rs) | None => None end), rels "Requires" (gl i "depends"), rels "Recommends" (gl i "recommends"),
        rels "Obsoletes" (gl i "replaces"), rels "Suggests" (gl i "suggests"), rels "Conflicts" (gl i "conflicts") with
  | Some pr, Some rq, Some rc, Some ob, Some sg, Some cf =>
      if negb epoch_ok then None else
      Some (
        [(B "Name", gs i "name"); (B "Version", rpm_version i); (B "Release", dflt (gs i "release") (B "1"))]
        ++ (if nonempty (gs i "epoch") then
              match parse_uint 4294967296 (gs i "epoch") with
              | Some e => if Z.eqb e 4294967295 then [] else [(B "Epoch", dec e)]
              | None => [] end
            else [])
        ++ [(B "Summary", dflt (gs i "rpm.summary") (first_line (gs i "description")));
            (B "Description", gs i "description"); (B "BuildHost", gs i "rpm.buildhost")]
        ++ (if nonempty (gs i "vendor") then [(B "Vendor", gs i "vendor")] else [])
        ++ [(B "License", gs i "license")]
        ++ (let p := dflt (gs i "rpm.packager") (gs i "maintainer") in if nonempty p then [(B "Packager", p)] else [])
        ++ (if nonempty (gs i "rpm.group") then [(B "Group", gs i "rpm.group")] else [])
        ++ (if nonempty (gs i "homepage") then [(B "URL", gs i "homepage")] else [])
        ++ [(B "OS", gs i "platform"); (B "Arch", arch)]
        ++ map (fun p => (B "Prefixes", p)) (gl i "rpm.prefixes")
        ++ pr ++ rq ++ cf ++ ob ++ rc ++ sg)
  | _, _, _, _, _, _ => None
  end.

(* ---- ConventionalFileName of the five packagers ---- *)
Definition valid_pkg_char' (b : byte) : bool :=
  let n := Byte.to_N b in
  ((48 <=? n)%N && (n <=? 57)%N) || ((65 <=? n)%N && (n <=? 90)%N) || ((97 <=? n)%N && (n <=? 122)%N)
  || beq b "."%byte || beq b "_"%byte || beq b "+"%byte || beq b "-"%byte.

Definition deb_name_version (i : minfo) : str :=
  gs i "version"
  ++ (if nonempty (gs i "prerelease") then B "~" ++ gs i "prerelease" else [])
  ++ (if nonempty (gs i "version_metadata") then B "+" ++ gs i "version_metadata" else [])
  ++ (if nonempty (gs i "release") then B "-" ++ gs i "release" else []).

Definition model_filename (f : fmt) (archtab : list (str * str)) (i : minfo) : str :=
  match f with
  | FDeb => gs i "name" ++ B "_" ++ deb_name_version i ++ B "_" ++ translate_arch archtab (gs i "deb.arch") (gs i "arch") ++ B ".deb"
  | FIpk => gs i "name" ++ B "_" ++ deb_name_version i ++ B "_" ++ translate_arch archtab (gs i "ipk.arch") (gs i "arch") ++ B ".ipk"
  | FRpm => gs i "name" ++ B "-" ++ rpm_version i ++ B "-" ++ dflt (gs i "release") (B "1") ++ B "."
            ++ translate_arch archtab (gs i "rpm.arch") (gs i "arch") ++ B ".rpm"
  | FApk => gs i "name" ++ B "_" ++ apk_version i ++ B "_" ++ translate_arch archtab (gs i "apk.arch") (gs i "arch") ++ B ".apk"
  | FArch =>
      let raw := gs i "name" ++ B "-" ++ gs i "version" ++ replace_byte "-"%byte "_"%byte (gs i "prerelease")
                 ++ B "-" ++ dec (arch_pkgrel i) ++ B "-" ++ translate_arch archtab (gs i "archlinux.arch") (gs i "arch") ++ B ".pkg.tar.zst" in
      drop_while (fun b => beq b "-"%byte || beq b "."%byte) (filter valid_pkg_char' raw)
  end.
