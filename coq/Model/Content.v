(* Content entries, the file-system oracle, and constants of files/files.go *)
From Coq Require Import List NArith ZArith Bool String.
From Coq Require Import Strings.Byte.
From NfpmV Require Import Lib.Bytes Model.Path.
Import ListNotations.

Definition B (s : string) : str := list_byte_of_string s.

(* type strings: the files.Type constants *)
Definition TFile := B "file".
Definition TDir := B "dir".
Definition TImplicitDir := B "implicit dir".
Definition TTree := B "tree".
Definition TSymlink := B "symlink".
Definition TConfig := B "config".
Definition TConfigNoReplace := B "config|noreplace".
Definition TConfigMissingOK := B "config|missingok".
Definition TGhost := B "ghost".
Definition TDoc := B "doc".
Definition TLicence := B "licence".
Definition TLicense := B "license".
Definition TReadme := B "readme".
Definition TDebChangelog := B "debian changelog".
Definition TNone : str := [].

Definition P_rpm := B "rpm".
Definition P_deb := B "deb".
Definition P_apk := B "apk".
Definition P_ipk := B "ipk".
Definition P_arch := B "archlinux".
Definition s_root := B "root".

(* Go's zero time.Time as Unix seconds *)
Definition tzero : Z := (-62135596800)%Z.
Definition is_tzero (t : Z) : bool := Z.eqb t tzero.

Record finfo := { fi_owner : str; fi_group : str; fi_mode : N; fi_mtime : Z; fi_size : Z }.
Definition fi_empty : finfo :=
  {| fi_owner := []; fi_group := []; fi_mode := 0%N; fi_mtime := tzero; fi_size := 0%Z |}.

Record content := { c_src : str; c_dst : str; c_typ : str; c_pkgr : str; c_fi : option finfo }.

Definition the_fi (c : content) : finfo := match c_fi c with Some f => f | None => fi_empty end.

Definition typ_in (t : str) (l : list str) : bool := existsb (seqb t) l.
Definition is_dir_typ (t : str) : bool := typ_in t [TDir; TImplicitDir].
Definition is_config_typ (t : str) : bool := typ_in t [TConfig; TConfigNoReplace; TConfigMissingOK].
Definition is_rpm_only_typ (t : str) : bool := typ_in t [TDoc; TLicence; TLicense; TReadme; TGhost].

(* what os.Stat reports *)
Record stat := { st_mode : N; st_mtime : Z; st_size : Z }.

Inductive err :=
  | ECollision | ENotExist | EGlobNoMatch | EGlobOther | EInvalidType | EWalk | ERel | EFuel.

Inductive result (A : Type) := Ok (a : A) | Err (e : err).
Arguments Ok {A} a.
Arguments Err {A} e.

(* one match returned by fileglob.Glob, with what glob.Glob and addGlobbedFiles ask the OS about it *)
Record gmatch := { gm_src : str; gm_isdir : bool; gm_readlink : option str }.

(* answer for a file-like entry: the error class of glob.Glob's fileglob call, or the effective pattern
   (after the "../" -> absolute rewrite), the matches in any order, and whether the destination prefix is
   the parent of the longest common prefix (pattern does not exist, or contains matchers) *)
Inductive gans :=
  | GErr (e : err)
  | GOk (pattern : str) (ms : list gmatch) (use_lcp : bool).

(* one item visited by filepath.WalkDir, in walk order *)
Inductive witem :=
  | WDir (path : str) (mode : N) (mtime : Z)     (* d.Info(): Mode(), ModTime() *)
  | WLink (path : str) (target : str)            (* os.Readlink(path) *)
  | WFile (path : str) (dtype : N).              (* d.Type() *)

Inductive wans := WErr (e : err) | WOk (items : list witem).

Record eoracle := { eo_glob : gans; eo_walk : wans }.
Definition eo_none : eoracle := {| eo_glob := GErr EGlobOther; eo_walk := WErr EWalk |}.

(* os.Stat by path string, as an association list collected by the harness *)
Definition stats := list (str * stat).
Fixpoint stat_of (t : stats) (p : str) : option stat :=
  match t with
  | [] => None
  | (k, v) :: t' => if seqb k p then Some v else stat_of t' p
  end.
