(* The output stage of each packager as a writer-stack program (C06). MODELLED by hand from deb/deb.go
   (Package: ar.NewWriter(w).WriteGlobalHeader, addArFile per member - everything else is assembled in
   bytes.Buffers first), rpm/rpm.go + rpmpack (RPM.Write: lead, signatures, header, payload), apk/apk.go
   (combineToApk: io.Copy per segment), ipk/ipk.go (one Write of the finished tgz), arch/arch.go (tar over zstd
   over the destination, streaming). How many destination writes zstd issues is not modelled: the flush
   schedule is a parameter the theorems quantify over. *)
From Coq Require Import List Arith Lia Bool.
From Coq Require Import Strings.Byte.
From NfpmV Require Import Lib.Bytes Model.Writers.
Import ListNotations.

Definition ar_magic : str := [x21; x3c; x61; x72; x63; x68; x3e; x0a]%byte.   (* "!<arch>\n" *)

(* deb: header and body of each member, and the padding newline after an odd-sized body. [pad_checked]: whether
   the code notices a failure of the padding write (since the fix: through the byte count ar.Writer returns) *)
Definition deb_member (pad_checked : bool) (m : str * str) : list op :=
  [OWrite 0 (fst m) true; OWrite 0 (snd m) true]
  ++ (if Nat.odd (List.length (snd m)) then [OWrite 0 [x0a]%byte pad_checked] else []).

Definition prog_deb (pad_checked : bool) (members : list (str * str)) : list op :=
  OWrite 0 ar_magic true :: flat_map (deb_member pad_checked) members.

(* the number of destination writes of a deb, from the parities of its member sizes *)
Definition deb_dest_writes (odd : list bool) : nat :=
  1 + fold_right (fun (o : bool) (acc : nat) => (if o then 3 else 2) + acc) 0 odd.

(* rpm, apk, ipk: a fixed sequence of checked writes straight to the destination *)
Definition prog_flat (parts : list str) : list op := map (fun p => OWrite 0 p true) parts.

(* archlinux: entries go to the tar layer (0), which sits on zstd (1), which sits on the destination; then both
   are closed. [closes_checked]: whether the code looks at the errors of the two Close calls *)
Definition prog_arch (closes_checked : bool) (chunks : list str) (tar_trailer : str) : list op :=
  map (fun c => OWrite 0 c true) chunks ++ [OClose 0 tar_trailer closes_checked; OClose 1 [] closes_checked].

Definition first_write_fails (i : nat) : bool := Nat.eqb i 0.
