(* The cpio "newc" archive that carries an rpm's payload, as rpmpack's cpio writer (cavaliergopher/cpio,
   writeSVR4Header) lays it out and as rpm / the harness's decoder read it back (C04).  Header fields the
   layout does not depend on (inode, owner ids, link count, time, device numbers, checksum) are carried as
   raw bytes of the right width. *)
From Coq Require Import List NArith ZArith Bool Arith Lia String.
From Coq Require Import Strings.Byte Strings.Ascii Numbers.HexadecimalString Numbers.HexadecimalN Numbers.HexadecimalPos.
From NfpmV Require Import Lib.Bytes.
Import ListNotations.
Open Scope list_scope.

Definition zero_b : byte := x30.
Definition nul : byte := x00.

(* the writer prints %08X (upper case); readers accept both cases *)
Definition upper_hex (b : byte) : byte :=
  match b with
  | x61 => x41 | x62 => x42 | x63 => x43 | x64 => x44 | x65 => x45 | x66 => x46 | _ => b
  end%byte.
Definition lower_hex (b : byte) : byte :=
  match b with
  | x41 => x61 | x42 => x62 | x43 => x63 | x44 => x64 | x45 => x65 | x46 => x66 | _ => b
  end%byte.

Definition hex_lower (n : nat) : str := list_byte_of_string (NilZero.string_of_uint (N.to_hex_uint (N.of_nat n))).
Definition hex_nat (n : nat) : str := map upper_hex (hex_lower n).
Definition parse_hex (s : str) : option nat :=
  option_map (fun d => N.to_nat (N.of_hex_uint d)) (NilEmpty.uint_of_string (string_of_list_byte (map lower_hex s))).

(* a field: 8 hex digits, zeros on the left *)
Definition hex8 (n : nat) : str := repeat zero_b (8 - List.length (hex_nat n)) ++ hex_nat n.

Definition pad4 (n : nat) : nat := (4 - n mod 4) mod 4.

Record centry := {
  ce_name : str; ce_mode : nat; ce_data : str;
  ce_pre : str;      (* ino: 8 bytes *)
  ce_mid : str;      (* uid gid nlink mtime: 32 bytes *)
  ce_dev : str;      (* devmajor devminor rdevmajor rdevminor: 32 bytes *)
  ce_chk : str       (* check: 8 bytes *)
}.

Definition cpio_magic : str := [x30; x37; x30; x37; x30; x31]%byte.        (* "070701" *)

Definition chead (e : centry) : str :=
  cpio_magic ++ ce_pre e ++ hex8 (ce_mode e) ++ ce_mid e ++ hex8 (List.length (ce_data e)) ++ ce_dev e
  ++ hex8 (S (List.length (ce_name e))) ++ ce_chk e.

Definition enc_centry (e : centry) : str :=
  chead e ++ ce_name e ++ [nul] ++ repeat nul (pad4 (110 + S (List.length (ce_name e))))
  ++ ce_data e ++ repeat nul (pad4 (List.length (ce_data e))).

Definition trailer_name : str := list_byte_of_string "TRAILER!!!".
(* cpio.Writer.Close: &Header{Name: "TRAILER!!!", Links: 1} *)
Definition trailer : centry :=
  {| ce_name := trailer_name; ce_mode := 0; ce_data := []; ce_pre := repeat zero_b 8;
     ce_mid := repeat zero_b 16 ++ repeat zero_b 7 ++ [x31]%byte ++ repeat zero_b 8;
     ce_dev := repeat zero_b 32; ce_chk := repeat zero_b 8 |}.

Definition cpio_encode (es : list centry) : str := List.concat (map enc_centry es) ++ enc_centry trailer.

(* reading back, every field: the entries up to the trailer, and what follows the trailer's header and name *)
Fixpoint cpio_centries (fuel : nat) (s : str) : option (list centry * str) :=
  match fuel with
  | O => None
  | S f =>
      let h := firstn 110 s in
      if negb (seqb (firstn 6 h) cpio_magic) then None
      else
        match parse_hex (firstn 8 (skipn 14 h)), parse_hex (firstn 8 (skipn 54 h)), parse_hex (firstn 8 (skipn 94 h)) with
        | Some mode, Some size, Some (S namelen) =>
            let after := skipn 110 s in
            let name := firstn namelen after in
            let body := skipn (S namelen + pad4 (110 + S namelen)) after in
            if seqb name trailer_name then Some ([], body)
            else
              match cpio_centries f (skipn (size + pad4 size) body) with
              | Some (r, rest) =>
                  Some ({| ce_name := name; ce_mode := mode; ce_data := firstn size body;
                           ce_pre := firstn 8 (skipn 6 h); ce_mid := firstn 32 (skipn 22 h);
                           ce_dev := firstn 32 (skipn 62 h); ce_chk := firstn 8 (skipn 102 h) |} :: r, rest)
              | None => None
              end
        | _, _, _ => None
        end
  end.

(* the three observables the harness's own reader reports *)
Definition cpio_entries (fuel : nat) (s : str) : option (list (str * nat * str)) :=
  option_map (fun p => map (fun e => (ce_name e, ce_mode e, ce_data e)) (fst p)) (cpio_centries fuel s).

Definition wf_fields (e : centry) : Prop :=
  List.length (ce_pre e) = 8 /\ List.length (ce_mid e) = 32 /\ List.length (ce_dev e) = 32 /\ List.length (ce_chk e) = 8 /\
  List.length (hex_nat (ce_mode e)) <= 8 /\ List.length (hex_nat (List.length (ce_data e))) <= 8 /\
  List.length (hex_nat (S (List.length (ce_name e)))) <= 8.

Definition wf_centry (e : centry) : Prop := wf_fields e /\ ce_name e <> trailer_name.

(* every entry takes at least 110 bytes, so this fuel never runs out on a well-formed archive *)
Definition cpio_read (s : str) : option (list (str * nat * str)) := cpio_entries (S (List.length s)) s.

(* what the check runs on the payload of a real rpm: the bytes parse, and writing the parsed entries with
   the model's writer gives the same bytes back - so the real archive is in the image of [cpio_encode] *)
Definition cpio_reencodes (s : str) : bool :=
  match cpio_centries (S (List.length s)) s with
  | Some (es, rest) => seqb (cpio_encode es) s && seqb rest []
  | None => false
  end.
